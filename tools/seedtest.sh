#!/bin/bash
# Runs checks against a mutated copy of /repo without touching /repo or /verif:
#   seedtest.sh <name> <patch.diff|-R:commit> <prop> [<prop> ...]
# A scratch worktree of /repo (HEAD) and a scratch copy of /verif are kept under /tmp/seedtest/<name>.
set -u
name=$1; patch=$2; shift 2
S=/tmp/seedtest/$name
mkdir -p /tmp/seedtest
if [ ! -d $S/repo ]; then
  git -C /repo worktree add -q --detach $S/repo HEAD || exit 2
fi
git -C $S/repo checkout -q --detach $(git -C /repo rev-parse HEAD) 2>/dev/null
git -C $S/repo checkout -q -- . ; git -C $S/repo clean -fdq
mkdir -p $S/verif
SRC=${VERIF_SRC:-}; if [ -z "$SRC" ]; then SRC=/verif; [ -f /tmp/verif_snap/.ready ] && SRC=/tmp/verif_snap; fi
rsync -a --delete --exclude .cache --exclude out --exclude .git --exclude seeded $SRC/ $S/verif/
sed -i "s#path = \"/repo\"#path = \"$S/repo\"#" $S/verif/harness/Cargo.toml
# reuse compiled artefacts where possible
if [ ! -d $S/verif/.cache/harness-target ]; then mkdir -p $S/verif/.cache; cp -a $SRC/.cache/harness-target $S/verif/.cache/ 2>/dev/null; fi
case "$patch" in
  -R:*) git -C /repo show ${patch#-R:} -- src | git -C $S/repo apply -R || { echo "cannot reverse-apply"; exit 2; } ;;
  *) git -C $S/repo apply "$patch" || { echo "cannot apply patch"; exit 2; } ;;
esac
rc=0
for p in "$@"; do
  echo "== $p against $name"
  (cd $S/verif && VERIF_REPO=$S/repo timeout 3000 ./check $p --tier ${TIER:-quick} 2>&1 | grep -E "^(VIOLATION|OK|KNOWN)|\[check\] C" | cut -c1-400)
done
git -C $S/repo checkout -q -- . ; git -C $S/repo clean -fdq
