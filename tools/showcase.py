#!/usr/bin/env python3
# usage: showcase.py <cases.v> <case id> <from step> <to step>
import sys,re
s=open(sys.argv[1]).read()
cid=sys.argv[2]
i=s.index('(%s, (Cfg' % cid)
m=re.search(r'\]\)(;\n\(\d+, \(Cfg|\n\]\.)', s[i:])
case=s[i:i+m.start()+2]
lines=case.split(';\n  ')
print(lines[0][:200])
a=int(sys.argv[3]); b=int(sys.argv[4])
for k in range(a,min(b+1,len(lines))):
    print(k, lines[k][:int(sys.argv[5]) if len(sys.argv)>5 else 900])
