#!/usr/bin/env python3
"""Constructor parity (a translator-style obligation, fails closed).

The virtual handler (src/handler/verif_hooks.rs) and the scripted / bare services (src/service/verif_hooks.rs,
Service::verif_new in src/service.rs) cannot call Handler::spawn / Service::spawn - those bind a UDP socket and spawn
the other half - so they repeat the struct literal that the real constructor builds.  A change of the real
constructor (another timeout for the challenge table, another capacity, ...) would then go unseen by every harness
run.  This tool parses both literals from /repo's CURRENT source and compares them field by field: every field the
real constructor initialises with an expression over `config` (or with a constructor call) must be initialised by
the hook with the same expression; also the sizes of the channels created next to the literal are compared.

Usage: ctor_parity.py --repo /repo [--which handler|service|all]     exit 0 = parity, 1 = difference (printed)
"""
import re, sys, os, argparse


def struct_literal(src, start_pat, name):
    """the `name { ... }` literal following the first match of start_pat; returns dict field -> normalised expr"""
    m = re.search(start_pat, src)
    if not m:
        raise SystemExit("ctor_parity: anchor %r not found" % start_pat)
    i = src.index("{", m.end() - 1)
    depth, j = 0, i
    while True:
        c = src[j]
        if c == "{":
            depth += 1
        elif c == "}":
            depth -= 1
            if depth == 0:
                break
        j += 1
    body = src[i + 1:j]
    # split on top-level commas
    parts, cur, d = [], "", 0
    for c in body:
        if c in "([{":
            d += 1
        elif c in ")]}":
            d -= 1
        if c == "," and d == 0:
            parts.append(cur)
            cur = ""
        else:
            cur += c
    if cur.strip():
        parts.append(cur)
    out = {}
    for p in parts:
        p = re.sub(r"//[^\n]*", "", p).strip()
        if not p:
            continue
        if ":" in p.split("(")[0]:
            f, e = p.split(":", 1)
        else:
            f, e = p, p
        out[f.strip()] = re.sub(r"\s+", "", e)
    return out


def channel_sizes(src, start, end):
    """mpsc::channel(N) / unbounded_channel() calls between two offsets, by the names they bind"""
    out = {}
    for m in re.finditer(r"let\s*\(([^)]*)\)\s*=\s*mpsc::(channel\((\d+)\)|unbounded_channel\(\))", src[start:end]):
        names = re.sub(r"\s+", "", m.group(1))
        out[names] = m.group(3) or "unbounded"
    return out


def compare(label, real, hook, skip):
    diffs = []
    for f, e in real.items():
        if f in skip:
            continue
        if f not in hook:
            diffs.append("%s: field %s is initialised by the real constructor but not by the hook" % (label, f))
        elif hook[f] != e and not (e == f and hook[f].startswith(f)):
            # shorthand `x` in the real constructor vs `x: x.clone()` in the hook is plumbing, not a parameter
            diffs.append("%s: field %s: real constructor has `%s`, hook has `%s`" % (label, f, e, hook[f]))
    for f in hook:
        if f not in real:
            diffs.append("%s: field %s exists only in the hook" % (label, f))
    return diffs


def main():
    ap = argparse.ArgumentParser()
    ap.add_argument("--repo", default="/repo")
    ap.add_argument("--which", default="all")
    a = ap.parse_args()
    diffs = []
    if a.which in ("handler", "all"):
        real_src = open(os.path.join(a.repo, "src/handler/mod.rs")).read()
        hook_src = open(os.path.join(a.repo, "src/handler/verif_hooks.rs")).read()
        real = struct_literal(real_src, r"let\s+mut\s+handler\s*=\s*Handler\s*\{", "Handler")
        hook = struct_literal(hook_src, r"let\s+mut\s+handler\s*=\s*Handler\s*\{", "Handler")
        # plumbing that necessarily differs: the socket, the exemption map handle, the listen sockets container
        diffs += compare("Handler", real, hook, skip={"socket", "filter_expected_responses", "listen_sockets"})
        # the channels between handler and service
        rs = real_src.index("pub async fn spawn")
        re_ = real_src.index("let mut handler = Handler")
        hs = hook_src.index("pub async fn spawn")
        he = hook_src.index("let mut handler = Handler")
        rc = channel_sizes(real_src, rs, re_)
        hc = channel_sizes(hook_src, hs, he)
        for names, size in rc.items():
            # same direction = same pair of element names modulo the hook's renaming (to_handler/from_handler)
            pass
        real_sizes = sorted(rc.values())
        hook_sizes = sorted(v for k, v in hc.items() if "wire" not in k)
        if real_sizes != hook_sizes:
            diffs.append("Handler: channels of the real constructor %s, of the hook %s" % (rc, hc))
        # the packet-filter configuration handed to the receive path, and the receive handler itself
        rf = struct_literal(real_src, r"let\s+filter_config\s*=\s*FilterConfig\s*\{", "FilterConfig")
        hf = struct_literal(hook_src, r"let\s+filter_config\s*=\s*FilterConfig\s*\{", "FilterConfig")
        diffs += compare("FilterConfig", rf, hf, skip=set())
        sc = struct_literal(real_src, r"let\s+socket_config\s*=\s*socket::SocketConfig\s*\{", "SocketConfig")
        m = re.search(r"RecvHandler::verif_new\(([^;]*?)\)\s*\.await", hook_src, re.S)
        args = [re.sub(r"\s+", "", x) for x in m.group(1).split(",") if x.strip()] if m else []
        want = [sc.get("filter_config"), sc.get("ban_duration"), sc.get("local_node_id"), sc.get("protocol_identity")]
        if args[:4] != want:
            diffs.append("RecvHandler::verif_new is called with %s, Handler::spawn configures the socket with %s" % (args[:4], want))
        # the queues between the handler and the socket tasks: SendHandler::spawn / RecvHandler::spawn create them,
        # the virtual handler repeats them (a handler that stopped waiting for room would lose packets only when
        # the queue is as short as the real one)
        send_src = open(os.path.join(a.repo, "src/socket/send.rs")).read()
        recv_src0 = open(os.path.join(a.repo, "src/socket/recv.rs")).read()
        def cap(src, start_pat, end_pat, what):
            m = re.search(start_pat, src)
            if not m:
                raise SystemExit("ctor_parity: anchor %r not found" % start_pat)
            seg = src[m.end():]
            e = re.search(end_pat, seg)
            seg = seg[:e.start()] if e else seg
            c = re.findall(r"mpsc::channel\((\d+)\)", seg)
            if len(c) != 1:
                raise SystemExit("ctor_parity: expected one bounded channel in %s, found %s" % (what, c))
            return c[0]
        real_send = cap(send_src, r"fn\s+spawn\s*\(", r"let\s+mut\s+send_handler\s*=", "SendHandler::spawn")
        real_recv = cap(recv_src0, r"fn\s+spawn\s*\(", r"let\s+mut\s+recv_handler\s*=", "RecvHandler::spawn")
        hook_recv = cap(recv_src0, r"async\s+fn\s+verif_new\s*\(", r"RecvHandler\s*\{", "RecvHandler::verif_new")
        m_out = re.search(r"let\s*\(wire_out_tx,\s*wire_out\)\s*=\s*mpsc::channel\((\d+)\)", hook_src)
        m_in = re.search(r"let\s*\(wire_in,\s*socket_recv\)\s*=\s*mpsc::channel\((\d+)\)", hook_src)
        if not m_out or not m_in:
            raise SystemExit("ctor_parity: the virtual handler's wire channels were not found")
        if m_out.group(1) != real_send:
            diffs.append("Handler: the queue to the send task holds %s packets (SendHandler::spawn), the virtual wire %s" % (real_send, m_out.group(1)))
        if m_in.group(1) != real_recv or hook_recv != real_recv:
            diffs.append("Handler: the queue from the receive task holds %s packets (RecvHandler::spawn), the hook's %s / %s" % (real_recv, hook_recv, m_in.group(1)))
        recv_src = open(os.path.join(a.repo, "src/socket/recv.rs")).read()
        rr = struct_literal(recv_src, r"let\s+mut\s+recv_handler\s*=\s*RecvHandler\s*\{", "RecvHandler")
        i = recv_src.index("async fn verif_new")
        hr = struct_literal(recv_src[i:], r"RecvHandler\s*\{", "RecvHandler")
        diffs += compare("RecvHandler", rr, hr, skip={"recv", "second_recv", "handler", "exit"})
    if a.which in ("service", "all"):
        real_src = open(os.path.join(a.repo, "src/service.rs")).read()
        hook_src = open(os.path.join(a.repo, "src/service/verif_hooks.rs")).read()
        real = struct_literal(real_src, r"let\s+mut\s+service\s*=\s*Service\s*\{", "Service")
        hook = struct_literal(hook_src, r"let\s+mut\s+service\s*=\s*Service\s*\{", "Service")
        diffs += compare("Service (scripted_service)", real, hook, skip=set())
        bare = struct_literal(real_src, r"let\s+service\s*=\s*Service\s*\{", "Service")
        # Service::verif_new runs no loop and has no handler: handler_exit differs by construction
        # (no event-stream request can reach it either: it is handed the stream at construction; `config` is moved)
        diffs += compare("Service (verif_new)", real, bare, skip={"handler_exit", "event_stream", "config"})
        # ip_votes / connectivity_state are built before the literal in all three: compare the expressions
        def pre(src, anchor):
            i = src.index(anchor)
            seg = src[max(0, i - 2500):i]
            out = {}
            m = re.search(r"let\s+ip_votes\s*=\s*(.*?);\n", seg, re.S)
            out["ip_votes"] = re.sub(r"\s+", "", m.group(1)) if m else None
            m = re.search(r"let\s+connectivity_state\s*=\s*(.*?);\n", seg, re.S)
            out["connectivity_state"] = re.sub(r"\s+", "", m.group(1)) if m else None
            return out
        pr = pre(real_src, "let mut service = Service")
        ph = pre(hook_src, "let mut service = Service")
        pb = pre(real_src, "let service = Service")
        for k in pr:
            if pr[k] != ph[k]:
                diffs.append("Service (scripted_service): %s is built as `%s`, by the real constructor as `%s`" % (k, ph[k], pr[k]))
            if pr[k] != pb[k]:
                diffs.append("Service (verif_new): %s is built as `%s`, by the real constructor as `%s`" % (k, pb[k], pr[k]))
    if diffs:
        print("constructor parity broken:")
        for d in diffs:
            print("  " + d)
        return 1
    print("constructor parity ok (%s)" % a.which)
    return 0


if __name__ == "__main__":
    sys.exit(main())
