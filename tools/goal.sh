#!/bin/bash
# usage: goal.sh <file.v> <line>  -- shows the proof state after line <line> (run from /verif/coq)
f=$1; n=$2
tmp=$(dirname $f)/_goal_tmp_$$.v
head -n $n $f > $tmp
echo "Show. Abort All." >> $tmp
timeout 120 coqc -noglob -Q . Discv5V -w -all $tmp 2>&1 | tail -${3:-40}
rm -f $tmp ${tmp}o ${tmp}os ${tmp}ok $(dirname $f)/._goal_tmp_$$.aux $(dirname $f)/_goal_tmp_$$.glob
