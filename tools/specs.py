"""Per-property specification of the checks (used by /verif/check)."""

KB_FILES = ["Generated/Params.v", "Lib/ListX.v", "Lib/NBits.v", "Lib/SortedX.v", "Model/KBucket.v", "Run/KBucketRun.v"]
KB_TB = [
    "modelled, not verified: std::time::Instant (time is an explicit argument of every model operation; the harness uses pending timeouts of 0 s / 1 h and the hook verif_force_pending_ready), arrayvec, the Filter trait objects (arbitrary functions in the model), Enr equality (interned ids)",
]


HND_FILES = ["Model/Handler.v", "Run/HandlerRun.v"]
HND_TB = [
    "modelled, not verified: cryptography is symbolic (Dolev-Yao terms for ECDH/HKDF keys, AES-GCM ciphertexts, ECDSA id-signatures; the harness maps real datagrams to terms with the crate's own primitives and tests that the real primitives behave like the terms on every generated case); tokio timers are deadlines fired on a 5 ms grid of a paused clock; the order in which timers with one and the same deadline fire is an oracle choice (insertion order or its reverse, the two behaviours of tokio-util's timer wheel); randomness is an oracle input observed on the wire; session expiry by age is not part of the handler model (Model/Lru.v); the UDP socket tasks are replaced by channels (real RecvHandler::handle_inbound and Packet::encode/decode are used)",
]
def _hnd(focus, quick=64, thorough=1500):
    return {
        "coq_files": HND_FILES,
        "runner_vo": "Run/HandlerRun.v",
        "harness": [{"component": "hnd", "args": ["--focus", focus, "--fixes", "all"], "quick": quick, "thorough": thorough}],
        "trusted_base": HND_TB,
        "assumptions": ["request ids chosen by the application are distinct per run", "oracle freshness where a theorem states it"],
        "explanation": "theorems about Model/Handler.v + step-by-step correspondence of the real Handler (virtual wire, paused clock) with the model on generated event histories + direct monitors written from the property text",
    }

QUERY_TB = [
    "modelled, not verified: std::time::Instant / Duration (N nanoseconds; Instant - Instant saturates), BTreeMap<Distance, _> (a list sorted strictly by distance), FnvHashMap (association list + iteration-order oracle), Key<NodeId> (the 256-bit id itself), the predicate closure (its value on each reported record is an input), usize = 64 bit",
    "the hooks src/verif/query.rs (thin delegating wrappers around the crate-private state machines) and the verif_dump / verif_started / verif_next_id / verif_set_next_id copies of private fields",
]

SPECS = {
    "C07": {
        "coq_files": KB_FILES + ["Lib/ListY.v", "Proofs/KBucketInv.v", "Proofs/KBucketTable.v", "Proofs/KBucketPending.v"] + ["Proofs/KBucketExamples.v"],
        "runner_vo": "Run/KBucketRun.v",
        "harness": [
            {"component": "kb", "args": ["--focus", "c07"], "quick": 96, "thorough": 1600},
            # structural invariants also under the IP filters; correspondence of that run belongs to C16
            {"component": "kb", "args": ["--focus", "c16"], "quick": 48, "thorough": 400, "correspondence": False},
        ],
        "trusted_base": KB_TB,
        "assumptions": ["time is an explicit argument of the model; the ordering conjunct assumes a monotone clock"],
        "explanation": "inductive invariant of Model/KBucket.v over all operation lists + correspondence + direct structural monitor",
    },
    "C16": {
        "coq_files": KB_FILES + ["Lib/ListY.v", "Proofs/KBucketInv.v", "Proofs/KBucketTable.v", "Proofs/KBucketPending.v"] + ["Proofs/KBucketEntries.v", "Proofs/Subnet.v", "Proofs/SubnetExamples.v"],
        "runner_vo": "Run/KBucketRun.v",
        "harness": [
            {"component": "kb", "args": ["--focus", "c16"], "quick": 96, "thorough": 1600},
        ],
        "trusted_base": KB_TB,
        "assumptions": ["the raw Entry API (AbsentEntry::insert, value_mut) bypasses the filters by its documentation and is excluded",
                        "values are interned records: every value is offered for one key only (owner (vid v) = k, a record's node id is its key) and its /24 is a function of the record (vsub v = subof (vid v)); both are shown necessary for the model in Proofs/SubnetExamples.v"],
        "explanation": "subnet-count invariant of Model/KBucket.v with the IP filters over all operation lists + correspondence + direct recount monitor",
    },
    "C08": {
        "coq_files": KB_FILES + ["Proofs/ClosestOrder.v"] + ["Lib/ListY.v", "Proofs/KBucketInv.v", "Proofs/KBucketTable.v", "Proofs/KBucketPending.v"] + ["Proofs/ClosestTable.v"],
        "runner_vo": "Run/KBucketRun.v",
        "harness": [
            {"component": "kb", "args": ["--focus", "c08"], "quick": 96, "thorough": 1600},
        ],
        "trusted_base": KB_TB,
        "assumptions": [
            "ids are 256-bit (theorems assume d < 2^NUM_BUCKETS, NUM_BUCKETS regenerated from src/kbucket.rs)",
            "the model's fuel for the bucket iterator (2*NB+2) is a model artefact; the closed-form theorem shows the run ends by itself",
        ],
        "explanation": "theorems about Model/KBucket.v (bucket order closed form, permutation, order) + correspondence of closest_keys/closest_values/closest_values_predicate/nodes_by_distances with the model on generated tables + direct monitor (sorted full scan)",
    },
    "C20": {
        "coq_files": ["Model/Talk.v", "Proofs/Talk.v", "Run/TalkRun.v"],
        "runner_vo": "Run/TalkRun.v",
        "harness": [
            {"component": "talk", "args": [], "quick": 1400, "thorough": 20000},
        ],
        "trusted_base": [
            "Rust's ownership rules (respond consumes the request object, Drop::drop runs exactly once per value): the model's linear use of request objects rests on them",
            "tokio's unbounded mpsc channel (send fails exactly when the receiver is gone; linearizable under concurrent senders) - modelled, observed by the correspondence run, not verified",
            "between the service and the wire the handler turns each HandlerIn::Response into one TALKRESP packet (handler properties, not C20)",
        ],
        "assumptions": [
            "shutdown is modelled as the handler's receiving end of the service-to-handler channel being dropped; 'delivered to the application' means the Event::TalkRequest was accepted by the bounded event channel",
        ],
        "explanation": "invariant over all interleavings of deliver/respond/drop/hold/shutdown in Model/Talk.v (at most one response, exactly one with the right id/address/payload while running, error value and no panic after shutdown) + correspondence on real TalkRequest objects created by the hook constructor and by the real Service::handle_rpc_request + direct exactly-once monitor incl. multi-threaded answers",
    },
    "C15": {
        "coq_files": ["Model/Lru.v", "Proofs/Lru.v", "Run/LruRun.v"],
        "runner_vo": "Run/LruRun.v",
        "harness": [
            {"component": "lru", "args": [], "quick": 64, "thorough": 640},
        ],
        "trusted_base": [
            "modelled, not verified: std::time::Instant (time is an explicit argument of every model operation; the harness runs the real cache in real time with ttl 100 ms on a 40 ms grid, brackets every call with measured instants and reads the stored instants back through the hook LruTimeCache::verif_dump), hashlink::LinkedHashMap (modelled as a list in link order: insert/to_back move an entry to the back, pop_front removes the front)",
            "the handler-level half of C15 (Handler::sessions is only read through get_mut/get, so an expired session takes the no-session path) belongs to the handler model; this check covers the cache LruTimeCache",
        ],
        "assumptions": [
            "evicts_lru / refinement assume a clock that never goes back (Instant is monotonic); len_bounded and get_never_stale hold for every clock",
            "the runner compares the implementation with the repaired model (get_mut treats an entry older than ttl as absent)",
        ],
        "explanation": "theorems about Model/Lru.v (len_bounded, get_never_stale + history form, evicts_lru, refinement to a ttl-restricted map with LRU eviction; get_never_stale_refuted for the pinned get_mut) + correspondence of LruTimeCache<u64,u64> with the model step by step (result and full dump incl. stored instants) + direct monitor (ledger of last uses: no value returned after an idle time > ttl, len <= capacity, LRU victim)",
    },
    "C05": {
        "coq_files": ["Generated/Params.v", "Lib/Bytes.v", "Model/Packet.v", "Proofs/Packet.v", "Run/PacketRun.v"],
        "runner_vo": "Run/PacketRun.v",
        "harness": [
            {"component": "pkt", "args": [], "quick": 240, "thorough": 4000},
        ],
        "trusted_base": [
            "modelled, not verified: AES-128-CTR (aes/ctr crates) - an abstract keystream in the theorems, the real keystream bytes are computed by the harness and handed to the model; the enr crate's record codec (Enr::decode / alloy_rlp::encode) - opaque in the model, the real decoder's verdict on the record bytes of every generated handshake is handed to the model; NodeId ([u8; 32]), u128/u64/u16 big-endian conversions of std",
            "the ProtocolIdentity argument of Packet::decode is fixed to ProtocolIdentity::default() (its two literals are regenerated into Generated/Params.v)",
        ],
        "assumptions": [
            "round trip: enr_decode (enr_encode e) = Some e and enr_encode e <> [] for the record codec (premises of C05_decode_encode); fields within the Rust types' ranges (packet_wf); 63 <= |datagram| <= 1280",
            "a datagram masked for another id: accepted only on an 8-byte keystream collision (abstract stream cipher); ids sharing their first 16 bytes share the masking key by the discv5.1 specification",
            "not claimed (known looseness): Enr::decode in the handshake branch ignores bytes after the record inside the auth-data, so encode(decode(bs)) can differ from bs; the model reproduces it",
        ],
        "explanation": "theorems about Model/Packet.v (round trip incl. authenticated data for every keystream, layout, decode never panics, one lemma per rejection rule with the exact error, accepted => every rule passed, aad = received bytes, injectivity of datagram -> (aad, body), wrong id needs a keystream collision) + correspondence of Packet::encode / Packet::authenticated_data / Packet::decode with the model on generated packets and on datagrams malformed in the unmasked domain + direct monitor (round trip, layout, no panic, every strictness rule, other id rejected)",
    },
    "C01": _hnd("c01"),
    "C02": _hnd("c02"),
    "C03": _hnd("c03"),
    "C04": _hnd("c04"),
    "C13": _hnd("c13"),
    "C19": _hnd("c19"),
    "C17": {
        "coq_files": ["Generated/Params.v", "Model/IpVote.v", "Proofs/IpVote.v", "Run/IpVoteRun.v"],
        "runner_vo": "Run/IpVoteRun.v",
        "harness": [
            {"component": "vote", "args": ["--part", "thr"], "quick": 1, "thorough": 1},
            {"component": "vote", "args": ["--part", "ipvote"], "quick": 300, "thorough": 3000},
            {"component": "vote", "args": ["--part", "service"], "quick": 200, "thorough": 2000},
        ],
        "trusted_base": [
            "IEEE-754 binary64 semantics of rustc/LLVM and the CPU for the literal 0.3, the subtraction, the multiplication, f64::round and the cast (modelled exactly with integers in Model/IpVote.v and compared for every leading count up to 10^5 / 2*10^6)",
            "the enr crate: set_udp_socket bumps the sequence number by one and re-signs (observed by the monitor: seq, verify()), std::time::Instant (real clock, bracketed), std HashMap iteration (any order: theorem scan_correct), tokio mpsc for the event stream",
            "the connectivity state (should_count_ip_vote) and the routing-table status of the voter are inputs of the model (arbitrary booleans); the harness exercises should_count_ip_vote = true only and reads the voter's status back from the real table",
        ],
        "assumptions": [
            "leading counts below 2^49 for the reading of the f64 threshold as 0.7*max rounded (the winner characterisation itself is stated with the exact threshold function and has no bound)",
            "'announced as an event' = accepted by the bounded event channel (try_send); the harness drains it after every PONG",
            "a PONG from a voter that is not eligible at that moment (not connected+outgoing and no more votes needed) is ignored entirely: it does not retract the voter's earlier counted vote",
        ],
        "explanation": "theorems over Model/IpVote.v (exact f64 threshold and its 70 % reading, order-independent scan, winner characterisation, one vote per node, change => winner + seq bump + event, fewer than minimum voters never move the record) + correspondence of IpVote (real clock, bracketed), of the f64 threshold (exhaustive table) and of the real Service PONG handling + direct monitors",
    },
    "C09": {
        "coq_files": ["Lib/SortedX.v", "Model/Query.v", "Proofs/Query.v", "Proofs/QueryPool.v", "Run/QueryRun.v"],
        "runner_vo": "Run/QueryRun.v",
        "harness": [
            {"component": "query", "args": [], "quick": 96, "thorough": 1600},
        ],
        "trusted_base": QUERY_TB,
        "assumptions": [
            "'in flight' is the query's own notion (peers in state Waiting); a peer demoted to Unresponsive by the per-peer timeout may still have a transport request outstanding (libp2p design)",
            "the iteration order of the pool's FnvHashMap is an oracle input of the model's poll (observed by the harness through QueryPool::iter); the theorems hold for every order",
            "termination of a query in the pool needs the caller to keep polling after the deadline (Service::query_event_poll returns Pending without registering a waker; it is re-polled whenever another branch of the service loop wakes) and finitely many reported ids; the id counter wraps at 2^64 (a live query would be overwritten only after 2^64 adds)",
            "a query with parallelism 0 never starts a request and can only be ended by the pool's query timeout",
        ],
        "explanation": "theorems over Model/Query.v for every configuration, candidate list and event list (no panic, num_waiting = #Waiting, capacity, in-flight bound, no peer contacted twice, budget of NotContacted peers, poll after the deadline makes progress, pool drains, result handed out at most once per add) + step-by-step correspondence of the real FindNodeQuery / PredicateQuery (fabricated Instants) and of the real QueryPool (real time, exact clock value recovered from the state) with the model + direct monitors",
    },
    "C10": {
        "coq_files": ["Lib/SortedX.v", "Model/Query.v", "Proofs/Query.v", "Proofs/QueryPool.v", "Run/QueryRun.v"],
        "runner_vo": "Run/QueryRun.v",
        "harness": [
            {"component": "query", "args": [], "quick": 96, "thorough": 1600},
        ],
        "trusted_base": QUERY_TB,
        "assumptions": [
            "'answered' = an on_success call for the peer was made after next handed it out (the service calls on_success from discovered() for responses to the query's request)",
            "'every candidate it learned of' = every peer the query holds: the first num_results initial candidates (with_config applies .take(num_results) to the list it is given; the others are dropped, see C10_seed_truncation_observation) and every id reported in an accepted on_success",
        ],
        "explanation": "theorems over Model/Query.v (result is a subset of the peers that answered after being contacted, at most num_results, strictly sorted by XOR distance, distinct, predicate flag from the candidates / reports, completeness when short, the pool hands out reachable query states) + the same correspondence run as C09 + direct monitors on the result",
    },
}
