"""Per-property specification of the checks (used by /verif/check)."""

KB_FILES = ["Generated/Params.v", "Lib/ListX.v", "Lib/NBits.v", "Lib/SortedX.v", "Model/KBucket.v", "Run/KBucketRun.v"]
KB_TB = [
    "modelled, not verified: std::time::Instant (time is an explicit argument of every model operation; the harness uses pending timeouts of 0 s / 1 h and the hook verif_force_pending_ready), arrayvec, the Filter trait objects (arbitrary functions in the model), Enr equality (interned ids)",
]

SPECS = {
    "C07": {
        "coq_files": KB_FILES,
        "runner_vo": "Run/KBucketRun.v",
        "harness": [
            {"component": "kb", "args": ["--focus", "c07"], "quick": 96, "thorough": 1600},
            # structural invariants also under the IP filters; correspondence of that run belongs to C16
            {"component": "kb", "args": ["--focus", "c16"], "quick": 48, "thorough": 400, "correspondence": False},
        ],
        "trusted_base": KB_TB,
        "assumptions": ["time is an explicit argument of the model; the ordering conjunct assumes a monotone clock"],
        "explanation": "inductive invariant of Model/KBucket.v over all operation lists + correspondence + direct structural monitor",
    },
    "C16": {
        "coq_files": KB_FILES,
        "runner_vo": "Run/KBucketRun.v",
        "harness": [
            {"component": "kb", "args": ["--focus", "c16"], "quick": 96, "thorough": 1600},
        ],
        "trusted_base": KB_TB,
        "assumptions": ["the raw Entry API (AbsentEntry::insert, value_mut) bypasses the filters by its documentation and is excluded"],
        "explanation": "subnet-count invariant of Model/KBucket.v with the IP filters over all operation lists + correspondence + direct recount monitor",
    },
    "C08": {
        "coq_files": KB_FILES + ["Proofs/ClosestOrder.v"],
        "runner_vo": "Run/KBucketRun.v",
        "harness": [
            {"component": "kb", "args": ["--focus", "c08"], "quick": 96, "thorough": 1600},
        ],
        "trusted_base": KB_TB,
        "assumptions": [
            "ids are 256-bit (theorems assume d < 2^NUM_BUCKETS, NUM_BUCKETS regenerated from src/kbucket.rs)",
            "the model's fuel for the bucket iterator (2*NB+2) is a model artefact; the closed-form theorem shows the run ends by itself",
        ],
        "explanation": "theorems about Model/KBucket.v (bucket order closed form, permutation, order) + correspondence of closest_keys/closest_values/closest_values_predicate/nodes_by_distances with the model on generated tables + direct monitor (sorted full scan)",
    },
}
