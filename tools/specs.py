"""Per-property specification of the checks (used by /verif/check)."""

KB_FILES = ["Generated/Params.v", "Lib/ListX.v", "Lib/NBits.v", "Lib/SortedX.v", "Model/KBucket.v", "Run/KBucketRun.v"]
KB_TB = [
    "modelled, not verified: std::time::Instant (time is an explicit argument of every model operation; the harness uses pending timeouts of 0 s / 1 h and the hook verif_force_pending_ready), arrayvec, the Filter trait objects (arbitrary functions in the model), Enr equality (interned ids)",
]


HND_FILES = ["Model/Handler.v", "Run/HandlerRun.v"]
HNDB_FILES = ["Proofs/HandlerB_Base.v", "Proofs/HandlerB_Frame.v", "Proofs/HandlerB_Session.v", "Proofs/HandlerB_Auth.v", "Proofs/HandlerB_Step.v", "Proofs/HandlerB_Fresh.v", "Proofs/HandlerB_Nonce.v"]
HND_TB = [
    "modelled, not verified: cryptography is symbolic (Dolev-Yao terms for ECDH/HKDF keys, AES-GCM ciphertexts, ECDSA id-signatures; the harness maps real datagrams to terms with the crate's own primitives and tests that the real primitives behave like the terms on every generated case; a contact or peer with an Ed25519 key is one for which no session keys can be derived and no id-signature verifies); tokio timers are deadlines fired on a 5 ms grid of a paused clock; the order in which timers with one and the same deadline fire is an oracle choice (insertion order or its reverse, the two behaviours of tokio-util's timer wheel); randomness is an oracle input observed on the wire; the session cache is modelled with its capacity and its time to live (the instant of the last use is part of every session), and in these runs the real cache reads the same paused clock through the hook verif::cache::set_virtual_clock (DESIGN.md section 9; the cache-level lru runs and the hnd --focus c15 runs use the system clock); the UDP socket tasks are replaced by channels (real RecvHandler::handle_inbound and Packet::encode/decode are used)",
]
def _hnd(focus, quick=128, thorough=1500, extra=()):
    return {
        "coq_files": HND_FILES + list(extra),
        "runner_vo": "Run/HandlerRun.v",
        "harness": [{"component": "hnd", "args": ["--focus", focus, "--fixes", "all"], "quick": quick, "thorough": thorough}] + (
            # a larger share of requests addressed to a node with an Ed25519 identity (building the handshake fails)
            [{"component": "hnd", "args": ["--focus", focus + "ed", "--fixes", "all"], "quick": 48, "thorough": 600}]
            if focus in ("c04", "c13") else []),
        "trusted_base": HND_TB,
        "assumptions": ["request ids chosen by the application are distinct per run", "oracle freshness where a theorem states it"],
        "explanation": "theorems about Model/Handler.v + step-by-step correspondence of the real Handler (virtual wire, paused clock) with the model on generated event histories + direct monitors written from the property text",
    }

QUERY_TB = [
    "modelled, not verified: std::time::Instant / Duration (N nanoseconds; Instant - Instant saturates), BTreeMap<Distance, _> (a list sorted strictly by distance), FnvHashMap (association list + iteration-order oracle), Key<NodeId> (the 256-bit id itself), the predicate closure (its value on each reported record is an input), usize = 64 bit",
    "the hooks src/verif/query.rs (thin delegating wrappers around the crate-private state machines) and the verif_dump / verif_started / verif_next_id / verif_set_next_id copies of private fields",
]

SPECS = {
    "C07": {
        "coq_files": KB_FILES + ["Lib/ListY.v", "Proofs/KBucketInv.v", "Proofs/KBucketTable.v", "Proofs/KBucketPending.v"] + ["Proofs/KBucketExamples.v"],
        "runner_vo": "Run/KBucketRun.v",
        "harness": [
            {"component": "kb", "args": ["--focus", "c07"], "quick": 128, "thorough": 1600},
            # structural invariants also under the IP filters; correspondence of that run belongs to C16
            {"component": "kb", "args": ["--focus", "c16"], "quick": 48, "thorough": 400, "correspondence": False},
        ],
        "trusted_base": KB_TB,
        "assumptions": ["time is an explicit argument of the model; the ordering conjunct assumes a monotone clock"],
        "explanation": "inductive invariant of Model/KBucket.v over all operation lists + correspondence + direct structural monitor",
    },
    "C16": {
        "coq_files": KB_FILES + ["Lib/ListY.v", "Proofs/KBucketInv.v", "Proofs/KBucketTable.v", "Proofs/KBucketPending.v"] + ["Proofs/KBucketEntries.v", "Proofs/Subnet.v", "Proofs/SubnetExamples.v"],
        "runner_vo": "Run/KBucketRun.v",
        "harness": [
            {"component": "kb", "args": ["--focus", "c16"], "quick": 128, "thorough": 1600},
        ],
        "trusted_base": KB_TB,
        "assumptions": ["the raw Entry API (AbsentEntry::insert, value_mut) bypasses the filters by its documentation and is excluded",
                        "values are interned records: every value is offered for one key only (owner (vid v) = k, a record's node id is its key) and its /24 is a function of the record (vsub v = subof (vid v)); both are shown necessary for the model in Proofs/SubnetExamples.v"],
        "explanation": "subnet-count invariant of Model/KBucket.v with the IP filters over all operation lists + correspondence + direct recount monitor",
    },
    "C06": {
        "coq_files": ["Generated/Params.v", "Model/Rlp.v", "Model/Rpc.v", "Proofs/Rlp.v", "Proofs/Rpc.v", "Run/RpcRun.v"],
        "runner_vo": "Run/RpcRun.v",
        "harness": [
            {"component": "rpcc", "args": [], "quick": 640, "thorough": 16000},
        ],
        "trusted_base": [
            "modelled, not verified: alloy-rlp 0.3.16 (its decoding rules are re-modelled in Model/Rlp.v and compared with the crate on every case, including the error kind), the enr crate (opaque in the model: the laws enr_round_trip / enr_canonical / enr_only_lists are premises of the theorems; the harness supplies what the real Enr::decode answers on every RLP-list slice of every input, so the laws are exercised with valid, mutated, padded and oversized records), std::net::Ipv6Addr::{is_loopback,to_ipv4} (re-modelled, compared), a 64-bit usize",
        ],
        "assumptions": [
            "ENR codec laws as explicit premises: enr_decode (enr_encode e) = Some e; enr_decode b = Some e -> enr_encode e = b; enr_decode accepts only RLP lists (DESIGN.md section 4)",
            "bytes are numbers below 256 (bytes_ok) where canonicity is claimed; u64 fields < 2^64, encodings shorter than 2^64 bytes",
            "the fuel of the model's two loops (length of the payload) is a model artefact; C06_decode_msg_terminates shows it never runs out",
            "the main theorems are about the decoder with the repair of D9 (fixed = true); C06_nodes_inner_list_exact_refuted records the behaviour of the pinned tree",
        ],
        "explanation": "theorems about Model/Rlp.v + Model/Rpc.v (round trip, layout, no panic, canonicity of accepted inputs, one strictness theorem per rule of the property text) + correspondence of rpc::Message::{encode,decode} with the model on generated messages, layout-tree mutations, byte mutations and junk (decoded value / error kind / panic and encoded bytes compared) + direct monitor (round trip, layout, no panic, accepted => canonical re-encoding, each rejection rule)",
    },
    "C08": {
        "coq_files": KB_FILES + ["Proofs/ClosestOrder.v"] + ["Lib/ListY.v", "Proofs/KBucketInv.v", "Proofs/KBucketTable.v", "Proofs/KBucketPending.v"] + ["Proofs/ClosestTable.v"],
        "runner_vo": "Run/KBucketRun.v",
        "harness": [
            {"component": "kb", "args": ["--focus", "c08"], "quick": 128, "thorough": 1600},
        ],
        "trusted_base": KB_TB,
        "assumptions": [
            "ids are 256-bit (theorems assume d < 2^NUM_BUCKETS, NUM_BUCKETS regenerated from src/kbucket.rs)",
            "the model's fuel for the bucket iterator (2*NB+2) is a model artefact; the closed-form theorem shows the run ends by itself",
        ],
        "explanation": "theorems about Model/KBucket.v (bucket order closed form, permutation, order) + correspondence of closest_keys/closest_values/closest_values_predicate/nodes_by_distances with the model on generated tables + direct monitor (sorted full scan)",
    },
    "C20": {
        "coq_files": ["Model/Talk.v", "Proofs/Talk.v", "Run/TalkRun.v"],
        "runner_vo": "Run/TalkRun.v",
        "harness": [
            {"component": "talk", "args": [], "quick": 1400, "thorough": 20000},
        ],
        "trusted_base": [
            "Rust's ownership rules (respond consumes the request object, Drop::drop runs exactly once per value): the model's linear use of request objects rests on them",
            "tokio's unbounded mpsc channel (send fails exactly when the receiver is gone; linearizable under concurrent senders) - modelled, observed by the correspondence run, not verified",
            "between the service and the wire the handler turns each HandlerIn::Response into one TALKRESP packet (handler properties, not C20)",
        ],
        "assumptions": [
            "shutdown is modelled as the handler's receiving end of the service-to-handler channel being dropped; 'delivered to the application' means the Event::TalkRequest was accepted by the bounded event channel",
        ],
        "explanation": "invariant over all interleavings of deliver/respond/drop/hold/shutdown in Model/Talk.v (at most one response, exactly one with the right id/address/payload while running, error value and no panic after shutdown) + correspondence on real TalkRequest objects created by the hook constructor and by the real Service::handle_rpc_request + direct exactly-once monitor incl. multi-threaded answers",
    },
    "C15": {
        "coq_files": ["Model/Lru.v", "Proofs/Lru.v", "Run/LruRun.v", "Model/Handler.v", "Run/HandlerRun.v"],
        "runner_vo": ["Run/LruRun.v", "Run/HandlerRun.v"],
        "harness": [
            {"component": "lru", "args": [], "quick": 64, "thorough": 640},
            # handler level, real clock: an idle session is not used again (monitor only)
            {"component": "hnd", "args": ["--focus", "c15"], "quick": 24, "thorough": 200, "correspondence": False},
            # handler level, paused clock: histories with short session timeouts (scripted expiry openings, the
            # boundary included) compared step by step with Model/Handler.v, which carries the time of last use
            {"component": "hnd", "args": ["--focus", "c15x", "--fixes", "all"], "quick": 96, "thorough": 1000},
            # handler histories with small configured capacities: the number of sessions held (monitor only)
            {"component": "hnd", "args": ["--focus", "c13", "--fixes", "all"], "quick": 48, "thorough": 600, "correspondence": False},
        ],
        "trusted_base": [
            "modelled, not verified: std::time::Instant (time is an explicit argument of every model operation; the harness runs the real cache in real time with ttl 100 ms on a 40 ms grid, brackets every call with measured instants and reads the stored instants back through the hook LruTimeCache::verif_dump), hashlink::LinkedHashMap (modelled as a list in link order: insert/to_back move an entry to the back, pop_front removes the front)",
            "the handler-level half of C15 (Handler::sessions is only read through get_mut/get, so an expired session takes the no-session path) is part of Model/Handler.v (sess_get, remove_expired_sessions) and of the third harness run; in that run the cache reads the paused tokio clock through the hook verif::cache::set_virtual_clock",
        ],
        "assumptions": [
            "evicts_lru / refinement assume a clock that never goes back (Instant is monotonic); len_bounded and get_never_stale hold for every clock",
            "the runner compares the implementation with the repaired model (get_mut treats an entry older than ttl as absent)",
        ],
        "explanation": "theorems about Model/Lru.v (len_bounded, get_never_stale + history form, evicts_lru, refinement to a ttl-restricted map with LRU eviction; get_never_stale_refuted for the pinned get_mut) + correspondence of LruTimeCache<u64,u64> with the model step by step (result and full dump incl. stored instants) + direct monitor (ledger of last uses: no value returned after an idle time > ttl, len <= capacity, LRU victim)",
    },
    "C05": {
        "coq_files": ["Generated/Params.v", "Lib/Bytes.v", "Model/Packet.v", "Proofs/Packet.v", "Run/PacketRun.v"],
        "runner_vo": "Run/PacketRun.v",
        "harness": [
            {"component": "pkt", "args": [], "quick": 240, "thorough": 4000},
        ],
        "trusted_base": [
            "modelled, not verified: AES-128-CTR (aes/ctr crates) - an abstract keystream in the theorems, the real keystream bytes are computed by the harness and handed to the model; the enr crate's record codec (Enr::decode / alloy_rlp::encode) - opaque in the model, the real decoder's verdict on the record bytes of every generated handshake is handed to the model; NodeId ([u8; 32]), u128/u64/u16 big-endian conversions of std",
            "the ProtocolIdentity argument of Packet::decode is fixed to ProtocolIdentity::default() (its two literals are regenerated into Generated/Params.v)",
        ],
        "assumptions": [
            "round trip: enr_decode (enr_encode e) = Some e and enr_encode e <> [] for the record codec (premises of C05_decode_encode); fields within the Rust types' ranges (packet_wf); 63 <= |datagram| <= 1280",
            "a datagram masked for another id: accepted only on an 8-byte keystream collision (abstract stream cipher); ids sharing their first 16 bytes share the masking key by the discv5.1 specification",
            "not claimed (known looseness): Enr::decode in the handshake branch ignores bytes after the record inside the auth-data, so encode(decode(bs)) can differ from bs; the model reproduces it",
        ],
        "explanation": "theorems about Model/Packet.v (round trip incl. authenticated data for every keystream, layout, decode never panics, one lemma per rejection rule with the exact error, accepted => every rule passed, aad = received bytes, injectivity of datagram -> (aad, body), wrong id needs a keystream collision) + correspondence of Packet::encode / Packet::authenticated_data / Packet::decode with the model on generated packets and on datagrams malformed in the unmasked domain + direct monitor (round trip, layout, no panic, every strictness rule, other id rejected)",
    },
    "C01": _hnd("c01", extra=HNDB_FILES + ["Proofs/HandlerB_Who.v", "Proofs/HandlerB_Examples.v"]),
    "C02": _hnd("c02", extra=HNDB_FILES + ["Proofs/HandlerB_Examples.v"]),
    "C03": _hnd("c03", extra=HNDB_FILES + ["Proofs/HandlerB_Examples.v"]),
    "C04": _hnd("c04", extra=["Proofs/HandlerInv.v", "Proofs/HandlerA_Ledger.v", "Proofs/HandlerA_Nonce.v", "Proofs/HandlerA_Progress.v",
                              "Proofs/HandlerA_Drain.v", "Proofs/HandlerA_Drain2.v", "Proofs/HandlerB_Base.v", "Proofs/HandlerB_Frame.v", "Proofs/HandlerB_Session.v", "Proofs/HandlerB_Trace.v",
                              "Proofs/HandlerB_Trace2.v", "Proofs/HandlerB_Trace3.v", "Proofs/HandlerA_Wire2.v", "Proofs/HandlerA_Wire3.v",
                              "Proofs/HandlerA_Wire4.v", "Proofs/HandlerA_Wire.v"]),
    "C13": _hnd("c13", extra=["Proofs/HandlerInv.v", "Proofs/HandlerA_Ledger.v", "Proofs/HandlerA_Nonce.v", "Proofs/HandlerA_Progress.v",
                              "Proofs/HandlerA_Drain.v", "Proofs/HandlerA_Drain2.v"]),
    "C19": _hnd("c19", extra=HNDB_FILES + ["Proofs/HandlerB_Examples.v", "Proofs/HandlerB_Trace.v", "Proofs/HandlerB_Trace2.v", "Proofs/HandlerB_Trace3.v", "Proofs/HandlerB_TraceEx.v"]),
    "C17": {
        "coq_files": ["Generated/Params.v", "Model/IpVote.v", "Proofs/IpVote.v", "Run/IpVoteRun.v"],
        "runner_vo": "Run/IpVoteRun.v",
        "harness": [
            {"component": "vote", "args": ["--part", "thr"], "quick": 1, "thorough": 1},
            {"component": "vote", "args": ["--part", "ipvote"], "quick": 300, "thorough": 3000},
            {"component": "vote", "args": ["--part", "service"], "quick": 200, "thorough": 2000},
        ],
        "trusted_base": [
            "IEEE-754 binary64 semantics of rustc/LLVM and the CPU for the literal 0.3, the subtraction, the multiplication, f64::round and the cast (modelled exactly with integers in Model/IpVote.v and compared for every leading count up to 10^5 / 2*10^6)",
            "the enr crate: set_udp_socket bumps the sequence number by one and re-signs (observed by the monitor: seq, verify()), std::time::Instant (real clock, bracketed), std HashMap iteration (any order: theorem scan_correct), tokio mpsc for the event stream",
            "the connectivity state (should_count_ip_vote) and the routing-table status of the voter are inputs of the model (arbitrary booleans); the harness exercises should_count_ip_vote = true only and reads the voter's status back from the real table",
        ],
        "assumptions": [
            "leading counts below 2^49 for the reading of the f64 threshold as 0.7*max rounded (the winner characterisation itself is stated with the exact threshold function and has no bound)",
            "'announced as an event' = accepted by the bounded event channel (try_send); the harness drains it after every PONG",
            "a PONG from a voter that is not eligible at that moment (not connected+outgoing and no more votes needed) is ignored entirely: it does not retract the voter's earlier counted vote",
        ],
        "explanation": "theorems over Model/IpVote.v (exact f64 threshold and its 70 % reading, order-independent scan, winner characterisation, one vote per node, change => winner + seq bump + event, fewer than minimum voters never move the record) + correspondence of IpVote (real clock, bracketed), of the f64 threshold (exhaustive table) and of the real Service PONG handling + direct monitors",
    },
    "C09": {
        "coq_files": ["Lib/SortedX.v", "Model/Query.v", "Proofs/Query.v", "Proofs/QueryPool.v", "Run/QueryRun.v"],
        "runner_vo": "Run/QueryRun.v",
        "harness": [
            {"component": "query", "args": [], "quick": 96, "thorough": 1600},
            # service level: real find_node lookups through the real Service loop, the harness plays the handler (monitor only)
            {"component": "svcq", "args": [], "quick": 200, "thorough": 3000, "correspondence": False},
        ],
        "trusted_base": QUERY_TB,
        "assumptions": [
            "'in flight' is the query's own notion (peers in state Waiting); a peer demoted to Unresponsive by the per-peer timeout may still have a transport request outstanding (libp2p design)",
            "the iteration order of the pool's FnvHashMap is an oracle input of the model's poll (observed by the harness through QueryPool::iter); the theorems hold for every order",
            "termination of a query in the pool needs the caller to keep polling after the deadline (Service::query_event_poll returns Pending without registering a waker; it is re-polled whenever another branch of the service loop wakes) and finitely many reported ids; the id counter wraps at 2^64 (a live query would be overwritten only after 2^64 adds)",
            "a query with parallelism 0 never starts a request and can only be ended by the pool's query timeout",
        ],
        "explanation": "theorems over Model/Query.v for every configuration, candidate list and event list (no panic, num_waiting = #Waiting, capacity, in-flight bound, no peer contacted twice, budget of NotContacted peers, poll after the deadline makes progress, pool drains, result handed out at most once per add) + step-by-step correspondence of the real FindNodeQuery / PredicateQuery (fabricated Instants) and of the real QueryPool (real time, exact clock value recovered from the state) with the model + direct monitors",
    },
    "C10": {
        "coq_files": ["Lib/SortedX.v", "Model/Query.v", "Proofs/Query.v", "Proofs/QueryPool.v", "Run/QueryRun.v"],
        "runner_vo": "Run/QueryRun.v",
        "harness": [
            {"component": "query", "args": [], "quick": 96, "thorough": 1600},
            # service level: real find_node lookups through the real Service loop, the harness plays the handler (monitor only)
            {"component": "svcq", "args": [], "quick": 200, "thorough": 3000, "correspondence": False},
        ],
        "trusted_base": QUERY_TB,
        "assumptions": [
            "'answered' = an on_success call for the peer was made after next handed it out (the service calls on_success from discovered() for responses to the query's request)",
            "'every candidate it learned of' = every peer the query holds: the first num_results initial candidates (with_config applies .take(num_results) to the list it is given; the others are dropped, see C10_seed_truncation_observation) and every id reported in an accepted on_success",
        ],
        "explanation": "theorems over Model/Query.v (result is a subset of the peers that answered after being contacted, at most num_results, strictly sorted by XOR distance, distinct, predicate flag from the candidates / reports, completeness when short, the pool hands out reachable query states) + the same correspondence run as C09 + direct monitors on the result",
    },
    "C18": {
        "coq_files": ["Generated/Params.v", "Model/Limiter.v", "Proofs/Limiter.v", "Run/LimiterRun.v"],
        "runner_vo": "Run/LimiterRun.v",
        "harness": [
            {"component": "limiter", "args": ["--part", "lim"], "quick": 128, "thorough": 2400},
            {"component": "limiter", "args": ["--part", "fil"], "quick": 40, "thorough": 400},
            {"component": "limiter", "args": ["--part", "inb"], "quick": 24, "thorough": 240},
        ],
        "trusted_base": [
            "modelled, not verified: std::time::Instant (the model takes the time as an argument; Limiter is driven through its explicit-time entry point and compared exactly; Filter reads the clock itself and is compared on histories whose outcome does not depend on the position of the clock inside the measured bracket - quotas that do not refill within a case or are full again before every call), fnv::FnvHashMap / std HashMap / HashSet (association lists, compared as sorted sets), hashlink::LruCache (list in link order), the metrics-only ReceivedPacketCache (not modelled), parking_lot::RwLock around the process-global PERMIT_BAN_LIST (cases run serially)",
            "Handler::unban_nodes_check is a private method of the handler: it is driven by starting a real Handler (hook VirtualHandler::spawn of the handler checks; the first tick of its 300 s interval fires at once); RecvHandler::handle_inbound is driven through the hooks RecvHandler::verif_new / verif_handle_inbound (datagrams built with the real Packet::encode)",
        ],
        "assumptions": [
            "limiter clock below 2^64 ns minus twice the period (u64 nanoseconds since the creation of the rate limiter); arrival times do not go back (Instant is monotonic)",
            "window bound is (period + window) / t with t = period / max_tokens rounded down; it equals burst + rate*window when max_tokens divides the period (theorem C18_rounding_of_the_token_period records the excess otherwise)",
            "ban_lasts excludes the application's own ban_ip / ban_ip_remove / permit_ip (resp. node) calls for the banned sender",
        ],
        "explanation": "theorems about Model/Limiter.v (GCRA = token bucket, window bound, conforming traffic never refused at limiter and filter level, prune transparency, ban/permit decision table, bans last until expiry) + exact correspondence of Limiter<u64> (verdicts, waiting times, all TATs, overflow panics, invalid quotas) + correspondence of Filter::initial_pass/final_pass/prune_limiter, RecvHandler::handle_inbound (exempt sources, undecodable / WHOAREYOU / message datagrams), Handler::unban_nodes_check and the Discv5 ban/permit API on the global list (decisions, lists, LRU caches, limiter key sets) + direct monitors (window bound, reference token bucket, prune transparency via an unpruned shadow limiter, permit/ban precedence, quota counting, ban expiry)",
    },
}

SVC_FILES = ["Generated/Params.v", "Lib/ListX.v", "Model/KBucket.v", "Model/Nodes.v", "Model/Serve.v", "Model/Admission.v",
             "Proofs/Nodes.v", "Proofs/KBMembers.v", "Proofs/Serve.v", "Proofs/Admission.v", "Proofs/ServiceInv.v",
             "Run/KBucketRun.v", "Run/ServiceRun.v"]
SVC_TB = [
    "modelled, not verified: tokio scheduling and timers (the real Service::start loop runs on a current-thread runtime with paused time; the harness plays the handler: it injects HandlerOut events and drains HandlerIn messages after letting the service task run until idle), std::time::Instant (routing-table pending timeouts of 60 s and query timeouts never elapse inside a case), the process-global PERMIT_BAN_LIST (cases run serially), the enr crate (records are interned by content: equal RLP <-> equal vid; node ids are hashes of public keys, so identities come from a fixed pool of 640 keys), request ids / nonces chosen by the implementation (observed)",
    "hooks: src/service/verif_hooks.rs (scripted_service = Discv5::new + Service::spawn minus Handler::spawn), src/discv5/verif_hooks.rs (attaches the real Discv5 API to that service), src/verif/service.rs (re-exports, response_datagram = Session::encrypt_message + Packet::encode)",
]

SPECS.update({
    "C11": {
        "coq_files": SVC_FILES,
        "runner_vo": "Run/ServiceRun.v",
        "harness": [
            {"component": "service", "args": ["--focus", "c11"], "quick": 360, "thorough": 4000},
        ],
        "trusted_base": SVC_TB,
        "assumptions": [
            "ids are 256-bit (C11_findnode_distances_spec); the finite sweep over 256 distances x 128 sizes is a kernel VM computation inside Proofs/Nodes.v",
            "'accepted' = handed to Service::discovered (observed through Event::Discovered, which is emitted for every such record that does not carry the local id)",
            "find_node_designated_peer hands the first NODES packet to the caller unfiltered and never bans (modelled as such: ar_user); the property's clauses are about lookup / internal requests",
            "the honest responder of the theorem is Model/Serve.v (what this implementation serves, C14) on a table satisfying the C07 invariant; in the harness it is a second real Service",
        ],
        "explanation": "theorems about Model/Nodes.v + Model/Serve.v (kept = on-distance records, banned iff an off-distance record, honest responder never banned for every target / table / distance list, <= 15 packets collected, completed requests ignore packets, findnode_log2distance spec) + correspondence of the real Service (lookup, user-designated and internal ENR requests; honest answers produced by a second real Service, scripted malicious answers) with the model packet by packet (ban list, Discovered events, user callback) + direct monitors",
    },
    "C14": {
        "coq_files": SVC_FILES,
        "runner_vo": "Run/ServiceRun.v",
        "harness": [
            {"component": "service", "args": ["--focus", "c14"], "quick": 96, "thorough": 1200},
        ],
        "trusted_base": SVC_TB + [
            "the wire size of a NODES response is a self-contained function in Model/Serve.v (RLP sizes written out: type byte, list header, request id, total, record list; 16 IV + 23 static header + 32 authdata + 16 GCM tag); it is compared with the length of the datagram produced by the real Response::encode + AES-GCM + Packet::encode for every emitted response; the model of the RPC encoder (Model/Rpc.v, C06) is not used",
        ],
        "assumptions": [
            "C14_packet_fits: records <= MAX_ENR_SIZE (300, enr crate), request id <= 8 bytes (decoder limit), at most 255 packets per answer (holds whenever max_nodes_response <= 254; C14_packet_total_256_too_long shows the bound is needed: configuration corner, default is 16)",
            "max_nodes_response = 0 still serves one table record (the collection loop pushes before it tests the limit): C14_collect_bounded states max(maxn, 1)",
            "the truncation to max_nodes_response happens before the requester's own record is removed, so an answer can carry one record fewer than the maximum",
        ],
        "explanation": "theorems about Model/Serve.v (served records = local record iff 0 requested + nodes_by_distances on the sorted/deduplicated/in-range distances minus the requester; collection sound / bounded / complete; packets partition the answer, carry the id and total = number of packets, none empty; every packet <= 1280 bytes from the regenerated constants; PONG exact) + correspondence of the real Service's answers (records, split, totals, measured wire length) + direct monitor",
    },
    "C12": {
        "coq_files": SVC_FILES,
        "runner_vo": "Run/ServiceRun.v",
        "harness": [
            {"component": "service", "args": ["--focus", "c12"], "quick": 96, "thorough": 1200},
            # the handler half of the property (Handler::verify_enr): real handler, handshakes with records that
            # advertise the observed address, another host, the same host with another port, IPv4 and IPv6 (monitor only)
            {"component": "hnd", "args": ["--focus", "c12", "--fixes", "all"], "quick": 64, "thorough": 800},
        ],
        "trusted_base": SVC_TB,
        "assumptions": [
            "Handler::verify_enr is transcribed in the model (verify_enr / session_report) and covered by theorems; the scripted service plays the handler, so the real verify_enr is exercised by the handler properties (C01..C04), not by this correspondence run",
            "records known only to running queries (find_enr's second source in the PONG branch) are outside the model; the harness lets lookups finish before it injects PONGs",
            "records arriving with a session report replace the stored record whenever they differ (not seq-guarded; they are owner-authenticated by the handshake, C01); counted as an observation in the distribution",
            "C12_discovered_update_rule is the 'replaces only if' direction; removals by discovered() (older stored version of an inadmissible newer record; eviction by the routing table's own filters) are covered by the direct monitor and the correspondence only",
        ],
        "explanation": "invariant of Model/Admission.v over all event sequences (every entry keyed by its record's id, contactable in the IP mode, accepted by the table filter, not the local node), origin of keys (session report or add_enr only, never discovered()), single-stack address bound through verify_enr, update rule of discovered() + step-by-step correspondence of the real Service (table dump after every event) in all IP modes with four table filters + direct monitor",
    },
})

# C01 also covers what the service does with the handler's reports ("X's routing-table entry is changed
# because of the handshake"): the scripted-service histories of C12 are run again as monitor-only runs of
# C01 (an UnverifiableEnr report that carries the record of another node must not touch that node's entry)
SPECS["C01"]["harness"].append({"component": "service", "args": ["--focus", "c12"], "quick": 96, "thorough": 1200, "correspondence": False})

# files added by the clause-by-clause gap audit (notes/gap_audit_*.md)
SPECS["C16"]["coq_files"] = SPECS["C16"]["coq_files"] + ["Proofs/SubnetGap.v"]
SPECS["C20"]["coq_files"] = SPECS["C20"]["coq_files"] + ["Proofs/TalkGap.v"]
SPECS["C15"]["coq_files"] = SPECS["C15"]["coq_files"] + ["Proofs/LruGap.v"]
SPECS["C14"]["coq_files"] = SPECS["C14"]["coq_files"] + ["Proofs/ServeGap.v"]
SPECS["C17"]["coq_files"] = SPECS["C17"]["coq_files"] + ["Proofs/IpVoteGap.v"]
SPECS["C18"]["coq_files"] = SPECS["C18"]["coq_files"] + ["Proofs/LimiterGap.v", "Proofs/LimiterGap2.v"]
SPECS["C08"]["coq_files"] = SPECS["C08"]["coq_files"] + ["Proofs/KBucketGap.v"]
SPECS["C07"]["coq_files"] = SPECS["C07"]["coq_files"] + ["Proofs/KBucketGap.v"]
SPECS["C09"]["coq_files"] = SPECS["C09"]["coq_files"] + ["Proofs/QueryGap.v"]
SPECS["C10"]["coq_files"] = SPECS["C10"]["coq_files"] + ["Proofs/QueryGap.v"]
SPECS["C05"]["coq_files"] = SPECS["C05"]["coq_files"] + ["Proofs/PacketGap.v"]
SPECS["C06"]["coq_files"] = SPECS["C06"]["coq_files"] + ["Proofs/RpcGap.v"]
SPECS["C11"]["coq_files"] = SPECS["C11"]["coq_files"] + ["Proofs/NodesGap.v"]
SPECS["C12"]["coq_files"] = SPECS["C12"]["coq_files"] + ["Proofs/AdmissionGap.v"]

# handler-level half of C15 (Proofs/HandlerB_Expiry.v over Model/Handler.v)
SPECS["C15"]["coq_files"] = SPECS["C15"]["coq_files"] + HNDB_FILES + ["Proofs/HandlerB_Examples.v", "Proofs/HandlerB_Trace.v", "Proofs/HandlerB_Trace2.v", "Proofs/HandlerB_Expiry.v"]
SPECS["C15"]["explanation"] = SPECS["C15"].get("explanation", "") + "; handler level: theorems of Proofs/HandlerB_Expiry.v over Model/Handler.v (a session idle for longer than the timeout is not returned by sess_get, accepts nothing, encrypts nothing, is gone afterwards; capacity bound and last-use ordering in every reachable state) + step-by-step correspondence of the real handler on the paused clock with short session timeouts"

# C19: nonce reuse including handshake packets (Proofs/HandlerB_TraceHs.v, which builds on the Wire4 chain)
SPECS["C19"]["coq_files"] = SPECS["C19"]["coq_files"] + ["Proofs/HandlerInv.v", "Proofs/HandlerA_Ledger.v", "Proofs/HandlerA_Wire2.v", "Proofs/HandlerA_Wire4.v", "Proofs/HandlerB_TraceHs.v"]

# constructor parity (tools/ctor_parity.py): which copied constructors a property's harness runs depend on
for _p in ("C01", "C02", "C03", "C04", "C12", "C13", "C15", "C19"):
    SPECS[_p]["ctor_parity"] = SPECS[_p].get("ctor_parity", []) + ["handler"]
for _p in ("C01", "C09", "C10", "C11", "C12", "C14", "C17", "C20"):
    SPECS[_p]["ctor_parity"] = SPECS[_p].get("ctor_parity", []) + ["service"]

# the handler half of C12 is compared with Model/Handler.v too
SPECS["C12"]["coq_files"] = SPECS["C12"]["coq_files"] + ["Model/Handler.v", "Run/HandlerRun.v"]
SPECS["C12"]["runner_vo"] = ["Run/ServiceRun.v", "Run/HandlerRun.v"]

# service-level lookups (svcq) also carry monitors for C11 (a late off-distance answer, after the lookup has ended,
# still gets its sender banned) and C01 (the record the service supplies for a who-are-you query is that node's own)
SPECS["C11"]["harness"].append({"component": "svcq", "args": [], "quick": 200, "thorough": 3000, "correspondence": False})
SPECS["C01"]["harness"].append({"component": "svcq", "args": [], "quick": 200, "thorough": 3000, "correspondence": False})

# the filter is only consulted for sources without an exemption; that exemptions do not outlive what is awaited
# is C13's subject, but a leftover exemption is a bypass of C18's quotas and bans: the handler histories of C13 run
# again as a monitor-only run of C18
SPECS["C18"]["harness"].append({"component": "hnd", "args": ["--focus", "c13", "--fixes", "all"], "quick": 96, "thorough": 1000, "correspondence": False})

# release-profile runs (no debug assertions, wrapping arithmetic): the codecs, the TALK objects, the limiter
SPECS["C20"]["harness"].append({"component": "talk", "args": [], "quick": 400, "thorough": 4000, "profile": "release"})
SPECS["C06"]["harness"].append({"component": "rpcc", "args": [], "quick": 160, "thorough": 2000, "profile": "release"})
SPECS["C05"]["harness"].append({"component": "pkt", "args": [], "quick": 96, "thorough": 1000, "profile": "release"})

# C16 at the level of the running node: Discv5::new installs the /24 filters when ip_limit is configured (in every
# IP mode) and Service::discovered updates records through the table's own update path; the scripted-service
# histories of C12 with IP limiting always on, as a monitor-only run of C16 (its correspondence belongs to C12)
SPECS["C16"]["harness"].append({"component": "service", "args": ["--focus", "c12ip"], "quick": 96, "thorough": 1200, "correspondence": False})
SPECS["C16"]["ctor_parity"] = SPECS["C16"].get("ctor_parity", []) + ["service"]

# configuration plumbing (harness component `glue`, Model/Config.v): the parameters the component-level checks take
# as given must be the ones the application configured - ConfigBuilder setters -> build() -> Discv5::new ->
# Discv5::start -> the real Service::spawn -> the real Handler::spawn on loopback sockets (the constructors record
# the Config they are handed); one run per property that depends on a configuration parameter, focused on its fields
for _p in ("C03", "C04", "C05", "C07", "C08", "C09", "C10", "C11", "C12", "C13", "C14", "C15", "C16", "C17", "C18"):
    for _f in ("Model/Config.v", "Proofs/Config.v", "Run/ConfigRun.v"):
        if _f not in SPECS[_p]["coq_files"]:
            SPECS[_p]["coq_files"] = SPECS[_p]["coq_files"] + [_f]
    _r = SPECS[_p].get("runner_vo") or []
    _r = [_r] if isinstance(_r, str) else list(_r)
    if "Run/ConfigRun.v" not in _r:
        _r.append("Run/ConfigRun.v")
    SPECS[_p]["runner_vo"] = _r
    SPECS[_p]["harness"].append({"component": "glue", "args": ["--focus", _p.lower()], "quick": 48, "thorough": 400})

# handler-level halves of C14, C20 and C11 (the request a handshake carries reaches the application, the
# application's answer reaches the wire - also in bursts and on a session that still waits for the peer's record;
# the answers to this node's own requests are solicited whatever the filter holds against their source)
for _p, _f in (("C14", "c14"), ("C20", "c20"), ("C11", "c11")):
    for _x in HND_FILES:
        if _x not in SPECS[_p]["coq_files"]:
            SPECS[_p]["coq_files"] = SPECS[_p]["coq_files"] + [_x]
    _r = SPECS[_p].get("runner_vo") or []
    _r = [_r] if isinstance(_r, str) else list(_r)
    if "Run/HandlerRun.v" not in _r:
        _r.append("Run/HandlerRun.v")
    SPECS[_p]["runner_vo"] = _r
    SPECS[_p]["harness"].append({"component": "hnd", "args": ["--focus", _f, "--fixes", "all"], "quick": 96, "thorough": 1000})
    SPECS[_p]["ctor_parity"] = sorted(set(SPECS[_p].get("ctor_parity", []) + ["handler"]))

# routing-table level: key/record binding and record-update policy around pending promotion (kb monitors)
SPECS["C01"]["harness"].append({"component": "kb", "args": ["--focus", "rec", "--prop", "C01"], "quick": 64, "thorough": 600, "correspondence": False})
SPECS["C12"]["harness"].append({"component": "kb", "args": ["--focus", "rec", "--prop", "C12"], "quick": 64, "thorough": 600, "correspondence": False})
SPECS["C19"]["harness"].append({"component": "hnd", "args": ["--focus", "c19dup", "--fixes", "all"], "quick": 96, "thorough": 1000, "correspondence": False})
SPECS["C06"]["harness"].append({"component": "hnd", "args": ["--focus", "c06", "--fixes", "all"], "quick": 96, "thorough": 1000, "correspondence": False})

# the vote glue in the running service loop (PONG handling, auto-NAT windows, event stream re-subscription), and the
# FINDNODE serving histories as a monitor-only run of C08 (lookup by distances behind a NODES answer and behind the API)
SPECS["C17"]["harness"].append({"component": "vote", "args": ["--part", "loop"], "quick": 150, "thorough": 1500})
SPECS["C08"]["harness"].append({"component": "service", "args": ["--focus", "c14"], "quick": 96, "thorough": 1200, "correspondence": False})
SPECS["C08"]["ctor_parity"] = SPECS["C08"].get("ctor_parity", []) + ["service"]

# scripted-service histories of C12 as monitor-only runs (who-are-you answers / lookups never hang / every candidate contacted)
SPECS["C02"]["harness"].append({"component": "service", "args": ["--focus", "c12"], "quick": 96, "thorough": 1200, "correspondence": False})
SPECS["C02"]["ctor_parity"] = SPECS["C02"].get("ctor_parity", []) + ["service"]
SPECS["C09"]["harness"].append({"component": "service", "args": ["--focus", "c12"], "quick": 96, "thorough": 1200, "correspondence": False})
SPECS["C10"]["harness"].append({"component": "service", "args": ["--focus", "c12"], "quick": 96, "thorough": 1200, "correspondence": False})
for _p in ("C06", "C18"):
    SPECS[_p]["ctor_parity"] = sorted(set(SPECS[_p].get("ctor_parity", []) + ["handler"]))

# the receive task in front of the handler (RecvHandler::handle_inbound driven through VirtualHandler): monitor-only
# runs of the receive-path histories, focused on the property whose clause they state
for _p, _n in (("C05", 24), ("C13", 24), ("C03", 16), ("C04", 16), ("C12", 16), ("C14", 16), ("C02", 16)):
    SPECS[_p]["harness"].append({"component": "limiter", "args": ["--part", "inb", "--focus", _p.lower()], "quick": _n, "thorough": 10 * _n, "correspondence": False})
    SPECS[_p]["ctor_parity"] = sorted(set(SPECS[_p].get("ctor_parity", []) + ["handler"]))
SPECS["C18"]["ctor_parity"] = sorted(set(SPECS["C18"].get("ctor_parity", []) + ["handler"]))

# Coq files the Properties files cite since round 4 (receive path, record lookup, routing-table key binding)
def _need(p, files):
    for _f in files:
        if _f not in SPECS[p]["coq_files"]:
            SPECS[p]["coq_files"] = SPECS[p]["coq_files"] + [_f]
for _p in ("C02", "C03", "C04", "C05", "C12", "C13", "C14", "C18"):
    _need(_p, ["Model/Limiter.v", "Proofs/Limiter.v", "Run/LimiterRun.v"])
    _r = SPECS[_p].get("runner_vo") or []
    _r = [_r] if isinstance(_r, str) else list(_r)
    if "Run/LimiterRun.v" not in _r:
        _r.append("Run/LimiterRun.v")
    SPECS[_p]["runner_vo"] = _r
for _p in ("C01", "C02", "C12"):
    _need(_p, ["Model/KBucket.v", "Model/Nodes.v", "Model/Admission.v", "Proofs/Admission.v"])
for _p in ("C01", "C07", "C12"):
    _need(_p, ["Model/KBucket.v", "Proofs/KBMembers.v", "Proofs/KBucketGap.v"])

# C11's ban clause end to end: the NODES packet has to be decoded whatever total it claims (rpcc, failures tagged
# C11), and the ban of an offending responder has to last as configured (filter histories with unban_nodes_check)
SPECS["C11"]["harness"].append({"component": "rpcc", "args": [], "quick": 400, "thorough": 4000, "correspondence": False})
SPECS["C11"]["harness"].append({"component": "limiter", "args": ["--part", "fil"], "quick": 40, "thorough": 400, "correspondence": False})

# end-to-end runs: real nodes on loopback UDP sockets (monitor-only): the search for a concrete failing input when
# constructor parity or a correspondence breaks in the real constructors / socket tasks
for _p in ("C03", "C04", "C05", "C09", "C10", "C12", "C13", "C14", "C17", "C20"):
    SPECS[_p]["harness"].append({"component": "e2e", "args": ["--focus", _p.lower()], "quick": 24, "thorough": 120, "correspondence": False})

# trusted-base sentences of the round-4 runs, per property that has them
_TB_RUN = {
    "glue": "configuration plumbing: Model/Config.v transcribes ConfigBuilder (24 setters, build) and what Discv5::new / Discv5::start hand on, by hand; tied to the code by the `glue` run - real ConfigBuilder, Discv5::new (table probed through a clone, global permit/ban list read through the hook verif::glue::permit_ban_counts), Discv5::start on real loopback UDP sockets, where the real Service::spawn and Handler::spawn record the Config they are handed (hook verif::glue::seen, two reporting statements); fields not modelled: executor, listen_config; fn-pointer table filters are identified by probing",
    "e2e": "end-to-end run (monitor-only, no model): two or three real nodes on loopback UDP sockets in real time on a multi-thread runtime; only lower bounds and 5 s upper bounds are asserted; it is the search for a concrete failing input behind the constructor-parity obligation, not a proof obligation itself",
    "inb": "receive path: Model/Limiter.v recv_inbound (source normalisation, exemption lookup per socket address, the two filter passes, Packet::src_id) is compared with the real RecvHandler::handle_inbound driven through the virtual handler (hooks RecvHandler::verif_new / verif_handle_inbound); the forwarded source address is observed through the handler's who-are-you query / unrecognized-frame report",
}
for _p in SPECS:
    for _h in SPECS[_p]["harness"]:
        _k = "inb" if (_h["component"] == "limiter" and "inb" in _h.get("args", [])) else _h["component"]
        if _k in _TB_RUN and _TB_RUN[_k] not in SPECS[_p]["trusted_base"]:
            SPECS[_p]["trusted_base"] = list(SPECS[_p]["trusted_base"]) + [_TB_RUN[_k]]
for _p in SPECS:
    _comps = {_h["component"] for _h in SPECS[_p]["harness"]}
    if "hnd" in _comps:
        for _t in HND_TB:
            if _t not in SPECS[_p]["trusted_base"]:
                SPECS[_p]["trusted_base"] = list(SPECS[_p]["trusted_base"]) + [_t]
    if "service" in _comps:
        for _t in SVC_TB:
            if _t not in SPECS[_p]["trusted_base"]:
                SPECS[_p]["trusted_base"] = list(SPECS[_p]["trusted_base"]) + [_t]
for _p in ("C04", "C11", "C13", "C18"):
    _need(_p, ["Model/Handler.v", "Proofs/HandlerInv.v", "Model/Limiter.v", "Proofs/Limiter.v", "Proofs/RecvHandler.v"])

# routing-table level (kb monitor check_keyed): the record stored under an id is that node's own - a record of X stored
# under P would have X's handshake verified as P's and X's requests delivered as coming from P
SPECS["C02"]["harness"].append({"component": "kb", "args": ["--focus", "rec", "--prop", "C02"], "quick": 64, "thorough": 600, "correspondence": False})
