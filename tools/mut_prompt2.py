import json, sys, os, subprocess
pid = sys.argv[1]
base = subprocess.check_output([sys.executable, os.path.join(os.path.dirname(__file__), "mut_prompt.py"), pid]).decode()
known = []
for i in (1, 2, 3):
    f = "/verif/seeded/%s_m%d/agent_meta.json" % (pid, i)
    if os.path.exists(f):
        known.append((json.load(open(f)).get("summary") or "")[:300])
extra = ("Three changes have already been produced for this property by someone else; do NOT repeat their ideas or "
         "locations - find different mechanisms (other functions, other data structures, other corners of what the "
         "property quantifies over). The ideas already used: " + " || ".join(known) + "\n\n")
base = base.replace("Your task: produce THREE different, realistic changes", extra + "Your task: produce THREE different, realistic changes")
base = base.replace("/tmp/mut_%s" % pid, "/tmp/mut2_%s" % pid)
print(base)
