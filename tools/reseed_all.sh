#!/bin/bash
# reseed_all.sh [jobs] : re-runs the check of every seeded change (seeded/<Cxx>_m<i>, _r2m<i>, _r3m<i>, _r4m<i>, _r5m<i>) against the
# current machinery, each in its own scratch copy (tools/seedtest.sh), <jobs> at a time (default 3), and writes one
# line per change to /verif/seeded/recheck.txt.  Run by hand after larger changes of the harness or the models; it is
# not part of any registered check.  Scratch: /tmp/seedtest/rs<k> (removed at the end).
jobs=${1:-3}
out=/verif/seeded/recheck.txt
: > $out.tmp
ls -d /verif/seeded/C??_m? /verif/seeded/C??_r2m? /verif/seeded/C??_r3m? /verif/seeded/C??_r4m? /verif/seeded/C??_r5m? 2>/dev/null | sort > /tmp/reseed_list.txt
worker() {
  k=$1
  while true; do
    d=$( { flock 9; head -1 /tmp/reseed_list.txt; sed -i 1d /tmp/reseed_list.txt; } 9>/tmp/reseed.lock )
    [ -z "$d" ] && break
    id=$(basename $d); p=${id:0:3}
    extra=""
    # changes that a neighbouring property's check is (also) meant to see
    r=$(/verif/tools/seedtest.sh rs$k $d/patch.diff $p 2>&1 | grep -E "^\[check\]|^VIOLATION|^OK|cannot" | tr '\n' ' ' | cut -c1-330)
    echo "$id | $r" >> $out.tmp
  done
}
for k in $(seq 1 $jobs); do worker $k & done
wait
sort $out.tmp > $out; rm -f $out.tmp /tmp/reseed_list.txt /tmp/reseed.lock
for k in $(seq 1 $jobs); do git -C /repo worktree remove --force /tmp/seedtest/rs$k/repo 2>/dev/null; rm -rf /tmp/seedtest/rs$k; done
git -C /repo worktree prune
echo "caught: $(grep -c 'VIOLATION' $out)  not caught: $(grep -vc 'VIOLATION' $out)  of $(wc -l < $out)"
