#!/usr/bin/env python3
"""Regenerates /verif/MANIFEST.json from properties.jsonl, tools/specs.py and the texts below."""
import json, os, sys, subprocess
V = os.path.dirname(os.path.dirname(os.path.abspath(__file__)))
sys.path.insert(0, os.path.join(V, "tools"))
from specs import SPECS

TECH = "Coq proof over an executable Gallina model + checked model/implementation correspondence (differential run of the real code against the model evaluated by coqc/vm_compute) + direct monitors for failing-input search"
NOTE_COMMON = " Trusted: Coq 8.16.1 kernel (+ vm_compute), tools/gen_params.py, the hand-written model, the correspondence harness and hooks (differential testing bounds the model/code tie; measured coverage is in the evidence file)."

CLAIMS = {
 "C07": ("Theorems: the table invariant (bucket size <= 16, placement by log2 distance, local id never stored, no duplicate id incl. pending slots, disconnected-before-connected with first_connected_pos consistent, both groups ordered by the time of the last status report under a monotone clock, connected-incoming limit) holds initially and is preserved by every operation of the table API for every time, every filter and every operation list (induction over runs); pending life cycle lemmas (promotion only after the timeout, evicting the disconnected head, dropped when the head reconnects); in-range lemmas for every index the code uses. Tie: every table operation of the real KBucketsTable is compared step by step with the model (return value + full table dump).",
         "Time (Instant) is an explicit argument of the model; the harness uses pending timeouts of 0 s/1 h and a hook to force readiness. The stamp-ordering conjunct assumes a monotone clock."),
 "C08": ("Theorems: the bucket visiting order of the closest iterator is, for every 256-bit distance, a permutation of all buckets in which nodes of earlier buckets are strictly closer; for every table satisfying the C07 invariant the closest iteration is a permutation of all stored nodes, strictly sorted by XOR distance to the target; nodes_by_distances returns exactly the nodes of the requested in-range buckets in request order up to the cap. Tie: closest_keys/closest_values/closest_values_predicate/nodes_by_distances of the real table compared with the model on generated tables; sorted-full-scan monitor.",
         "The predicate variant is covered by the correspondence run and the monitor (flags and order), not by a separate theorem. ids < 2^256."),
 "C16": ("Theorems: with the IP filters of src/kbucket/filter.rs, the per-/24 counts (<= 10 in the table incl. pending nodes, <= 2 per bucket; limits regenerated from the source) are an invariant of every operation list that does not use the raw Entry insertion, for values owned by one key each; nodes without IPv4 are never refused. Tie: real table with the exported IP filters vs model; direct recount monitor.",
         "Hypotheses stated in the theorems: a record is used with one key only (its node id), the /24 is a function of the record; the raw Entry API (documented as bypassing filters) is excluded."),
}
HND = ("Theorems about the handler state machine model (Model/Handler.v) - see coq/Properties/%s.v - with symbolic cryptography; tie: the real Handler (real RecvHandler::handle_inbound, Packet::encode/decode, crypto) on a virtual wire with a paused clock is compared event by event (HandlerOut events, datagrams mapped to terms with the crate's own primitives, exemption map, session count) with the model on generated histories incl. forged/replayed/mutated datagrams; monitors written from the property text.",
       "Symbolic (Dolev-Yao) cryptography; timers as deadlines on a 5 ms grid; order of same-deadline timers and all randomness are oracle inputs; session expiry by age is covered by C15's cache theorems, not by the handler model.")
for p in ["C01", "C02", "C03", "C04", "C13", "C19"]:
    CLAIMS[p] = (HND[0] % p, HND[1])

def main():
    claimed = [p for p in sorted(SPECS) if p in CLAIMS and os.path.exists(os.path.join(V, "coq", "Properties", p + ".v"))
               and "placeholder_removed_later" not in open(os.path.join(V, "coq", "Properties", p + ".v")).read()]
    extra = json.load(open(os.path.join(V, "tools", "manifest_extra.json"))) if os.path.exists(os.path.join(V, "tools", "manifest_extra.json")) else {}
    for p, v in extra.items():
        CLAIMS[p] = (v["text"], v["note"])
        if p in SPECS and p not in claimed and os.path.exists(os.path.join(V, "coq", "Properties", p + ".v")):
            claimed.append(p)
    claimed = sorted(set(claimed))
    props = [json.loads(l) for l in open(os.path.join(V, "properties.jsonl"))]
    hooks = subprocess.check_output(["git", "-C", "/repo", "log", "--format=%h %s"]).decode().splitlines()
    hook_commits = [l.split()[0] for l in hooks if l.split(" ", 1)[1].startswith("verif-hooks")]
    m = {
        "version": 1,
        "setup_cmd": "./check --setup",
        "hooks": {"guard": "cargo feature verif-hooks",
                  "enable": "the harness crate depends on discv5 = { path = \"/repo\", features = [\"verif-hooks\"] }; hooks live in src/verif/, src/*/verif_hooks.rs and cfg-guarded impl blocks",
                  "baseline_off_cmd": "cd /repo && cargo test --workspace --no-fail-fast --offline",
                  "source_commits": hook_commits,
                  # one exception to add-only (DESIGN.md section 9): the `use` of Instant in
                  # src/lru_time_cache.rs is switched by the feature (guard off: std::time::Instant as before)
                  "add_only": False},
        "engines": [
            {"name": "coq-model", "path": "/verif/coq", "serves_properties": claimed, "kind_free_text": "Coq 8.16.1 development: executable Gallina models (Model/), proofs (Proofs/), per-property statement files (Properties/), model runners for the correspondence (Run/)"},
            {"name": "harness", "path": "/verif/harness", "serves_properties": claimed, "kind_free_text": "Rust crate driving the real implementation through the verif-hooks feature; writes Coq case files (evaluated by coqc with vm_compute) and runs direct property monitors"}],
        "checks": [], "notes": "see DESIGN.md; ./check is the orchestrator (translator -> Coq rebuild -> hygiene -> property file + Print Assumptions -> harness -> correspondence -> verdict)",
        "not_applicable": []}
    for p in props:
        i = p["id"]
        if i in claimed:
            t, n = CLAIMS[i]
            m["checks"].append({"property_id": i, "quick_cmd": "./check %s --tier quick" % i, "thorough_cmd": "./check %s --tier thorough" % i,
                                "evidence_file": "/verif/evidence/%s.json" % i, "replay_cmd_template": "./check %s --replay {path}" % i,
                                "engine": "coq-model", "level_claimed": {"category": "proof", "text": t, "design_ref": "DESIGN.md section 6 (%s)" % i},
                                "level_note": n + NOTE_COMMON, "technique": TECH})
        else:
            m["not_applicable"].append({"property_id": i, "reason": "not claimed yet: the model/proofs for this property are still under construction (the technique applies; see DESIGN.md section 6)"})
    json.dump(m, open(os.path.join(V, "MANIFEST.json"), "w"), indent=1)
    print("claimed:", claimed)

if __name__ == "__main__":
    main()
