#!/usr/bin/env python3
"""Prints the markdown table of the round-2 seeded changes (seeded/*_r6m*/meta.json) for DESIGN.md section 12
and a one-line tally.  Usage: seeded_table.py  (run by hand; not part of any check)"""
import json, os, glob

ROOT = os.path.dirname(os.path.dirname(os.path.abspath(__file__)))
rows = []
tally = {}
for d in sorted(glob.glob(os.path.join(ROOT, "seeded", "C??_r6m?"))):
    m = json.load(open(os.path.join(d, "meta.json")))
    mid = os.path.basename(d)
    first, final = m.get("first_result", "?"), m.get("final_result", "?")
    summ = (m.get("summary") or "").replace("|", "/").replace("\n", " ")[:170]
    if first == final:
        res, how = first, ""
    else:
        res = first + " → " + ("caught" if final.startswith("caught") else final.split(":")[0].split(",")[0][:40])
        how = final.replace("|", "/")
    key = "caught" if (final.startswith("caught") or final == "caught") else ("correspondence only" if "correspondence only" in final or "no-failing-input-found" in final else final[:20])
    tally[key] = tally.get(key, 0) + 1
    tally.setdefault("first:" + first, 0)
    tally["first:" + first] += 1
    rows.append("| %s | %s | %s | %s |" % (mid, summ, res, how[:330]))
print("| id | change (agent summary, abridged) | result | how / what was strengthened |")
print("|---|---|---|---|")
print("\n".join(rows))
print()
print("tally:", json.dumps(tally))
