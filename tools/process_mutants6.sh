#!/bin/bash
# process_mutants.sh <prop> [<check-props...>] : confirm the 3 agent mutants of <prop>, run the checks against them, store under seeded/
p=$1; shift; checks=${@:-$p}
for i in 1 2 3; do
  d=/tmp/mut6_$p/out/m$i
  [ -f $d/patch.diff ] || { echo "$p m$i: no patch"; continue; }
  mkdir -p /verif/seeded/${p}_r6m$i
  cp $d/patch.diff /verif/seeded/${p}_r6m$i/; cp $d/demo.* /verif/seeded/${p}_r6m$i/ 2>/dev/null; cp $d/meta.json /verif/seeded/${p}_r6m$i/agent_meta.json 2>/dev/null
  echo "CONFIRM $(CONFIRM_ID=$p /verif/tools/confirm_mutant.sh $d ${p}r6m$i 2>&1 | tail -1)"
  echo "CHECK ${p}_r6m$i: $(/verif/tools/seedtest.sh mut6_$p $d/patch.diff $checks 2>&1 | grep -E '^(VIOLATION|OK)|\[check\]' | tr '\n' ' ' | cut -c1-600)"
done
git -C /repo worktree remove --force /tmp/confirm_wt_$p 2>/dev/null; rm -rf /tmp/confirm_target_$p /tmp/confirm_wt_$p
