import json, sys, os, subprocess
pid = sys.argv[1]
base = subprocess.check_output([sys.executable, os.path.join(os.path.dirname(__file__), "mut_prompt.py"), pid]).decode()
known = []
for pat in ("/verif/seeded/%s_m%d/agent_meta.json", "/verif/seeded/%s_r2m%d/agent_meta.json"):
    for i in (1, 2, 3):
        f = pat % (pid, i)
        if os.path.exists(f):
            try:
                known.append((json.load(open(f)).get("summary") or "")[:220])
            except Exception:
                pass
extra = ("SIX changes have already been produced for this property by others; do NOT repeat their ideas or "
         "locations - find different mechanisms: other functions, other files, other data structures, configuration "
         "options, interactions between two components, boundary values, time-dependent states, other corners of "
         "what the property quantifies over. A change may sit in ANY file of the crate as long as it breaks this "
         "property. Prefer changes whose effect is subtle (rare interleavings, unusual but legal inputs, non-default "
         "configuration) over blunt ones. Also: the existing test suite binds fixed UDP ports and is flaky when other "
         "runs happen in parallel on this machine - run it as `unshare -rn sh -c 'ip link set lo up; cargo test --offline "
         "--lib 2>&1 | grep \"test result\"'` (private network namespace). The ideas already used: "
         + " || ".join(known) + "\n\n")
base = base.replace("Your task: produce THREE different, realistic changes", extra + "Your task: produce THREE different, realistic changes")
base = base.replace("/tmp/mut_%s" % pid, "/tmp/mut3_%s" % pid)
print(base)
