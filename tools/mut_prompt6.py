import json, sys, os, subprocess
pid = sys.argv[1]
base = subprocess.check_output([sys.executable, os.path.join(os.path.dirname(__file__), "mut_prompt.py"), pid]).decode()
known = []
for pat in ("/verif/seeded/%s_m%d/agent_meta.json", "/verif/seeded/%s_r2m%d/agent_meta.json", "/verif/seeded/%s_r3m%d/agent_meta.json", "/verif/seeded/%s_r4m%d/agent_meta.json", "/verif/seeded/%s_r5m%d/agent_meta.json"):
    for i in (1, 2, 3):
        f = pat % (pid, i)
        if os.path.exists(f):
            try:
                known.append((json.load(open(f)).get("summary") or "")[:160])
            except Exception:
                pass
extra = ("FIFTEEN changes have already been produced for this property by others (listed below); do NOT repeat their "
         "ideas or locations. This time ANY kind of realistic change is welcome as long as its idea AND its location differ from the fifteen; good "
         "hunting grounds, wherever in the crate they break THIS property: (a) SUBTLE changes inside the core logic that keep every simple scenario intact - an off-by-one at a "
         "boundary that only long or repeated histories reach, a comparison that differs only on equal values, state "
         "that is updated in the wrong order so that only a particular interleaving of two events shows it, a missing "
         "case for a value that is legal but rare (zero, maximum, empty list, u64::MAX, equal sequence numbers, IPv6), "
         "an early return that skips bookkeeping on an error path; (b) changes that only show after a LONG time or MANY "
         "operations (counters that wrap, caches that fill, timers that are re-armed, the second and later use of "
         "something); (c) changes in how two components interact (an event handled in the other order, a lock held "
         "across a call, a value cached instead of re-read). Avoid pure configuration-plumbing changes (a setter writing "
         "another field, a constructor reading the wrong config field): that class is covered. A change must still be "
         "something a maintainer could plausibly write and a reviewer could plausibly accept. The existing test suite "
         "binds fixed UDP ports and is flaky when other runs happen in parallel on this machine - run it as `unshare -rn "
         "sh -c 'ip link set lo up; cargo test --offline --lib 2>&1 | grep \"test result\"'` (private network "
         "namespace). The ideas already used: " + " || ".join(known) + "\n\n")
base = base.replace("Your task: produce THREE different, realistic changes", extra + "Your task: produce THREE different, realistic changes")
base = base.replace("/tmp/mut_%s" % pid, "/tmp/mut6_%s" % pid)
print(base)
