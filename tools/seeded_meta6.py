#!/usr/bin/env python3
"""Writes seeded/<Cxx>_r6m<i>/meta.json for the round-2 seeded changes from the processing logs
(/tmp/proc2*_<Cxx>.log, later logs override earlier ones) and a table of manual notes.
Usage: seeded_meta2.py [log ...]   (run by hand after tools/process_mutants3.sh; not part of any check)"""
import json, os, re, sys, glob

ROOT = os.path.dirname(os.path.dirname(os.path.abspath(__file__)))
NOTES_FILE = os.path.join(ROOT, "seeded", "round6_notes.json")
notes = json.load(open(NOTES_FILE)) if os.path.exists(NOTES_FILE) else {}

results = {}
confirm = {}
LOGDIR = os.path.join(ROOT, "seeded", "round6_logs")
final_results = {}
for f in sorted(glob.glob(os.path.join(LOGDIR, "final", "*.log"))):
    for line in open(f, errors="replace"):
        m = re.match(r"CHECK (C\d\d_r6m\d): (.*)", line)
        if m and m.group(2).strip():
            final_results[m.group(1)] = m.group(2).strip()
logs = sys.argv[1:] or sorted(glob.glob(os.path.join(LOGDIR, "first", "*.log")))
for f in logs:
    for line in open(f, errors="replace"):
        m = re.match(r"CONFIRM (C\d\d)r3m(\d): (.*)", line)
        if m:
            confirm["%s_r6m%s" % (m.group(1), m.group(2))] = m.group(3).strip()
        m = re.match(r"CHECK (C\d\d_r6m\d): (.*)", line)
        if m:
            results[m.group(1)] = m.group(2).strip()

def classify(s, prop=None):
    if prop:
        segs = [x for x in s.split("[check] ") if x.startswith(prop + " ")]
        if segs:
            s = segs[0]
    if "VIOLATION" in s:
        mm = re.search(r"(\d+) cases.*?(\d+) mismatching files, (\d+) monitor failures", s)
        if mm and int(mm.group(1)) == 0:
            return "invalid-run"
        if "no-failing-input-found" in s:
            return "correspondence only"
        return "caught"
    if "OK property" in s:
        return "missed"
    return "unknown"

for d in sorted(glob.glob(os.path.join(ROOT, "seeded", "C??_r6m?"))):
    mid = os.path.basename(d)
    am = {}
    p = os.path.join(d, "agent_meta.json")
    if os.path.exists(p):
        try:
            am = json.load(open(p))
        except Exception:
            am = {}
    n = notes.get(mid, {})
    res = results.get(mid, "")
    first = n.get("first_result") or classify(res, mid[:3])
    fres = final_results.get(mid, "")
    final_auto = classify(fres, mid[:3]) if fres else first
    meta = {
        "property": mid[:3],
        "round": 6,
        "origin": "fresh sub-agent given only the property text, the summaries of the fifteen changes of rounds 1-5 (to avoid repeats) and the request for any realistic change whose idea and location differ from those; 10 properties only (C02 C05 C08 C09 C10 C11 C12 C14 C17 C20) and a scratch worktree (nothing from /verif)",
        "summary": am.get("summary", ""),
        "needs_to_manifest": am.get("what_it_needs_to_manifest", ""),
        "files_changed": am.get("files_changed", []),
        "how_to_run_demo": am.get("how_to_run_demo", ""),
        "confirmed_by_me": confirm.get(mid, "") and ("tools/confirm_mutant.sh in a scratch worktree: " + confirm.get(mid, "")[:400]),
        "check_run": "tools/seedtest.sh (scratch copy of /verif + scratch worktree of /repo with the patch applied): ./check %s --tier quick" % mid[:3],
        "check_output": res[:500],
        "first_result": first,
        "final_check_output": fres[:500],
        "final_result": n.get("final_result") or (final_auto if final_auto == first else final_auto + " (after the round-6 strengthening, see DESIGN.md section 12)"),
    }
    if n.get("note"):
        meta["note"] = n["note"]
    json.dump(meta, open(os.path.join(d, "meta.json"), "w"), indent=1)
    print(mid, "|", meta["first_result"], "|", meta["final_result"][:80])
