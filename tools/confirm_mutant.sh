#!/bin/bash
# confirm_mutant.sh <mutant dir with patch.diff + demo.patch|demo.rs> <tag>
# Confirms in a scratch worktree: builds (with/without hooks), existing tests pass with the mutation,
# the demonstration fails with the mutation and passes without it.
d=$1; tag=$2
W=/tmp/confirm_wt_${CONFIRM_ID:-0}
export CARGO_TARGET_DIR=/tmp/confirm_target_${CONFIRM_ID:-0} CARGO_NET_OFFLINE=true
[ -d $W ] || git -C /repo worktree add -q --detach $W HEAD
git -C $W checkout -q --detach $(git -C /repo rev-parse HEAD); git -C $W checkout -q -- .; git -C $W clean -fdq
cd $W
res="$tag:"
git apply $d/patch.diff || { echo "$res patch does not apply"; exit 1; }
cargo build --offline -q 2>/dev/null && res="$res build=ok" || res="$res build=FAIL"
cargo build --offline -q --features verif-hooks 2>/dev/null && res="$res build_hooks=ok" || res="$res build_hooks=FAIL"
# the suite binds fixed UDP ports: run it in a private network namespace so that parallel runs do not clash
runtests() { cargo test --offline --lib --no-run -q 2>/dev/null; unshare -rn sh -c 'ip link set lo up; cargo test --offline --lib 2>&1' | grep -E "^test result|^test .*FAILED" | tr '\n' ' '; }
t=$(runtests)
for k in 1 2 3; do
  if echo "$t" | grep -q "121 passed; 0 failed"; then break; fi
  sleep $((RANDOM % 7 + 2)); t="$t | retry: $(runtests)"
done
res="$res tests=[$t]"
adddemo() {
  if [ -f $d/demo.patch ]; then git apply $d/demo.patch; else mkdir -p tests; cp $d/demo.rs tests/demo_$tag.rs; fi
}
rundemo() {
  if [ -f $d/demo.patch ]; then cargo test --offline --lib demo_ 2>&1 | grep "^test result" | head -1; else cargo test --offline --test demo_$tag 2>&1 | grep "^test result" | head -1; fi
}
adddemo
res="$res demo_with=[$(rundemo)]"
git apply -R $d/patch.diff
res="$res demo_without=[$(rundemo)]"
git checkout -q -- .; git clean -fdq
echo "$res"
