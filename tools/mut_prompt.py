import json,sys
pid=sys.argv[1]
for l in open('/verif/properties.jsonl'):
    p=json.loads(l)
    if p['id']==pid:
        print(f"""You are testing how robust a verification effort is. You work ONLY inside the git worktree /tmp/mut_{pid} (a checkout of the Rust crate sigp/discv5, Ethereum Discovery v5). Do NOT read, list or use anything under /verif or /repo or any other /tmp/mut_* directory; do not look for verification material anywhere; work from the source code and the property below only.

The property (semantic requirement on the crate):
  Title: {p['title']}
  Statement: {p['statement']}
  It must hold: {p['quantifier']['text']}
  Code mainly involved: {', '.join(p['anchors']['files'])}

Your task: produce THREE different, realistic changes ("mutants") to the crate's source, each of which BREAKS this property while (a) the crate still compiles (`cargo build --offline` and `cargo build --offline --features verif-hooks`), and (b) the crate's existing test suite still passes unedited (`cargo test --offline` must report 121 passed in the lib tests). Make changes of the kind a developer could plausibly introduce (an off-by-one, a dropped or reordered check, a wrong comparison, a forgotten update of a second data structure, a refactoring that loses a case, two sites that each look fine alone) - NOT changes that ordinary use would expose at once. Prefer changes that need something specific to manifest: a particular multi-step sequence of operations, an unusual input, a particular interleaving or timing, a boundary value. The three mutants should touch different mechanisms/locations. Do not touch files under src/verif/ or any `verif_hooks.rs` file or code inside `#[cfg(feature = "verif-hooks")]` blocks, and do not edit existing tests.

For each mutant i = 1,2,3 deliver, under /tmp/mut_{pid}/out/m<i>/:
  - patch.diff : `git diff` of the change against the worktree's HEAD (only the mutation, not the demonstration);
  - demo.rs (or demo.patch adding a #[test] inside the crate if private items are needed) : a demonstration - a unit test or small program - that FAILS with the mutation applied and PASSES without it; say exactly how to run it (e.g. `git apply out/m1/demo.patch && cargo test --offline --lib demo_m1`);
  - meta.json : {{"property": "{pid}", "summary": "...", "what_it_needs_to_manifest": "...", "files_changed": [...], "how_to_run_demo": "...", "existing_tests": "121 passed with the mutation (yes/no)"}}.
Procedure per mutant: start from a clean tree (`git checkout -- . && git clean -fdq -e out -e target`), apply the mutation, build with and without the feature, run `cargo test --offline 2>&1 | grep "test result"` (must be 121 passed, 0 failed for the lib), save patch.diff, then add the demonstration and show it fails; then remove the mutation (keep the demo) and show the demo passes. Use `export CARGO_TARGET_DIR=/tmp/mut_{pid}/target CARGO_NET_OFFLINE=true` for every cargo command (the sandbox has no network). Leave the worktree clean at the end (`git checkout -- . && git clean -fdq -e out -e target`) and delete /tmp/mut_{pid}/target when you are done to free disk space. Final answer: a short table of the three mutants (what, where, what it needs to manifest, demo result with/without).""")
