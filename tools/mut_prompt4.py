import json, sys, os, subprocess
pid = sys.argv[1]
base = subprocess.check_output([sys.executable, os.path.join(os.path.dirname(__file__), "mut_prompt.py"), pid]).decode()
known = []
for pat in ("/verif/seeded/%s_m%d/agent_meta.json", "/verif/seeded/%s_r2m%d/agent_meta.json", "/verif/seeded/%s_r3m%d/agent_meta.json"):
    for i in (1, 2, 3):
        f = pat % (pid, i)
        if os.path.exists(f):
            try:
                known.append((json.load(open(f)).get("summary") or "")[:160])
            except Exception:
                pass
extra = ("NINE changes have already been produced for this property by others (listed below); do NOT repeat their ideas "
         "or locations. This time look for the property's dependence on GLUE code that a focused test of the core logic "
         "would not exercise: the public API in src/discv5.rs, configuration plumbing (src/config.rs, ConfigBuilder::build, "
         "how Config fields reach Handler::spawn / Service::spawn / the socket), src/ipmode.rs, src/node_info.rs, "
         "src/socket/{mod,recv,send}.rs, the select! loops of Handler::start and Service::start and the order of their "
         "arms, conversions between types (NodeContact/NodeAddress/Enr), error paths, metrics that are read back, "
         "default values, and interactions between two subsystems (e.g. the routing table and the handler's sessions, "
         "the ban list and lookups, the event stream and the table). A change may sit in ANY file of the crate as long as "
         "it breaks THIS property. Also: the existing test suite binds fixed UDP ports and is flaky when other runs happen "
         "in parallel on this machine - run it as `unshare -rn sh -c 'ip link set lo up; cargo test --offline --lib 2>&1 "
         "| grep \"test result\"'` (private network namespace). The ideas already used: " + " || ".join(known) + "\n\n")
base = base.replace("Your task: produce THREE different, realistic changes", extra + "Your task: produce THREE different, realistic changes")
base = base.replace("/tmp/mut_%s" % pid, "/tmp/mut4_%s" % pid)
print(base)
