(* StronglySorted helpers. *)
From Coq Require Import List Arith Lia Sorted Permutation Bool.
Import ListNotations.

Lemma SS_app {A} (R : A -> A -> Prop) l1 l2 :
  StronglySorted R l1 -> StronglySorted R l2 ->
  (forall x y, In x l1 -> In y l2 -> R x y) ->
  StronglySorted R (l1 ++ l2).
Proof.
  induction l1 as [|a l1 IH]; simpl; intros H1 H2 H; [exact H2|].
  inversion H1; subst. constructor.
  - apply IH; auto.
  - apply Forall_app. split; [assumption|].
    apply Forall_forall. intros y Hy. apply H; auto.
Qed.

Lemma SS_app_inv {A} (R : A -> A -> Prop) l1 l2 :
  StronglySorted R (l1 ++ l2) ->
  StronglySorted R l1 /\ StronglySorted R l2 /\ (forall x y, In x l1 -> In y l2 -> R x y).
Proof.
  induction l1 as [|a l1 IH]; simpl; intros H.
  - repeat split; auto. constructor. intros x y [].
  - inversion H; subst. destruct (IH H2) as (H1 & H4 & H5).
    apply Forall_app in H3. destruct H3 as [F1 F2].
    repeat split; auto.
    + constructor; auto.
    + intros x y [->|Hx] Hy; [|auto]. rewrite Forall_forall in F2. auto.
Qed.

Lemma SS_filter {A} (R : A -> A -> Prop) p l :
  StronglySorted R l -> StronglySorted R (filter p l).
Proof.
  induction 1 as [|a l Hs IH Hf]; simpl; [constructor|].
  destruct (p a); [|exact IH]. constructor; [exact IH|].
  rewrite Forall_forall in *. intros x Hx. apply filter_In in Hx. apply Hf. tauto.
Qed.

Lemma SS_rev {A} (R : A -> A -> Prop) l :
  StronglySorted R l -> StronglySorted (fun x y => R y x) (rev l).
Proof.
  induction 1 as [|a l Hs IH Hf]; simpl; [constructor|].
  apply SS_app; [exact IH|repeat constructor|].
  intros x y Hx [<-|[]]. rewrite Forall_forall in Hf. apply Hf. apply in_rev. exact Hx.
Qed.

Lemma SS_seq a n : StronglySorted lt (seq a n).
Proof.
  revert a; induction n as [|n IH]; intros a; simpl; constructor; [apply IH|].
  apply Forall_forall. intros x Hx. apply in_seq in Hx. lia.
Qed.

Lemma SS_impl_in {A} (R R' : A -> A -> Prop) l :
  (forall x y, In x l -> In y l -> R x y -> R' x y) ->
  StronglySorted R l -> StronglySorted R' l.
Proof.
  intros H Hs. induction Hs as [|a l Hs IH Hf]; constructor.
  - apply IH. intros x y Hx Hy. apply H; right; assumption.
  - rewrite Forall_forall in *. intros x Hx. apply H; [left; reflexivity|right; exact Hx|auto].
Qed.

Lemma SS_map {A B} (R : B -> B -> Prop) (f : A -> B) l :
  StronglySorted (fun x y => R (f x) (f y)) l -> StronglySorted R (map f l).
Proof.
  induction 1 as [|a l Hs IH Hf]; simpl; constructor; [exact IH|].
  rewrite Forall_forall in *. intros y Hy. apply in_map_iff in Hy. destruct Hy as (x & <- & Hx). auto.
Qed.

Lemma SS_NoDup {A} (R : A -> A -> Prop) l :
  (forall x, ~ R x x) -> StronglySorted R l -> NoDup l.
Proof.
  intros Hirr. induction 1 as [|a l Hs IH Hf]; constructor; [|exact IH].
  intro Hin. rewrite Forall_forall in Hf. exact (Hirr a (Hf a Hin)).
Qed.

Lemma filter_split_perm {A} (p : A -> bool) l :
  Permutation (filter p l ++ filter (fun x => negb (p x)) l) l.
Proof.
  induction l as [|a l IH]; simpl; [constructor|].
  destruct (p a); simpl.
  - constructor. exact IH.
  - apply Permutation_sym. apply Permutation_cons_app. apply Permutation_sym. exact IH.
Qed.
