(* Generic list helpers used by the executable models. Definitions only plus basic facts. *)
From Coq Require Import List Arith Lia Bool NArith.
Import ListNotations.

Fixpoint insert_at {A} (i : nat) (x : A) (l : list A) : list A :=
  match i, l with
  | O, _ => x :: l
  | S i', [] => [x]          (* out of range: Rust would panic; callers prove i <= length l *)
  | S i', y :: l' => y :: insert_at i' x l'
  end.

Fixpoint remove_at {A} (i : nat) (l : list A) : list A :=
  match i, l with
  | _, [] => []
  | O, _ :: l' => l'
  | S i', y :: l' => y :: remove_at i' l'
  end.

Fixpoint upd_at {A} (i : nat) (f : A -> A) (l : list A) : list A :=
  match i, l with
  | _, [] => []
  | O, y :: l' => f y :: l'
  | S i', y :: l' => y :: upd_at i' f l'
  end.

Fixpoint find_index {A} (p : A -> bool) (l : list A) : option nat :=
  match l with
  | [] => None
  | x :: l' => if p x then Some O else option_map S (find_index p l')
  end.

Definition count {A} (p : A -> bool) (l : list A) : nat := length (filter p l).

Lemma insert_at_length {A} i (x : A) l : i <= length l -> length (insert_at i x l) = S (length l).
Proof.
  revert i; induction l as [|y l IH]; intros [|i] H; simpl in *; try lia.
  rewrite IH; lia.
Qed.

Lemma remove_at_length {A} i (l : list A) : i < length l -> length (remove_at i l) = length l - 1.
Proof.
  revert i; induction l as [|y l IH]; intros [|i] H; simpl in *; try lia.
  rewrite IH; lia.
Qed.

Lemma upd_at_length {A} i f (l : list A) : length (upd_at i f l) = length l.
Proof. revert i; induction l as [|y l IH]; intros [|i]; simpl; auto. Qed.

Lemma nth_upd_at_same {A} i f (l : list A) d : i < length l -> nth i (upd_at i f l) d = f (nth i l d).
Proof. revert i; induction l as [|y l IH]; intros [|i] H; simpl in *; try lia; auto. apply IH; lia. Qed.

Lemma nth_upd_at_other {A} i j f (l : list A) d : i <> j -> nth j (upd_at i f l) d = nth j l d.
Proof. revert i j; induction l as [|y l IH]; intros [|i] [|j] H; simpl in *; try congruence; auto. Qed.

Lemma find_index_some {A} p (l : list A) i :
  find_index p l = Some i -> i < length l /\ (forall d, p (nth i l d) = true) /\
  forall j, j < i -> forall d, p (nth j l d) = false.
Proof.
  revert i; induction l as [|x l IH]; intros i H; simpl in *; [discriminate|].
  destruct (p x) eqn:E.
  - inversion H; subst. split; [lia|]. split; [intros; exact E|]. intros; lia.
  - destruct (find_index p l) as [k|] eqn:F; simpl in H; [|discriminate].
    inversion H; subst. destruct (IH k eq_refl) as (H1 & H2 & H3).
    split; [lia|]. split; [intros d; apply H2|].
    intros [|j] Hj d; [exact E|]. apply H3; lia.
Qed.

Lemma find_index_none {A} p (l : list A) : find_index p l = None -> forall x, In x l -> p x = false.
Proof.
  induction l as [|y l IH]; simpl; intros H x Hin; [tauto|].
  destruct (p y) eqn:E; [discriminate|].
  destruct (find_index p l); simpl in H; [discriminate|].
  destruct Hin as [->|Hin]; auto.
Qed.

Lemma In_insert_at {A} i (x y : A) l : In y (insert_at i x l) <-> y = x \/ In y l.
Proof.
  revert i; induction l as [|z l IH]; intros [|i]; simpl; try tauto; intuition auto.
  - apply IH in H0. tauto.
  - right. apply IH. tauto.
  - right. apply IH. tauto.
Qed.

Lemma In_remove_at {A} i (y : A) l : In y (remove_at i l) -> In y l.
Proof.
  revert i; induction l as [|z l IH]; intros [|i]; simpl; try tauto. intros [H|H]; eauto.
Qed.
