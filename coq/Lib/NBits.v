From Coq Require Import NArith Lia List Bool.
Import ListNotations.
Local Open Scope N_scope.

(* a < b when they agree above bit m, and bit m is 0 in a and 1 in b *)
Lemma N_lt_by_bit (a b m : N) :
  (forall k, m < k -> N.testbit a k = N.testbit b k) ->
  N.testbit a m = false -> N.testbit b m = true -> a < b.
Proof.
  intros Hhi Ha Hb.
  assert (Hq : a / 2 ^ (N.succ m) = b / 2 ^ (N.succ m)).
  { apply N.bits_inj. intro k. rewrite !N.div_pow2_bits. apply Hhi. lia. }
  assert (Hp : 2 ^ N.succ m <> 0) by (apply N.pow_nonzero; lia).
  pose proof (N.div_mod a (2 ^ N.succ m) Hp) as Da.
  pose proof (N.div_mod b (2 ^ N.succ m) Hp) as Db.
  assert (Hra : a mod 2 ^ N.succ m < 2 ^ N.succ m) by (apply N.mod_lt; exact Hp).
  assert (Hrb : b mod 2 ^ N.succ m < 2 ^ N.succ m) by (apply N.mod_lt; exact Hp).
  assert (Hba : N.testbit (a mod 2 ^ N.succ m) m = false)
    by (rewrite N.mod_pow2_bits_low by lia; exact Ha).
  assert (Hbb : N.testbit (b mod 2 ^ N.succ m) m = true)
    by (rewrite N.mod_pow2_bits_low by lia; exact Hb).
  set (ra := a mod 2 ^ N.succ m) in *. set (rb := b mod 2 ^ N.succ m) in *.
  assert (Hla : ra < 2 ^ m).
  { destruct (N.eq_dec ra 0) as [E|E].
    - rewrite E. apply N.neq_0_lt_0, N.pow_nonzero. discriminate.
    - assert (E' : 0 < ra) by (apply N.neq_0_lt_0; exact E).
      apply N.log2_lt_pow2; [exact E'|].
      apply N.log2_lt_pow2 in Hra; [|exact E'].
      assert (N.log2 ra <> m).
      { intro Hm. pose proof (N.bit_log2 _ E) as Hbit. rewrite Hm in Hbit. congruence. }
      clear - Hra H. lia. }
  assert (Hlb : 2 ^ m <= rb).
  { destruct (N.le_gt_cases (2 ^ m) rb) as [H|H]; [exact H|exfalso].
    destruct (N.eq_dec rb 0) as [E|E].
    - rewrite E, N.bits_0 in Hbb. discriminate.
    - assert (E' : 0 < rb) by (apply N.neq_0_lt_0; exact E).
      apply N.log2_lt_pow2 in H; [|exact E'].
      rewrite N.bits_above_log2 in Hbb by exact H. discriminate. }
  assert (HP : 2 ^ N.succ m = 2 * 2 ^ m) by apply N.pow_succ_r'.
  rewrite Hq in Da.
  set (q := b / 2 ^ N.succ m) in *. set (P := 2 ^ N.succ m) in *.
  set (p := 2 ^ m) in *.
  clear - Da Db Hla Hlb HP. nia.
Qed.

Definition before (d i j : N) : Prop :=
  (N.testbit d i = true /\ N.testbit d j = true /\ j < i) \/
  (N.testbit d i = true /\ N.testbit d j = false) \/
  (N.testbit d i = false /\ N.testbit d j = false /\ i < j).

Lemma testbit_log2_self x : x <> 0 -> N.testbit x (N.log2 x) = true.
Proof. apply N.bit_log2. Qed.

Lemma before_lt d x y :
  x <> 0 -> y <> 0 -> before d (N.log2 x) (N.log2 y) ->
  N.lxor d x < N.lxor d y.
Proof.
  intros Hx Hy Hb.
  set (i := N.log2 x) in *. set (j := N.log2 y) in *.
  assert (Hxi : N.testbit x i = true) by (apply N.bit_log2; exact Hx).
  assert (Hyj : N.testbit y j = true) by (apply N.bit_log2; exact Hy).
  assert (Hxhi : forall k, i < k -> N.testbit x k = false) by (intros; apply N.bits_above_log2; assumption).
  assert (Hyhi : forall k, j < k -> N.testbit y k = false) by (intros; apply N.bits_above_log2; assumption).
  destruct Hb as [(Hdi & Hdj & Hlt) | [(Hdi & Hdj) | (Hdi & Hdj & Hlt)]].
  - apply N_lt_by_bit with (m := i).
    + intros k Hk. rewrite !N.lxor_spec, Hxhi, Hyhi by lia. reflexivity.
    + rewrite N.lxor_spec, Hdi, Hxi. reflexivity.
    + rewrite N.lxor_spec, Hdi, Hyhi by lia. reflexivity.
  - destruct (N.lt_trichotomy i j) as [Hij | [Hij | Hij]].
    + apply N_lt_by_bit with (m := j).
      * intros k Hk. rewrite !N.lxor_spec, Hxhi, Hyhi by lia. reflexivity.
      * rewrite N.lxor_spec, Hdj, Hxhi by lia. reflexivity.
      * rewrite N.lxor_spec, Hdj, Hyj. reflexivity.
    + rewrite Hij in Hdi. congruence.
    + apply N_lt_by_bit with (m := i).
      * intros k Hk. rewrite !N.lxor_spec, Hxhi, Hyhi by lia. reflexivity.
      * rewrite N.lxor_spec, Hdi, Hxi. reflexivity.
      * rewrite N.lxor_spec, Hdi, Hyhi by lia. reflexivity.
  - apply N_lt_by_bit with (m := j).
    + intros k Hk. rewrite !N.lxor_spec, Hxhi, Hyhi by lia. reflexivity.
    + rewrite N.lxor_spec, Hdj, Hxhi by lia. reflexivity.
    + rewrite N.lxor_spec, Hdj, Hyj. reflexivity.
Qed.

Print Assumptions before_lt.
