(* Byte strings as [list N] (every element meant to be < 256), big-endian integers, checked
   slicing (the Rust [l[a..b]], [l[a..]], [l[..b]], [l[i]], which panic when out of range) and xor
   with a keystream.  Generic definitions and lemmas; nothing here depends on Generated/Params. *)
From Coq Require Import List NArith Arith Bool Lia.
Import ListNotations.

Definition bytes := list N.
Definition byte_ok (b : N) : Prop := (b < 256)%N.
Definition bytes_ok (l : bytes) : Prop := Forall byte_ok l.

Fixpoint bytes_eqb (a b : bytes) : bool :=
  match a, b with
  | [], [] => true
  | x :: a', y :: b' => N.eqb x y && bytes_eqb a' b'
  | _, _ => false
  end.

(* length as an N, for comparisons with the generated constants *)
Definition len (l : bytes) : N := N.of_nat (length l).

(* ---- big-endian integers: [u16/u64/u128::to_be_bytes], [from_be_bytes] ---- *)
Fixpoint to_be (n : nat) (x : N) : bytes :=
  match n with
  | O => []
  | S m => ((x / 256 ^ N.of_nat m) mod 256)%N :: to_be m x
  end.

Fixpoint from_be_acc (acc : N) (l : bytes) : N :=
  match l with
  | [] => acc
  | b :: t => from_be_acc (acc * 256 + b)%N t
  end.
Definition from_be (l : bytes) : N := from_be_acc 0 l.

(* ---- checked slicing: None where the Rust expression panics ---- *)
(* l[a..b] *)
Definition slice (l : bytes) (a b : nat) : option bytes :=
  if (a <=? b)%nat && (b <=? length l)%nat then Some (firstn (b - a) (skipn a l)) else None.
(* l[..b] *)
Definition slice_to (l : bytes) (b : nat) : option bytes :=
  if (b <=? length l)%nat then Some (firstn b l) else None.
(* l[a..] *)
Definition slice_from (l : bytes) (a : nat) : option bytes :=
  if (a <=? length l)%nat then Some (skipn a l) else None.
(* l[i] *)
Definition index (l : bytes) (i : nat) : option N := nth_error l i.

(* ---- xor with a keystream: [cipher.apply_keystream(buf)] with the cipher at position [off] ---- *)
Fixpoint xor_stream (k : nat -> N) (off : nat) (l : bytes) : bytes :=
  match l with
  | [] => []
  | b :: t => N.lxor b (k off) :: xor_stream k (S off) t
  end.

(* ------------------------------------------------------------------------------------------- *)
(* Lemmas *)

Lemma bytes_eqb_eq a b : bytes_eqb a b = true <-> a = b.
Proof.
  revert b. induction a as [|x a IH]; intros [|y b]; cbn; split; intro H; try congruence; try discriminate.
  - apply andb_true_iff in H as [H1 H2]. apply N.eqb_eq in H1. apply IH in H2. congruence.
  - inversion H; subst. rewrite N.eqb_refl. cbn. apply IH. reflexivity.
Qed.

Lemma bytes_eqb_refl a : bytes_eqb a a = true.
Proof. apply bytes_eqb_eq. reflexivity. Qed.

Lemma bytes_eqb_neq a b : bytes_eqb a b = false <-> a <> b.
Proof.
  split; intro H.
  - intro E. apply bytes_eqb_eq in E. congruence.
  - destruct (bytes_eqb a b) eqn:E; auto. apply bytes_eqb_eq in E. contradiction.
Qed.

Lemma to_be_length n x : length (to_be n x) = n.
Proof. induction n; cbn; auto. Qed.

Lemma to_be_ok n x : bytes_ok (to_be n x).
Proof.
  induction n; cbn; constructor; auto. unfold byte_ok. apply N.mod_lt. discriminate.
Qed.

Lemma from_be_acc_to_be n : forall acc x,
  from_be_acc acc (to_be n x) = (acc * 256 ^ N.of_nat n + x mod 256 ^ N.of_nat n)%N.
Proof.
  induction n as [|m IH]; intros acc x.
  - cbn. rewrite N.mod_1_r. lia.
  - cbn [to_be from_be_acc]. rewrite IH.
    replace (N.of_nat (S m)) with (N.succ (N.of_nat m)) by lia.
    rewrite N.pow_succ_r'.
    set (P := (256 ^ N.of_nat m)%N).
    assert (HP : P <> 0%N) by (apply N.pow_nonzero; discriminate).
    rewrite (N.mul_comm 256 P).
    rewrite (N.mod_mul_r x P 256) by (auto; discriminate).
    lia.
Qed.

Lemma from_be_to_be n x : (x < 256 ^ N.of_nat n)%N -> from_be (to_be n x) = x.
Proof.
  intro H. unfold from_be. rewrite from_be_acc_to_be. rewrite N.mod_small by exact H. lia.
Qed.

Lemma from_be_acc_app acc a b : from_be_acc acc (a ++ b) = from_be_acc (from_be_acc acc a) b.
Proof. revert acc. induction a; intros; cbn; auto. Qed.

(* a two-byte big-endian number is below 2^16 *)
Lemma from_be_2 a b : from_be [a; b] = (a * 256 + b)%N.
Proof. reflexivity. Qed.

(* slicing *)
Lemma slice_some l a b : (a <= b)%nat -> (b <= length l)%nat ->
  slice l a b = Some (firstn (b - a) (skipn a l)).
Proof.
  intros H1 H2. unfold slice.
  apply Nat.leb_le in H1, H2. rewrite H1, H2. reflexivity.
Qed.
Lemma slice_to_some l b : (b <= length l)%nat -> slice_to l b = Some (firstn b l).
Proof. intro H. unfold slice_to. apply Nat.leb_le in H. rewrite H. reflexivity. Qed.
Lemma slice_from_some l a : (a <= length l)%nat -> slice_from l a = Some (skipn a l).
Proof. intro H. unfold slice_from. apply Nat.leb_le in H. rewrite H. reflexivity. Qed.
Lemma index_some l i : (i < length l)%nat -> index l i = Some (nth i l 0%N).
Proof.
  intro H. unfold index. destruct (nth_error l i) eqn:E.
  - f_equal. symmetry. apply nth_error_nth. exact E.
  - apply nth_error_None in E. lia.
Qed.

(* xor_stream *)
Lemma xor_stream_length k off l : length (xor_stream k off l) = length l.
Proof. revert off. induction l; intros; cbn; auto. Qed.

Lemma xor_stream_app k off a b :
  xor_stream k off (a ++ b) = xor_stream k off a ++ xor_stream k (off + length a) b.
Proof.
  revert off. induction a as [|x a IH]; intros off; cbn.
  - rewrite Nat.add_0_r. reflexivity.
  - rewrite IH. replace (S off + length a)%nat with (off + S (length a))%nat by lia. reflexivity.
Qed.

Lemma xor_stream_invol k off l : xor_stream k off (xor_stream k off l) = l.
Proof.
  revert off. induction l as [|x l IH]; intros off; cbn; auto.
  rewrite IH. f_equal. rewrite N.lxor_assoc, N.lxor_nilpotent, N.lxor_0_r. reflexivity.
Qed.

Lemma xor_stream_firstn k off n l :
  firstn n (xor_stream k off l) = xor_stream k off (firstn n l).
Proof.
  revert off n. induction l as [|x l IH]; intros off [|n]; cbn; auto. rewrite IH. reflexivity.
Qed.

Lemma xor_stream_skipn k off n l :
  skipn n (xor_stream k off l) = xor_stream k (off + n) (skipn n l).
Proof.
  revert off n. induction l as [|x l IH]; intros off [|n]; cbn; auto.
  - rewrite Nat.add_0_r. reflexivity.
  - rewrite IH. f_equal. lia.
Qed.

Lemma xor_stream_inj k off a b : xor_stream k off a = xor_stream k off b -> a = b.
Proof.
  intro H. rewrite <- (xor_stream_invol k off a), H. apply xor_stream_invol.
Qed.

(* two keystreams that unmask the same bytes to the same bytes agree at those positions *)
Lemma xor_stream_same_result k k' off l :
  xor_stream k' off (xor_stream k off l) = l ->
  forall i, (i < length l)%nat -> k' (off + i)%nat = k (off + i)%nat.
Proof.
  revert off. induction l as [|x l IH]; intros off H i Hi; cbn in *; [lia|].
  inversion H as [[H0 H1]].
  destruct i as [|i].
  - rewrite Nat.add_0_r.
    rewrite N.lxor_assoc in H0.
    assert (E : N.lxor (k off) (k' off) = 0%N).
    { transitivity (N.lxor x (N.lxor x (N.lxor (k off) (k' off)))).
      - rewrite <- N.lxor_assoc, N.lxor_nilpotent, N.lxor_0_l. reflexivity.
      - rewrite H0. apply N.lxor_nilpotent. }
    apply N.lxor_eq in E. auto.
  - replace (off + S i)%nat with (S off + i)%nat by lia. apply IH; auto. lia.
Qed.

Lemma firstn_app_exact {A} (a b : list A) n : n = length a -> firstn n (a ++ b) = a.
Proof.
  intros ->. rewrite firstn_app, Nat.sub_diag, firstn_all. cbn. apply app_nil_r.
Qed.
Lemma skipn_app_exact {A} (a b : list A) n : n = length a -> skipn n (a ++ b) = b.
Proof.
  intros ->. rewrite skipn_app, Nat.sub_diag, skipn_all. reflexivity.
Qed.
Lemma skipn_skipn {A} (l : list A) n m : skipn n (skipn m l) = skipn (m + n) l.
Proof.
  revert l. induction m as [|m IH]; intros l; cbn; [reflexivity|].
  destruct l; [apply skipn_nil|apply IH].
Qed.
Lemma firstn_plus {A} (l : list A) n m : firstn (n + m) l = firstn n l ++ firstn m (skipn n l).
Proof.
  revert l. induction n as [|n IH]; intros l; cbn; [reflexivity|].
  destruct l; cbn; [destruct m; reflexivity|]. rewrite IH. reflexivity.
Qed.
