(* Generic list lemmas used by the routing-table invariant proofs (Proofs/KBucket*.v, Subnet.v,
   ClosestTable.v): insert_at / remove_at / upd_at versus Permutation, app, map, StronglySorted, count. *)
From Coq Require Import List Arith Lia Bool NArith Permutation Sorted.
From Discv5V Require Import Lib.ListX.
Import ListNotations.

Lemma insert_at_perm {A} i (x : A) l : Permutation (insert_at i x l) (x :: l).
Proof.
  revert i; induction l as [|y l IH]; intros [|i]; simpl; try reflexivity.
  eapply perm_trans; [apply perm_skip, IH|apply perm_swap].
Qed.

Lemma insert_at_app_len {A} (x : A) D C : insert_at (length D) x (D ++ C) = D ++ x :: C.
Proof. induction D as [|d D IH]; simpl; [destruct C; reflexivity|]. rewrite IH. reflexivity. Qed.

Lemma insert_at_end {A} (x : A) l : insert_at (length l) x l = l ++ [x].
Proof. induction l as [|d D IH]; simpl; [reflexivity|]. rewrite IH. reflexivity. Qed.

Lemma remove_at_perm {A} i (y : A) l : nth_error l i = Some y -> Permutation l (y :: remove_at i l).
Proof.
  revert i; induction l as [|z l IH]; intros [|i]; simpl; try discriminate.
  - intros H; inversion H; reflexivity.
  - intros H. eapply perm_trans; [apply perm_skip, IH, H|apply perm_swap].
Qed.

Lemma remove_at_app_l {A} i (D C : list A) : i < length D -> remove_at i (D ++ C) = remove_at i D ++ C.
Proof.
  revert i; induction D as [|d D IH]; intros [|i] H; simpl in *; try lia; try reflexivity.
  rewrite IH by lia. reflexivity.
Qed.

Lemma remove_at_app_r {A} j (D C : list A) : remove_at (length D + j) (D ++ C) = D ++ remove_at j C.
Proof.
  induction D as [|d D IH]; simpl; [reflexivity|]. rewrite IH. reflexivity.
Qed.

Lemma remove_at_length' {A} i (l : list A) : length (remove_at i l) <= length l.
Proof. revert i; induction l as [|y l IH]; intros [|i]; simpl; auto. specialize (IH i). lia. Qed.

Lemma find_index_nth_error {A} (p : A -> bool) l i :
  find_index p l = Some i -> exists x, nth_error l i = Some x /\ p x = true.
Proof.
  revert i; induction l as [|y l IH]; intros i H; simpl in *; [discriminate|].
  destruct (p y) eqn:E.
  - inversion H; subst. exists y. split; [reflexivity|exact E].
  - destruct (find_index p l) as [k|]; simpl in H; [|discriminate].
    inversion H; subst. exact (IH k eq_refl).
Qed.

Lemma find_index_none_iff {A} (p : A -> bool) l :
  find_index p l = None <-> forall x, In x l -> p x = false.
Proof.
  split; [apply find_index_none|].
  induction l as [|y l IH]; simpl; intros H; [reflexivity|].
  rewrite (H y (or_introl eq_refl)). rewrite IH; [reflexivity|]. intros; apply H; right; assumption.
Qed.

Lemma find_some_find_index {A} (p : A -> bool) l :
  match find p l with
  | Some x => exists i, find_index p l = Some i /\ nth_error l i = Some x
  | None => find_index p l = None
  end.
Proof.
  induction l as [|y l IH]; simpl; [reflexivity|].
  destruct (p y) eqn:E.
  - exists 0. split; reflexivity.
  - destruct (find p l) as [x|].
    + destruct IH as (i & H1 & H2). exists (S i). rewrite H1. split; [reflexivity|exact H2].
    + rewrite IH. reflexivity.
Qed.

Lemma SS_remove_at {A} (R : A -> A -> Prop) i l : StronglySorted R l -> StronglySorted R (remove_at i l).
Proof.
  intros H; revert i; induction H as [|a l Hs IH Hf]; intros [|i]; simpl; try constructor; auto.
  rewrite Forall_forall in *. intros x Hx. apply Hf. eapply In_remove_at; eauto.
Qed.

Lemma Forall_remove_at {A} (P : A -> Prop) i l : Forall P l -> Forall P (remove_at i l).
Proof. rewrite !Forall_forall. intros H x Hx. apply H. eapply In_remove_at; eauto. Qed.

Lemma map_remove_at {A B} (f : A -> B) i l : map f (remove_at i l) = remove_at i (map f l).
Proof. revert i; induction l as [|y l IH]; intros [|i]; simpl; try reflexivity. rewrite IH. reflexivity. Qed.

Lemma map_insert_at {A B} (f : A -> B) i x l : map f (insert_at i x l) = insert_at i (f x) (map f l).
Proof. revert i; induction l as [|y l IH]; intros [|i]; simpl; try reflexivity. rewrite IH. reflexivity. Qed.

Lemma insert_remove_upd {A} i (x y : A) l :
  nth_error l i = Some y -> insert_at i x (remove_at i l) = upd_at i (fun _ => x) l.
Proof.
  revert i; induction l as [|z l IH]; intros [|i]; simpl; try discriminate; try reflexivity.
  intros H. rewrite (IH _ H). reflexivity.
Qed.

Lemma map_upd_at_same {A B} (f : A -> B) (g : A -> A) i l :
  (forall y, nth_error l i = Some y -> f (g y) = f y) -> map f (upd_at i g l) = map f l.
Proof.
  revert i; induction l as [|z l IH]; intros [|i] H; simpl; try reflexivity.
  - rewrite (H z eq_refl). reflexivity.
  - rewrite IH; [reflexivity|]. intros y Hy. apply H. exact Hy.
Qed.

Lemma upd_at_app_l {A} i (g : A -> A) D C : i < length D -> upd_at i g (D ++ C) = upd_at i g D ++ C.
Proof.
  revert i; induction D as [|d D IH]; intros [|i] H; simpl in *; try lia; try reflexivity.
  rewrite IH by lia. reflexivity.
Qed.

Lemma upd_at_app_r {A} j (g : A -> A) D C : upd_at (length D + j) g (D ++ C) = D ++ upd_at j g C.
Proof. induction D as [|d D IH]; simpl; [reflexivity|]. rewrite IH. reflexivity. Qed.

Lemma In_upd_at {A} i (g : A -> A) l x :
  In x (upd_at i g l) -> In x l \/ exists y, nth_error l i = Some y /\ x = g y.
Proof.
  revert i; induction l as [|z l IH]; intros [|i]; simpl; try tauto.
  - intros [H|H]; [right; exists z; auto|left; right; exact H].
  - intros [H|H]; [left; left; exact H|]. destruct (IH _ H) as [H1|H1]; [left; right; exact H1|right; exact H1].
Qed.

Lemma SS_snoc {A} (R : A -> A -> Prop) l x :
  StronglySorted R l -> Forall (fun y => R y x) l -> StronglySorted R (l ++ [x]).
Proof.
  intros Hs Hf. induction Hs as [|a l Hs IH Ha]; simpl.
  - repeat constructor.
  - inversion Hf; subst. constructor; [apply IH; assumption|].
    apply Forall_app. split; [assumption|]. repeat constructor. assumption.
Qed.

Lemma count_app {A} (p : A -> bool) l1 l2 : count p (l1 ++ l2) = count p l1 + count p l2.
Proof. unfold count. rewrite filter_app, app_length. reflexivity. Qed.

Lemma count_cons {A} (p : A -> bool) x l : count p (x :: l) = (if p x then 1 else 0) + count p l.
Proof. unfold count. simpl. destruct (p x); reflexivity. Qed.

Lemma count_perm {A} (p : A -> bool) l1 l2 : Permutation l1 l2 -> count p l1 = count p l2.
Proof.
  induction 1; try reflexivity.
  - rewrite !count_cons. lia.
  - rewrite !count_cons. lia.
  - congruence.
Qed.

Lemma count_le_length {A} (p : A -> bool) l : count p l <= length l.
Proof. induction l as [|x l IH]; [auto|]. rewrite count_cons. simpl. destruct (p x); lia. Qed.

Lemma count_map {A B} (f : A -> B) (p : B -> bool) l : count p (map f l) = count (fun x => p (f x)) l.
Proof. induction l as [|x l IH]; [reflexivity|]. simpl map. rewrite !count_cons, IH. reflexivity. Qed.

Lemma count_ext {A} (p q : A -> bool) l : (forall x, In x l -> p x = q x) -> count p l = count q l.
Proof.
  induction l as [|x l IH]; intros H; [reflexivity|]. rewrite !count_cons.
  rewrite (H x (or_introl eq_refl)), IH; [reflexivity|]. intros; apply H; right; assumption.
Qed.

Lemma count_remove_at_le {A} (p : A -> bool) i l : count p (remove_at i l) <= count p l.
Proof.
  revert i; induction l as [|y l IH]; intros [|i]; simpl; auto.
  - rewrite count_cons. lia.
  - rewrite !count_cons. specialize (IH i). lia.
Qed.

Lemma count_zero {A} (p : A -> bool) l : (forall x, In x l -> p x = false) -> count p l = 0.
Proof.
  induction l as [|x l IH]; intros H; [reflexivity|]. rewrite count_cons, (H x (or_introl eq_refl)), IH; auto.
  intros; apply H; right; assumption.
Qed.

Lemma nth_error_remove_head {A} (l : list A) : remove_at 0 l = tl l.
Proof. destruct l; reflexivity. Qed.

Lemma NoDup_perm_map {A B} (f : A -> B) l1 l2 : Permutation l1 l2 -> NoDup (map f l1) -> NoDup (map f l2).
Proof. intros H. apply Permutation_NoDup. apply Permutation_map. exact H. Qed.

Lemma NoDup_app_iff {A} (l1 l2 : list A) :
  NoDup (l1 ++ l2) <-> NoDup l1 /\ NoDup l2 /\ (forall x, In x l1 -> In x l2 -> False).
Proof.
  induction l1 as [|a l1 IH]; simpl.
  - split; [intros H; repeat split; [constructor|exact H|tauto]|tauto].
  - split.
    + intros H. inversion H; subst. apply IH in H3. destruct H3 as (H4 & H5 & H6).
      repeat split; auto.
      * constructor; auto. intros Hin. apply H2. apply in_or_app. left. exact Hin.
      * intros x [<-|Hx] Hx2; [apply H2; apply in_or_app; right; exact Hx2|eauto].
    + intros (H1 & H2 & H3). inversion H1; subst. constructor.
      * intros Hin. apply in_app_or in Hin. destruct Hin as [Hin|Hin]; [contradiction|]. eapply H3; eauto.
      * apply IH. repeat split; auto. intros x Hx. apply H3. right. exact Hx.
Qed.

Lemma NoDup_app_remove_r {A} (l1 l2 : list A) : NoDup (l1 ++ l2) -> NoDup l1.
Proof. intros H. apply NoDup_app_iff in H. tauto. Qed.

Lemma NoDup_app_remove_l {A} (l1 l2 : list A) : NoDup (l1 ++ l2) -> NoDup l2.
Proof. intros H. apply NoDup_app_iff in H. tauto. Qed.
