(* Executable model of the iterative queries: src/query_pool/peers/closest.rs (FindNodeQuery),
   src/query_pool/peers/predicate.rs (PredicateQuery), src/query_pool/peers.rs (QueryState) and
   src/query_pool.rs (QueryPool, Query).  Definitions only (no proofs).

   Conventions (DESIGN.md section 4):
   - node ids / keys are N (256-bit in the code: Key<NodeId> hashes to the raw id); the distance of a
     peer is [N.lxor key target]; [Instant]s and [Duration]s are N (nanoseconds), the time is an explicit
     argument of [next] and [pool_poll];
   - [closest_peers : BTreeMap<Distance, QueryPeer>] is a list of (distance, peer) pairs sorted strictly by
     distance; [m_get] / [m_set] / [m_insert] / [m_or_insert] are the map operations the code uses;
   - the two state machines are near-duplicates in the code; they are transcribed once, with the
     [kind] of the query selecting the lines that differ (every such place is marked "differs");
     the plain variant has no [predicate_match] field: [pm] reads it as [true];
   - reported peers are pairs (id, flag): flag is the value of the predicate on the reported record
     ([(self.predicate)(result)] in PredicateQuery::on_success); the plain variant ignores it;
   - panics are explicit: [None] is the panic of [debug_assert!(self.num_waiting > 0)] /
     [self.num_waiting -= 1] (integer underflow).  [peers_returned += len], [no_progress + 1],
     [num_waiting += 1] and [now + peer_timeout] cannot overflow before 2^64 peers / nanoseconds
     and are unbounded here;
   - usize is 64 bits: [next_id.wrapping_add(1)] wraps at 2^64. *)
From Coq Require Import List NArith Bool.
Import ListNotations.
Local Open Scope N_scope.

(* QueryPeerState *)
Inductive pstate := NotContacted | Waiting (deadline : N) | Unresponsive | Failed | Succeeded.

(* QueryPeer *)
Record qpeer := { pkey : N; preturned : N; pmatch : bool; pst : pstate }.

(* QueryProgress *)
Inductive progress := Iterating (no_progress : N) | Stalled | Finished.

Inductive kind := KFindNode | KPredicate.

(* FindNodeQueryConfig / PredicateQueryConfig *)
Record qconfig := { parallelism : N; num_results : N; peer_timeout : N }.

(* FindNodeQuery / PredicateQuery *)
Record query := {
  qkind : kind;
  target : N;
  prog : progress;
  peers : list (N * qpeer);
  num_waiting : N;
  cfg : qconfig
}.

(* QueryState *)
Inductive qstate := SWaiting (p : option N) | SWaitingAtCapacity | SFinished.

Definition set_st (p : qpeer) (s : pstate) : qpeer :=
  {| pkey := pkey p; preturned := preturned p; pmatch := pmatch p; pst := s |}.
Definition new_peer (k : N) (m : bool) : qpeer :=
  {| pkey := k; preturned := 0; pmatch := m; pst := NotContacted |}.

(* the predicate_match flag as read by the code: the plain variant has none *)
Definition pm (k : kind) (p : qpeer) : bool :=
  match k with KFindNode => true | KPredicate => pmatch p end.
(* the flag stored for a new peer *)
Definition flag_of (k : kind) (f : bool) : bool :=
  match k with KFindNode => true | KPredicate => f end.

(* ---- BTreeMap<Distance, QueryPeer> ---- *)
Fixpoint m_get (d : N) (m : list (N * qpeer)) : option qpeer :=
  match m with
  | [] => None
  | (d', p) :: r => if d =? d' then Some p else m_get d r
  end.
(* overwrite the value of an existing entry *)
Fixpoint m_set (d : N) (p : qpeer) (m : list (N * qpeer)) : list (N * qpeer) :=
  match m with
  | [] => []
  | (d', p') :: r => if d =? d' then (d', p) :: r else (d', p') :: m_set d p r
  end.
(* BTreeMap::insert / collect(): a later value replaces an earlier one *)
Fixpoint m_insert (d : N) (p : qpeer) (m : list (N * qpeer)) : list (N * qpeer) :=
  match m with
  | [] => [(d, p)]
  | (d', p') :: r =>
    if d <? d' then (d, p) :: m
    else if d =? d' then (d, p) :: r
    else (d', p') :: m_insert d p r
  end.
(* entry(d).or_insert(p): an existing entry is kept *)
Fixpoint m_or_insert (d : N) (p : qpeer) (m : list (N * qpeer)) : list (N * qpeer) :=
  match m with
  | [] => [(d, p)]
  | (d', p') :: r =>
    if d <? d' then (d, p) :: m
    else if d =? d' then m
    else (d', p') :: m_or_insert d p r
  end.
(* keys().next() *)
Definition m_first (m : list (N * qpeer)) : option N :=
  match m with [] => None | (d, _) :: _ => Some d end.

Definition optN_eqb (a b : option N) : bool :=
  match a, b with Some x, Some y => x =? y | None, None => true | _, _ => false end.

(* FindNodeQuery::with_config / PredicateQuery::with_config.  [known] are the known closest peers
   with their predicate_match flag (PredicateKey); .take(num_results) comes before .collect(). *)
Definition with_config (k : kind) (c : qconfig) (t : N) (known : list (N * bool)) : query :=
  {| qkind := k;
     target := t;
     prog := Iterating 0;
     peers := fold_left (fun m kf => m_insert (N.lxor (fst kf) t) (new_peer (fst kf) (flag_of k (snd kf))) m)
                        (firstn (N.to_nat (num_results c)) known) [];
     num_waiting := 0;
     cfg := c |}.

(* at_capacity *)
Definition at_capacity (q : query) : bool :=
  match prog q with
  | Stalled => num_results (cfg q) <=? num_waiting q
  | Iterating _ => parallelism (cfg q) <=? num_waiting q
  | Finished => true
  end.

Definition set_peers (q : query) (ps : list (N * qpeer)) (nw : N) : query :=
  {| qkind := qkind q; target := target q; prog := prog q; peers := ps; num_waiting := nw; cfg := cfg q |}.
Definition set_prog (q : query) (pr : progress) : query :=
  {| qkind := qkind q; target := target q; prog := pr; peers := peers q; num_waiting := num_waiting q; cfg := cfg q |}.

(* the loop "for peer in closer_peers" of on_success: state = (closest_peers, progress) *)
Definition incorporate (k : kind) (t : N) (num_closest nres : N) (st : list (N * qpeer) * bool) (r : N * bool)
  : list (N * qpeer) * bool :=
  let d := N.lxor t (fst r) in
  let m := m_or_insert d (new_peer (fst r) (flag_of k (snd r))) (fst st) in
  (m, optN_eqb (m_first m) (Some d) || (num_closest <? nres)).

(* on_success; None = panic *)
Definition on_success (q : query) (node : N) (closer : list (N * bool)) : option query :=
  match prog q with
  | Finished => Some q
  | _ =>
    let d := N.lxor node (target q) in
    match m_get d (peers q) with
    | None => Some q                                               (* Entry::Vacant *)
    | Some p =>
      let continue (nw : N) : option query :=
        let p' := {| pkey := pkey p; preturned := preturned p + N.of_nat (length closer);
                     pmatch := pmatch p; pst := Succeeded |} in
        let ps := m_set d p' (peers q) in
        let num_closest := N.of_nat (length ps) in
        let '(ps', progress) :=
          fold_left (incorporate (qkind q) (target q) num_closest (num_results (cfg q))) closer (ps, false) in
        let pr :=
          match prog q with
          | Iterating np =>
            let np' := if progress then 0 else np + 1 in
            if parallelism (cfg q) <=? np' then Stalled else Iterating np'
          | Stalled => if progress then Iterating 0 else Stalled
          | Finished => Finished
          end in
        Some {| qkind := qkind q; target := target q; prog := pr; peers := ps'; num_waiting := nw; cfg := cfg q |} in
      match pst p with
      | Waiting _ => if num_waiting q =? 0 then None else continue (num_waiting q - 1)
      | Unresponsive => continue (num_waiting q)
      | NotContacted | Failed | Succeeded => Some q
      end
    end
  end.

(* on_failure; None = panic *)
Definition on_failure (q : query) (node : N) : option query :=
  match prog q with
  | Finished => Some q
  | _ =>
    let d := N.lxor node (target q) in
    match m_get d (peers q) with
    | None => Some q
    | Some p =>
      match pst p with
      | Waiting _ =>
        if num_waiting q =? 0 then None
        else Some (set_peers q (m_set d (set_st p Failed) (peers q)) (num_waiting q - 1))
      | Unresponsive =>
        match qkind q with
        | KFindNode => Some (set_peers q (m_set d (set_st p Failed) (peers q)) (num_waiting q))
        | KPredicate => Some q           (* differs: the predicate variant only handles Waiting *)
        end
      | _ => Some q
      end
    end
  end.

(* how the loop of [next] ends *)
Inductive loop_out := LEmit (peer : N) | LAtCapacity | LFinished | LEnd.

(* the loop "for peer in self.closest_peers.values_mut()" of [next]: rc = result_counter,
   nw = self.num_waiting; returns the (mutated) rest of the map; None = panic *)
Fixpoint next_loop (k : kind) (c : qconfig) (at_cap : bool) (now : N) (l : list (N * qpeer))
         (rc : option N) (nw : N) : option (list (N * qpeer) * N * loop_out) :=
  match l with
  | [] => Some ([], nw, LEnd)
  | (d, p) :: r =>
    let continue (p' : qpeer) (rc' : option N) (nw' : N) :=
      match next_loop k c at_cap now r rc' nw' with
      | Some (r', nw'', o) => Some ((d, p') :: r', nw'', o)
      | None => None
      end in
    match pst p with
    | NotContacted =>
      if negb at_cap
      then Some ((d, set_st p (Waiting (now + peer_timeout c))) :: r, nw + 1, LEmit (pkey p))
      else Some (l, nw, LAtCapacity)
    | Waiting timeout =>
      if timeout <=? now then
        if nw =? 0 then None else continue (set_st p Unresponsive) rc (nw - 1)
      else if at_cap then Some (l, nw, LAtCapacity)
      else continue p (if pm k p then None else rc) nw      (* differs: "if peer.predicate_match" *)
    | Succeeded =>
      match rc with
      | Some cnt =>
        if pm k p then                                        (* differs: "if peer.predicate_match" *)
          let cnt' := cnt + 1 in
          if num_results c <=? cnt' then Some (l, nw, LFinished) else continue p (Some cnt') nw
        else continue p rc nw
      | None => continue p rc nw
      end
    | Failed | Unresponsive => continue p rc nw
    end
  end.

(* next; None = panic *)
Definition next (q : query) (now : N) : option (query * qstate) :=
  match prog q with
  | Finished => Some (q, SFinished)
  | _ =>
    match next_loop (qkind q) (cfg q) (at_capacity q) now (peers q) (Some 0) (num_waiting q) with
    | None => None
    | Some (ps, nw, o) =>
      let q' := set_peers q ps nw in
      match o with
      | LEmit p => Some (q', SWaiting (Some p))
      | LAtCapacity => Some (q', SWaitingAtCapacity)
      | LFinished => Some (set_prog q' Finished, SFinished)
      | LEnd => if 0 <? nw then Some (q', SWaiting None) else Some (set_prog q' Finished, SFinished)
      end
    end
  end.

Definition is_succeeded (s : pstate) : bool := match s with Succeeded => true | _ => false end.

(* into_result *)
Definition into_result (q : query) : list N :=
  firstn (N.to_nat (num_results (cfg q)))
         (map (fun dp => pkey (snd dp))
              (filter (fun dp => is_succeeded (pst (snd dp)) && pm (qkind q) (snd dp)) (peers q))).

(* ---- a query driven by its caller: events and runs ---- *)
Inductive event :=
| ENext (now : N)
| ESuccess (peer : N) (closer : list (N * bool))
| EFailure (peer : N).

Inductive out := ONext (s : qstate) | OUnit.

Definition step (q : query) (e : event) : option (query * out) :=
  match e with
  | ENext now => match next q now with Some (q', s) => Some (q', ONext s) | None => None end
  | ESuccess p closer => match on_success q p closer with Some q' => Some (q', OUnit) | None => None end
  | EFailure p => match on_failure q p with Some q' => Some (q', OUnit) | None => None end
  end.

(* the state and the outputs after a list of events; None = a panic occurred *)
Fixpoint run (evs : list event) (q : query) : option (query * list out) :=
  match evs with
  | [] => Some (q, [])
  | e :: r =>
    match step q e with
    | None => None
    | Some (q', o) =>
      match run r q' with
      | None => None
      | Some (q'', os) => Some (q'', o :: os)
      end
    end
  end.

(* the peers handed out by next *)
Fixpoint emitted (os : list out) : list N :=
  match os with
  | [] => []
  | ONext (SWaiting (Some p)) :: r => p :: emitted r
  | _ :: r => emitted r
  end.

(* the ids reported by on_success events *)
Fixpoint reported (evs : list event) : list (N * bool) :=
  match evs with
  | [] => []
  | ESuccess _ closer :: r => closer ++ reported r
  | _ :: r => reported r
  end.

Definition is_stalled (q : query) : bool := match prog q with Stalled => true | _ => false end.
Definition is_finished (q : query) : bool := match prog q with Finished => true | _ => false end.

(* was the query Stalled at some point of the run (including its start and its end) *)
Fixpoint ever_stalled (evs : list event) (q : query) : bool :=
  is_stalled q ||
  match evs with
  | [] => false
  | e :: r => match step q e with Some (q', _) => ever_stalled r q' | None => false end
  end.

(* ---- QueryPool ---- *)

(* Query: id is the key in the pool; peer_iter; started (target: the iterator's target) *)
Record pquery := { qiter : query; started : option N }.

Record pool := { next_id : N; query_timeout : N; queries : list (N * pquery) }.

Definition pool_new (timeout : N) : pool := {| next_id := 0; query_timeout := timeout; queries := [] |}.

Definition USIZE : N := 18446744073709551616.    (* 2^64 *)

Fixpoint q_find (i : N) (qs : list (N * pquery)) : option pquery :=
  match qs with
  | [] => None
  | (j, x) :: r => if i =? j then Some x else q_find i r
  end.
(* HashMap::insert: replaces the value of an existing key *)
Fixpoint q_insert (i : N) (x : pquery) (qs : list (N * pquery)) : list (N * pquery) :=
  match qs with
  | [] => [(i, x)]
  | (j, y) :: r => if i =? j then (j, x) :: r else (j, y) :: q_insert i x r
  end.
Fixpoint q_remove (i : N) (qs : list (N * pquery)) : list (N * pquery) :=
  match qs with
  | [] => []
  | (j, y) :: r => if i =? j then r else (j, y) :: q_remove i r
  end.

(* add_findnode_query / add_predicate_query / add *)
Definition pool_add (p : pool) (k : kind) (c : qconfig) (t : N) (known : list (N * bool)) : pool * N :=
  let id := next_id p in
  ({| next_id := (next_id p + 1) mod USIZE; query_timeout := query_timeout p;
      queries := q_insert id {| qiter := with_config k c t known; started := None |} (queries p) |}, id).

Inductive scan := ScNone | ScFinished (id : N) | ScWaiting (id : N) (peer : N) | ScTimeout (id : N).

(* the loop "for (&query_id, query) in self.queries.iter_mut()" of poll, over the ids in [order] *)
Fixpoint poll_scan (now timeout : N) (order : list N) (qs : list (N * pquery)) : option (list (N * pquery) * scan) :=
  match order with
  | [] => Some (qs, ScNone)
  | i :: rest =>
    match q_find i qs with
    | None => poll_scan now timeout rest qs
    | Some x =>
      let st := match started x with Some s => s | None => now end in     (* started.or(Some(now)) *)
      match next (qiter x) now with
      | None => None
      | Some (q', s) =>
        let qs' := q_insert i {| qiter := q'; started := Some st |} qs in
        match s with
        | SFinished => Some (qs', ScFinished i)
        | SWaiting (Some p) => Some (qs', ScWaiting i p)
        | SWaiting None | SWaitingAtCapacity =>
          if timeout <=? now - st                       (* Instant - Instant saturates at zero *)
          then Some (qs', ScTimeout i)
          else poll_scan now timeout rest qs'
        end
      end
    end
  end.

Definition mem_N (i : N) (l : list N) : bool := existsb (N.eqb i) l.

(* The iteration order of the FnvHashMap is not specified: [order] is an oracle (the harness
   observes it).  Ids of [order] that are not in the pool are skipped; queries of the pool that
   [order] does not mention are visited after it, so that every query is visited whatever the
   oracle says. *)
Definition visit_order (order : list N) (qs : list (N * pquery)) : list N :=
  order ++ filter (fun i => negb (mem_N i order)) (map fst qs).

(* QueryPoolState (the Waiting variant carries the id of the query instead of a reference) *)
Inductive pstate_out :=
| PIdle
| PWaiting (r : option (N * N))
| PFinished (id : N) (q : pquery)
| PTimeout (id : N) (q : pquery).

(* poll; None = panic (of next, or of the expect("s.a.")) *)
Definition pool_poll (p : pool) (now : N) (order : list N) : option (pool * pstate_out) :=
  match poll_scan now (query_timeout p) (visit_order order (queries p)) (queries p) with
  | None => None
  | Some (qs, sc) =>
    let mk qs' := {| next_id := next_id p; query_timeout := query_timeout p; queries := qs' |} in
    match sc with
    | ScWaiting i peer => Some (mk qs, PWaiting (Some (i, peer)))
    | ScFinished i =>
      match q_find i qs with Some x => Some (mk (q_remove i qs), PFinished i x) | None => None end
    | ScTimeout i =>
      match q_find i qs with Some x => Some (mk (q_remove i qs), PTimeout i x) | None => None end
    | ScNone =>
      match qs with [] => Some (mk qs, PIdle) | _ => Some (mk qs, PWaiting None) end
    end
  end.

(* get_mut(id) followed by Query::on_success / Query::on_failure (no effect if the id is absent) *)
Definition pool_on_success (p : pool) (i node : N) (closer : list (N * bool)) : option pool :=
  match q_find i (queries p) with
  | None => Some p
  | Some x =>
    match on_success (qiter x) node closer with
    | None => None
    | Some q' => Some {| next_id := next_id p; query_timeout := query_timeout p;
                         queries := q_insert i {| qiter := q'; started := started x |} (queries p) |}
    end
  end.
Definition pool_on_failure (p : pool) (i node : N) : option pool :=
  match q_find i (queries p) with
  | None => Some p
  | Some x =>
    match on_failure (qiter x) node with
    | None => None
    | Some q' => Some {| next_id := next_id p; query_timeout := query_timeout p;
                         queries := q_insert i {| qiter := q'; started := started x |} (queries p) |}
    end
  end.

Inductive pevent :=
| PAdd (k : kind) (c : qconfig) (t : N) (known : list (N * bool))
| PPoll (now : N) (order : list N)
| PSuccess (id node : N) (closer : list (N * bool))
| PFailure (id node : N).

Inductive pout := POAdded (id : N) | POPoll (s : pstate_out) | POUnit.

Definition pstep (p : pool) (e : pevent) : option (pool * pout) :=
  match e with
  | PAdd k c t known => let (p', id) := pool_add p k c t known in Some (p', POAdded id)
  | PPoll now order => match pool_poll p now order with Some (p', s) => Some (p', POPoll s) | None => None end
  | PSuccess i n closer => match pool_on_success p i n closer with Some p' => Some (p', POUnit) | None => None end
  | PFailure i n => match pool_on_failure p i n with Some p' => Some (p', POUnit) | None => None end
  end.

Fixpoint prun (evs : list pevent) (p : pool) : option (pool * list pout) :=
  match evs with
  | [] => Some (p, [])
  | e :: r =>
    match pstep p e with
    | None => None
    | Some (p', o) =>
      match prun r p' with
      | None => None
      | Some (p'', os) => Some (p'', o :: os)
      end
    end
  end.
