(* Executable model of the RLP layer used by src/rpc.rs: the decoding RULES of alloy-rlp 0.3.16
   (src/header.rs: Header::decode, Header::decode_bytes, Header::encode, length_of_length;
    src/decode.rs: static_left_pad, the integer decoders, Bytes, Vec<u64>;
    src/encode.rs: [u8], the integer encoders, Vec<T>, to_be_bytes_trimmed).
   Definitions only (no proofs) so that the model still runs if a proof breaks.

   Conventions (DESIGN.md section 4):
   - a byte is an N (< 256 in the theorems), a byte string is a [list N];
   - [payload_length] (a usize read from the wire, up to 2^64 - 1) is an N and is converted to nat
     only after it has been compared with the length of the buffer; usize is 64 bits wide;
   - results are [Ok v | Err e | Panic]; the error kind mirrors alloy_rlp::Error, the error text of
     [Error::Custom] is a code; every slicing/advance site of the Rust code is a checked
     operation ([split_at]) whose failure is [Panic];
   - loops that are not structurally recursive take a fuel argument; running out of fuel is the
     error [EFuel] (a model artefact, shown never to occur in Proofs/Rlp.v, Proofs/Rpc.v). *)
From Coq Require Import List Arith NArith Bool.
Import ListNotations.
Local Open Scope N_scope.

Definition bytes := list N.

(* alloy_rlp::Error *)
Inductive err :=
| EOverflow | ELeadingZero | EInputTooShort | ENonCanonicalSingleByte | ENonCanonicalSize
| EUnexpectedLength | EUnexpectedString | EUnexpectedList
| ECustom (code : N)        (* Error::Custom(text): the texts of rpc.rs are numbered in Model/Rpc.v *)
| EOpaque                   (* an error produced inside an opaque decoder (Enr::decode) *)
| EFuel.                    (* model artefact: out of fuel *)

Inductive res (A : Type) := Ok (a : A) | Err (e : err) | Panic.
Arguments Ok {A} a.
Arguments Err {A} e.
Arguments Panic {A}.

Definition bind {A B : Type} (r : res A) (f : A -> res B) : res B :=
  match r with Ok a => f a | Err e => Err e | Panic => Panic end.

Declare Scope res_scope.
Delimit Scope res_scope with res.
Notation "x <- e ;; k" := (bind e (fun x => k)) (at level 61, e at next level, right associativity) : res_scope.
Notation "' p <- e ;; k" := (bind e (fun x => match x with p => k end))
  (at level 61, p pattern, e at next level, right associativity) : res_scope.
Local Open Scope res_scope.

Definition len (b : bytes) : N := N.of_nat (length b).

Fixpoint bytes_eqb (a b : bytes) : bool :=
  match a, b with
  | [], [] => true
  | x :: a', y :: b' => N.eqb x y && bytes_eqb a' b'
  | _, _ => false
  end.

(* [&buf[..n]] together with [buf.advance(n)]: panics if n > buf.len() *)
Definition split_at (n : N) (buf : bytes) : option (bytes * bytes) :=
  if len buf <? n then None else Some (firstn (N.to_nat n) buf, skipn (N.to_nat n) buf).

(* uN::from_be_bytes *)
Definition be_to_N (l : bytes) : N := fold_left (fun a b => a * 256 + b) l 0.

(* uN::to_be_bytes for a type of [width] bytes (the value is taken modulo 256^width) *)
Fixpoint be_bytes (width : nat) (x : N) : bytes :=
  match width with O => [] | S k => be_bytes k (x / 256) ++ [x mod 256] end.

Fixpoint drop_zeros (l : bytes) : bytes :=
  match l with 0 :: l' => drop_zeros l' | _ => l end.

(* to_be_bytes_trimmed!: &be[leading_zeros / 8 ..] *)
Definition be_trimmed (width : nat) (x : N) : bytes := drop_zeros (be_bytes width x).

(* ------------------------------------------------------------------------------------------ *)
(* decoding *)

Record header := { hlist : bool; hlen : N }.

(* decode.rs: static_left_pad::<width> followed by from_be_bytes *)
Definition static_left_pad (width : nat) (data : bytes) : res N :=
  if Nat.ltb width (length data) then Err EOverflow else
  match data with
  | [] => Ok 0
  | b :: _ => if b =? 0 then Err ELeadingZero else Ok (be_to_N data)
  end.

(* the last test of Header::decode: [buf.remaining() < payload_length] *)
Definition check_remaining (list : bool) (pl : N) (buf : bytes) : res (header * bytes) :=
  if len buf <? pl then Err EInputTooShort else Ok ({| hlist := list; hlen := pl |}, buf).

(* Header::decode: returns the header and the advanced buffer *)
Definition decode_header (buf : bytes) : res (header * bytes) :=
  match buf with
  | [] => Err EInputTooShort                                 (* get_next_byte *)
  | b :: rest =>
    if b <? 128 then                                         (* 0..=0x7F: the byte is its own payload, buf is not advanced *)
      check_remaining false 1 buf
    else if b <? 184 then                                    (* 0x80..=0xB7 *)
      let pl := b - 128 in
      if pl =? 1 then
        match rest with
        | [] => Err EInputTooShort                           (* get_next_byte *)
        | c :: _ => if c <? 128 then Err ENonCanonicalSingleByte else check_remaining false pl rest
        end
      else check_remaining false pl rest
    else if (b <? 192) || (248 <=? b) then                   (* 0xB8..=0xBF | 0xF8..=0xFF *)
      let list := 248 <=? b in
      let len_of_len := N.to_nat (b - (if list then 247 else 183)) in
      if Nat.ltb (length rest) len_of_len then Err EInputTooShort else
      l <- static_left_pad 8 (firstn len_of_len rest) ;;     (* guarded by the test above *)
      (* usize::try_from(len): infallible on a 64-bit target *)
      if l <? 56 then Err ENonCanonicalSize else check_remaining list l (skipn len_of_len rest)
    else                                                     (* 0xC0..=0xF7 *)
      check_remaining true (b - 192) rest
  end.

(* Header::decode_bytes: payload and advanced buffer *)
Definition decode_bytes (buf : bytes) (is_list : bool) : res (bytes * bytes) :=
  '(h, rest) <- decode_header buf ;;
  if negb (Bool.eqb (hlist h) is_list) then
    Err (if is_list then EUnexpectedString else EUnexpectedList)
  else
    match split_at (hlen h) rest with                        (* advance_unchecked *)
    | Some r => Ok r
    | None => Panic
    end.

(* decode_integer!: u64 is width 8, u16 is width 2 *)
Definition decode_uint (width : nat) (buf : bytes) : res (N * bytes) :=
  '(bs, rest) <- decode_bytes buf false ;;
  v <- static_left_pad width bs ;;
  Ok (v, rest).

(* decode_append::<u64>: while !payload.is_empty() { out.push(u64::decode(&mut payload)?) } *)
Fixpoint decode_u64_items (fuel : nat) (payload : bytes) : res (list N) :=
  match payload with
  | [] => Ok []
  | _ :: _ =>
    match fuel with
    | O => Err EFuel
    | S f =>
      '(v, rest) <- decode_uint 8 payload ;;
      vs <- decode_u64_items f rest ;;
      Ok (v :: vs)
    end
  end.

(* <Vec<u64> as Decodable>::decode *)
Definition decode_u64_list (buf : bytes) : res (list N * bytes) :=
  '(payload, rest) <- decode_bytes buf true ;;
  vs <- decode_u64_items (length payload) payload ;;
  Ok (vs, rest).

(* ------------------------------------------------------------------------------------------ *)
(* encoding *)

(* Header::encode *)
Definition encode_header (list : bool) (pl : N) : bytes :=
  if pl <? 56 then [(if list then 192 else 128) + pl]
  else let be := be_trimmed 8 pl in ((if list then 247 else 183) + len be) :: be.

(* length_of_length *)
Definition length_of_length (pl : N) : N :=
  if pl <? 56 then 1 else 1 + len (be_trimmed 8 pl).

(* Header::length_with_payload *)
Definition length_with_payload (h : header) : N := length_of_length (hlen h) + hlen h.

(* <[u8] as Encodable>::encode *)
Definition encode_bytes (s : bytes) : bytes :=
  match s with
  | [b] => if b <? 128 then [b] else encode_header false 1 ++ s
  | _ => encode_header false (len s) ++ s
  end.

(* uint_impl!: encode for a type of [width] bytes *)
Definition encode_uint (width : nat) (x : N) : bytes :=
  if x =? 0 then [128]
  else if x <? 128 then [x]
  else let be := be_trimmed width x in (128 + len be) :: be.

(* the list framing: a list header over the concatenation of the already encoded items *)
Definition encode_list (items : list bytes) : bytes :=
  let payload := concat items in encode_header true (len payload) ++ payload.

(* <Vec<u64> as Encodable>::encode = encode_list (the header's payload length is the sum of the
   items' [length()], which for integers equals the length of their encoding) *)
Definition encode_u64_list (ds : list N) : bytes := encode_list (map (encode_uint 8) ds).
