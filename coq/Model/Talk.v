(* Executable model of the TALK request object: src/service.rs, [struct TalkRequest], its
   [respond], its [Drop] impl, and the place where it is created ([handle_rpc_request], branch
   [RequestBody::Talk]).  Definitions only (no proofs).

   Conventions (DESIGN.md section 4 and section 6, C20):
   - the channel from the service to the handler ([handler_send], a tokio unbounded mpsc channel)
     is [open] while its receiving end exists; [UnboundedSender::send] fails exactly when the
     receiving end has been dropped/closed.  "Shutdown" is the receiver going away.  What has been
     sent is the [inbox] (arrival order).  tokio's channel is trusted to be linearizable, so
     concurrent use of request objects from several tasks is an interleaving of the atomic
     operations below;
   - a request id is a number (the harness encodes the id bytes injectively), a node address is an
     interned number, a payload is a list of bytes;
   - Rust's ownership discipline is modelled as *linear use*: the application owns the request
     objects it has been handed in a pool indexed by handles; [respond] consumes the object
     ([respond(mut self, ..)] takes [self] by value), dropping consumes it, and an object that has
     been consumed cannot be named again.  That a moved value cannot be used and that [Drop::drop]
     runs exactly once per value are guarantees of the Rust language, not of this crate; an
     operation that names a consumed handle is therefore a no-op with result [RNoSuch];
   - the drop glue is explicit: [respond] ends with [self] going out of scope (both on the [Ok]
     path and on the [?] path), which runs [Drop::drop] on what is left of the value;
   - [mh] in a message is a ghost field (the handle of the object that sent it); it is not part of
     the encodings compared with the implementation;
   - panics are explicit: [self.sender.take().unwrap()] is [RPanic] when the sender is gone. *)
From Coq Require Import List NArith Bool.
Import ListNotations.
Local Open Scope N_scope.

Inductive chan := HandlerChan.     (* the one channel: service -> handler *)

(* struct TalkRequest { id, node_address, protocol, body, sender: Option<UnboundedSender<HandlerIn>> }
   (protocol and body are read-only data handed to the application; they play no role here) *)
Record talk := { tid : N; taddr : N; tsender : option chan }.

(* HandlerIn::Response(node_address, Response { id, body: ResponseBody::Talk { response } }) *)
Record msg := { mh : N; mid : N; maddr : N; mbody : list N }.

Record world := {
  open : bool;                       (* the receiving end of the channel exists *)
  inbox : list msg;                  (* messages accepted by the channel, oldest first *)
  pool : list (N * talk);            (* request objects owned by the application *)
  next : N;                          (* next handle *)
  delivered : list (N * (N * N))     (* ghost: handle -> (id, address) of every delivery *)
}.

Definition init : world :=
  {| open := true; inbox := []; pool := []; next := 0; delivered := [] |}.

Inductive res :=
| ROk              (* respond: Ok(()) *)
| RErr             (* respond: Err(ResponseError::ChannelClosed) *)
| RPanic           (* a panic *)
| RUnit            (* deliver / drop / hold / shutdown: no value *)
| RNoSuch.         (* the handle names no live object: not expressible in Rust (moved value) *)

(* UnboundedSender::send: Err iff the receiver is gone *)
Definition send (w : world) (m : msg) : world * bool :=
  if open w
  then ({| open := open w; inbox := inbox w ++ [m]; pool := pool w; next := next w;
           delivered := delivered w |}, true)
  else (w, false).

(* Option::take on the sender field *)
Definition take_sender (t : talk) : talk := {| tid := tid t; taddr := taddr t; tsender := None |}.

(* impl Drop for TalkRequest { fn drop(&mut self) } *)
Definition drop_glue (w : world) (h : N) (t : talk) : world :=
  match tsender t with
  | None => w                                   (* None => return *)
  | Some _ =>                                   (* self.sender.take() = Some(s) *)
    (* response = Response { id, body: Talk { response: vec![] } }; the send error is only logged *)
    fst (send w {| mh := h; mid := tid t; maddr := taddr t; mbody := [] |})
  end.

(* TalkRequest::respond(mut self, response: Vec<u8>) -> Result<(), ResponseError> *)
Definition respond (w : world) (h : N) (t : talk) (payload : list N) : world * res :=
  match tsender t with
  | None => (w, RPanic)                         (* self.sender.take().unwrap() on None *)
  | Some _ =>
    let t' := take_sender t in                  (* self.sender.take() *)
    let (w1, ok) := send w {| mh := h; mid := tid t; maddr := taddr t; mbody := payload |} in
    (* .map_err(|_| ChannelClosed)?  /  Ok(()) : in both cases [self] is dropped here *)
    let w2 := drop_glue w1 h t' in
    (w2, if ok then ROk else RErr)
  end.

Definition lookup (h : N) (p : list (N * talk)) : option talk :=
  match find (fun e => N.eqb (fst e) h) p with Some e => Some (snd e) | None => None end.
Definition remove (h : N) (p : list (N * talk)) : list (N * talk) :=
  filter (fun e => negb (N.eqb (fst e) h)) p.

Definition set_pool (w : world) (p : list (N * talk)) : world :=
  {| open := open w; inbox := inbox w; pool := p; next := next w; delivered := delivered w |}.

Inductive op :=
| ODeliver (id addr : N)           (* handle_rpc_request, RequestBody::Talk: the object reaches the application *)
| ORespond (h : N) (payload : list N)
| ODrop (h : N)                    (* the application lets the object go out of scope *)
| OHold                            (* the application does nothing *)
| OShutdown.                       (* the handler's receiving end is dropped *)

Definition step (w : world) (o : op) : world * res :=
  match o with
  | ODeliver id addr =>
    (* TalkRequest { id, node_address, protocol, body, sender: Some(self.handler_send.clone()) } *)
    let t := {| tid := id; taddr := addr; tsender := Some HandlerChan |} in
    ({| open := open w; inbox := inbox w; pool := pool w ++ [(next w, t)]; next := next w + 1;
        delivered := delivered w ++ [(next w, (id, addr))] |}, RUnit)
  | ORespond h payload =>
    match lookup h (pool w) with
    | None => (w, RNoSuch)
    | Some t => respond (set_pool w (remove h (pool w))) h t payload
    end
  | ODrop h =>
    match lookup h (pool w) with
    | None => (w, RNoSuch)
    | Some t => (drop_glue (set_pool w (remove h (pool w))) h t, RUnit)
    end
  | OHold => (w, RUnit)
  | OShutdown =>
    ({| open := false; inbox := inbox w; pool := pool w; next := next w; delivered := delivered w |}, RUnit)
  end.

Fixpoint run (w : world) (ops : list op) : world * list res :=
  match ops with
  | [] => (w, [])
  | o :: rest => let (w1, r) := step w o in let (w2, rs) := run w1 rest in (w2, r :: rs)
  end.

Definition final (ops : list op) : world := fst (run init ops).
Definition results (ops : list op) : list res := snd (run init ops).

(* the messages object [h] has sent *)
Definition msgs_of (h : N) (w : world) : list msg := filter (fun m => N.eqb (mh m) h) (inbox w).
Definition live (h : N) (w : world) : bool :=
  match lookup h (pool w) with Some _ => true | None => false end.
