(* Executable model of the NODES-response validation of the service (property C11):
   src/kbucket/key.rs (log2_distance), src/service/query_info.rs (findnode_log2distance, rpc_request),
   src/service.rs (handle_rpc_response, NODES branch; active_nodes_responses; rpc_failure).
   Definitions only (no proofs).

   A record (ENR) is modelled by the fields the service looks at (DESIGN.md section 4):
     e_vid   the interned identity of the record's content (equality of [e_vid] is equality of the
             Rust values, as for [Model.KBucket.val]);
     e_id    the node id (= hash of the key that signed the record, guaranteed by Enr::decode);
     e_seq   the sequence number;
     e_udp4 / e_udp6   the (ip, port) of udp4_socket() / udp6_socket();
     e_sub   the IPv4 /24 prefix of ip4() (what the IP filters of the table look at);
     e_size  the length of its RLP encoding.

   [fixes] selects repaired behaviour: every flag [false] is the behaviour of the pinned tree. *)
From Coq Require Import List Arith NArith Bool.
From Discv5V Require Import Generated.Params.
Import ListNotations.
Local Open Scope N_scope.

Record enr := {
  e_vid : N; e_id : N; e_seq : N;
  e_udp4 : option (N * N); e_udp6 : option (N * N);
  e_sub : option N; e_size : N
}.

Record fixes := {
  fix_d4 : bool;     (* D4: the responder's own record counts as distance 0 in the NODES filter *)
  fix_enr1 : bool;   (* a single record answering a [0] request is filtered like any other answer *)
  fix_d5 : bool      (* D5: inject_session_established consults config.table_filter *)
}.
Definition pinned : fixes := {| fix_d4 := false; fix_enr1 := false; fix_d5 := false |}.
Definition repaired : fixes := {| fix_d4 := true; fix_enr1 := true; fix_d5 := true |}.

(* Key::log2_distance: None for identical keys, otherwise 256 - leading_zeros(a xor b) *)
Definition log2_distance (a b : N) : option N :=
  let d := N.lxor a b in if d =? 0 then None else Some (N.log2 d + 1).

(* the same as a number, the own record counting as distance 0 (the property's wording) *)
Definition log2dist (a b : N) : N :=
  match log2_distance a b with Some d => d | None => 0 end.

(* ------------------------------------------------------------------------------------------ *)
(* findnode_log2distance *)

Inductive fd_result :=
| FDPanic                   (* size > 127: panic!("Iterations cannot be greater than 127") *)
| FDNone                    (* target = peer: log2_distance is None *)
| FDSome (l : list N)
| FDOutOfFuel.              (* model artefact; excluded by theorem for size <= 127 *)

(* the while loop; [fuel] bounds the number of iterations *)
Fixpoint fd_loop (fuel : nat) (distance : N) (size : nat) (result : list N) (difference : N)
  : option (list N) :=
  if Nat.ltb (length result) size then
    match fuel with
    | O => None
    | S f =>
      let r1 := if distance + difference <=? 256 then result ++ [distance + difference] else result in
      let r2 := if Nat.ltb (length r1) size then
                  (* distance.checked_sub(difference) *)
                  if difference <=? distance then r1 ++ [distance - difference] else r1
                else r1 in
      fd_loop f distance size r2 (difference + 1)
    end
  else Some result.

Definition fd_from_distance (distance : N) (size : nat) : fd_result :=
  match fd_loop (2 * size + 2) distance size [distance] 1 with
  | Some l => FDSome (firstn size l)      (* result_list[..size]: len >= size when the loop ends *)
  | None => FDOutOfFuel
  end.

Definition findnode_distances (target peer : N) (size : nat) : fd_result :=
  if Nat.ltb 127 size then FDPanic else
  match log2_distance peer target with
  | None => FDNone
  | Some distance => fd_from_distance distance size
  end.

(* QueryInfo::rpc_request: .unwrap_or_else(|| vec![0]).  Panic and fuel exhaustion are kept. *)
Definition rpc_request_distances (target peer : N) (size : nat) : option (list N) :=
  match findnode_distances target peer size with
  | FDSome l => Some l
  | FDNone => Some [0]
  | _ => None
  end.

(* ------------------------------------------------------------------------------------------ *)
(* The distance filter of handle_rpc_response *)

Definition mem (d : N) (ds : list N) : bool := existsb (N.eqb d) ds.

(* distances_requested.len() == 1 && distances_requested[0] == 0 *)
Definition is_enr_request (ds : list N) : bool :=
  match ds with [d] => d =? 0 | _ => false end.

(* the closure of nodes.retain in the general branch *)
Definition dist_requested (fx : fixes) (peer : N) (ds : list N) (r : enr) : bool :=
  match log2_distance peer (e_id r) with
  | Some d => mem d ds
  | None => fix_d4 fx && mem 0 ds        (* pinned: .unwrap_or_else(|| false) *)
  end.

Definition is_own (peer : N) (r : enr) : bool :=
  match log2_distance peer (e_id r) with None => true | Some _ => false end.

(* returns the records kept and whether the responder was banned *)
Definition filter_response (fx : fixes) (peer : N) (ds : list N) (records : list enr)
  : list enr * bool :=
  if is_enr_request ds && negb (fix_enr1 fx) then
    (* "we requested an ENR update" *)
    if Nat.ltb 1 (length records) then (filter (is_own peer) records, true)
    else (records, false)
  else
    let kept := filter (dist_requested fx peer ds) records in
    (kept, Nat.ltb (length kept) (length records)).

(* the property's reading of "accepted": distance from the responder among the requested ones,
   the responder's own record counting as distance 0 *)
Definition on_distance (peer : N) (ds : list N) (r : enr) : bool := mem (log2dist peer (e_id r)) ds.

(* ------------------------------------------------------------------------------------------ *)
(* One outstanding FINDNODE request and the packets answering it *)

Record nodes_resp := { nr_count : nat; nr_received : list enr }.    (* NodesResponse *)
Definition nr_default : nodes_resp := {| nr_count := 1; nr_received := [] |}.

Record active_req := {
  ar_peer : N;                     (* node id of the contact *)
  ar_ds : list N;                  (* distances of the request body *)
  ar_user : bool;                  (* a CallbackResponse::Nodes is attached (find_node_designated_peer) *)
  ar_partial : option nodes_resp   (* entry of active_nodes_responses under the request id *)
}.

Inductive pkt_out :=
| PIgnored                                   (* no active request under the id *)
| PUser (l : list enr)                       (* handed to the user's callback, unfiltered *)
| PStored (banned : bool)                    (* kept, waiting for further packets *)
| PDone (banned : bool) (l : list enr).      (* request completed: [l] is passed to discovered() *)

Definition MAXRESP : nat := Eval vm_compute in N.to_nat MAX_NODES_RESPONSES.

(* handle_rpc_response for Response { id, Nodes { total, nodes } } where id is the id of the
   request [st] (a packet carrying another id finds no request: PIgnored) *)
Definition on_nodes (fx : fixes) (max_nodes_response : nat) (st : option active_req)
  (total : N) (nodes : list enr) : option active_req * pkt_out :=
  match st with
  | None => (None, PIgnored)
  | Some ar =>
    if ar_user ar then (None, PUser nodes) else
    let (kept, banned) := filter_response fx (ar_peer ar) (ar_ds ar) nodes in
    if 1 <? total then
      let cur := match ar_partial ar with Some c => c | None => nr_default end in
      if Nat.ltb (length (nr_received cur)) max_nodes_response
         && (N.of_nat (nr_count cur) <? total)
         && Nat.ltb (nr_count cur) MAXRESP
      then
        (Some {| ar_peer := ar_peer ar; ar_ds := ar_ds ar; ar_user := false;
                 ar_partial := Some {| nr_count := S (nr_count cur);
                                       nr_received := nr_received cur ++ kept |} |},
         PStored banned)
      else (None, PDone banned (nr_received cur ++ kept))
    else
      (* total <= 1: any partial collection is dropped *)
      (None, PDone banned kept)
  end.

(* rpc_failure for the request: partial results are processed *)
Inductive fail_out := FIgnored | FUser | FPartial (l : list enr) | FNothing.
Definition on_failure (st : option active_req) : option active_req * fail_out :=
  match st with
  | None => (None, FIgnored)
  | Some ar =>
    if ar_user ar then (None, FUser) else
    match ar_partial ar with
    | Some c => if Nat.eqb (length (nr_received c)) 0 then (None, FNothing) else (None, FPartial (nr_received c))
    | None => (None, FNothing)
    end
  end.

(* a stream of packets (and failures) for the request id *)
Inductive pkt := PktNodes (total : N) (nodes : list enr) | PktFail.
Inductive step_out := SONodes (o : pkt_out) | SOFail (o : fail_out).

Definition on_pkt (fx : fixes) (maxn : nat) (st : option active_req) (p : pkt)
  : option active_req * step_out :=
  match p with
  | PktNodes total nodes => let (st', o) := on_nodes fx maxn st total nodes in (st', SONodes o)
  | PktFail => let (st', o) := on_failure st in (st', SOFail o)
  end.

Fixpoint run_pkts (fx : fixes) (maxn : nat) (st : option active_req) (ps : list pkt) : list step_out :=
  match ps with
  | [] => []
  | p :: rest => let (st', o) := on_pkt fx maxn st p in o :: run_pkts fx maxn st' rest
  end.

Fixpoint final_state (fx : fixes) (maxn : nat) (st : option active_req) (ps : list pkt) : option active_req :=
  match ps with
  | [] => st
  | p :: rest => final_state fx maxn (fst (on_pkt fx maxn st p)) rest
  end.

(* a NODES packet was collected (not ignored) *)
Definition collected (o : step_out) : bool :=
  match o with SONodes PIgnored => false | SONodes _ => true | SOFail _ => false end.

(* what discovered() reports on the event stream: every record but those carrying the local id *)
Definition reported (local_id : N) (l : list enr) : list enr :=
  filter (fun r => negb (e_id r =? local_id)) l.
