(* Executable model of the RPC message codec: src/rpc.rs (Message::encode = Request::encode /
   Response::encode, Message::decode, RequestId::decode).  Definitions only (no proofs).

   - ENR records are opaque (DESIGN.md section 4): [enr], [enr_encode], [enr_decode] are Section
     variables.  [enr_decode slice] stands for [Enr::<CombinedKey>::decode(&mut &slice[..])] on a
     slice that holds exactly one RLP list item (the only way rpc.rs calls it);
     [enr.size()] is the length of the record's encoding.
   - an IP address is the list of its octets ([IP4]: 4, [IP6]: 16);
   - the [fixed] argument of the decoder selects the repaired NODES branch (the inner list header
     must cover exactly the rest of the payload, DESIGN.md section 7 item D9);
     [fixed = false] is the behaviour of the pinned tree. *)
From Coq Require Import List Arith NArith Bool.
From Discv5V Require Import Generated.Params Model.Rlp.
Import ListNotations.
Local Open Scope N_scope.
Local Open Scope res_scope.

(* the texts of DecoderError::Custom in rpc.rs *)
Definition E_invalid_id : err := ECustom 1.          (* "Invalid ID length" *)
Definition E_invalid_header : err := ECustom 2.      (* "Invalid format of header" *)
Definition E_extra_data : err := ECustom 3.          (* "Reject the extra data" *)
Definition E_not_empty : err := ECustom 4.           (* "Payload should be empty" *)
Definition E_ip_length : err := ECustom 5.           (* "Incorrect List Length" *)
Definition E_port : err := ECustom 6.                (* "PONG response port number invalid" *)
Definition E_distance : err := ECustom 7.            (* "FINDNODE request distance invalid" *)
Definition E_payload_smaller : err := ECustom 8.     (* "Payload size is smaller than payload_length" *)
Definition E_unknown_type : err := ECustom 9.        (* "Unknown RPC message type" *)

Inductive ipaddr := IP4 (octets : bytes) | IP6 (octets : bytes).

(* Ipv6Addr::is_loopback: the address ::1 *)
Definition is_loopback6 (o : bytes) : bool := bytes_eqb o [0;0;0;0;0;0;0;0;0;0;0;0;0;0;0;1].

(* Ipv6Addr::to_ipv4: segments 0..4 are zero and segment 5 is 0 or 0xffff *)
Definition to_ipv4 (o : bytes) : option bytes :=
  if bytes_eqb (firstn 10 o) [0;0;0;0;0;0;0;0;0;0]
     && (bytes_eqb (firstn 2 (skipn 10 o)) [0;0] || bytes_eqb (firstn 2 (skipn 10 o)) [255;255])
  then Some (skipn 12 o) else None.

(* the [match ip_bytes.len()] of the PONG branch *)
Definition ip_of_bytes (b : bytes) : res ipaddr :=
  if Nat.eqb (length b) 4 then Ok (IP4 b)
  else if Nat.eqb (length b) 16 then
    if is_loopback6 b then Ok (IP6 b)
    else match to_ipv4 b with
         | Some v4 => Ok (IP4 v4)
         | None => Ok (IP6 b)
         end
  else Err E_ip_length.

Section Rpc.
  Variable enr : Type.
  Variable enr_encode : enr -> bytes.
  Variable enr_decode : bytes -> option enr.

  Inductive msg :=
  | Ping (id : bytes) (enr_seq : N)                                  (* type 1 *)
  | Pong (id : bytes) (enr_seq : N) (ip : ipaddr) (port : N)          (* type 2 *)
  | FindNode (id : bytes) (distances : list N)                       (* type 3 *)
  | Nodes (id : bytes) (total : N) (nodes : list enr)                (* type 4 *)
  | TalkReq (id : bytes) (protocol request : bytes)                  (* type 5 *)
  | TalkResp (id : bytes) (response : bytes).                        (* type 6 *)

  (* Request::msg_type / Response::msg_type *)
  Definition msg_type (m : msg) : N :=
    match m with
    | Ping _ _ => 1 | Pong _ _ _ _ => 2 | FindNode _ _ => 3
    | Nodes _ _ _ => 4 | TalkReq _ _ _ => 5 | TalkResp _ _ => 6
    end.

  Definition msg_id (m : msg) : bytes :=
    match m with
    | Ping id _ | Pong id _ _ _ | FindNode id _ | Nodes id _ _ | TalkReq id _ _ | TalkResp id _ => id
    end.

  Definition ip_octets (ip : ipaddr) : bytes := match ip with IP4 o => o | IP6 o => o end.

  (* the body of the list: what Request::encode / Response::encode push into [list] *)
  Definition encode_body (m : msg) : bytes :=
    match m with
    | Ping id enr_seq => encode_bytes id ++ encode_uint 8 enr_seq
    | Pong id enr_seq ip port =>
      encode_bytes id ++ encode_uint 8 enr_seq ++ encode_bytes (ip_octets ip) ++ encode_uint 2 port
    | FindNode id distances => encode_bytes id ++ encode_u64_list distances
    | Nodes id total nodes =>
      encode_bytes id ++ encode_uint 8 total ++
      (match nodes with
       | _ :: _ =>                                             (* !nodes.is_empty() *)
         let out := concat (map enr_encode nodes) in
         encode_header true (len out) ++ out
       | [] => encode_header true 0                           (* nodes.encode(): the empty list *)
       end)
    | TalkReq id protocol request => encode_bytes id ++ encode_bytes protocol ++ encode_bytes request
    | TalkResp id response => encode_bytes id ++ encode_bytes response
    end.

  (* Message::encode *)
  Definition encode_msg (m : msg) : bytes :=
    let list := encode_body m in
    msg_type m :: encode_header true (len list) ++ list.

  (* RequestId::decode *)
  Definition request_id_decode (data : bytes) : res bytes :=
    if REQUEST_ID_MAX_LEN <? len data then Err E_invalid_id else Ok data.

  (* the record loop of the NODES branch:
       while !payload.is_empty() {
           let node_header = Header::decode(&mut &payload[..])?;
           if !node_header.list { return Err("Invalid format of header") }
           if node_header.length_with_payload() > payload.len() { return Err("Payload size ...") }
           let enr_rlp = Enr::decode(&mut &payload[..node_header.length_with_payload()])?;
           payload.advance(enr_rlp.size());
           enr_list_rlp.append(&mut vec![enr_rlp]);
       } *)
  Fixpoint decode_records (fuel : nat) (payload : bytes) : res (list enr) :=
    match payload with
    | [] => Ok []
    | _ :: _ =>
      match fuel with
      | O => Err EFuel
      | S f =>
        '(node_header, _) <- decode_header payload ;;
        if negb (hlist node_header) then Err E_invalid_header else
        let lwp := length_with_payload node_header in
        if len payload <? lwp then Err E_payload_smaller else
        match split_at lwp payload with
        | None => Panic                                        (* &payload[..lwp] *)
        | Some (slice, _) =>
          match enr_decode slice with
          | None => Err EOpaque
          | Some e =>
            match split_at (len (enr_encode e)) payload with   (* payload.advance(enr_rlp.size()) *)
            | None => Panic
            | Some (_, payload') =>
              es <- decode_records f payload' ;;
              Ok (e :: es)
            end
          end
        end
      end
    end.

  (* Message::decode, second part: the fields of the list (from [Bytes::decode(payload)] for the
     request id to the end of the function) *)
  Definition decode_body (fixed : bool) (msg_type : N) (payload : bytes) : res msg :=
    '(id_bytes, payload) <- decode_bytes payload false ;;
    id <- request_id_decode id_bytes ;;
    if msg_type =? 1 then                                      (* PingRequest *)
      '(enr_seq, payload) <- decode_uint 8 payload ;;
      match payload with _ :: _ => Err E_not_empty | [] => Ok (Ping id enr_seq) end
    else if msg_type =? 2 then                                 (* PingResponse *)
      '(enr_seq, payload) <- decode_uint 8 payload ;;
      '(ip_bytes, payload) <- decode_bytes payload false ;;
      ip <- ip_of_bytes ip_bytes ;;
      '(raw_port, payload) <- decode_uint 2 payload ;;
      if raw_port =? 0 then Err E_port                         (* NonZeroU16::try_from *)
      else match payload with _ :: _ => Err E_not_empty | [] => Ok (Pong id enr_seq ip raw_port) end
    else if msg_type =? 3 then                                 (* FindNodeRequest *)
      '(distances, payload) <- decode_u64_list payload ;;
      if existsb (fun d => FINDNODE_MAX_DISTANCE <? d) distances then Err E_distance else
      match payload with _ :: _ => Err E_not_empty | [] => Ok (FindNode id distances) end
    else if msg_type =? 4 then                                 (* NodesResponse *)
      '(total, payload) <- decode_uint 8 payload ;;
      '(header, payload) <- decode_header payload ;;
      if negb (hlist header) then Err E_invalid_header else
      (* the repair of D9: if header.payload_length != payload.len() { return Err(..) } *)
      if fixed && negb (hlen header =? len payload) then Err E_extra_data else
      nodes <- decode_records (length payload) payload ;;
      (* the loop ends with an empty payload: the test [!payload.is_empty()] that follows it in
         the code cannot fire *)
      Ok (Nodes id total nodes)
    else if msg_type =? 5 then                                 (* Talk Request *)
      '(protocol, payload) <- decode_bytes payload false ;;
      '(request, payload) <- decode_bytes payload false ;;
      match payload with _ :: _ => Err E_not_empty | [] => Ok (TalkReq id protocol request) end
    else if msg_type =? 6 then                                 (* Talk Response *)
      '(response, payload) <- decode_bytes payload false ;;
      match payload with _ :: _ => Err E_not_empty | [] => Ok (TalkResp id response) end
    else Err E_unknown_type.

  (* Message::decode, first part: length test, type byte, the outer list header *)
  Definition decode_msg (fixed : bool) (data : bytes) : res msg :=
    if len data <? RPC_MIN_MESSAGE_LEN then Err EInputTooShort else
    match data with
    | [] => Panic                                              (* data[0] *)
    | msg_type :: payload =>                                   (* &data[1..] *)
      '(header, payload) <- decode_header payload ;;
      if negb (hlist header) then Err E_invalid_header else
      if negb (hlen header =? len payload) then Err E_extra_data else
      decode_body fixed msg_type payload
    end.
End Rpc.

Arguments Ping {enr}.
Arguments Pong {enr}.
Arguments FindNode {enr}.
Arguments Nodes {enr}.
Arguments TalkReq {enr}.
Arguments TalkResp {enr}.
Arguments msg_type {enr}.
Arguments msg_id {enr}.
