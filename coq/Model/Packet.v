(* Executable model of the discv5.1 packet codec: /repo/src/packet/mod.rs
   (Packet::encode, Packet::encrypt_header, PacketHeader::encode, PacketKind::encode,
    Packet::decode, PacketKind::decode).  Definitions only - the proofs are in Proofs/Packet.v.

   Conventions (DESIGN.md section 4):
   * byte strings are [list N] (Lib/Bytes.v);
   * the AES-128-CTR keystream is abstract: [ks key iv i] is the keystream byte at offset [i] of the
     cipher created by [Aes128Ctr64BE::new(key, iv)];
   * the ENR record of a handshake is opaque: [enr_encode] is [alloy_rlp::encode(&Enr)] and
     [enr_decode b] is [<Enr as Decodable>::decode(&mut &b[..])] - NOTE that the Rust code passes a
     temporary cursor and never looks at what the decoder left unread, so [enr_decode] is the
     decoder applied to a buffer that may continue after the record;
   * every slicing / indexing / try_into().expect() site of the Rust code is a checked operation;
     where the Rust would panic the model returns [Panic];
   * the [ProtocolIdentity] argument of Packet::decode is the default identity (the constants
     PROTOCOL_ID / PROTOCOL_VERSION regenerated from the Rust source). *)
From Coq Require Import List NArith Arith Bool.
From Discv5V Require Import Generated.Params Lib.Bytes.
Import ListNotations.
Local Open Scope N_scope.

(* error.rs: enum PacketError (payload of InvalidEnr dropped) *)
Inductive perr :=
| UnknownPacket | TooLarge | TooSmall | InvalidNodeId | HeaderLengthInvalid (n : N)
| HeaderDecryptionFailed | InvalidAuthDataSize | InvalidVersion (v : N) | InvalidEnr.

Inductive res (A : Type) := Ok (a : A) | Err (e : perr) | Panic.
Arguments Ok {A} a.
Arguments Err {A} e.
Arguments Panic {A}.

Definition bind {A B} (r : res A) (f : A -> res B) : res B :=
  match r with Ok a => f a | Err e => Err e | Panic => Panic end.
(* a checked operation: None = the Rust expression panics *)
Definition chk {A} (o : option A) : res A := match o with Some a => Ok a | None => Panic end.

Local Notation "x <- e ;; k" := (bind e (fun x => k)) (at level 61, e at next level, right associativity).

(* the constants as nat (indices) *)
Definition IVL : nat := N.to_nat IV_LENGTH.
Definition SHL : nat := N.to_nat STATIC_HEADER_LENGTH.
Definition NONCEL : nat := N.to_nat MESSAGE_NONCE_LENGTH.
Definition IDNL : nat := N.to_nat ID_NONCE_LENGTH.
(* ProtocolIdentity::default(): protocol_id: [u8; 6] = *b"discv5", protocol_version: [u8; 2] = 0x0001.to_be_bytes() *)
Definition protocol_id : bytes := to_be (N.to_nat PROTOCOL_ID_LENGTH) PROTOCOL_ID.
Definition protocol_version : bytes := to_be 2 PROTOCOL_VERSION.

Section Packet.
  Variable ks : bytes -> bytes -> nat -> N.
  Variable enr : Type.
  Variable enr_encode : enr -> bytes.
  Variable enr_decode : bytes -> option enr.

  (* enum PacketKind; NodeId = [u8; 32], IdNonce = [u8; 16], enr_seq : u64 *)
  Inductive pkind :=
  | KMessage (src_id : bytes)
  | KWhoAreYou (id_nonce : bytes) (enr_seq : N)
  | KHandshake (src_id : bytes) (id_nonce_sig : bytes) (ephem_pubkey : bytes) (enr_record : option enr).

  (* struct Packet { iv: u128, header: PacketHeader { message_nonce: [u8; 12], protocol_identity, kind }, message } *)
  Record packet := { p_iv : N; p_nonce : bytes; p_kind : pkind; p_message : bytes }.

  (* impl From<&PacketKind> for u8 *)
  Definition kind_flag (k : pkind) : N :=
    match k with KMessage _ => 0 | KWhoAreYou _ _ => 1 | KHandshake _ _ _ _ => 2 end.

  (* PacketKind::is_whoareyou *)
  Definition is_whoareyou (k : pkind) : bool :=
    match k with KWhoAreYou _ _ => true | _ => false end.

  (* PacketKind::encode - the auth_data.  [x as u8] truncates. The debug_assert_eq!s compare a length
     with the sum of the lengths just appended and cannot fail. *)
  Definition kind_encode (k : pkind) : bytes :=
    match k with
    | KMessage src_id => src_id
    | KWhoAreYou id_nonce enr_seq => id_nonce ++ to_be 8 enr_seq
    | KHandshake src_id id_nonce_sig ephem_pubkey enr_record =>
      let sig_size := len id_nonce_sig in
      let pubkey_size := len ephem_pubkey in
      let node_record := match enr_record with Some e => enr_encode e | None => [] end in
      src_id ++ to_be 1 sig_size ++ to_be 1 pubkey_size ++ id_nonce_sig ++ ephem_pubkey ++ node_record
    end.

  (* PacketHeader::encode; [auth_data.len() as u16] truncates *)
  Definition header_encode (p : packet) : bytes :=
    let auth_data := kind_encode (p_kind p) in
    protocol_id ++ protocol_version ++ to_be 1 (kind_flag (p_kind p)) ++ p_nonce p
      ++ to_be 2 (len auth_data) ++ auth_data.

  (* Packet::authenticated_data *)
  Definition authenticated_data (p : packet) : bytes := to_be 16 (p_iv p) ++ header_encode p.

  (* Packet::encrypt_header: key = dst_id.raw()[..16] (NodeId is a [u8; 32]: the slice cannot panic),
     nonce = iv.to_be_bytes() *)
  Definition encrypt_header (p : packet) (dst_id : bytes) : bytes :=
    let header_bytes := header_encode p in
    let key := firstn 16 dst_id in
    let nonce := to_be 16 (p_iv p) in
    xor_stream (ks key nonce) 0 header_bytes.

  (* Packet::encode *)
  Definition encode (p : packet) (dst_id : bytes) : bytes :=
    let header := encrypt_header p dst_id in
    to_be 16 (p_iv p) ++ header ++ p_message p.

  (* NodeId::parse(&[u8]) : Err unless 32 bytes *)
  Definition nodeid_parse (b : bytes) : option bytes :=
    if (length b =? 32)%nat then Some b else None.

  (* PacketKind::decode(kind, auth_data) *)
  Definition kind_decode (kind : N) (auth_data : bytes) : res pkind :=
    match kind with
    | 0 =>
      if negb (length auth_data =? 32)%nat then Err InvalidAuthDataSize else
      match nodeid_parse auth_data with
      | None => Err InvalidNodeId
      | Some src_id => Ok (KMessage src_id)
      end
    | 1 =>
      if negb (length auth_data =? 24)%nat then Err InvalidAuthDataSize else
      (* auth_data[..ID_NONCE_LENGTH].try_into::<[u8; ID_NONCE_LENGTH]>().expect(..) *)
      id_nonce <- chk (slice_to auth_data IDNL) ;;
      (* u64::from_be_bytes(auth_data[ID_NONCE_LENGTH..].try_into().expect(..)) : needs 8 bytes *)
      rest <- chk (slice_from auth_data IDNL) ;;
      if negb (length rest =? 8)%nat then Panic else
      Ok (KWhoAreYou id_nonce (from_be rest))
    | 2 =>
      if (length auth_data <? 34)%nat then Err InvalidAuthDataSize else
      src_bytes <- chk (slice_to auth_data 32) ;;
      match nodeid_parse src_bytes with
      | None => Err InvalidNodeId
      | Some src_id =>
        sig_size_b <- chk (index auth_data 32) ;;
        eph_key_size_b <- chk (index auth_data (32 + 1)) ;;
        let sig_size := N.to_nat sig_size_b in
        let eph_key_size := N.to_nat eph_key_size_b in
        let total_size := (sig_size + eph_key_size)%nat in
        if (length auth_data <? 34 + total_size)%nat then Err InvalidAuthDataSize else
        remaining_data <- chk (slice_from auth_data (32 + 2)) ;;
        id_nonce_sig <- chk (slice remaining_data 0 sig_size) ;;
        ephem_pubkey <- chk (slice remaining_data sig_size total_size) ;;
        if (total_size <? length remaining_data)%nat then
          rec_bytes <- chk (slice_from remaining_data total_size) ;;
          match enr_decode rec_bytes with
          | None => Err InvalidEnr
          | Some e => Ok (KHandshake src_id id_nonce_sig ephem_pubkey (Some e))
          end
        else Ok (KHandshake src_id id_nonce_sig ephem_pubkey None)
      end
    | _ => Err UnknownPacket
    end.

  (* Packet::decode(src_id, protocol_identity = default, data) : (Packet, authenticated_data) *)
  Definition decode (src_id : bytes) (data : bytes) : res (packet * bytes) :=
    if MAX_PACKET_SIZE <? len data then Err TooLarge else
    if len data <? MIN_PACKET_SIZE then Err TooSmall else
    iv <- chk (slice_to data IVL) ;;
    let key := firstn 16 src_id in
    let cipher := ks key iv in
    static_header0 <- chk (slice data IVL (IVL + SHL)) ;;
    let static_header := xor_stream cipher 0 static_header0 in
    if negb (length static_header =? SHL)%nat then Err (HeaderLengthInvalid (len static_header)) else
    pid <- chk (slice_to static_header 6) ;;
    if negb (bytes_eqb pid protocol_id) then Err HeaderDecryptionFailed else
    version_bytes <- chk (slice static_header 6 8) ;;
    if negb (bytes_eqb version_bytes protocol_version) then
      (* u16::from_be_bytes(version_bytes.try_into().expect(..)) *)
      if negb (length version_bytes =? 2)%nat then Panic else
      Err (InvalidVersion (from_be version_bytes))
    else
    flag <- chk (index static_header 8) ;;
    (* static_header[9..9 + MESSAGE_NONCE_LENGTH].try_into::<[u8; MESSAGE_NONCE_LENGTH]>() *)
    message_nonce <- chk (slice static_header 9 (9 + NONCEL)) ;;
    (* u16::from_be_bytes(static_header[STATIC_HEADER_LENGTH - 2..].try_into().expect(..)) *)
    if (SHL <? 2)%nat then Panic else
    size_bytes <- chk (slice_from static_header (SHL - 2)) ;;
    if negb (length size_bytes =? 2)%nat then Panic else
    let auth_data_size := N.to_nat (from_be size_bytes) in
    remaining_data <- chk (slice_from data (IVL + SHL)) ;;
    if (length remaining_data <? auth_data_size)%nat then Err InvalidAuthDataSize else
    auth_data0 <- chk (slice data (IVL + SHL) (IVL + SHL + auth_data_size)) ;;
    (* the cipher has advanced by static_header.len() *)
    let auth_data := xor_stream cipher (length static_header) auth_data0 in
    kind <- kind_decode flag auth_data ;;
    message <- chk (slice_from data (IVL + SHL + auth_data_size)) ;;
    if negb (match message with [] => true | _ => false end) && is_whoareyou kind then Err UnknownPacket else
    let authenticated_data := iv ++ static_header ++ auth_data in
    (* u128::from_be_bytes(iv[..].try_into().expect("IV_LENGTH must be 16 bytes")) *)
    if negb (length iv =? 16)%nat then Panic else
    Ok ({| p_iv := from_be iv; p_nonce := message_nonce; p_kind := kind; p_message := message |},
        authenticated_data).

End Packet.

Arguments KMessage {enr} src_id.
Arguments KWhoAreYou {enr} id_nonce enr_seq.
Arguments KHandshake {enr} src_id id_nonce_sig ephem_pubkey enr_record.
Arguments Build_packet {enr}.
Arguments p_iv {enr}.
Arguments p_nonce {enr}.
Arguments p_kind {enr}.
Arguments p_message {enr}.
Arguments kind_flag {enr}.
Arguments is_whoareyou {enr}.
Arguments kind_encode {enr}.
Arguments header_encode {enr}.
Arguments authenticated_data {enr}.
Arguments encrypt_header ks {enr}.
Arguments encode ks {enr}.
Arguments kind_decode {enr}.
Arguments decode ks {enr}.
