(* Executable model of the inbound packet filter (C18):
     /repo/src/socket/filter/rate_limiter.rs   Limiter (GCRA), RateLimiter
     /repo/src/socket/filter/mod.rs            Filter::initial_pass / final_pass / prune_limiter
     /repo/src/permit_ban.rs                   PermitBanList (the process-global PERMIT_BAN_LIST)
     /repo/src/socket/recv.rs                  RecvHandler::handle_inbound (order of the two passes)
     /repo/src/handler/mod.rs                  Handler::unban_nodes_check
   Definitions only; proofs are in Proofs/Limiter.v.

   Time is explicit: nanoseconds.  IP addresses and node ids are numbers.  Hash maps are association
   lists (only lookups matter); the two hashlink::LruCache fields of the filter are lists in link
   order (front = least recently used).  The metrics-only field raw_packets_received is not
   modelled.  u64 arithmetic: additions / multiplications that would overflow (a panic in debug
   builds, a wrap in release builds) give the explicit verdict VOverflow. *)
From Coq Require Import List NArith Bool.
From Discv5V Require Import Generated.Params.
Import ListNotations.
Local Open Scope N_scope.

Definition U64 : N := 18446744073709551616.     (* 2^64 *)

(* ---------------------------------------------------------------------------------------------- *)
(* association lists N -> A *)

Fixpoint lookup {A} (k : N) (l : list (N * A)) : option A :=
  match l with
  | [] => None
  | (k', x) :: r => if k' =? k then Some x else lookup k r
  end.

(* HashMap::insert: replace the value of an existing key, else add *)
Fixpoint set {A} (k : N) (x : A) (l : list (N * A)) : list (N * A) :=
  match l with
  | [] => [(k, x)]
  | (k', y) :: r => if k' =? k then (k, x) :: r else (k', y) :: set k x r
  end.

Definition unset {A} (k : N) (l : list (N * A)) : list (N * A) :=
  filter (fun e => negb (fst e =? k)) l.

Definition mem (k : N) (l : list N) : bool := existsb (N.eqb k) l.

(* ---------------------------------------------------------------------------------------------- *)
(* Limiter<Key>: GCRA *)

Record limiter := {
  tau : N;                      (* after how long the bucket is full: replenish_all_every in ns *)
  tt : N;                       (* how often one token is replenished: tau / max_tokens *)
  tats : list (N * N)           (* tat_per_key *)
}.

(* fn from_quota(quota) -> Result<Self, &'static str>  (period in nanoseconds: Duration::as_nanos) *)
Definition from_quota (period max_tokens : N) : option limiter :=
  if max_tokens =? 0 then None                  (* "Max number of tokens should be positive" *)
  else if period =? 0 then None                 (* "Replenish time must be positive" *)
  else if U64 <=? period then None              (* try_into::<u64>() fails (then so may t's) *)
  else Some {| tau := period; tt := period / max_tokens; tats := [] |}.

Inductive verdict :=
| VOk
| VTooLarge
| VTooSoon (wait : N)
| VOverflow.                                   (* u64 overflow: panic (debug) / wrap (release) *)

(* The per-key core of fn allows: [o] is tat_per_key.get(key).
     let additional_time = t * tokens;
     if additional_time > tau { return Err(TooLarge) }
     let tat = self.tat_per_key.entry(key.clone()).or_insert(time_since_start);
     let earliest_time = ( *tat + additional_time).saturating_sub(tau);
     if time_since_start < earliest_time { Err(TooSoon(earliest_time - time_since_start)) }
     else { *tat = time_since_start.max( *tat) + additional_time; Ok(()) }
   The result is the new map entry for the key and the verdict. *)
Definition gcra (tau_ t_ : N) (o : option N) (now tokens : N) : option N * verdict :=
  let additional := t_ * tokens in
  if U64 <=? additional then (o, VOverflow)
  else if tau_ <? additional then (o, VTooLarge)
  else
    let tat := match o with Some x => x | None => now end in
    if U64 <=? tat + additional then (Some tat, VOverflow)
    else
      let earliest := (tat + additional) - tau_ in      (* N subtraction saturates at 0 *)
      if now <? earliest then (Some tat, VTooSoon (earliest - now))
      else
        let newtat := N.max now tat + additional in
        if U64 <=? newtat then (Some tat, VOverflow) else (Some newtat, VOk).

(* fn allows(&mut self, time_since_start: Duration, key, tokens)
   `time_since_start.as_nanos() as u64` truncates to 64 bits *)
Definition allows (l : limiter) (elapsed key tokens : N) : limiter * verdict :=
  let now := elapsed mod U64 in
  let (o', v) := gcra (tau l) (tt l) (lookup key (tats l)) now tokens in
  ({| tau := tau l; tt := tt l;
      tats := match o' with Some x => set key x (tats l) | None => tats l end |}, v).

(* fn prune(&mut self, time_limit): self.tat_per_key.retain(|_k, tat| tat >= lim) *)
Definition prune (l : limiter) (elapsed : N) : limiter :=
  let lim := elapsed mod U64 in
  {| tau := tau l; tt := tt l; tats := filter (fun e => lim <=? snd e) (tats l) |}.

(* ---------------------------------------------------------------------------------------------- *)
(* RateLimiter: total quota (mandatory), per node id, per IP.  init_time is the origin of the
   limiter's clock: every call computes time_since_start = now - init_time. *)

Record rate_limiter := {
  init_time : N;
  total_rl : limiter;
  node_rl : option limiter;
  ip_rl : option limiter
}.

Inductive limit_kind := KTotal | KNode (id : N) | KIp (ip : N).

Definition verdict_ok (v : verdict) : bool := match v with VOk => true | _ => false end.

(* fn allows(&mut self, request: &LimitKind) -> Result<(), RateLimitedErr>;  tokens = 1 *)
Definition rl_allows (r : rate_limiter) (now : N) (k : limit_kind) : rate_limiter * verdict :=
  let el := now - init_time r in
  match k with
  | KTotal =>
    let (l', v) := allows (total_rl r) el 0 1 in
    ({| init_time := init_time r; total_rl := l'; node_rl := node_rl r; ip_rl := ip_rl r |}, v)
  | KIp ip =>
    match ip_rl r with
    | Some l =>
      let (l', v) := allows l el ip 1 in
      ({| init_time := init_time r; total_rl := total_rl r; node_rl := node_rl r; ip_rl := Some l' |}, v)
    | None => (r, VOk)
    end
  | KNode id =>
    match node_rl r with
    | Some l =>
      let (l', v) := allows l el id 1 in
      ({| init_time := init_time r; total_rl := total_rl r; node_rl := Some l'; ip_rl := ip_rl r |}, v)
    | None => (r, VOk)
    end
  end.

(* fn prune(&mut self) *)
Definition rl_prune (r : rate_limiter) (now : N) : rate_limiter :=
  let el := now - init_time r in
  {| init_time := init_time r;
     total_rl := prune (total_rl r) el;
     node_rl := option_map (fun l => prune l el) (node_rl r);
     ip_rl := option_map (fun l => prune l el) (ip_rl r) |}.

(* ---------------------------------------------------------------------------------------------- *)
(* PermitBanList; ban entries map to the instant of the unban (None = permanent) *)

Record pbl := {
  permit_ips : list N;
  ban_ips : list (N * option N);
  permit_nodes : list N;
  ban_nodes : list (N * option N)
}.

Definition empty_pbl : pbl := {| permit_ips := []; ban_ips := []; permit_nodes := []; ban_nodes := [] |}.

Definition has_key {A} (k : N) (l : list (N * A)) : bool :=
  match lookup k l with Some _ => true | None => false end.

Definition with_ban_ip (p : pbl) (ip : N) (until : option N) : pbl :=
  {| permit_ips := permit_ips p; ban_ips := set ip until (ban_ips p);
     permit_nodes := permit_nodes p; ban_nodes := ban_nodes p |}.
Definition with_ban_node (p : pbl) (id : N) (until : option N) : pbl :=
  {| permit_ips := permit_ips p; ban_ips := ban_ips p;
     permit_nodes := permit_nodes p; ban_nodes := set id until (ban_nodes p) |}.

(* Handler::unban_nodes_check (every BANNED_NODES_CHECK = 300 s):
     ban_ips.retain(|_, time| time.is_none() || Some(Instant::now()) < *time);  same for ban_nodes *)
Definition still_banned (now : N) (e : N * option N) : bool :=
  match snd e with None => true | Some until => now <? until end.
Definition unban_check (p : pbl) (now : N) : pbl :=
  {| permit_ips := permit_ips p; ban_ips := filter (still_banned now) (ban_ips p);
     permit_nodes := permit_nodes p; ban_nodes := filter (still_banned now) (ban_nodes p) |}.

(* ---------------------------------------------------------------------------------------------- *)
(* hashlink::LruCache<N, A> as a list in link order, bounded *)

Definition lru_get {A} (k : N) (c : list (N * A)) : option A := lookup k c.
(* get_mut: found entries move to the back; [f] is the update done through the reference *)
Definition lru_touch {A} (k : N) (f : A -> A) (c : list (N * A)) : list (N * A) :=
  match lookup k c with
  | Some x => unset k c ++ [(k, f x)]
  | None => c
  end.
(* insert: to the back (an existing key moves), then remove_lru while over capacity *)
Definition lru_insert {A} (cap : N) (k : N) (x : A) (c : list (N * A)) : list (N * A) :=
  let c1 := unset k c ++ [(k, x)] in
  if cap <? N.of_nat (length c1) then tl c1 else c1.

(* ---------------------------------------------------------------------------------------------- *)
(* Filter *)

Record pfilter := {
  enabled : bool;
  rate : option rate_limiter;
  ban_duration : option N;
  known_addrs : list (N * list N);        (* LruCache<IpAddr, HashSet<NodeId>>, KNOWN_ADDRS_SIZE *)
  banned_nodes : list (N * N);            (* LruCache<IpAddr, usize>, BANNED_NODES_SIZE *)
  max_nodes_per_ip : option N;
  max_bans_per_ip : option N
}.

Definition with_rate (f : pfilter) (r : option rate_limiter) : pfilter :=
  {| enabled := enabled f; rate := r; ban_duration := ban_duration f; known_addrs := known_addrs f;
     banned_nodes := banned_nodes f; max_nodes_per_ip := max_nodes_per_ip f; max_bans_per_ip := max_bans_per_ip f |}.
Definition with_known (f : pfilter) (k : list (N * list N)) : pfilter :=
  {| enabled := enabled f; rate := rate f; ban_duration := ban_duration f; known_addrs := k;
     banned_nodes := banned_nodes f; max_nodes_per_ip := max_nodes_per_ip f; max_bans_per_ip := max_bans_per_ip f |}.
Definition with_banned (f : pfilter) (b : list (N * N)) : pfilter :=
  {| enabled := enabled f; rate := rate f; ban_duration := ban_duration f; known_addrs := known_addrs f;
     banned_nodes := b; max_nodes_per_ip := max_nodes_per_ip f; max_bans_per_ip := max_bans_per_ip f |}.

(* self.ban_duration.map(|v| Instant::now() + v) *)
Definition ban_timeout (f : pfilter) (now : N) : option N := option_map (fun d => now + d) (ban_duration f).

(* fn initial_pass(&mut self, src: &SocketAddr) -> bool
     1. permit_ips.contains(ip)        -> true
     2. ban_ips.contains_key(ip)       -> false       (the expiry is NOT looked at here)
     3. (metrics)   4. !enabled        -> true
     5. rate limiter: Ip(ip) refused   -> ban the IP until now + ban_duration, false
                      Total refused    -> false (no ban; the IP token stays consumed)
     6. true                                                                                   *)
Definition initial_pass (f : pfilter) (p : pbl) (ip now : N) : pfilter * pbl * bool :=
  if mem ip (permit_ips p) then (f, p, true)
  else if has_key ip (ban_ips p) then (f, p, false)
  else if negb (enabled f) then (f, p, true)
  else
    match rate f with
    | None => (f, p, true)
    | Some r =>
      let (r1, v1) := rl_allows r now (KIp ip) in
      if negb (verdict_ok v1) then (with_rate f (Some r1), with_ban_ip p ip (ban_timeout f now), false)
      else
        let (r2, v2) := rl_allows r1 now KTotal in
        (with_rate f (Some r2), p, verdict_ok v2)
    end.

(* the known-nodes-per-IP bookkeeping of final_pass: returns the new cache and known_nodes *)
Definition note_known (c : list (N * list N)) (ip id : N) : list (N * list N) * N :=
  match lru_get ip c with
  | Some ids =>
    let ids' := if mem id ids then ids else ids ++ [id] in
    (lru_touch ip (fun _ => ids') c, N.of_nat (length ids'))
  | None => (lru_insert KNOWN_ADDRS_SIZE ip [id] c, 1)
  end.

(* fn final_pass(&mut self, node_address: &NodeAddress, _packet: &Packet) -> bool
     1. permit_nodes.contains(id)      -> true
     2. ban_nodes.contains_key(id)     -> false
     3. !enabled                       -> true
     4. rate limiter NodeId(id) refused -> ban the node until now + ban_duration; if
        max_bans_per_ip = Some m: count of the IP in banned_nodes += 1 and if count >= m ban the
        IP too; an IP seen for the first time is entered with count 0;  false
     5. max_nodes_per_ip = Some m: record the id for the IP; if known_nodes >= m: ban the IP,
        forget its ids, false
     6. true                                                                                   *)
Definition final_pass (f : pfilter) (p : pbl) (ip id now : N) : pfilter * pbl * bool :=
  if mem id (permit_nodes p) then (f, p, true)
  else if has_key id (ban_nodes p) then (f, p, false)
  else if negb (enabled f) then (f, p, true)
  else
    let '(f1, p1, refused) :=
      match rate f with
      | None => (f, p, false)
      | Some r =>
        let (r1, v1) := rl_allows r now (KNode id) in
        let f1 := with_rate f (Some r1) in
        if verdict_ok v1 then (f1, p, false)
        else
          let until := ban_timeout f now in
          let p1 := with_ban_node p id until in
          match max_bans_per_ip f with
          | None => (f1, p1, true)
          | Some m =>
            match lru_get ip (banned_nodes f) with
            | Some cnt =>
              let f2 := with_banned f1 (lru_touch ip (fun c => c + 1) (banned_nodes f)) in
              if m <=? cnt + 1 then (f2, with_ban_ip p1 ip until, true) else (f2, p1, true)
            | None => (with_banned f1 (lru_insert BANNED_NODES_SIZE ip 0 (banned_nodes f)), p1, true)
            end
          end
      end in
    if refused then (f1, p1, false)
    else
      match max_nodes_per_ip f1 with
      | None => (f1, p1, true)
      | Some m =>
        let (k', n) := note_known (known_addrs f1) ip id in
        if m <=? n then (with_known f1 (unset ip k'), with_ban_ip p1 ip (ban_timeout f1 now), false)
        else (with_known f1 k', p1, true)
      end.

(* fn prune_limiter(&mut self)  (every 30 s when the filter is enabled) *)
Definition prune_limiter (f : pfilter) (now : N) : pfilter :=
  with_rate f (option_map (fun r => rl_prune r now) (rate f)).

(* RecvHandler::handle_inbound: what happens to one datagram.
     exempt  = expected_responses contains the source address (solicited traffic bypasses both passes)
     decoded = None: Packet::decode failed; Some None: a WHOAREYOU packet (no source id);
               Some (Some id): message / handshake packet from node id                        *)
Inductive fate := DropIpStage | Unrecognized | DropNodeStage | Deliver.

Definition handle_inbound (f : pfilter) (p : pbl) (exempt : bool) (ip : N) (decoded : option (option N)) (now : N)
  : pfilter * pbl * fate :=
  let '(f1, p1, ok1) := if exempt then (f, p, true) else initial_pass f p ip now in
  if negb ok1 then (f1, p1, DropIpStage)
  else
    match decoded with
    | None => (f1, p1, Unrecognized)
    | Some None => (f1, p1, Deliver)
    | Some (Some id) =>
      let '(f2, p2, ok2) := if exempt then (f1, p1, true) else final_pass f1 p1 ip id now in
      (f2, p2, if ok2 then Deliver else DropNodeStage)
    end.

(* Filter::new *)
Definition new_filter (en : bool) (r : option rate_limiter) (ban : option N) (mn mb : option N) : pfilter :=
  {| enabled := en; rate := r; ban_duration := ban; known_addrs := []; banned_nodes := [];
     max_nodes_per_ip := mn; max_bans_per_ip := mb |}.

(* ---------------------------------------------------------------------------------------------- *)
(* Histories as data (the correspondence run and the trace theorems) *)

(* a history of one Limiter *)
Inductive levent :=
| LAllows (elapsed key tokens : N)
| LPrune (elapsed : N).

Definition levent_time (e : levent) : N :=
  match e with LAllows el _ _ => el | LPrune el => el end.

Definition lstep (l : limiter) (e : levent) : limiter * option verdict :=
  match e with
  | LAllows el k n => let (l', v) := allows l el k n in (l', Some v)
  | LPrune el => (prune l el, None)
  end.

Fixpoint lrun (l : limiter) (evs : list levent) : limiter * list (option verdict) :=
  match evs with
  | [] => (l, [])
  | e :: rest =>
    let (l1, v) := lstep l e in
    let (l2, vs) := lrun l1 rest in (l2, v :: vs)
  end.

(* a history of the filter and the global permit/ban list *)
Inductive fevent :=
| FInitial (ip : N)
| FFinal (ip id : N)
| FInbound (exempt : bool) (ip : N) (decoded : option (option N))
| FPruneLimiter
| FUnbanCheck
(* the application-level calls of Discv5 on the global list (permit_ip / permit_ip_remove, ...);
   a ban carries Some duration or None = permanent *)
| FPermitIp (ip : N) (add : bool)
| FPermitNode (id : N) (add : bool)
| FBanIp (ip : N) (add : bool) (dur : option N)
| FBanNode (id : N) (add : bool) (dur : option N).

Inductive fobs := ONone | OBool (b : bool) | OFate (x : fate).

Definition add_or_remove (add : bool) (x : N) (l : list N) : list N :=
  if add then (if mem x l then l else l ++ [x]) else List.filter (fun y => negb (y =? x)) l.

Definition fstep (f : pfilter) (p : pbl) (e : fevent) (now : N) : pfilter * pbl * fobs :=
  match e with
  | FInitial ip => let '(f', p', b) := initial_pass f p ip now in (f', p', OBool b)
  | FFinal ip id => let '(f', p', b) := final_pass f p ip id now in (f', p', OBool b)
  | FInbound ex ip d => let '(f', p', x) := handle_inbound f p ex ip d now in (f', p', OFate x)
  | FPruneLimiter => (prune_limiter f now, p, ONone)
  | FUnbanCheck => (f, unban_check p now, ONone)
  | FPermitIp ip add =>
    (f, {| permit_ips := add_or_remove add ip (permit_ips p); ban_ips := ban_ips p;
           permit_nodes := permit_nodes p; ban_nodes := ban_nodes p |}, ONone)
  | FPermitNode id add =>
    (f, {| permit_ips := permit_ips p; ban_ips := ban_ips p;
           permit_nodes := add_or_remove add id (permit_nodes p); ban_nodes := ban_nodes p |}, ONone)
  | FBanIp ip add dur =>
    (f, if add then with_ban_ip p ip (option_map (fun d => now + d) dur)
        else {| permit_ips := permit_ips p; ban_ips := unset ip (ban_ips p);
                permit_nodes := permit_nodes p; ban_nodes := ban_nodes p |}, ONone)
  | FBanNode id add dur =>
    (f, if add then with_ban_node p id (option_map (fun d => now + d) dur)
        else {| permit_ips := permit_ips p; ban_ips := ban_ips p;
                permit_nodes := permit_nodes p; ban_nodes := unset id (ban_nodes p) |}, ONone)
  end.

Fixpoint frun (f : pfilter) (p : pbl) (evs : list (fevent * N)) : pfilter * pbl * list fobs :=
  match evs with
  | [] => (f, p, [])
  | (e, now) :: rest =>
    let '(f1, p1, o) := fstep f p e now in
    let '(f2, p2, os) := frun f1 p1 rest in (f2, p2, o :: os)
  end.

(* ---------------------------------------------------------------------------------------------- *)
(* RecvHandler::handle_inbound with the datagram's source socket address, the map of expected
   responses and the packet kind made explicit (the part of the receive task in front of
   [handle_inbound] above):

     if let SocketAddr::V6(ref mut a) = src_address {
         if a.flowinfo() != 0 || a.scope_id() != 0 { a.set_flowinfo(0); a.set_scope_id(0); } }
     let permitted = self.expected_responses.read().get(&src_address).is_some();
     ... initial_pass(&src_address) ... Packet::decode ... packet.src_id() ... final_pass ...
     InboundPacket { src_address, .. } / UnrecognizedFrame { src_address, .. }

   A socket address is (ip, port, flowinfo, scope id); IPv4 addresses have flowinfo = scope id = 0.
   IP addresses are numbers; an IPv4-mapped IPv6 address (::ffff:a.b.c.d) is a different number than
   a.b.c.d: nothing here identifies the two.  The lookup in expected_responses is HashMap::get on the
   whole normalised socket address. *)

Record saddr := SA { sa_ip : N; sa_port : N; sa_flow : N; sa_scope : N }.

Definition saddr_eqb (a b : saddr) : bool :=
  (sa_ip a =? sa_ip b) && (sa_port a =? sa_port b) && (sa_flow a =? sa_flow b) && (sa_scope a =? sa_scope b).

Definition normalise_src (a : saddr) : saddr :=
  if negb (sa_flow a =? 0) || negb (sa_scope a =? 0)
  then {| sa_ip := sa_ip a; sa_port := sa_port a; sa_flow := 0; sa_scope := 0 |}
  else a.

(* PacketKind, as far as the receive task looks at it *)
Inductive pkind := PMessage (src_id : N) | PWhoAreYou | PHandshake (src_id : N).

(* Packet::src_id *)
Definition packet_src_id (k : pkind) : option N :=
  match k with PMessage i => Some i | PWhoAreYou => None | PHandshake i => Some i end.

Definition is_exempt (expected : list saddr) (a : saddr) : bool := existsb (saddr_eqb a) expected.

(* packet = None: Packet::decode fails.  Result: filter, lists, fate and the source address that is
   handed on to the handler (meaningful unless the datagram is dropped). *)
Definition recv_inbound (f : pfilter) (p : pbl) (expected : list saddr) (src : saddr) (packet : option pkind) (now : N)
  : pfilter * pbl * fate * saddr :=
  let a := normalise_src src in
  let '(f', p', x) := handle_inbound f p (is_exempt expected a) (sa_ip a) (option_map packet_src_id packet) now in
  (f', p', x, a).
