(* Executable model of the external-address vote: src/service/ip_vote.rs ([IpVote]) and the PONG
   handling of src/service.rs ([handle_ip_vote_from_pong], [require_more_ip_votes]).
   Definitions only (no proofs).

   Conventions (DESIGN.md section 4 and section 6, C17):
   - node ids and socket addresses are numbers (a socket address is interned: equal numbers =
     equal [SocketAddrV4] / [SocketAddrV6] values); a reported socket is [(is_v6, addr)];
   - time is explicit, in nanoseconds; every [Instant::now()] of the code is a time argument of the
     model function that contains it.  [handle_pong] takes two: [now_q] for the queries
     ([clear_old_votes], the scan of [majority]) and [now_i] for the [insert];
   - a [HashMap<NodeId, (K, Instant)>] is an association list with one entry per node id; the scan
     of [filter_stale_find_most_frequent] runs over the list in list order, theorem [scan_correct]
     (Proofs/IpVote.v) shows that the result does not depend on the order;
   - the clear-majority threshold is computed by the code in f64 arithmetic.  It is modelled
     *exactly* with integers: IEEE-754 binary64 round-to-nearest-even of the decimal literal, of
     the subtraction [1.0 - CLEAR_MAJORITY_PERCENTAGE], of the product, then [f64::round] (half
     away from zero) and the cast.  Fixed point: the unit is 2^-54, so every f64 value in
     [0.25, 2^54) is a whole number of units.  Proofs/IpVote.v relates it to the rational
     0.7 * max (it is NOT always round-half-up of 0.7 * max: 45 gives 31);
   - the local record is [{ seq; udp4; udp6 }]; signing, size check and the sequence bump of
     [Enr::set_udp_socket] are the enr crate's: success is an oracle input [enr_ok] (plus the
     [checked_add] on the sequence number);
   - whether the voter is connected+outgoing in the routing table and whether the connectivity
     state currently counts votes are inputs of [handle_pong] (arbitrary booleans);
   - [usize] counters ([*count += 1]) cannot overflow: a count is bounded by the number of entries
     of a hash map in memory. *)
From Coq Require Import List NArith Bool.
From Discv5V Require Import Generated.Params.
Import ListNotations.
Local Open Scope N_scope.

(* ------------------------------------------------------------------ f64, exactly *)

(* nearest integer to num/den, ties to even *)
Definition rne (num den : N) : N :=
  let q := num / den in
  let r2 := 2 * (num mod den) in
  if r2 <? den then q else if den <? r2 then q + 1 else if N.even q then q else q + 1.

(* IEEE-754 binary64 round-to-nearest-even of the rational num/den, in units of 2^-54:
   53 significant bits are kept.  Exact for num/den >= 2^52 units (values >= 0.25). *)
Definition rne53 (num den : N) : N :=
  let s := N.size (num / den) - 53 in
  rne num (den * 2 ^ s) * 2 ^ s.

Definition F_UNIT : N := 2 ^ 54.
(* const CLEAR_MAJORITY_PERCENTAGE: f64 = 0.3  -- the literal, correctly rounded *)
Definition f_percentage : N := rne53 (CLEAR_MAJORITY_PERCENT * F_UNIT) 100.
(* 1.0 - CLEAR_MAJORITY_PERCENTAGE *)
Definition f_keep : N := rne53 (F_UNIT - f_percentage) 1.
(* ((max_count as f64) * (1.0 - CLEAR_MAJORITY_PERCENTAGE)).round() as usize
   [max_count as f64] is exact for max_count < 2^53. *)
Definition threshold (max_count : N) : N := (rne53 (max_count * f_keep) 1 + 2 ^ 53) / 2 ^ 54.

(* ------------------------------------------------------------------ IpVote *)

Record vote := { vnode : N; vaddr : N; vexp : N }.

Record ipvote := {
  v4 : list vote;            (* ipv4_votes *)
  v6 : list vote;            (* ipv6_votes *)
  minimum : N;               (* minimum_threshold *)
  duration : N               (* vote_duration *)
}.

(* IpVote::new: panics for minimum_threshold < 2 *)
Definition new_ipvote (minimum_threshold vote_duration : N) : option ipvote :=
  if minimum_threshold <? 2 then None
  else Some {| v4 := []; v6 := []; minimum := minimum_threshold; duration := vote_duration |}.

(* HashMap::insert(key, value): replaces the entry of the key *)
Definition put (v : vote) (l : list vote) : list vote :=
  filter (fun x => negb (N.eqb (vnode x) (vnode v))) l ++ [v].

(* IpVote::insert(key, socket): expiry = Instant::now() + vote_duration *)
Definition insert (s : ipvote) (node : N) (sock : bool * N) (now : N) : ipvote :=
  let v := {| vnode := node; vaddr := snd sock; vexp := now + duration s |} in
  if fst sock
  then {| v4 := v4 s; v6 := put v (v6 s); minimum := minimum s; duration := duration s |}
  else {| v4 := put v (v4 s); v6 := v6 s; minimum := minimum s; duration := duration s |}.

(* retain(|_, v| v.1 > instant) / "if instant <= &now { continue }" *)
Definition fresh (now : N) (v : vote) : bool := now <? vexp v.
Definition prune (now : N) (l : list vote) : list vote := filter (fresh now) l.

(* IpVote::has_minimum_threshold: clear_old_votes, then the two lengths *)
Definition has_minimum_threshold (s : ipvote) (now : N) : ipvote * (bool * bool) :=
  let a := prune now (v4 s) in
  let b := prune now (v6 s) in
  ({| v4 := a; v6 := b; minimum := minimum s; duration := duration s |},
   (minimum s <=? N.of_nat (length a), minimum s <=? N.of_nat (length b))).

(* the loop state of filter_stale_find_most_frequent *)
Record scan := {
  counter : list (N * N);     (* FnvHashMap<K, usize> *)
  max_count : N;
  second_max_count : N;
  max_vote : option N
}.

Definition init_scan : scan := {| counter := []; max_count := 0; second_max_count := 0; max_vote := None |}.

Fixpoint get (a : N) (c : list (N * N)) : N :=
  match c with [] => 0 | (k, n) :: r => if N.eqb k a then n else get a r end.
Fixpoint set (a n : N) (c : list (N * N)) : list (N * N) :=
  match c with
  | [] => [(a, n)]
  | (k, m) :: r => if N.eqb k a then (k, n) :: r else (k, m) :: set a n r
  end.

Definition is_vote (o : option N) (a : N) : bool :=
  match o with Some b => N.eqb b a | None => false end.
Definition is_some (o : option N) : bool := match o with Some _ => true | None => false end.

(* one iteration of "for (node_id, (vote, instant)) in votes" *)
Definition scan_step (now : N) (s : scan) (v : vote) : scan :=
  if negb (fresh now v) then s                          (* Discard stale votes *)
  else
    let a := vaddr v in
    let count := get a (counter s) + 1 in               (* counter.entry(vote).or_default(); count += 1 *)
    let ctr := set a count (counter s) in
    if max_count s <? count then
      {| counter := ctr;
         (* Only update second_max if the previous max was from a different vote *)
         second_max_count := if is_some (max_vote s) && negb (is_vote (max_vote s) a)
                             then max_count s else second_max_count s;
         max_count := count;
         max_vote := Some a |}
    else if (second_max_count s <? count) && negb (is_vote (max_vote s) a) then
      {| counter := ctr; max_count := max_count s; second_max_count := count; max_vote := max_vote s |}
    else
      {| counter := ctr; max_count := max_count s; second_max_count := second_max_count s; max_vote := max_vote s |}.

Definition run_scan (now : N) (l : list vote) : scan := fold_left (scan_step now) l init_scan.

(* "Check if we have a clear winner" *)
Definition verdict (minimum_threshold : N) (s : scan) : option N :=
  if minimum_threshold <=? max_count s then
    if threshold (max_count s) <=? second_max_count s then None else max_vote s
  else None.

(* filter_stale_find_most_frequent(votes, minimum_threshold) -> (updated, result) *)
Definition filter_stale_find_most_frequent (l : list vote) (minimum_threshold now : N)
  : list vote * option N :=
  (prune now l, verdict minimum_threshold (run_scan now l)).

(* IpVote::majority *)
Definition majority (s : ipvote) (now : N) : ipvote * (option N * option N) :=
  let (a, ra) := filter_stale_find_most_frequent (v4 s) (minimum s) now in
  let (b, rb) := filter_stale_find_most_frequent (v6 s) (minimum s) now in
  ({| v4 := a; v6 := b; minimum := minimum s; duration := duration s |}, (ra, rb)).

(* operations of the facade, for the correspondence run *)
Inductive vop :=
| VInsert (node : N) (sock : bool * N)
| VMajority
| VHasMin.

Inductive vout :=
| VUnit
| VMaj (r : option N * option N)
| VMin (r : bool * bool).

Definition vstep (s : ipvote) (o : vop) (now : N) : ipvote * vout :=
  match o with
  | VInsert n sock => (insert s n sock now, VUnit)
  | VMajority => let (s', r) := majority s now in (s', VMaj r)
  | VHasMin => let (s', r) := has_minimum_threshold s now in (s', VMin r)
  end.

(* ------------------------------------------------------------------ the service's PONG handling *)

Record local_enr := { seq : N; udp4 : option N; udp6 : option N }.

Record service := {
  ip_votes : option ipvote;      (* None: config.enr_update = false *)
  dual_stack : bool;             (* ip_mode = IpMode::DualStack *)
  enr : local_enr;
  events : list (bool * N)       (* Event::SocketUpdated(socket), oldest first *)
}.

Record pong := {
  p_node : N;                    (* the responder *)
  p_sock : bool * N;             (* the socket it reports *)
  p_count_ok : bool;             (* connectivity_state.should_count_ip_vote(&socket) *)
  p_conn_out : bool;             (* table entry Present, connected and not incoming *)
  p_enr_ok : bool                (* the enr crate signs the new record and it fits the size limit *)
}.

(* Service::require_more_ip_votes: also prunes (has_minimum_threshold) when it gets that far *)
Definition require_more_ip_votes (dual : bool) (iv : ipvote) (is_ipv6 : bool) (now : N) : ipvote * bool :=
  if negb dual then (iv, false)
  else
    let (iv', hm) := has_minimum_threshold iv now in
    (iv', match hm, is_ipv6 with
          | (false, true), false => true
          | (true, false), true => true
          | (false, false), _ => true
          | _, _ => false
          end).

(* Enr::set_udp_socket: on success the sequence number is incremented and the record re-signed *)
Definition set_udp_socket (e : local_enr) (sock : bool * N) (enr_ok : bool) : option local_enr :=
  if enr_ok && (seq e + 1 <? 2 ^ 64) then
    Some (if fst sock
          then {| seq := seq e + 1; udp4 := udp4 e; udp6 := Some (snd sock) |}
          else {| seq := seq e + 1; udp4 := Some (snd sock); udp6 := udp6 e |})
  else None.

Definition opt_eqb (a b : option N) : bool :=
  match a, b with Some x, Some y => N.eqb x y | None, None => true | _, _ => false end.

(* Service::handle_ip_vote_from_pong *)
Definition handle_pong (s : service) (p : pong) (now_q now_i : N) : service :=
  if negb (p_count_ok p) then s
  else match ip_votes s with
  | None => s
  | Some iv =>
    let is6 := fst (p_sock p) in
    (* `is_connected_and_outgoing | self.require_more_ip_votes(..)`: both sides are evaluated *)
    let (iv1, more) := require_more_ip_votes (dual_stack s) iv is6 now_q in
    if negb (p_conn_out p || more)
    then {| ip_votes := Some iv1; dual_stack := dual_stack s; enr := enr s; events := events s |}
    else
      let local_socket := if is6 then udp6 (enr s) else udp4 (enr s) in
      let iv2 := insert iv1 (p_node p) (p_sock p) now_i in
      let (iv3, m) := majority iv2 now_q in
      let maybe_majority := if is6 then snd m else fst m in
      let unchanged := {| ip_votes := Some iv3; dual_stack := dual_stack s; enr := enr s; events := events s |} in
      match maybe_majority with
      | None => unchanged
      | Some a =>
        if opt_eqb (Some a) local_socket then unchanged
        else match set_udp_socket (enr s) (is6, a) (p_enr_ok p) with
             | Some e' => {| ip_votes := Some iv3; dual_stack := dual_stack s; enr := e';
                             events := events s ++ [(is6, a)] |}
             | None => unchanged          (* "Failed to update local UDP socket." *)
             end
      end
  end.

Definition run_pongs (s : service) (ps : list (pong * N * N)) : service :=
  fold_left (fun s x => let '(p, q, i) := x in handle_pong s p q i) ps s.

(* ------------------------------------------------------------------ the main loop around the PONG handling *)

(* service/connectivity_state.rs and the two arms of Service::start that touch it, per address
   family (false = IPv4, true = IPv6).  A window is (deadline on the tokio clock, incoming
   sessions seen so far); [c_blocked] stands for Instant::now() < next_connectivity_test, which
   holds for six hours after a window has run out (longer than any run). *)
Record conn := {
  c_window : option N;            (* config.auto_nat_listen_duration *)
  c_wait4 : option (N * N);
  c_wait6 : option (N * N);
  c_blocked4 : bool;
  c_blocked6 : bool
}.

Definition new_conn (window : option N) : conn :=
  {| c_window := window; c_wait4 := None; c_wait6 := None; c_blocked4 := false; c_blocked6 := false |}.

Record node := { n_svc : service; n_conn : conn }.

(* ConnectivityState::should_count_ip_vote *)
Definition should_count (c : conn) (v6 : bool) : bool :=
  match c_window c with
  | None => true
  | Some _ => negb (if v6 then c_blocked6 c else c_blocked4 c)
  end.

(* ConnectivityState::enr_socket_update *)
Definition enr_socket_update (c : conn) (v6 : bool) (now : N) : conn :=
  match c_window c with
  | None => c
  | Some w =>
    if v6 then {| c_window := c_window c; c_wait4 := c_wait4 c; c_wait6 := Some (now + w, 0);
                  c_blocked4 := c_blocked4 c; c_blocked6 := c_blocked6 c |}
    else {| c_window := c_window c; c_wait4 := Some (now + w, 0); c_wait6 := c_wait6 c;
            c_blocked4 := c_blocked4 c; c_blocked6 := c_blocked6 c |}
  end.

(* ConnectivityState::received_incoming_connection: the second incoming session closes the window *)
Definition count_incoming (w : option (N * N)) : option (N * N) :=
  match w with
  | None => None
  | Some (d, k) => if 2 <=? k + 1 then None else Some (d, k + 1)
  end.

Definition received_incoming (c : conn) (v6 : bool) : conn :=
  if v6 then {| c_window := c_window c; c_wait4 := c_wait4 c; c_wait6 := count_incoming (c_wait6 c);
                c_blocked4 := c_blocked4 c; c_blocked6 := c_blocked6 c |}
  else {| c_window := c_window c; c_wait4 := count_incoming (c_wait4 c); c_wait6 := c_wait6 c;
          c_blocked4 := c_blocked4 c; c_blocked6 := c_blocked6 c |}.

(* Enr::remove_udp_socket / remove_udp6_socket: the fields of ONE family go, the sequence number
   is incremented and the record re-signed (whether or not the fields were present) *)
Definition remove_udp (e : local_enr) (v6 : bool) : local_enr :=
  if v6 then {| seq := seq e + 1; udp4 := udp4 e; udp6 := None |}
  else {| seq := seq e + 1; udp4 := None; udp6 := udp6 e |}.

Definition with_enr (s : service) (e : local_enr) : service :=
  {| ip_votes := ip_votes s; dual_stack := dual_stack s; enr := e; events := events s |}.

(* the arm `connectivity_timeout = self.connectivity_state.poll()`: the window of family [v6] has
   run out - that family's address is withdrawn (no event) and its votes are not counted any more *)
Definition timer_failure (n : node) (v6 : bool) : node :=
  let c := n_conn n in
  {| n_svc := with_enr (n_svc n) (remove_udp (enr (n_svc n)) v6);
     n_conn := if v6 then {| c_window := c_window c; c_wait4 := c_wait4 c; c_wait6 := None;
                             c_blocked4 := c_blocked4 c; c_blocked6 := true |}
               else {| c_window := c_window c; c_wait4 := None; c_wait6 := c_wait6 c;
                       c_blocked4 := true; c_blocked6 := c_blocked6 c |} |}.

Definition due (w : option (N * N)) (now : N) : bool :=
  match w with Some (d, _) => d <=? now | None => false end.

Inductive lev :=
| LPong (voter : N) (sock : bool * N) (conn_out : bool) (tick : N)   (* a PONG to one of the service's own PINGs *)
| LIncoming (v6 : bool)                                              (* an incoming session over that family *)
| LTime (now : N).                                                   (* the tokio clock reaches [now] *)

(* [now] is the tokio clock (for the windows); the votes are stamped with the logical [tick] *)
Definition lstep (n : node) (now : N) (e : lev) : node :=
  match e with
  | LPong voter sock co tick =>
    let p := {| p_node := voter; p_sock := sock; p_count_ok := should_count (n_conn n) (fst sock);
                p_conn_out := co; p_enr_ok := true |} in
    let s' := handle_pong (n_svc n) p tick tick in
    {| n_svc := s';
       n_conn := if seq (enr (n_svc n)) <? seq (enr s')
                 then enr_socket_update (n_conn n) (fst sock) now else n_conn n |}
  | LIncoming v6 => {| n_svc := n_svc n; n_conn := received_incoming (n_conn n) v6 |}
  | LTime t =>
    (* both sleeps are polled through select(ipv4, ipv6): IPv4 first when both have run out *)
    let n1 := if due (c_wait4 (n_conn n)) t then timer_failure n false else n in
    if due (c_wait6 (n_conn n1)) t then timer_failure n1 true else n1
  end.
