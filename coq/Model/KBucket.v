(* Executable model of the routing table: src/kbucket/bucket.rs, src/kbucket.rs, src/kbucket/entry.rs,
   src/kbucket/filter.rs.  Definitions only (no proofs) so that the model still runs if a proof breaks.

   Conventions (DESIGN.md section 4):
   - ids are N (< 2^256 in the theorems); the XOR metric is N.lxor;
   - time is an explicit argument [now : N]; [Instant::now()] of the code is the [now] of the step;
   - a value is an interned record: [vid] identifies the record content (equality of [vid] is
     equality of the Rust values), [vsub] is its IPv4 /24 prefix if it has an IPv4 address;
   - [nstamp] is a ghost field: the time at which the node was last placed by insert / status
     update / promotion of a pending node.  The implementation has no such field.
   - the bucket and table filters are arbitrary functions (the Rust trait object); the IP filters
     of filter.rs are given below as one instance. *)
From Coq Require Import List Arith NArith Bool.
From Discv5V Require Import Generated.Params Lib.ListX.
Import ListNotations.

Record val := { vid : N; vsub : option N }.
Definition val_eqb (a b : val) : bool := N.eqb (vid a) (vid b).

Definition filter_fn := val -> list val -> bool.

Record config := {
  max_incoming : nat;
  pending_timeout : N;
  bfilter : option filter_fn;   (* bucket filter *)
  tfilter : option filter_fn    (* table filter *)
}.

Record node := { nkey : N; nval : val; nconn : bool; nin : bool; nstamp : N }.
Record pnode := { pn : node; preplace : N }.
Record bucket := { nodes : list node; fcp : option nat; pend : option pnode }.

Definition K : nat := Eval vm_compute in N.to_nat MAX_NODES_PER_BUCKET.
Definition NB : nat := Eval vm_compute in N.to_nat NUM_BUCKETS.

Definition empty_bucket : bucket := {| nodes := []; fcp := None; pend := None |}.

Inductive fail := FTooManyIncoming | FBucketFilter | FTableFilter | FKeyNonExistent | FBucketFull | FInvalidSelfUpdate.

(* bucket::InsertResult *)
Inductive bins := BInserted | BPending (disconnected : N) | BFailedFilter | BTooManyIncoming | BFull | BNodeExists.
(* UpdateResult *)
Inductive upd := UUpdated | UUpdatedAndPromoted | UUpdatedPending | UFailed (f : fail) | UNotModified.
(* kbucket::InsertResult *)
Inductive tins :=
| TInserted | TPending (disconnected : N) | TStatusUpdated (promoted : bool) | TValueUpdated
| TUpdated (promoted : bool) | TUpdatedPending | TFailed (f : fail).

Definition position (k : N) (l : list node) : option nat := find_index (fun n => N.eqb (nkey n) k) l.
Definition get (k : N) (l : list node) : option node := find (fun n => N.eqb (nkey n) k) l.
Definition values (l : list node) : list val := map nval l.

Definition is_full (b : bucket) : bool := Nat.eqb (length (nodes b)) K.
Definition is_max_incoming (c : config) (b : bucket) : bool :=
  Nat.leb (max_incoming c) (count (fun n => nconn n && nin n) (nodes b)).

Definition run_filter (f : option filter_fn) (v : val) (others : list val) : bool :=
  match f with None => true | Some g => g v others end.

Definition set_stamp (n : node) (now : N) : node :=
  {| nkey := nkey n; nval := nval n; nconn := nconn n; nin := nin n; nstamp := now |}.

(* KBucket::insert *)
Definition b_insert (c : config) (b : bucket) (n0 : node) (now : N) : bucket * bins :=
  let n := set_stamp n0 now in
  match position (nkey n) (nodes b) with
  | Some _ => (b, BNodeExists)
  | None =>
    if negb (run_filter (bfilter c) (nval n) (values (nodes b))) then (b, BFailedFilter) else
    let inserting_pending :=
      match pend b with Some p => N.eqb (nkey (pn p)) (nkey n) | None => false end in
    let clear (b' : bucket) : bucket :=
      if inserting_pending then {| nodes := nodes b'; fcp := fcp b'; pend := None |} else b' in
    if nconn n then
      if nin n && is_max_incoming c b then (b, BTooManyIncoming) else
      if is_full b then
        match fcp b, pend b with
        | Some O, _ => (b, BFull)
        | _, Some _ => (b, BFull)
        | _, None =>
          match nodes b with
          | h :: _ =>
            ({| nodes := nodes b; fcp := fcp b;
                pend := Some {| pn := n; preplace := (now + pending_timeout c)%N |} |},
             BPending (nkey h))
          | [] => (b, BFull)      (* K = 0: [self.nodes[0]] would panic; excluded by K > 0 *)
          end
        end
      else
        let pos := length (nodes b) in
        (clear {| nodes := nodes b ++ [n];
                  fcp := match fcp b with Some p => Some p | None => Some pos end;
                  pend := pend b |}, BInserted)
    else
      if is_full b then (b, BFull) else
      match fcp b with
      | Some p => (clear {| nodes := insert_at p n (nodes b); fcp := Some (S p); pend := pend b |}, BInserted)
      | None => (clear {| nodes := nodes b ++ [n]; fcp := None; pend := pend b |}, BInserted)
      end
  end.

(* KBucket::update_first_connected_pos_for_removal, called after the removal *)
Definition fcp_after_removal (f : option nat) (removed : nat) (len_after : nat) : option nat :=
  match f with
  | None => None
  | Some p => if Nat.ltb removed p then Some (p - 1)
              else if Nat.ltb p len_after then Some p else None
  end.

(* KBucket::apply_pending.  The result is the AppliedPending (inserted key, evicted key). *)
Definition b_apply_pending (c : config) (b : bucket) (now : N) : bucket * option (N * option N) :=
  match pend b with
  | None => (b, None)
  | Some p =>
    let b0 := {| nodes := nodes b; fcp := fcp b; pend := None |} in
    if N.leb (preplace p) now then
      if is_full b0 then
        match nodes b0 with
        | [] => (b0, None)     (* K = 0, excluded *)
        | h :: rest =>
          if nconn h then (b0, None) else
          if negb (run_filter (bfilter c) (nval (pn p)) (values (nodes b0))) then (b0, None) else
          if nconn (pn p) && nin (pn p) && is_max_incoming c b0 then (b0, None) else
          let n := set_stamp (pn p) now in
          if nconn n then
            ({| nodes := rest ++ [n];
                fcp := match fcp b0 with
                       | None => Some (length rest)
                       | Some O => None
                       | Some (S q) => Some q
                       end;
                pend := None |}, Some (nkey n, Some (nkey h)))
          else
            match fcp b0 with
            | Some O => (b0, None)
            | Some (S q) => ({| nodes := insert_at q n rest; fcp := Some (S q); pend := None |},
                             Some (nkey n, Some (nkey h)))
            | None => ({| nodes := rest ++ [n]; fcp := None; pend := None |},
                       Some (nkey n, Some (nkey h)))
            end
        end
      else
        match b_insert c b0 (pn p) now with
        | (b1, BInserted) => (b1, Some (nkey (pn p), None))
        | (b1, _) => (b1, None)
        end
    else (b, None)
  end.

(* KBucket::update_status *)
Definition b_update_status (c : config) (b : bucket) (k : N) (conn : bool) (dir : option bool) (now : N)
  : bucket * upd :=
  match position k (nodes b) with
  | Some pos =>
    match nth_error (nodes b) pos with
    | None => (b, UFailed FKeyNonExistent)   (* unreachable: position < length *)
    | Some old =>
      let rest := remove_at pos (nodes b) in
      let n := {| nkey := nkey old; nval := nval old; nconn := conn;
                  nin := match dir with Some d => d | None => nin old end; nstamp := nstamp old |} in
      let not_modified := Bool.eqb (nconn old) (nconn n) && Bool.eqb (nin old) (nin n) in
      let f1 :=
        if nconn old then
          match fcp b with
          | Some p => if Nat.eqb p pos && Nat.eqb pos (length rest) then None else Some p
          | None => None
          end
        else
          match fcp b with
          | Some (S q) => Some q
          | _ => None
          end in
      let pend1 := if Nat.eqb pos 0 && conn then None else pend b in
      let b1 := {| nodes := rest; fcp := f1; pend := pend1 |} in
      match b_insert c b1 n now with
      | (b2, BInserted) =>
        (b2, if not_modified then UNotModified
             else if negb (nconn old) && conn then UUpdatedAndPromoted else UUpdated)
      | (b2, BTooManyIncoming) => (b2, UFailed FTooManyIncoming)
      | (b2, BFailedFilter) => (b2, UFailed FBucketFilter)
      | (b2, _) => (b2, UFailed FKeyNonExistent)   (* unreachable!() in the code *)
      end
    end
  | None =>
    match pend b with
    | Some p =>
      if N.eqb (nkey (pn p)) k then
        let n := pn p in
        ({| nodes := nodes b; fcp := fcp b;
            pend := Some {| pn := {| nkey := nkey n; nval := nval n; nconn := conn;
                                     nin := match dir with Some d => d | None => nin n end;
                                     nstamp := nstamp n |};
                            preplace := preplace p |} |}, UUpdatedPending)
      else (b, UFailed FKeyNonExistent)
    | None => (b, UFailed FKeyNonExistent)
    end
  end.

Definition set_val (n : node) (v : val) : node :=
  {| nkey := nkey n; nval := v; nconn := nconn n; nin := nin n; nstamp := nstamp n |}.

(* KBucket::update_value *)
Definition b_update_value (c : config) (b : bucket) (k : N) (v : val) : bucket * upd :=
  match position k (nodes b) with
  | Some pos =>
    match nth_error (nodes b) pos with
    | None => (b, UFailed FKeyNonExistent)
    | Some old =>
      if val_eqb (nval old) v then (b, UNotModified) else
      let rest := remove_at pos (nodes b) in
      if negb (run_filter (bfilter c) v (values rest)) then
        ({| nodes := rest; fcp := fcp_after_removal (fcp b) pos (length rest); pend := pend b |},
         UFailed FBucketFilter)
      else
        ({| nodes := insert_at pos (set_val old v) rest; fcp := fcp b; pend := pend b |}, UUpdated)
    end
  | None =>
    match pend b with
    | Some p =>
      if N.eqb (nkey (pn p)) k then
        ({| nodes := nodes b; fcp := fcp b;
            pend := Some {| pn := set_val (pn p) v; preplace := preplace p |} |}, UUpdatedPending)
      else (b, UFailed FKeyNonExistent)
    | None => (b, UFailed FKeyNonExistent)
    end
  end.

(* KBucket::remove (note: the AppliedPending of the inner apply_pending is discarded by the code) *)
Definition b_remove (c : config) (b : bucket) (k : N) (now : N) : bucket * bool :=
  match position k (nodes b) with
  | Some pos =>
    let rest := remove_at pos (nodes b) in
    let b1 := {| nodes := rest; fcp := fcp_after_removal (fcp b) pos (length rest); pend := pend b |} in
    (fst (b_apply_pending c b1 now), true)
  | None => (b, false)
  end.

(* KBucket::update_pending *)
Definition b_update_pending (b : bucket) (conn inc : bool) : bucket :=
  match pend b with
  | Some p =>
    let n := pn p in
    {| nodes := nodes b; fcp := fcp b;
       pend := Some {| pn := {| nkey := nkey n; nval := nval n; nconn := conn; nin := inc; nstamp := nstamp n |};
                       preplace := preplace p |} |}
  | None => b
  end.

(* ------------------------------------------------------------------------------------------ *)
(* The table *)

Record table := {
  local : N;
  buckets : list bucket;
  applied : list (N * option N)      (* queue of AppliedPending: (inserted, evicted) *)
}.

Definition new_table (loc : N) : table :=
  {| local := loc; buckets := repeat empty_bucket NB; applied := [] |}.

(* BucketIndex::new(local.distance(key)) *)
Definition bucket_index (loc k : N) : option nat :=
  let d := N.lxor loc k in
  if N.eqb d 0 then None else Some (N.to_nat (N.log2 d)).

Definition get_bucket (t : table) (i : nat) : bucket := nth i (buckets t) empty_bucket.
Definition set_bucket (t : table) (i : nat) (b : bucket) (app : list (N * option N)) : table :=
  {| local := local t; buckets := upd_at i (fun _ => b) (buckets t); applied := app |}.

Definition push_applied (q : list (N * option N)) (a : option (N * option N)) :=
  match a with Some x => q ++ [x] | None => q end.

(* bucket i with its pending applied; the common prefix of every table operation *)
Definition applied_bucket (c : config) (t : table) (i : nat) (now : N) : bucket * list (N * option N) :=
  let (b, a) := b_apply_pending c (get_bucket t i) now in (b, push_applied (applied t) a).

(* table_iter: values of all nodes, followed per bucket by the value of the pending node *)
Definition bucket_values (b : bucket) : list val :=
  values (nodes b) ++ match pend b with Some p => [nval (pn p)] | None => [] end.
Definition table_values (t : table) : list val := flat_map bucket_values (buckets t).

Definition passes_table_filter (c : config) (t : table) (k : N) (v : val) : bool :=
  match tfilter c with
  | None => true
  | Some f =>
    let duplicate :=
      match bucket_index (local t) k with
      | Some i => match get k (nodes (get_bucket t i)) with
                  | Some n => val_eqb (nval n) v
                  | None => false
                  end
      | None => false
      end in
    if duplicate then true else f v (table_values t)
  end.

(* KBucketsTable::update_node_status *)
Definition t_update_node_status (c : config) (t : table) (k : N) (conn : bool) (dir : option bool) (now : N)
  : table * upd :=
  match bucket_index (local t) k with
  | Some i =>
    let (b, app) := applied_bucket c t i now in
    let (b', r) := b_update_status c b k conn dir now in
    (set_bucket t i b' app, r)
  | None => (t, UNotModified)
  end.

(* KBucketsTable::update_node *)
Definition t_update_node (c : config) (t : table) (k : N) (v : val) (state : option bool) (now : N)
  : table * upd :=
  let passed := passes_table_filter c t k v in
  match bucket_index (local t) k with
  | Some i =>
    let (b, app) := applied_bucket c t i now in
    if negb passed then
      (set_bucket t i (fst (b_remove c b k now)) app, UFailed FTableFilter)
    else
      let (b1, ur) := b_update_value c b k v in
      match ur with
      | UFailed _ => (set_bucket t i b1 app, ur)
      | _ =>
        let (b2, sr) := match state with
                        | Some s => b_update_status c b1 k s None now
                        | None => (b1, UNotModified)
                        end in
        let r := match ur, sr with
                 | _, UFailed _ => sr
                 | _, UUpdatedAndPromoted => UUpdatedAndPromoted
                 | UUpdatedPending, _ => UUpdatedPending
                 | _, UUpdatedPending => UUpdatedPending
                 | UNotModified, UNotModified => UNotModified
                 | _, _ => UUpdated
                 end in
        (set_bucket t i b2 app, r)
      end
  | None => (t, UNotModified)
  end.

(* KBucketsTable::insert_or_update *)
Definition t_insert_or_update (c : config) (t : table) (k : N) (v : val) (conn inc : bool) (now : N)
  : table * tins :=
  let passed := passes_table_filter c t k v in
  match bucket_index (local t) k with
  | Some i =>
    let (b, app) := applied_bucket c t i now in
    if negb passed then
      (set_bucket t i (fst (b_remove c b k now)) app, TFailed FTableFilter)
    else
      match position k (nodes b) with
      | None =>
        let n := {| nkey := k; nval := v; nconn := conn; nin := inc; nstamp := now |} in
        let (b', r) := b_insert c b n now in
        (set_bucket t i b' app,
         match r with
         | BNodeExists => TFailed FKeyNonExistent    (* unreachable!() *)
         | BFull => TFailed FBucketFull
         | BTooManyIncoming => TFailed FTooManyIncoming
         | BFailedFilter => TFailed FBucketFilter
         | BPending d => TPending d
         | BInserted => TInserted
         end)
      | Some _ =>
        let (b1, sr) := b_update_status c b k conn (Some inc) now in
        match sr with
        | UFailed _ => (set_bucket t i b1 app, TFailed FTooManyIncoming)
        | _ =>
          let (b2, vr) := b_update_value c b1 k v in
          (set_bucket t i b2 app,
           match vr, sr with
           | UUpdated, UUpdated => TUpdated false
           | UUpdated, UUpdatedAndPromoted => TUpdated true
           | UUpdated, UNotModified => TValueUpdated
           | UUpdated, UUpdatedPending => TValueUpdated
           | UNotModified, UUpdated => TStatusUpdated false
           | UNotModified, UUpdatedAndPromoted => TStatusUpdated true
           | UNotModified, UNotModified => TUpdated false
           | UUpdatedPending, _ => TUpdatedPending
           | _, UUpdatedPending => TUpdatedPending
           | UFailed f, _ => TFailed f
           | _, UFailed _ => TFailed FKeyNonExistent      (* unreachable!() *)
           | UUpdatedAndPromoted, _ => TFailed FKeyNonExistent   (* unreachable!() *)
           end)
        end
      end
  | None => (t, TFailed FInvalidSelfUpdate)
  end.

(* KBucketsTable::remove *)
Definition t_remove (c : config) (t : table) (k : N) (now : N) : table * bool :=
  match bucket_index (local t) k with
  | Some i =>
    let (b, app) := applied_bucket c t i now in
    let (b', r) := b_remove c b k now in
    (set_bucket t i b' app, r)
  | None => (t, false)
  end.

(* KBucketsTable::entry followed by one action of the Entry API.
   kind of the entry: 0 = Present, 1 = Pending, 2 = Absent, 3 = SelfEntry *)
Inductive entry_kind := EPresent (conn inc : bool) | EPendingE (conn inc : bool) | EAbsent | ESelf.

Definition classify (b : bucket) (k : N) : entry_kind :=
  match get k (nodes b) with
  | Some n => EPresent (nconn n) (nin n)
  | None =>
    match pend b with
    | Some p => if N.eqb (nkey (pn p)) k then EPendingE (nconn (pn p)) (nin (pn p)) else EAbsent
    | None => EAbsent
    end
  end.

Inductive entry_action :=
| ALook                                   (* only look the entry up *)
| AInsert (v : val) (conn inc : bool)     (* AbsentEntry::insert *)
| AUpdate (conn : bool) (dir : option bool)  (* PresentEntry::update *)
| ARemove                                 (* PresentEntry::remove / PendingEntry::remove *)
| APendingUpdate (conn inc : bool).       (* PendingEntry::update *)

Inductive entry_out :=
| EOKind (e : entry_kind)
| EOInsert (r : bins)
| EOUpdate (r : option fail)
| EONone.

Definition t_entry (c : config) (t : table) (k : N) (a : entry_action) (now : N) : table * (entry_kind * entry_out) :=
  match bucket_index (local t) k with
  | None => (t, (ESelf, EONone))
  | Some i =>
    let (b, app) := applied_bucket c t i now in
    let kind := classify b k in
    match kind, a with
    | EAbsent, AInsert v conn inc =>
      let (b', r) := b_insert c b {| nkey := k; nval := v; nconn := conn; nin := inc; nstamp := now |} now in
      (set_bucket t i b' app, (kind, EOInsert r))
    | EPresent _ _, AUpdate conn dir =>
      let (b', r) := b_update_status c b k conn dir now in
      (set_bucket t i b' app, (kind, EOUpdate (match r with UFailed f => Some f | _ => None end)))
    | EPresent _ _, ARemove =>
      (set_bucket t i (fst (b_remove c b k now)) app, (kind, EONone))
    | EPendingE _ _, ARemove =>
      (set_bucket t i (fst (b_remove c b k now)) app, (kind, EONone))
    | EPendingE _ _, APendingUpdate conn inc =>
      (set_bucket t i (b_update_pending b conn inc) app, (kind, EONone))
    | _, _ => (set_bucket t i b app, (kind, EONone))
    end
  end.

(* KBucketsTable::iter: applies the pending node of every bucket, in index order *)
Fixpoint apply_all (c : config) (bs : list bucket) (now : N) : list bucket * list (N * option N) :=
  match bs with
  | [] => ([], [])
  | b :: rest =>
    let (b', a) := b_apply_pending c b now in
    let (rest', q) := apply_all c rest now in
    (b' :: rest', push_applied [] a ++ q)
  end.

Definition t_iter (c : config) (t : table) (now : N) : table * list node :=
  let (bs, q) := apply_all c (buckets t) now in
  ({| local := local t; buckets := bs; applied := applied t ++ q |}, flat_map nodes bs).

(* KBucketsTable::take_applied_pending *)
Definition t_take_applied (t : table) : table * option (N * option N) :=
  match applied t with
  | [] => (t, None)
  | a :: q => ({| local := local t; buckets := buckets t; applied := q |}, Some a)
  end.

(* KBucketsTable::nodes_by_distances *)
Definition valid_distances (ds : list N) : list N :=
  filter (fun d => N.ltb 0 d && N.leb d NUM_BUCKETS) ds.

(* first loop: apply pending entries, stopping once enough nodes were counted *)
Fixpoint nbd_apply (c : config) (t : table) (ds : list N) (count maxn : nat) (now : N) : table :=
  match ds with
  | [] => t
  | d :: rest =>
    let i := N.to_nat (d - 1)%N in
    let (b, a) := b_apply_pending c (get_bucket t i) now in
    match a with
    | Some x =>
      let t' := set_bucket t i b (applied t ++ [x]) in
      let count' := count + length (nodes b) in
      if Nat.leb maxn count' then t' else nbd_apply c t' rest count' maxn now
    | None => nbd_apply c (set_bucket t i b (applied t)) rest count maxn now
    end
  end.

(* second loop: collect; returns early once [maxn] nodes were pushed (checked after each push) *)
Fixpoint take_upto (maxn : nat) (acc : nat) (l : list node) : list node * bool :=
  match l with
  | [] => ([], false)
  | x :: l' =>
    if Nat.leb maxn (S acc) then ([x], true)
    else let (r, full) := take_upto maxn (S acc) l' in (x :: r, full)
  end.

Fixpoint nbd_collect (t : table) (ds : list N) (acc : nat) (maxn : nat) : list node :=
  match ds with
  | [] => []
  | d :: rest =>
    let b := get_bucket t (N.to_nat (d - 1)%N) in
    let (r, full) := take_upto maxn acc (nodes b) in
    if full then r else r ++ nbd_collect t rest (acc + length r) maxn
  end.

Definition t_nodes_by_distances (c : config) (t : table) (ds : list N) (maxn : nat) (now : N)
  : table * list node :=
  let vds := valid_distances ds in
  let t' := nbd_apply c t vds 0 maxn now in
  (t', nbd_collect t' vds 0 maxn).

(* hook: force the pending node of bucket i to be ready now *)
Definition t_force_ready (t : table) (i : nat) (now : N) : table :=
  let b := get_bucket t i in
  match pend b with
  | Some p => set_bucket t i {| nodes := nodes b; fcp := fcp b; pend := Some {| pn := pn p; preplace := now |} |} (applied t)
  | None => t
  end.

(* ------------------------------------------------------------------------------------------ *)
(* Closest iteration: ClosestBucketsIter and ClosestIter *)

(* next_in: the largest j < i with bit j of d set *)
Fixpoint next_in (d : N) (i : nat) : option nat :=
  match i with
  | O => None
  | S j => if N.testbit d (N.of_nat j) then Some j else next_in d j
  end.

(* next_out: the smallest j in (i, NB) with bit j of d clear; [fuel] = NB - 1 - i *)
Fixpoint next_out_from (d : N) (j : nat) (fuel : nat) : option nat :=
  match fuel with
  | O => None
  | S f => if N.testbit d (N.of_nat j) then next_out_from d (S j) f else Some j
  end.
Definition next_out (d : N) (i : nat) : option nat := next_out_from d (S i) (NB - S i).

Inductive cstate := CStart (i : nat) | CZoomIn (i : nat) | CZoomOut (i : nat) | CDone.

(* one call of ClosestBucketsIter::next.  [fixed] selects the repaired behaviour (bucket 0 is not
   yielded a second time); [fixed = false] is the behaviour of the pinned tree. *)
Definition cnext (fixed : bool) (d : N) (s : cstate) : cstate * option nat :=
  match s with
  | CStart i => (CZoomIn i, Some i)
  | CZoomIn i =>
    match next_in d i with
    | Some j => (CZoomIn j, Some j)
    | None =>
      if fixed && Nat.eqb i 0 then
        (* bucket 0 was the last one yielded: continue zooming out *)
        match next_out d 0 with
        | Some j => (CZoomOut j, Some j)
        | None => (CDone, None)
        end
      else (CZoomOut 0, Some 0)
    end
  | CZoomOut i =>
    match next_out d i with
    | Some j => (CZoomOut j, Some j)
    | None => (CDone, None)
    end
  | CDone => (CDone, None)
  end.

Fixpoint crun (fixed : bool) (d : N) (s : cstate) (fuel : nat) : list nat :=
  match fuel with
  | O => []
  | S f => match cnext fixed d s with
           | (s', Some i) => i :: crun fixed d s' f
           | (_, None) => []
           end
  end.

Definition cstart (d : N) : cstate :=
  if N.eqb d 0 then CStart 0 else CStart (N.to_nat (N.log2 d)).

(* the whole sequence; the fuel is a model artefact (the Rust iterator has none): 2 * NB + 2 calls
   are more than enough for every d (Proofs/ClosestOrder.v shows the run ends by itself) *)
Definition bucket_order (fixed : bool) (d : N) : list nat := crun fixed d (cstart d) (2 * NB + 2).

(* insertion sort by distance to the target (stable, like slice::sort_by) *)
Fixpoint insert_sorted (target : N) (n : node) (l : list node) : list node :=
  match l with
  | [] => [n]
  | x :: l' => if N.ltb (N.lxor target (nkey n)) (N.lxor target (nkey x)) then n :: l
               else x :: insert_sorted target n l'
  end.
Definition sort_by_distance (target : N) (l : list node) : list node :=
  fold_right (insert_sorted target) [] l.

Fixpoint closest_walk (c : config) (t : table) (target : N) (order : list nat) (now : N) : table * list node :=
  match order with
  | [] => (t, [])
  | i :: rest =>
    let (b, app) := applied_bucket c t i now in
    let t1 := set_bucket t i b app in
    let (t2, out) := closest_walk c t1 target rest now in
    (t2, sort_by_distance target (nodes b) ++ out)
  end.

Definition t_closest (fixed : bool) (c : config) (t : table) (target : N) (now : N) : table * list node :=
  closest_walk c t target (bucket_order fixed (N.lxor (local t) target)) now.

(* ------------------------------------------------------------------------------------------ *)
(* The IP filters of src/kbucket/filter.rs *)

Fixpoint ip_filter_loop (v : val) (s : N) (others : list val) (count limit : nat) : bool :=
  match others with
  | [] => true
  | o :: rest =>
    if val_eqb o v then ip_filter_loop v s rest count limit else
    let count' := match vsub o with
                  | Some s' => if N.eqb s' s then S count else count
                  | None => count
                  end in
    if Nat.leb limit count' then false else ip_filter_loop v s rest count' limit
  end.

Definition ip_filter (limit : nat) (v : val) (others : list val) : bool :=
  match vsub v with
  | Some s => ip_filter_loop v s others 0 limit
  | None => true
  end.

Definition ip_table_filter : filter_fn := ip_filter (N.to_nat MAX_NODES_PER_SUBNET_TABLE).
Definition ip_bucket_filter : filter_fn := ip_filter (N.to_nat MAX_NODES_PER_SUBNET_BUCKET).

(* ------------------------------------------------------------------------------------------ *)
(* Operations as data: the state machine used by the theorems and by the correspondence run *)

Inductive op :=
| OInsertOrUpdate (k : N) (v : val) (conn inc : bool)
| OUpdateStatus (k : N) (conn : bool) (dir : option bool)
| OUpdateNode (k : N) (v : val) (state : option bool)
| ORemove (k : N)
| OEntry (k : N) (a : entry_action)
| OIter
| OTakeApplied
| ONodesByDistances (ds : list N) (maxn : nat)
| OClosest (target : N)
| OForceReady (i : nat).

Inductive out :=
| RIns (r : tins) | RUpd (r : upd) | RBool (b : bool) | REntry (k : entry_kind) (o : entry_out)
| RNodes (l : list node) | RApplied (a : option (N * option N)) | RUnit.

Definition step (fixed : bool) (c : config) (t : table) (o : op) (now : N) : table * out :=
  match o with
  | OInsertOrUpdate k v conn inc => let (t', r) := t_insert_or_update c t k v conn inc now in (t', RIns r)
  | OUpdateStatus k conn dir => let (t', r) := t_update_node_status c t k conn dir now in (t', RUpd r)
  | OUpdateNode k v s => let (t', r) := t_update_node c t k v s now in (t', RUpd r)
  | ORemove k => let (t', r) := t_remove c t k now in (t', RBool r)
  | OEntry k a => let (t', r) := t_entry c t k a now in (t', REntry (fst r) (snd r))
  | OIter => let (t', l) := t_iter c t now in (t', RNodes l)
  | OTakeApplied => let (t', a) := t_take_applied t in (t', RApplied a)
  | ONodesByDistances ds m => let (t', l) := t_nodes_by_distances c t ds m now in (t', RNodes l)
  | OClosest target => let (t', l) := t_closest fixed c t target now in (t', RNodes l)
  | OForceReady i => (t_force_ready t i now, RUnit)
  end.

(* run a list of timed operations *)
Fixpoint run (fixed : bool) (c : config) (t : table) (ops : list (op * N)) : table * list out :=
  match ops with
  | [] => (t, [])
  | (o, now) :: rest =>
    let (t1, r) := step fixed c t o now in
    let (t2, rs) := run fixed c t1 rest in
    (t2, r :: rs)
  end.

(* ------------------------------------------------------------------------------------------ *)
(* The three public closest iterators.  KBucketsTable::closest_keys, ::closest_values and
   ::closest_values_predicate build the same ClosestIter (same target, same ClosestBucketsIter)
   and differ only in the projection [fmap] applied to a bucket when it is reached:
     closest_keys               b.iter().map(|n| n.key.clone())
     closest_values             b.iter().map(|n| ClosestValue { key, value })
     closest_values_predicate   b.iter().map(|n| PredicateValue { key, predicate_match: predicate(&n.value), value })
   ClosestIter::next applies the pending node of the bucket, projects the bucket with [fmap] and only
   then sorts the projected array by the distance of [a.as_ref()] (TOut: AsRef<Key<TNodeId>>) to the
   target.  [t_closest] above is the same iteration with the identity projection (whole nodes); the
   definitions below transcribe ClosestIter::next for an arbitrary projection [fm] with key [key_of]. *)
Section ClosestMap.
  Variable A : Type.
  Variable fm : node -> A.        (* the item fmap builds from one node of the bucket *)
  Variable key_of : A -> N.       (* <TOut as AsRef<Key<TNodeId>>>::as_ref *)

  (* v.sort_by(|a, b| target.distance(a.as_ref()).cmp(&target.distance(b.as_ref()))) - stable *)
  Fixpoint insert_sorted_by (target : N) (a : A) (l : list A) : list A :=
    match l with
    | [] => [a]
    | x :: l' => if N.ltb (N.lxor target (key_of a)) (N.lxor target (key_of x)) then a :: l
                 else x :: insert_sorted_by target a l'
    end.
  Definition sort_by_distance_by (target : N) (l : list A) : list A :=
    fold_right (insert_sorted_by target) [] l.

  (* ClosestIter::next, run until it returns None *)
  Fixpoint closest_walk_map (c : config) (t : table) (target : N) (order : list nat) (now : N)
    : table * list A :=
    match order with
    | [] => (t, [])
    | i :: rest =>
      let (b, app) := applied_bucket c t i now in
      let t1 := set_bucket t i b app in
      let (t2, out) := closest_walk_map c t1 target rest now in
      (t2, sort_by_distance_by target (map fm (nodes b)) ++ out)
    end.

  Definition t_closest_map (fixed : bool) (c : config) (t : table) (target : N) (now : N) : table * list A :=
    closest_walk_map c t target (bucket_order fixed (N.lxor (local t) target)) now.
End ClosestMap.

(* struct ClosestValue { key, value } *)
Record closest_value := { cv_key : N; cv_value : val }.
(* struct PredicateValue { key, predicate_match, value } *)
Record predicate_value := { pv_key : N; pv_match : bool; pv_value : val }.

(* KBucketsTable::closest_keys *)
Definition t_closest_keys (fixed : bool) (c : config) (t : table) (target : N) (now : N) : table * list N :=
  t_closest_map N nkey (fun k => k) fixed c t target now.

(* KBucketsTable::closest_values *)
Definition t_closest_values (fixed : bool) (c : config) (t : table) (target : N) (now : N)
  : table * list closest_value :=
  t_closest_map closest_value (fun n => {| cv_key := nkey n; cv_value := nval n |}) cv_key fixed c t target now.

(* KBucketsTable::closest_values_predicate(target, predicate) *)
Definition t_closest_values_predicate (fixed : bool) (predicate : val -> bool) (c : config) (t : table)
  (target : N) (now : N) : table * list predicate_value :=
  t_closest_map predicate_value
    (fun n => {| pv_key := nkey n; pv_match := predicate (nval n); pv_value := nval n |}) pv_key
    fixed c t target now.
