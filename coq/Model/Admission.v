(* Executable model of the routing-table admission and update policy of the service (property C12):
   src/service.rs (inject_session_established, connection_updated, discovered, rpc_failure, the
   PING / PONG branches, UnverifiableEnr, find_enr / the WhoAreYou arm), src/discv5.rs (add_enr, remove_node, disconnect_node),
   src/ipmode.rs (get_contactable_addr), src/handler/mod.rs (verify_enr), on top of the validated
   routing-table model Model/KBucket.v.  Definitions only (no proofs).

   The table stores interned values ([Model.KBucket.val]: the record's [e_vid] and /24 prefix);
   [rec_of] is the interning environment that gives back the record with a given [e_vid] - the
   service reads the stored record's sequence number and addresses in several places. *)
From Coq Require Import List Arith NArith Bool.
From Discv5V Require Import Generated.Params Lib.ListX Model.KBucket Model.Nodes.
Import ListNotations.
Local Open Scope N_scope.

Inductive ip_mode := Ip4 | Ip6 | DualStack.

(* a socket address *)
Record addr := { a_v6 : bool; a_ip : N; a_port : N }.

(* to_ipv4_mapped: ::ffff:a.b.c.d *)
Definition mapped6 (ip : N) : bool := N.shiftr ip 32 =? 65535.

(* canonical_ipv6_enr_addr *)
Definition canonical6 (e : enr) : option addr :=
  match e_udp6 e with
  | Some (ip, port) => if mapped6 ip then None else Some {| a_v6 := true; a_ip := ip; a_port := port |}
  | None => None
  end.
Definition addr4 (e : enr) : option addr :=
  match e_udp4 e with
  | Some (ip, port) => Some {| a_v6 := false; a_ip := ip; a_port := port |}
  | None => None
  end.

(* IpMode::get_contactable_addr *)
Definition contactable_addr (m : ip_mode) (e : enr) : option addr :=
  match m with
  | Ip4 => addr4 e
  | Ip6 => canonical6 e
  | DualStack => match canonical6 e with Some a => Some a | None => addr4 e end
  end.
Definition contactable (m : ip_mode) (e : enr) : bool :=
  match contactable_addr m e with Some _ => true | None => false end.

(* Handler::verify_enr(enr, node_address) *)
Definition verify_enr (e : enr) (id : N) (a : addr) : bool :=
  (e_id e =? id) &&
  match (if a_v6 a then e_udp6 e else e_udp4 e) with
  | None => true
  | Some (ip, port) => (ip =? a_ip a) && (port =? a_port a)
  end.

Definition to_val (e : enr) : val := {| vid := e_vid e; vsub := e_sub e |}.

(* the value stored under a key: (is it the pending node, value) *)
Definition stored (t : table) (k : N) : option (bool * val) :=
  match bucket_index (local t) k with
  | None => None
  | Some i =>
    let b := get_bucket t i in
    match get k (nodes b) with
    | Some n => Some (false, nval n)
    | None =>
      match pend b with
      | Some p => if nkey (pn p) =? k then Some (true, nval (pn p)) else None
      | None => None
      end
    end
  end.

Section Admission.
  Variable rec_of : N -> enr.       (* interning environment *)
  Variable tf : enr -> bool.        (* config.table_filter *)
  Variable mode : ip_mode.          (* the service's ip_mode *)
  Variable fx : fixes.
  Variable c : config.              (* routing-table configuration *)

  Definition stored_rec (t : table) (k : N) : option enr :=
    match stored t k with Some (_, v) => Some (rec_of (vid v)) | None => None end.

  (* inject_session_established + connection_updated(Connected).  Result: the InsertResult, or None
     when the session is ignored. *)
  Definition established (t : table) (e : enr) (incoming : bool) (now : N) : table * option tins :=
    if negb (contactable mode e) then (t, None) else
    if fix_d5 fx && negb (tf e) then (t, None) else
    let key := e_id e in
    (* "We never update connection direction if a node already exists in the routing table" *)
    let dir := match bucket_index (local t) key with
               | Some i => match get key (nodes (get_bucket t i)) with
                           | Some n => nin n
                           | None => incoming
                           end
               | None => incoming
               end in
    let (t1, r) := t_insert_or_update c t key (to_val e) true dir now in
    (* post-processing of InsertResult::Pending { disconnected }: the node is looked up (entry()) *)
    let t2 := match r with TPending d => fst (t_entry c t1 d ALook now) | _ => t1 end in
    (t2, Some r).

  (* one record of discovered(); returns whether the record stays in the list handed to the query *)
  Definition discovered_one (t : table) (src : N) (e : enr) (now : N) : table * bool :=
    if e_id e =? local t then (t, false) else
    let key := e_id e in
    if tf e && contactable mode e then
      let (t1, ko) := t_entry c t key ALook now in
      let must_update :=
        match fst ko with
        | EPresent _ _ | EPendingE _ _ =>
          match stored_rec t1 key with Some old => e_seq old <? e_seq e | None => false end
        | _ => false
        end in
      if must_update then
        let (t2, r) := t_update_node c t1 key (to_val e) None now in
        match r with
        | UFailed _ => (t2, false)
        | _ => (t2, negb (src =? key))
        end
      else (t1, negb (src =? key))
    else
      (* not contactable or rejected by the table filter: remove an older stored version *)
      let (t1, ko) := t_entry c t key ALook now in
      let older := match stored_rec t1 key with Some old => e_seq old <? e_seq e | None => false end in
      match fst ko with
      | EPresent _ _ | EPendingE _ _ =>
        if older then (fst (t_entry c t1 key ARemove now), false) else (t1, false)
      | _ => (t1, false)
      end.

  Fixpoint discovered (t : table) (src : N) (l : list enr) (now : N) : table * list enr :=
    match l with
    | [] => (t, [])
    | e :: rest =>
      let (t1, keep) := discovered_one t src e now in
      let (t2, kept) := discovered t1 src rest now in
      (t2, if keep then e :: kept else kept)
    end.

  (* PONG answering a ping of the service itself (no user callback), from a node found in the
     table.  Result: was an ENR update (FINDNODE [0]) requested.  Records known only to running
     queries (find_enr's second source) are outside this model. *)
  Definition pong (t : table) (id : N) (enr_seq : N) (now : N) : table * bool :=
    let (t1, ko) := t_entry c t id ALook now in
    match fst ko with
    | EPresent _ _ =>
      match stored_rec t1 id with
      | Some e =>
        let want := e_seq e <? enr_seq in
        if contactable mode e
        then (fst (t_update_node_status c t1 id true None now), want)
        else (t1, want)
      | None => (t1, false)
      end
    | _ => (t1, false)
    end.

  (* PING from a node: is an ENR update requested (the entry is only looked up) *)
  Definition ping_request (t : table) (id : N) (enr_seq : N) (now : N) : table * bool :=
    let (t1, ko) := t_entry c t id ALook now in
    match fst ko with
    | EPresent _ _ | EPendingE _ _ =>
      match stored_rec t1 id with
      | Some e => (t1, e_seq e <? enr_seq)
      | None => (t1, false)
      end
    | _ => (t1, false)
    end.

  (* Service::find_enr: the routing table first (an entry of the table, not the candidate waiting in
     the pending slot of its bucket; KBucketsTable::entry applies a ready pending node on the way),
     then the records the running queries hold ([untrusted], in the order the service scans them).
     Its result answers HandlerOut::WhoAreYou (the "known ENR" the handler verifies a record-less
     handshake with) and is the record a query's request is addressed with. *)
  Definition present_rec (t : table) (k : N) : option enr :=
    match stored t k with
    | Some (false, v) => Some (rec_of (vid v))
    | _ => None
    end.
  Definition find_enr (t : table) (untrusted : list enr) (id : N) (now : N) : table * option enr :=
    let t1 := fst (t_entry c t id ALook now) in
    (t1, match present_rec t1 id with
         | Some e => Some e
         | None => find (fun e => e_id e =? id) untrusted
         end).

  (* The PONG arm in full (a PONG answering a ping of the service itself, no user callback): the record
     consulted is find_enr's - for a node that is not an entry (e.g. the candidate waiting in the pending
     slot of its bucket) a record a running query holds ([untrusted], a record that merely appeared in
     somebody's NODES answer).  That record decides whether an ENR update is requested and whether the
     node's status is set to connected (update_node_status); it is never written to the table.
     Result: was an ENR update (FINDNODE [0]) requested. *)
  Definition pong_q (t : table) (untrusted : list enr) (id : N) (enr_seq : N) (now : N) : table * bool :=
    let (t1, r) := find_enr t untrusted id now in
    match r with
    | Some e =>
      let want := e_seq e <? enr_seq in
      if contactable mode e
      then (fst (t_update_node_status c t1 id true None now), want)
      else (t1, want)
    | None => (t1, false)
    end.

  (* rpc_failure of a request without user callback: connection_updated(Disconnected) *)
  Definition failure (t : table) (id : N) (now : N) : table * upd :=
    t_update_node_status c t id false None now.

  (* Discv5::add_enr *)
  Inductive add_out := AddNotContactable | AddFiltered | AddResult (r : tins).
  Definition add_enr (t : table) (e : enr) (now : N) : table * add_out :=
    if negb (contactable mode e) then (t, AddNotContactable) else
    if negb (tf e) then (t, AddFiltered) else
    let (t1, r) := t_insert_or_update c t (e_id e) (to_val e) false true now in
    (t1, AddResult r).

  (* HandlerOut::UnverifiableEnr, Discv5::remove_node *)
  Definition unverifiable (t : table) (id : N) (now : N) : table * bool := t_remove c t id now.
  (* Discv5::disconnect_node *)
  Definition disconnect_node (t : table) (id : N) (now : N) : table * upd :=
    t_update_node_status c t id false None now.

  (* the handler's decision at the end of a handshake, followed by the service's reaction *)
  Definition session_report (t : table) (e : enr) (id : N) (a : addr) (incoming : bool) (now : N) : table :=
    if verify_enr e id a then fst (established t e incoming now) else fst (unverifiable t id now).

  (* operations as data *)
  Inductive aop :=
  | AEstablished (e : enr) (incoming : bool)
  | ADiscovered (src : N) (l : list enr)
  | APong (id : N) (enr_seq : N)
  | APing (id : N) (enr_seq : N)
  | AFailure (id : N)
  | AAddEnr (e : enr)
  | AUnverifiable (id : N)       (* also remove_node *)
  | ADisconnect (id : N).

  Inductive aout :=
  | OEst (r : option tins) | ODisc (kept : list enr) | OFlag (b : bool) | OUpd (r : upd) | OAdd (r : add_out).

  Definition astep (t : table) (o : aop) (now : N) : table * aout :=
    match o with
    | AEstablished e inc => let (t', r) := established t e inc now in (t', OEst r)
    | ADiscovered src l => let (t', k) := discovered t src l now in (t', ODisc k)
    | APong id s => let (t', b) := pong t id s now in (t', OFlag b)
    | APing id s => let (t', b) := ping_request t id s now in (t', OFlag b)
    | AFailure id => let (t', r) := failure t id now in (t', OUpd r)
    | AAddEnr e => let (t', r) := add_enr t e now in (t', OAdd r)
    | AUnverifiable id => let (t', b) := unverifiable t id now in (t', OFlag b)
    | ADisconnect id => let (t', r) := disconnect_node t id now in (t', OUpd r)
    end.

  Fixpoint arun (t : table) (ops : list (aop * N)) : table :=
    match ops with
    | [] => t
    | (o, now) :: rest => arun (fst (astep t o now)) rest
    end.
End Admission.
