(* Executable model of the configuration path of a node: src/config.rs ([ConfigBuilder], its
   setters and [build]) and what the constructors further down are handed
   (application -> ConfigBuilder -> Config -> Discv5::new -> Discv5::start -> Service::spawn ->
   Handler::spawn).  Definitions only (no proofs; Proofs/Config.v).

   The component-level models take their parameters (request timeout, session time to live, query
   timeout, bucket limits ...) as given.  This model states where those parameters come from: the
   value a component works with is the value the application configured last through the builder,
   or the documented default.

   Conventions:
   - one record field per numeric / boolean field of [Config]; durations are whole milliseconds;
   - [filter_rate_limiter]: [None], or [Some] of the eight numbers that describe a limiter made by
     [RateLimiterBuilder]: [total tau; total t; node limiter present; node tau; node t; ip limiter
     present; ip tau; ip t] (nanoseconds, as [Limiter::from_quota] computes them; 0 for an absent
     limiter);
   - [permit_ban_list]: the six counts (permitted ips, permitted node ids, banned ips without /
     with expiry, banned node ids without / with expiry);
   - [protocol_identity]: the six id bytes and the two version bytes as big-endian numbers;
   - [table_filter]: which function was passed - 0 is the builder's default (accept every
     record), 1.. are the functions the harness owns (told apart by their answers on two records);
   - [listen_config] and [executor] are not modelled;
   - a setter that panics ([enr_peer_update_min] below 2) and the assertion of [build]
     ([incoming_bucket_limit <= MAX_NODES_PER_BUCKET]) are [None]. *)
From Coq Require Import List NArith Bool.
From Discv5V Require Import Generated.Params.
Import ListNotations.
Local Open Scope N_scope.

(* the content of a [PermitBanList], counted *)
Record pblist := mkpb {
  pb_permit_ips : N;
  pb_permit_nodes : N;
  pb_ban_ips_permanent : N;
  pb_ban_ips_expiring : N;
  pb_ban_nodes_permanent : N;
  pb_ban_nodes_expiring : N
}.
Definition empty_pblist : pblist := mkpb 0 0 0 0 0 0.

(* RateLimiterBuilder::new().total_n_every(10, 1 s).node_n_every(8, 1 s).ip_n_every(9, 1 s):
   tau = the period in nanoseconds, t = tau / n *)
Definition default_rate_limiter : list N :=
  [1000000000; 100000000; 1; 1000000000; 125000000; 1; 1000000000; 111111111].

(* the value of a field, whatever its type *)
Inductive fval :=
| VB (b : bool)
| VN (n : N)
| VO (o : option N)
| VR (r : option (list N))
| VP (l : pblist)
| VI (id version : N).

Definition cb (b : bool) : N := if b then 1 else 0.
Definition copt (o : option N) : list N := match o with Some x => [1; x] | None => [0] end.
Definition coptl (o : option (list N)) : list N :=
  match o with Some l => 1 :: N.of_nat (length l) :: l | None => [0] end.
Definition enc_pblist (l : pblist) : list N :=
  [pb_permit_ips l; pb_permit_nodes l; pb_ban_ips_permanent l; pb_ban_ips_expiring l;
   pb_ban_nodes_permanent l; pb_ban_nodes_expiring l].

Record cfg := mkcfg {
  c_enable_packet_filter : bool;
  c_request_timeout : N;
  c_vote_duration : N;
  c_query_peer_timeout : N;
  c_query_timeout : N;
  c_request_retries : N;
  c_session_timeout : N;
  c_session_cache_capacity : N;
  c_enr_update : bool;
  c_max_nodes_response : N;
  c_enr_peer_update_min : N;
  c_query_parallelism : N;
  c_ip_limit : bool;
  c_incoming_bucket_limit : N;
  c_table_filter : N;
  c_ping_interval : N;
  c_report_discovered_peers : bool;
  c_filter_rate_limiter : option (list N);
  c_filter_max_nodes_per_ip : option N;
  c_filter_max_bans_per_ip : option N;
  c_permit_ban_list : pblist;
  c_ban_duration : option N;
  c_auto_nat_listen_duration : option N;
  c_protocol_id : N;
  c_protocol_version : N
}.

(* the defaults of [ConfigBuilder::new] *)
Definition default_cfg : cfg := {|
  c_enable_packet_filter := false;
  c_request_timeout := 1000;
  c_vote_duration := 120000;
  c_query_peer_timeout := 2000;
  c_query_timeout := 60000;
  c_request_retries := 1;
  c_session_timeout := 86400000;
  c_session_cache_capacity := 1000;
  c_enr_update := true;
  c_max_nodes_response := 16;
  c_enr_peer_update_min := 10;
  c_query_parallelism := 3;
  c_ip_limit := false;
  c_incoming_bucket_limit := MAX_NODES_PER_BUCKET;
  c_table_filter := 0;
  c_ping_interval := 300000;
  c_report_discovered_peers := true;
  c_filter_rate_limiter := Some default_rate_limiter;
  c_filter_max_nodes_per_ip := Some 10;
  c_filter_max_bans_per_ip := Some 5;
  c_permit_ban_list := empty_pblist;
  c_ban_duration := Some 3600000;
  c_auto_nat_listen_duration := Some 300000;
  c_protocol_id := PROTOCOL_ID;
  c_protocol_version := PROTOCOL_VERSION
|}.

(* ------------------------------------------------------------------ field updates *)
Definition set_enable_packet_filter (c : cfg) (v : bool) : cfg :=
  mkcfg v (c_request_timeout c) (c_vote_duration c) (c_query_peer_timeout c) (c_query_timeout c)
    (c_request_retries c) (c_session_timeout c) (c_session_cache_capacity c) (c_enr_update c)
    (c_max_nodes_response c) (c_enr_peer_update_min c) (c_query_parallelism c) (c_ip_limit c)
    (c_incoming_bucket_limit c) (c_table_filter c) (c_ping_interval c)
    (c_report_discovered_peers c) (c_filter_rate_limiter c) (c_filter_max_nodes_per_ip c)
    (c_filter_max_bans_per_ip c) (c_permit_ban_list c) (c_ban_duration c)
    (c_auto_nat_listen_duration c) (c_protocol_id c) (c_protocol_version c).
Definition set_request_timeout (c : cfg) (v : N) : cfg :=
  mkcfg (c_enable_packet_filter c) v (c_vote_duration c) (c_query_peer_timeout c)
    (c_query_timeout c) (c_request_retries c) (c_session_timeout c) (c_session_cache_capacity c)
    (c_enr_update c) (c_max_nodes_response c) (c_enr_peer_update_min c) (c_query_parallelism c)
    (c_ip_limit c) (c_incoming_bucket_limit c) (c_table_filter c) (c_ping_interval c)
    (c_report_discovered_peers c) (c_filter_rate_limiter c) (c_filter_max_nodes_per_ip c)
    (c_filter_max_bans_per_ip c) (c_permit_ban_list c) (c_ban_duration c)
    (c_auto_nat_listen_duration c) (c_protocol_id c) (c_protocol_version c).
Definition set_vote_duration (c : cfg) (v : N) : cfg :=
  mkcfg (c_enable_packet_filter c) (c_request_timeout c) v (c_query_peer_timeout c)
    (c_query_timeout c) (c_request_retries c) (c_session_timeout c) (c_session_cache_capacity c)
    (c_enr_update c) (c_max_nodes_response c) (c_enr_peer_update_min c) (c_query_parallelism c)
    (c_ip_limit c) (c_incoming_bucket_limit c) (c_table_filter c) (c_ping_interval c)
    (c_report_discovered_peers c) (c_filter_rate_limiter c) (c_filter_max_nodes_per_ip c)
    (c_filter_max_bans_per_ip c) (c_permit_ban_list c) (c_ban_duration c)
    (c_auto_nat_listen_duration c) (c_protocol_id c) (c_protocol_version c).
Definition set_query_peer_timeout (c : cfg) (v : N) : cfg :=
  mkcfg (c_enable_packet_filter c) (c_request_timeout c) (c_vote_duration c) v (c_query_timeout c)
    (c_request_retries c) (c_session_timeout c) (c_session_cache_capacity c) (c_enr_update c)
    (c_max_nodes_response c) (c_enr_peer_update_min c) (c_query_parallelism c) (c_ip_limit c)
    (c_incoming_bucket_limit c) (c_table_filter c) (c_ping_interval c)
    (c_report_discovered_peers c) (c_filter_rate_limiter c) (c_filter_max_nodes_per_ip c)
    (c_filter_max_bans_per_ip c) (c_permit_ban_list c) (c_ban_duration c)
    (c_auto_nat_listen_duration c) (c_protocol_id c) (c_protocol_version c).
Definition set_query_timeout (c : cfg) (v : N) : cfg :=
  mkcfg (c_enable_packet_filter c) (c_request_timeout c) (c_vote_duration c)
    (c_query_peer_timeout c) v (c_request_retries c) (c_session_timeout c)
    (c_session_cache_capacity c) (c_enr_update c) (c_max_nodes_response c)
    (c_enr_peer_update_min c) (c_query_parallelism c) (c_ip_limit c) (c_incoming_bucket_limit c)
    (c_table_filter c) (c_ping_interval c) (c_report_discovered_peers c) (c_filter_rate_limiter c)
    (c_filter_max_nodes_per_ip c) (c_filter_max_bans_per_ip c) (c_permit_ban_list c)
    (c_ban_duration c) (c_auto_nat_listen_duration c) (c_protocol_id c) (c_protocol_version c).
Definition set_request_retries (c : cfg) (v : N) : cfg :=
  mkcfg (c_enable_packet_filter c) (c_request_timeout c) (c_vote_duration c)
    (c_query_peer_timeout c) (c_query_timeout c) v (c_session_timeout c)
    (c_session_cache_capacity c) (c_enr_update c) (c_max_nodes_response c)
    (c_enr_peer_update_min c) (c_query_parallelism c) (c_ip_limit c) (c_incoming_bucket_limit c)
    (c_table_filter c) (c_ping_interval c) (c_report_discovered_peers c) (c_filter_rate_limiter c)
    (c_filter_max_nodes_per_ip c) (c_filter_max_bans_per_ip c) (c_permit_ban_list c)
    (c_ban_duration c) (c_auto_nat_listen_duration c) (c_protocol_id c) (c_protocol_version c).
Definition set_session_timeout (c : cfg) (v : N) : cfg :=
  mkcfg (c_enable_packet_filter c) (c_request_timeout c) (c_vote_duration c)
    (c_query_peer_timeout c) (c_query_timeout c) (c_request_retries c) v
    (c_session_cache_capacity c) (c_enr_update c) (c_max_nodes_response c)
    (c_enr_peer_update_min c) (c_query_parallelism c) (c_ip_limit c) (c_incoming_bucket_limit c)
    (c_table_filter c) (c_ping_interval c) (c_report_discovered_peers c) (c_filter_rate_limiter c)
    (c_filter_max_nodes_per_ip c) (c_filter_max_bans_per_ip c) (c_permit_ban_list c)
    (c_ban_duration c) (c_auto_nat_listen_duration c) (c_protocol_id c) (c_protocol_version c).
Definition set_session_cache_capacity (c : cfg) (v : N) : cfg :=
  mkcfg (c_enable_packet_filter c) (c_request_timeout c) (c_vote_duration c)
    (c_query_peer_timeout c) (c_query_timeout c) (c_request_retries c) (c_session_timeout c) v
    (c_enr_update c) (c_max_nodes_response c) (c_enr_peer_update_min c) (c_query_parallelism c)
    (c_ip_limit c) (c_incoming_bucket_limit c) (c_table_filter c) (c_ping_interval c)
    (c_report_discovered_peers c) (c_filter_rate_limiter c) (c_filter_max_nodes_per_ip c)
    (c_filter_max_bans_per_ip c) (c_permit_ban_list c) (c_ban_duration c)
    (c_auto_nat_listen_duration c) (c_protocol_id c) (c_protocol_version c).
Definition set_enr_update (c : cfg) (v : bool) : cfg :=
  mkcfg (c_enable_packet_filter c) (c_request_timeout c) (c_vote_duration c)
    (c_query_peer_timeout c) (c_query_timeout c) (c_request_retries c) (c_session_timeout c)
    (c_session_cache_capacity c) v (c_max_nodes_response c) (c_enr_peer_update_min c)
    (c_query_parallelism c) (c_ip_limit c) (c_incoming_bucket_limit c) (c_table_filter c)
    (c_ping_interval c) (c_report_discovered_peers c) (c_filter_rate_limiter c)
    (c_filter_max_nodes_per_ip c) (c_filter_max_bans_per_ip c) (c_permit_ban_list c)
    (c_ban_duration c) (c_auto_nat_listen_duration c) (c_protocol_id c) (c_protocol_version c).
Definition set_max_nodes_response (c : cfg) (v : N) : cfg :=
  mkcfg (c_enable_packet_filter c) (c_request_timeout c) (c_vote_duration c)
    (c_query_peer_timeout c) (c_query_timeout c) (c_request_retries c) (c_session_timeout c)
    (c_session_cache_capacity c) (c_enr_update c) v (c_enr_peer_update_min c)
    (c_query_parallelism c) (c_ip_limit c) (c_incoming_bucket_limit c) (c_table_filter c)
    (c_ping_interval c) (c_report_discovered_peers c) (c_filter_rate_limiter c)
    (c_filter_max_nodes_per_ip c) (c_filter_max_bans_per_ip c) (c_permit_ban_list c)
    (c_ban_duration c) (c_auto_nat_listen_duration c) (c_protocol_id c) (c_protocol_version c).
Definition set_enr_peer_update_min (c : cfg) (v : N) : cfg :=
  mkcfg (c_enable_packet_filter c) (c_request_timeout c) (c_vote_duration c)
    (c_query_peer_timeout c) (c_query_timeout c) (c_request_retries c) (c_session_timeout c)
    (c_session_cache_capacity c) (c_enr_update c) (c_max_nodes_response c) v
    (c_query_parallelism c) (c_ip_limit c) (c_incoming_bucket_limit c) (c_table_filter c)
    (c_ping_interval c) (c_report_discovered_peers c) (c_filter_rate_limiter c)
    (c_filter_max_nodes_per_ip c) (c_filter_max_bans_per_ip c) (c_permit_ban_list c)
    (c_ban_duration c) (c_auto_nat_listen_duration c) (c_protocol_id c) (c_protocol_version c).
Definition set_query_parallelism (c : cfg) (v : N) : cfg :=
  mkcfg (c_enable_packet_filter c) (c_request_timeout c) (c_vote_duration c)
    (c_query_peer_timeout c) (c_query_timeout c) (c_request_retries c) (c_session_timeout c)
    (c_session_cache_capacity c) (c_enr_update c) (c_max_nodes_response c)
    (c_enr_peer_update_min c) v (c_ip_limit c) (c_incoming_bucket_limit c) (c_table_filter c)
    (c_ping_interval c) (c_report_discovered_peers c) (c_filter_rate_limiter c)
    (c_filter_max_nodes_per_ip c) (c_filter_max_bans_per_ip c) (c_permit_ban_list c)
    (c_ban_duration c) (c_auto_nat_listen_duration c) (c_protocol_id c) (c_protocol_version c).
Definition set_ip_limit (c : cfg) (v : bool) : cfg :=
  mkcfg (c_enable_packet_filter c) (c_request_timeout c) (c_vote_duration c)
    (c_query_peer_timeout c) (c_query_timeout c) (c_request_retries c) (c_session_timeout c)
    (c_session_cache_capacity c) (c_enr_update c) (c_max_nodes_response c)
    (c_enr_peer_update_min c) (c_query_parallelism c) v (c_incoming_bucket_limit c)
    (c_table_filter c) (c_ping_interval c) (c_report_discovered_peers c) (c_filter_rate_limiter c)
    (c_filter_max_nodes_per_ip c) (c_filter_max_bans_per_ip c) (c_permit_ban_list c)
    (c_ban_duration c) (c_auto_nat_listen_duration c) (c_protocol_id c) (c_protocol_version c).
Definition set_incoming_bucket_limit (c : cfg) (v : N) : cfg :=
  mkcfg (c_enable_packet_filter c) (c_request_timeout c) (c_vote_duration c)
    (c_query_peer_timeout c) (c_query_timeout c) (c_request_retries c) (c_session_timeout c)
    (c_session_cache_capacity c) (c_enr_update c) (c_max_nodes_response c)
    (c_enr_peer_update_min c) (c_query_parallelism c) (c_ip_limit c) v (c_table_filter c)
    (c_ping_interval c) (c_report_discovered_peers c) (c_filter_rate_limiter c)
    (c_filter_max_nodes_per_ip c) (c_filter_max_bans_per_ip c) (c_permit_ban_list c)
    (c_ban_duration c) (c_auto_nat_listen_duration c) (c_protocol_id c) (c_protocol_version c).
Definition set_table_filter (c : cfg) (v : N) : cfg :=
  mkcfg (c_enable_packet_filter c) (c_request_timeout c) (c_vote_duration c)
    (c_query_peer_timeout c) (c_query_timeout c) (c_request_retries c) (c_session_timeout c)
    (c_session_cache_capacity c) (c_enr_update c) (c_max_nodes_response c)
    (c_enr_peer_update_min c) (c_query_parallelism c) (c_ip_limit c) (c_incoming_bucket_limit c) v
    (c_ping_interval c) (c_report_discovered_peers c) (c_filter_rate_limiter c)
    (c_filter_max_nodes_per_ip c) (c_filter_max_bans_per_ip c) (c_permit_ban_list c)
    (c_ban_duration c) (c_auto_nat_listen_duration c) (c_protocol_id c) (c_protocol_version c).
Definition set_ping_interval (c : cfg) (v : N) : cfg :=
  mkcfg (c_enable_packet_filter c) (c_request_timeout c) (c_vote_duration c)
    (c_query_peer_timeout c) (c_query_timeout c) (c_request_retries c) (c_session_timeout c)
    (c_session_cache_capacity c) (c_enr_update c) (c_max_nodes_response c)
    (c_enr_peer_update_min c) (c_query_parallelism c) (c_ip_limit c) (c_incoming_bucket_limit c)
    (c_table_filter c) v (c_report_discovered_peers c) (c_filter_rate_limiter c)
    (c_filter_max_nodes_per_ip c) (c_filter_max_bans_per_ip c) (c_permit_ban_list c)
    (c_ban_duration c) (c_auto_nat_listen_duration c) (c_protocol_id c) (c_protocol_version c).
Definition set_report_discovered_peers (c : cfg) (v : bool) : cfg :=
  mkcfg (c_enable_packet_filter c) (c_request_timeout c) (c_vote_duration c)
    (c_query_peer_timeout c) (c_query_timeout c) (c_request_retries c) (c_session_timeout c)
    (c_session_cache_capacity c) (c_enr_update c) (c_max_nodes_response c)
    (c_enr_peer_update_min c) (c_query_parallelism c) (c_ip_limit c) (c_incoming_bucket_limit c)
    (c_table_filter c) (c_ping_interval c) v (c_filter_rate_limiter c)
    (c_filter_max_nodes_per_ip c) (c_filter_max_bans_per_ip c) (c_permit_ban_list c)
    (c_ban_duration c) (c_auto_nat_listen_duration c) (c_protocol_id c) (c_protocol_version c).
Definition set_filter_rate_limiter (c : cfg) (v : option (list N)) : cfg :=
  mkcfg (c_enable_packet_filter c) (c_request_timeout c) (c_vote_duration c)
    (c_query_peer_timeout c) (c_query_timeout c) (c_request_retries c) (c_session_timeout c)
    (c_session_cache_capacity c) (c_enr_update c) (c_max_nodes_response c)
    (c_enr_peer_update_min c) (c_query_parallelism c) (c_ip_limit c) (c_incoming_bucket_limit c)
    (c_table_filter c) (c_ping_interval c) (c_report_discovered_peers c) v
    (c_filter_max_nodes_per_ip c) (c_filter_max_bans_per_ip c) (c_permit_ban_list c)
    (c_ban_duration c) (c_auto_nat_listen_duration c) (c_protocol_id c) (c_protocol_version c).
Definition set_filter_max_nodes_per_ip (c : cfg) (v : option N) : cfg :=
  mkcfg (c_enable_packet_filter c) (c_request_timeout c) (c_vote_duration c)
    (c_query_peer_timeout c) (c_query_timeout c) (c_request_retries c) (c_session_timeout c)
    (c_session_cache_capacity c) (c_enr_update c) (c_max_nodes_response c)
    (c_enr_peer_update_min c) (c_query_parallelism c) (c_ip_limit c) (c_incoming_bucket_limit c)
    (c_table_filter c) (c_ping_interval c) (c_report_discovered_peers c) (c_filter_rate_limiter c)
    v (c_filter_max_bans_per_ip c) (c_permit_ban_list c) (c_ban_duration c)
    (c_auto_nat_listen_duration c) (c_protocol_id c) (c_protocol_version c).
Definition set_filter_max_bans_per_ip (c : cfg) (v : option N) : cfg :=
  mkcfg (c_enable_packet_filter c) (c_request_timeout c) (c_vote_duration c)
    (c_query_peer_timeout c) (c_query_timeout c) (c_request_retries c) (c_session_timeout c)
    (c_session_cache_capacity c) (c_enr_update c) (c_max_nodes_response c)
    (c_enr_peer_update_min c) (c_query_parallelism c) (c_ip_limit c) (c_incoming_bucket_limit c)
    (c_table_filter c) (c_ping_interval c) (c_report_discovered_peers c) (c_filter_rate_limiter c)
    (c_filter_max_nodes_per_ip c) v (c_permit_ban_list c) (c_ban_duration c)
    (c_auto_nat_listen_duration c) (c_protocol_id c) (c_protocol_version c).
Definition set_permit_ban_list (c : cfg) (v : pblist) : cfg :=
  mkcfg (c_enable_packet_filter c) (c_request_timeout c) (c_vote_duration c)
    (c_query_peer_timeout c) (c_query_timeout c) (c_request_retries c) (c_session_timeout c)
    (c_session_cache_capacity c) (c_enr_update c) (c_max_nodes_response c)
    (c_enr_peer_update_min c) (c_query_parallelism c) (c_ip_limit c) (c_incoming_bucket_limit c)
    (c_table_filter c) (c_ping_interval c) (c_report_discovered_peers c) (c_filter_rate_limiter c)
    (c_filter_max_nodes_per_ip c) (c_filter_max_bans_per_ip c) v (c_ban_duration c)
    (c_auto_nat_listen_duration c) (c_protocol_id c) (c_protocol_version c).
Definition set_ban_duration (c : cfg) (v : option N) : cfg :=
  mkcfg (c_enable_packet_filter c) (c_request_timeout c) (c_vote_duration c)
    (c_query_peer_timeout c) (c_query_timeout c) (c_request_retries c) (c_session_timeout c)
    (c_session_cache_capacity c) (c_enr_update c) (c_max_nodes_response c)
    (c_enr_peer_update_min c) (c_query_parallelism c) (c_ip_limit c) (c_incoming_bucket_limit c)
    (c_table_filter c) (c_ping_interval c) (c_report_discovered_peers c) (c_filter_rate_limiter c)
    (c_filter_max_nodes_per_ip c) (c_filter_max_bans_per_ip c) (c_permit_ban_list c) v
    (c_auto_nat_listen_duration c) (c_protocol_id c) (c_protocol_version c).
Definition set_auto_nat_listen_duration (c : cfg) (v : option N) : cfg :=
  mkcfg (c_enable_packet_filter c) (c_request_timeout c) (c_vote_duration c)
    (c_query_peer_timeout c) (c_query_timeout c) (c_request_retries c) (c_session_timeout c)
    (c_session_cache_capacity c) (c_enr_update c) (c_max_nodes_response c)
    (c_enr_peer_update_min c) (c_query_parallelism c) (c_ip_limit c) (c_incoming_bucket_limit c)
    (c_table_filter c) (c_ping_interval c) (c_report_discovered_peers c) (c_filter_rate_limiter c)
    (c_filter_max_nodes_per_ip c) (c_filter_max_bans_per_ip c) (c_permit_ban_list c)
    (c_ban_duration c) v (c_protocol_id c) (c_protocol_version c).
Definition set_protocol_id (c : cfg) (v : N) : cfg :=
  mkcfg (c_enable_packet_filter c) (c_request_timeout c) (c_vote_duration c)
    (c_query_peer_timeout c) (c_query_timeout c) (c_request_retries c) (c_session_timeout c)
    (c_session_cache_capacity c) (c_enr_update c) (c_max_nodes_response c)
    (c_enr_peer_update_min c) (c_query_parallelism c) (c_ip_limit c) (c_incoming_bucket_limit c)
    (c_table_filter c) (c_ping_interval c) (c_report_discovered_peers c) (c_filter_rate_limiter c)
    (c_filter_max_nodes_per_ip c) (c_filter_max_bans_per_ip c) (c_permit_ban_list c)
    (c_ban_duration c) (c_auto_nat_listen_duration c) v (c_protocol_version c).
Definition set_protocol_version (c : cfg) (v : N) : cfg :=
  mkcfg (c_enable_packet_filter c) (c_request_timeout c) (c_vote_duration c)
    (c_query_peer_timeout c) (c_query_timeout c) (c_request_retries c) (c_session_timeout c)
    (c_session_cache_capacity c) (c_enr_update c) (c_max_nodes_response c)
    (c_enr_peer_update_min c) (c_query_parallelism c) (c_ip_limit c) (c_incoming_bucket_limit c)
    (c_table_filter c) (c_ping_interval c) (c_report_discovered_peers c) (c_filter_rate_limiter c)
    (c_filter_max_nodes_per_ip c) (c_filter_max_bans_per_ip c) (c_permit_ban_list c)
    (c_ban_duration c) (c_auto_nat_listen_duration c) (c_protocol_id c) v.

(* ------------------------------------------------------------------ the setters of ConfigBuilder *)
Inductive cop :=
| OEnablePacketFilter  (* enable_packet_filter() *)
| ORequestTimeout (n : N)  (* request_timeout(ms) *)
| OVoteDuration (n : N)  (* vote_duration(ms) *)
| OQueryPeerTimeout (n : N)  (* query_peer_timeout(ms) *)
| OQueryTimeout (n : N)  (* query_timeout(ms) *)
| ORequestRetries (n : N)  (* request_retries(n) *)
| OSessionTimeout (n : N)  (* session_timeout(ms) *)
| OSessionCacheCapacity (n : N)  (* session_cache_capacity(n) *)
| ODisableEnrUpdate  (* disable_enr_update() *)
| OMaxNodesResponse (n : N)  (* max_nodes_response(n) *)
| OEnrPeerUpdateMin (n : N)  (* enr_peer_update_min(n) *)
| OQueryParallelism (n : N)  (* query_parallelism(n) *)
| OIpLimit  (* ip_limit() *)
| OIncomingBucketLimit (n : N)  (* incoming_bucket_limit(n) *)
| OTableFilter (n : N)  (* table_filter(fn number n) *)
| OPingInterval (n : N)  (* ping_interval(ms) *)
| ODisableReportDiscoveredPeers  (* disable_report_discovered_peers() *)
| OFilterRateLimiter (r : option (list N))  (* filter_rate_limiter(r) *)
| OFilterMaxNodesPerIp (o : option N)  (* filter_max_nodes_per_ip(o) *)
| OFilterMaxBansPerIp (o : option N)  (* filter_max_bans_per_ip(o) *)
| OPermitBanList (l : pblist)  (* permit_ban_list(l) *)
| OBanDuration (o : option N)  (* ban_duration(o) *)
| OAutoNatListenDuration (o : option N)  (* auto_nat_listen_duration(o) *)
| OProtocolIdentity (id version : N)  (* protocol_identity(id, version) *)
.

Definition apply (c : cfg) (op : cop) : option cfg :=
  match op with
  | OEnablePacketFilter => Some (set_enable_packet_filter c true)
  | ORequestTimeout n => Some (set_request_timeout c n)
  | OVoteDuration n => Some (set_vote_duration c n)
  | OQueryPeerTimeout n => Some (set_query_peer_timeout c n)
  | OQueryTimeout n => Some (set_query_timeout c n)
  | ORequestRetries n => Some (set_request_retries c n)
  | OSessionTimeout n => Some (set_session_timeout c n)
  | OSessionCacheCapacity n => Some (set_session_cache_capacity c n)
  | ODisableEnrUpdate => Some (set_enr_update c false)
  | OMaxNodesResponse n => Some (set_max_nodes_response c n)
  | OEnrPeerUpdateMin n => if n <? 2 then None else Some (set_enr_peer_update_min c n)
  | OQueryParallelism n => Some (set_query_parallelism c n)
  | OIpLimit => Some (set_ip_limit c true)
  | OIncomingBucketLimit n => Some (set_incoming_bucket_limit c n)
  | OTableFilter n => Some (set_table_filter c n)
  | OPingInterval n => Some (set_ping_interval c n)
  | ODisableReportDiscoveredPeers => Some (set_report_discovered_peers c false)
  | OFilterRateLimiter r => Some (set_filter_rate_limiter c r)
  | OFilterMaxNodesPerIp o => Some (set_filter_max_nodes_per_ip c o)
  | OFilterMaxBansPerIp o => Some (set_filter_max_bans_per_ip c o)
  | OPermitBanList l => Some (set_permit_ban_list c l)
  | OBanDuration o => Some (set_ban_duration c o)
  | OAutoNatListenDuration o => Some (set_auto_nat_listen_duration c o)
  | OProtocolIdentity id version => Some (set_protocol_version (set_protocol_id c id) version)
  end.

(* ------------------------------------------------------------------ fields as an enumeration *)
Inductive field :=
  | FEnablePacketFilter
  | FRequestTimeout
  | FVoteDuration
  | FQueryPeerTimeout
  | FQueryTimeout
  | FRequestRetries
  | FSessionTimeout
  | FSessionCacheCapacity
  | FEnrUpdate
  | FMaxNodesResponse
  | FEnrPeerUpdateMin
  | FQueryParallelism
  | FIpLimit
  | FIncomingBucketLimit
  | FTableFilter
  | FPingInterval
  | FReportDiscoveredPeers
  | FFilterRateLimiter
  | FFilterMaxNodesPerIp
  | FFilterMaxBansPerIp
  | FPermitBanList
  | FBanDuration
  | FAutoNatListenDuration
  | FProtocolIdentity.

Definition get (c : cfg) (f : field) : fval :=
  match f with
  | FEnablePacketFilter => VB (c_enable_packet_filter c)
  | FRequestTimeout => VN (c_request_timeout c)
  | FVoteDuration => VN (c_vote_duration c)
  | FQueryPeerTimeout => VN (c_query_peer_timeout c)
  | FQueryTimeout => VN (c_query_timeout c)
  | FRequestRetries => VN (c_request_retries c)
  | FSessionTimeout => VN (c_session_timeout c)
  | FSessionCacheCapacity => VN (c_session_cache_capacity c)
  | FEnrUpdate => VB (c_enr_update c)
  | FMaxNodesResponse => VN (c_max_nodes_response c)
  | FEnrPeerUpdateMin => VN (c_enr_peer_update_min c)
  | FQueryParallelism => VN (c_query_parallelism c)
  | FIpLimit => VB (c_ip_limit c)
  | FIncomingBucketLimit => VN (c_incoming_bucket_limit c)
  | FTableFilter => VN (c_table_filter c)
  | FPingInterval => VN (c_ping_interval c)
  | FReportDiscoveredPeers => VB (c_report_discovered_peers c)
  | FFilterRateLimiter => VR (c_filter_rate_limiter c)
  | FFilterMaxNodesPerIp => VO (c_filter_max_nodes_per_ip c)
  | FFilterMaxBansPerIp => VO (c_filter_max_bans_per_ip c)
  | FPermitBanList => VP (c_permit_ban_list c)
  | FBanDuration => VO (c_ban_duration c)
  | FAutoNatListenDuration => VO (c_auto_nat_listen_duration c)
  | FProtocolIdentity => VI (c_protocol_id c) (c_protocol_version c)
  end.

Definition field_of (op : cop) : field :=
  match op with
  | OEnablePacketFilter => FEnablePacketFilter
  | ORequestTimeout _ => FRequestTimeout
  | OVoteDuration _ => FVoteDuration
  | OQueryPeerTimeout _ => FQueryPeerTimeout
  | OQueryTimeout _ => FQueryTimeout
  | ORequestRetries _ => FRequestRetries
  | OSessionTimeout _ => FSessionTimeout
  | OSessionCacheCapacity _ => FSessionCacheCapacity
  | ODisableEnrUpdate => FEnrUpdate
  | OMaxNodesResponse _ => FMaxNodesResponse
  | OEnrPeerUpdateMin _ => FEnrPeerUpdateMin
  | OQueryParallelism _ => FQueryParallelism
  | OIpLimit => FIpLimit
  | OIncomingBucketLimit _ => FIncomingBucketLimit
  | OTableFilter _ => FTableFilter
  | OPingInterval _ => FPingInterval
  | ODisableReportDiscoveredPeers => FReportDiscoveredPeers
  | OFilterRateLimiter _ => FFilterRateLimiter
  | OFilterMaxNodesPerIp _ => FFilterMaxNodesPerIp
  | OFilterMaxBansPerIp _ => FFilterMaxBansPerIp
  | OPermitBanList _ => FPermitBanList
  | OBanDuration _ => FBanDuration
  | OAutoNatListenDuration _ => FAutoNatListenDuration
  | OProtocolIdentity _ _ => FProtocolIdentity
  end.

Definition value_of (op : cop) : fval :=
  match op with
  | OEnablePacketFilter => VB true
  | ORequestTimeout n => VN n
  | OVoteDuration n => VN n
  | OQueryPeerTimeout n => VN n
  | OQueryTimeout n => VN n
  | ORequestRetries n => VN n
  | OSessionTimeout n => VN n
  | OSessionCacheCapacity n => VN n
  | ODisableEnrUpdate => VB false
  | OMaxNodesResponse n => VN n
  | OEnrPeerUpdateMin n => VN n
  | OQueryParallelism n => VN n
  | OIpLimit => VB true
  | OIncomingBucketLimit n => VN n
  | OTableFilter n => VN n
  | OPingInterval n => VN n
  | ODisableReportDiscoveredPeers => VB false
  | OFilterRateLimiter r => VR r
  | OFilterMaxNodesPerIp o => VO o
  | OFilterMaxBansPerIp o => VO o
  | OPermitBanList l => VP l
  | OBanDuration o => VO o
  | OAutoNatListenDuration o => VO o
  | OProtocolIdentity id version => VI id version
  end.

(* ------------------------------------------------------------------ flat encoding *)
Definition enc_cfg (c : cfg) : list N :=
  [cb (c_enable_packet_filter c)]
  ++ [c_request_timeout c]
  ++ [c_vote_duration c]
  ++ [c_query_peer_timeout c]
  ++ [c_query_timeout c]
  ++ [c_request_retries c]
  ++ [c_session_timeout c]
  ++ [c_session_cache_capacity c]
  ++ [cb (c_enr_update c)]
  ++ [c_max_nodes_response c]
  ++ [c_enr_peer_update_min c]
  ++ [c_query_parallelism c]
  ++ [cb (c_ip_limit c)]
  ++ [c_incoming_bucket_limit c]
  ++ [c_table_filter c]
  ++ [c_ping_interval c]
  ++ [cb (c_report_discovered_peers c)]
  ++ coptl (c_filter_rate_limiter c)
  ++ copt (c_filter_max_nodes_per_ip c)
  ++ copt (c_filter_max_bans_per_ip c)
  ++ enc_pblist (c_permit_ban_list c)
  ++ copt (c_ban_duration c)
  ++ copt (c_auto_nat_listen_duration c)
  ++ [c_protocol_id c]
  ++ [c_protocol_version c].

(* ------------------------------------------------------------------ build, runs of setters *)

(* [ConfigBuilder::build]: with [enr_update] off the NAT heuristic is switched off as well; the
   assertion on the incoming limit; (the executor default is not modelled) *)
Definition build (c : cfg) : option cfg :=
  if MAX_NODES_PER_BUCKET <? c_incoming_bucket_limit c then None
  else Some (if c_enr_update c then c else set_auto_nat_listen_duration c None).

Fixpoint run_ops (c : cfg) (ops : list cop) : option cfg :=
  match ops with
  | [] => Some c
  | op :: rest => match apply c op with Some c' => run_ops c' rest | None => None end
  end.

(* how many setters ran before the first one that panicked *)
Fixpoint panic_pos (c : cfg) (ops : list cop) : N :=
  match ops with
  | [] => 0
  | op :: rest => match apply c op with Some c' => 1 + panic_pos c' rest | None => 0 end
  end.

(* the value of a field the application wrote last, if it wrote one *)
Definition field_eq_dec : forall a b : field, {a = b} + {a <> b}.
Proof. decide equality. Defined.

Fixpoint last_write (f : field) (ops : list cop) : option fval :=
  match ops with
  | [] => None
  | op :: rest =>
    match last_write f rest with
    | Some v => Some v
    | None => if field_eq_dec (field_of op) f then Some (value_of op) else None
    end
  end.

(* what the application configured: its last word, or the default *)
Definition configured (ops : list cop) (f : field) : fval :=
  match last_write f ops with Some v => v | None => get default_cfg f end.

(* ------------------------------------------------------------------ what reaches the components *)

(* A started node, as far as configuration goes:
   - [nv_built]: the [Config] returned by [build];
   - what [Discv5::new] derives from it: the incoming limit handed to [KBucketsTable::new], whether
     the /24 filters are installed (table and bucket filter), the process-wide permit/ban list;
   - [nv_service], [nv_handler]: the [Config] handed to [Service::spawn] (by [Discv5::start]) and to
     [Handler::spawn] (by [Service::spawn]): clones of the built one. *)
Record node_view := {
  nv_built : cfg;
  nv_table_incoming_limit : N;
  nv_ip_filters : bool;
  nv_permit_ban : pblist;
  nv_service : cfg;
  nv_handler : cfg
}.

Definition node_of (b : cfg) : node_view := {|
  nv_built := b;
  nv_table_incoming_limit := c_incoming_bucket_limit b;
  nv_ip_filters := c_ip_limit b;
  nv_permit_ban := c_permit_ban_list b;
  nv_service := b;
  nv_handler := b
|}.

Definition start_node (ops : list cop) : option node_view :=
  match run_ops default_cfg ops with
  | None => None
  | Some c => match build c with None => None | Some b => Some (node_of b) end
  end.

(* [Discv5::new], as the harness probes it: the number of connected incoming nodes one bucket of the
   routing table accepts before it answers [TooManyIncoming] (= the limit, which [build] bounds by
   the bucket size; 1 = the refusal was TooManyIncoming), whether a third record of one /24 is
   refused by a bucket, the six counts of the process-wide list *)
Definition effective_new (v : node_view) : list N :=
  [nv_table_incoming_limit v; 1; cb (nv_ip_filters v)] ++ enc_pblist (nv_permit_ban v).

(* everything, flat: (a) the built configuration, (b) what [Discv5::new] derived, and for a node that
   was started (c) the configuration [Service::spawn] saw and (d) the one [Handler::spawn] saw *)
Definition effective (v : node_view) (started : bool) : list N :=
  enc_cfg (nv_built v) ++ effective_new v
  ++ (if started then 1 :: enc_cfg (nv_service v) ++ enc_cfg (nv_handler v) else [0]).

(* the observable outcome of configuring (and starting) a node: [0; k] = the k-th setter panicked
   (k = the number of setters: [build] panicked) *)
Definition outcome (ops : list cop) (started : bool) : list N :=
  match run_ops default_cfg ops with
  | None => [0; panic_pos default_cfg ops]
  | Some c =>
    match build c with
    | None => [0; N.of_nat (length ops)]
    | Some b => 1 :: effective (node_of b) started
    end
  end.
