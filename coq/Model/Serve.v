(* Executable model of the answers the service gives (property C14):
   src/service.rs (handle_rpc_request: FINDNODE -> send_nodes_response with its packet splitting,
   PING -> PONG), on top of the routing-table model (KBucketsTable::nodes_by_distances).
   Definitions only (no proofs).

   A served record is the pair (node id, value): for a table entry the key under which it is stored
   (equal to the record's own node id in every table the service builds, see Properties/C12.v,
   entries_key_consistent) and for the local record the local id. *)
From Coq Require Import List Arith NArith Bool.
From Discv5V Require Import Generated.Params Lib.ListX Model.KBucket Model.Nodes.
Import ListNotations.
Local Open Scope N_scope.

Record sitem := { s_key : N; s_val : val }.

(* distances.sort_unstable(); distances.dedup(); *)
Fixpoint insert_N (x : N) (l : list N) : list N :=
  match l with
  | [] => [x]
  | y :: l' => if x <=? y then x :: l else y :: insert_N x l'
  end.
Definition sort_N (l : list N) : list N := fold_right insert_N [] l.
Fixpoint dedup_N (l : list N) : list N :=
  match l with
  | x :: l' =>
    match l' with
    | y :: _ => if x =? y then dedup_N l' else x :: dedup_N l'
    | [] => [x]
    end
  | [] => []
  end.

(* the splitting loop of send_nodes_response: [cur] is to_send_nodes[rpc_index], [done] the packets
   before it, [total_size] the running size of [cur] *)
Definition SPLIT_LIMIT : N := MAX_PACKET_SIZE - NODES_RESPONSE_OVERHEAD.

Fixpoint split_loop {A} (size : A -> N) (l : list A) (cur : list A) (total_size : N) (done : list (list A))
  : list (list A) :=
  match l with
  | [] => done ++ [cur]
  | x :: l' =>
    let s := size x in
    if s + total_size <? SPLIT_LIMIT
    then split_loop size l' (cur ++ [x]) (total_size + s) done
    else split_loop size l' [x] s (done ++ [cur])
  end.
Definition split_nodes {A} (size : A -> N) (l : list A) : list (list A) := split_loop size l [] 0 [].

(* a NODES response: the request id (as bytes), total, records *)
Record packet := { p_id : list N; p_total : N; p_nodes : list sitem }.

Definition item_of_node (n : node) : sitem := {| s_key := nkey n; s_val := nval n |}.

(* send_nodes_response(node_address, rpc_id, distances) *)
Definition serve_findnode (c : config) (t : table) (local_val : val) (requester : N) (id : list N)
  (ds : list N) (maxn : nat) (rsize : val -> N) (now : N) : table * list packet :=
  let ds1 := dedup_N (sort_N ds) in
  let '(own, ds2) := match ds1 with
                     | d :: r => if d =? 0 then ([{| s_key := local t; s_val := local_val |}], r) else ([], ds1)
                     | [] => ([], ds1)
                     end in
  let '(t', found) := match ds2 with
                      | [] => (t, [])
                      | _ => let (t', l) := t_nodes_by_distances c t ds2 maxn now in
                             (t', filter (fun n => negb (nkey n =? requester)) l)
                      end in
  let to_send := own ++ map item_of_node found in
  match to_send with
  | [] => (t', [{| p_id := id; p_total := 1; p_nodes := [] |}])
  | _ =>
    let chunks := split_nodes (fun s => rsize (s_val s)) to_send in
    (t', map (fun ch => {| p_id := id; p_total := N.of_nat (length chunks); p_nodes := ch |}) chunks)
  end.

Definition served_records (ps : list packet) : list sitem := flat_map p_nodes ps.

(* PING: the PONG carries the local sequence number and the observed source; no answer to port 0 *)
Record pong := { pg_seq : N; pg_ip : N; pg_port : N }.
Definition serve_ping (local_seq : N) (src_ip src_port : N) : option pong :=
  if src_port =? 0 then None else Some {| pg_seq := local_seq; pg_ip := src_ip; pg_port := src_port |}.

(* ------------------------------------------------------------------------------------------ *)
(* Size of a NODES response on the wire (self-contained; validated against the real codec by the
   correspondence run, which encodes, encrypts and packet-encodes every emitted response) *)

(* number of bytes of the big-endian representation without leading zeros *)
Definition be_len (x : N) : N := if x =? 0 then 0 else N.log2 x / 8 + 1.
(* RLP header of a payload of the given length *)
Definition rlp_hdr (payload : N) : N := if payload <? 56 then 1 else 1 + be_len payload.
(* RLP byte string *)
Definition rlp_bytes_size (bs : list N) : N :=
  match bs with
  | [b] => if b <? 128 then 1 else 2
  | _ => let n := N.of_nat (length bs) in rlp_hdr n + n
  end.
(* RLP unsigned integer *)
Definition rlp_uint_size (x : N) : N := if x <? 128 then 1 else 1 + be_len x.

Definition sum_sizes {A} (size : A -> N) (l : list A) : N := fold_right (fun x acc => size x + acc) 0 l.

(* Response::encode, Nodes: type byte, list header, id, total, list of records *)
Definition nodes_msg_size (rsize : val -> N) (p : packet) : N :=
  let payload := sum_sizes (fun s => rsize (s_val s)) (p_nodes p) in
  let body := rlp_bytes_size (p_id p) + rlp_uint_size (p_total p) + (rlp_hdr payload + payload) in
  1 + rlp_hdr body + body.

Definition NODE_ID_LENGTH : N := 32.   (* authdata of a message packet: the source node id *)
Definition GCM_TAG_LENGTH : N := 16.
(* masking IV, static header, authdata, encrypted message *)
Definition wire_size (msg : N) : N :=
  IV_LENGTH + STATIC_HEADER_LENGTH + NODE_ID_LENGTH + msg + GCM_TAG_LENGTH.
