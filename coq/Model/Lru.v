(* Executable model of /repo/src/lru_time_cache.rs (LruTimeCache<K, V>), the session cache of the
   handler (C15).  Definitions only; proofs are in Proofs/Lru.v.

   The Rust structure is a hashlink::LinkedHashMap<K, (V, Instant)> (a hash map whose entries are
   also chained in a list: front = least recently inserted / refreshed, back = most recent) plus
   the two configuration values ttl and capacity.  The model keeps the chain: a list of
   (key, value, time of last use), head = front.  Keys and values are numbers (the harness drives
   LruTimeCache<u64, u64>; the handler's instance is LruTimeCache<NodeAddress, Session>, only
   equality of keys matters).  Time is an explicit argument [now] (nanoseconds) of every operation
   that calls Instant::now() in Rust.

   The boolean [fixed] selects the behaviour of get_mut on an entry older than ttl:
     fixed = false : the code of the pinned tree - the age is ignored, the entry is refreshed and
                     returned (DESIGN.md section 7, D7);
     fixed = true  : the repaired code - the entry is removed and None is returned.  *)
From Coq Require Import List NArith Bool.
Import ListNotations.
Local Open Scope N_scope.

Definition entry := (N * N * N)%type.            (* key, value, time of last use *)
Definition ekey (e : entry) : N := fst (fst e).
Definition eval (e : entry) : N := snd (fst e).
Definition etime (e : entry) : N := snd e.

Record config := { ttl : N; capacity : N }.      (* capacity: None in Rust = usize::MAX *)
Definition cache := list entry.

Definition empty : cache := [].                  (* LruTimeCache::new *)

(* LinkedHashMap::get / raw_entry_mut().from_key *)
Fixpoint find (c : cache) (k : N) : option (N * N) :=
  match c with
  | [] => None
  | e :: r => if ekey e =? k then Some (eval e, etime e) else find r k
  end.

(* unlinking the entry with key k (LinkedHashMap::remove, and the first half of to_back) *)
Definition del (c : cache) (k : N) : cache := filter (fun e => negb (ekey e =? k)) c.

(* `*time + self.ttl >= now` is the test for "still alive" in peek and remove_expired_values;
   [expired] is its negation. *)
Definition expired (cfg : config) (t now : N) : bool := t + ttl cfg <? now.

(* LinkedHashMap::pop_front *)
Definition pop_front (c : cache) : cache := tl c.

(* fn insert(&mut self, key, value):
     let now = Instant::now();
     self.map.insert(key, (value, now));     -- hashlink: an existing entry is moved to the back
     if self.map.len() > self.capacity { self.map.pop_front(); }                                *)
Definition insert (cfg : config) (c : cache) (k v now : N) : cache :=
  let c1 := del c k ++ [(k, v, now)] in
  if capacity cfg <? N.of_nat (length c1) then pop_front c1 else c1.

(* fn get_mut(&mut self, key) -> Option<&mut V>:
     let now = Instant::now();
     match self.map.raw_entry_mut().from_key(key) {
       Occupied(mut occupied) => {
         [fixed only:  if occupied.get().1 + self.ttl < now { occupied.remove(); return None; }]
         occupied.get_mut().1 = now; occupied.to_back(); Some(&mut occupied.into_mut().0) }
       Vacant(_) => None }                                                                     *)
Definition get_mut (fixed : bool) (cfg : config) (c : cache) (k now : N) : cache * option N :=
  match find c k with
  | None => (c, None)
  | Some (v, t) =>
    if fixed && expired cfg t now then (del c k, None)
    else (del c k ++ [(k, v, now)], Some v)
  end.

(* fn get(&mut self, key) -> Option<&V> { self.get_mut(key).map(|value| &*value) } *)
Definition get (fixed : bool) (cfg : config) (c : cache) (k now : N) : cache * option N :=
  get_mut fixed cfg c k now.

(* writing through the &mut V returned by get_mut (the handler mutates the Session in place) *)
Definition set_val (c : cache) (k v : N) : cache :=
  map (fun e => if ekey e =? k then (k, v, etime e) else e) c.

(* fn peek(&self, key) -> Option<&V>:
     if let Some((value, time)) = self.map.get(key) {
        return if *time + self.ttl >= Instant::now() { Some(value) } else { None }; }
     None                                                                                      *)
Definition peek (cfg : config) (c : cache) (k now : N) : option N :=
  match find c k with
  | Some (v, t) => if expired cfg t now then None else Some v
  | None => None
  end.

(* fn len(&mut self) -> usize { self.map.len() }   -- counts expired entries too *)
Definition len (c : cache) : N := N.of_nat (length c).

(* fn remove(&mut self, key) -> Option<V> { self.map.remove(key).map(|v| v.0) }  -- no age test *)
Definition remove (c : cache) (k : N) : cache * option N :=
  (del c k, option_map fst (find c k)).

(* fn remove_expired_values(&mut self) -> Vec<K>:
     let now = Instant::now();
     while let Some((_front, (_value, time))) = self.map.front() {
        if *time + self.ttl >= now { break; }
        if let Some((k, _v)) = self.map.pop_front() { expired_elements.push(k); } }            *)
Fixpoint remove_expired_values (cfg : config) (c : cache) (now : N) : cache * list N :=
  match c with
  | [] => ([], [])
  | e :: r =>
    if expired cfg (etime e) now then
      let (c', ks) := remove_expired_values cfg r now in (c', ekey e :: ks)
    else (c, [])
  end.

(* ---------------------------------------------------------------------------------------------- *)
(* Operations as data (the correspondence run and the reachability theorems) *)

Inductive op :=
| Insert (k v : N)
| Get (k : N)
| GetMut (k : N) (write : option N)     (* get_mut, then optionally *r = v through the reference *)
| Peek (k : N)
| Remove (k : N)
| Len
| RemoveExpired.

Inductive out :=
| OUnit
| OVal (r : option N)
| OLen (n : N)
| OKeys (ks : list N).

Definition step (fixed : bool) (cfg : config) (c : cache) (o : op) (now : N) : cache * out :=
  match o with
  | Insert k v => (insert cfg c k v now, OUnit)
  | Get k => let (c', r) := get fixed cfg c k now in (c', OVal r)
  | GetMut k w =>
    let (c', r) := get_mut fixed cfg c k now in
    match r, w with
    | Some _, Some v' => (set_val c' k v', OVal r)
    | _, _ => (c', OVal r)
    end
  | Peek k => (c, OVal (peek cfg c k now))
  | Remove k => let (c', r) := remove c k in (c', OVal r)
  | Len => (c, OLen (len c))
  | RemoveExpired => let (c', ks) := remove_expired_values cfg c now in (c', OKeys ks)
  end.

(* a run from the empty cache over a list of (operation, time) *)
Fixpoint run_from (fixed : bool) (cfg : config) (c : cache) (tr : list (op * N)) : cache * list out :=
  match tr with
  | [] => (c, [])
  | (o, now) :: rest =>
    let (c1, r) := step fixed cfg c o now in
    let (c2, rs) := run_from fixed cfg c1 rest in (c2, r :: rs)
  end.

Definition run (fixed : bool) (cfg : config) (tr : list (op * N)) : cache * list out :=
  run_from fixed cfg empty tr.
