(* Executable model of the session handler: src/handler/mod.rs, src/handler/session.rs,
   src/handler/active_requests.rs, src/handler/request_call.rs.  Definitions only.

   Conventions (DESIGN.md section 4 and appendix A):
   - every opaque byte string (socket address, nonce part, request id, request body, challenge data,
     authenticated data, ephemeral public key) is interned as a number: equality of numbers is
     equality of byte strings;
   - cryptography is symbolic: a session key is the term [(eph, static, cd, idA, idB, half)] that
     HKDF(ECDH(eph, static), cd, idA, idB) denotes; a ciphertext [CEnc k n m a] decrypts exactly under
     key k, nonce n and authenticated data a; a signature [Sig k cd eph dst] verifies exactly under
     the public key named k for the message (cd, eph, dst).  The public key of a node is named by
     the node id it hashes to (so [e_id] of a record is both its id and its key);
   - randomness (nonces, IVs, id-nonces, ephemeral keys, internal request ids) is an oracle input
     of each step ([draws]), observed on the wire by the harness;
   - timers (HashMapDelay) are deadlines; [EvTick] at time [now] fires every entry whose deadline
     has passed, in deadline order (ties: insertion order);
   - the session cache is the recency list of LruTimeCache with its capacity and its time to live:
     every session carries the time of its last use ([s_used]); an access ([sess_get] = get_mut) to
     a session that has been idle for longer than [cfg_session_ttl] removes it and finds nothing.
     The reading of the clock during a handler call ([Instant::now()] inside LruTimeCache) is the
     component [cfg_clock] of the environment [config]; [step] and the timers set it. *)
From Coq Require Import List Arith NArith Bool.
Import ListNotations.
Local Open Scope N_scope.

Definition id := N.
Definition addr := N.          (* interned socket address; odd numbers are IPv6 addresses *)
Definition naddr := (id * addr)%type.
Definition nonce := (N * N)%type.   (* first four bytes as a number, interned last eight bytes *)

Definition naddr_eqb (a b : naddr) : bool := N.eqb (fst a) (fst b) && N.eqb (snd a) (snd b).
Definition nonce_eqb (a b : nonce) : bool := N.eqb (fst a) (fst b) && N.eqb (snd a) (snd b).
Definition optN_eqb (a b : option N) : bool :=
  match a, b with Some x, Some y => N.eqb x y | None, None => true | _, _ => false end.

Record enr := { e_id : id; e_seq : N; e_ip4 : option addr; e_ip6 : option addr }.
Definition enr_eqb (a b : enr) : bool :=
  N.eqb (e_id a) (e_id b) && N.eqb (e_seq a) (e_seq b) && optN_eqb (e_ip4 a) (e_ip4 b)
  && optN_eqb (e_ip6 a) (e_ip6 b).

(* NodeContact: public key (named by the id it hashes to), socket address, optional record *)
(* [c_ed]: the public key is not a secp256k1 key (e.g. Ed25519): no session keys can be derived
   for it (crypto::generate_session_keys returns KeyTypeNotSupported) *)
Record contact := { c_id : id; c_addr : addr; c_enr : option enr; c_ed : bool }.
Definition c_naddr (c : contact) : naddr := (c_id c, c_addr c).

(* session keys *)
Record key := { k_eph : N; k_static : id; k_cd : N; k_ida : id; k_idb : id; k_half : bool }.
Definition key_eqb (a b : key) : bool :=
  N.eqb (k_eph a) (k_eph b) && N.eqb (k_static a) (k_static b) && N.eqb (k_cd a) (k_cd b)
  && N.eqb (k_ida a) (k_ida b) && N.eqb (k_idb a) (k_idb b) && Bool.eqb (k_half a) (k_half b).
Definition mk_key eph st cd ida idb half :=
  {| k_eph := eph; k_static := st; k_cd := cd; k_ida := ida; k_idb := idb; k_half := half |}.

(* RPC messages as far as the handler looks into them *)
Inductive rbody := RNodes (total : N) (recs : list enr) | ROther (tag : N).
Inductive msg := MReq (rid : N) (body : N) | MResp (rid : N) (rb : rbody) | MBad (j : N).

Fixpoint enrs_eqb (a b : list enr) : bool :=
  match a, b with
  | [], [] => true
  | x :: a', y :: b' => enr_eqb x y && enrs_eqb a' b'
  | _, _ => false
  end.
Definition rbody_eqb (a b : rbody) : bool :=
  match a, b with
  | RNodes t r, RNodes t' r' => N.eqb t t' && enrs_eqb r r'
  | ROther x, ROther y => N.eqb x y
  | _, _ => false
  end.
Definition msg_eqb (a b : msg) : bool :=
  match a, b with
  | MReq r x, MReq r' x' => N.eqb r r' && N.eqb x x'
  | MResp r x, MResp r' x' => N.eqb r r' && rbody_eqb x x'
  | MBad x, MBad y => N.eqb x y
  | _, _ => false
  end.

Inductive ctext := CEnc (k : key) (n : nonce) (m : msg) (aad : N) | CJunk (j : N).
Inductive sigt := Sig (k : id) (cd : N) (eph : N) (dst : id) | BadSig (j : N).

Inductive packet :=
| PMsg (src : id) (n : nonce) (aad : N) (c : ctext)
| PWho (n : nonce) (idn : N) (seq : N) (cd : N)
| PHs (src : id) (n : nonce) (aad : N) (sg : sigt) (eph : N) (eph_ok : bool) (rec : option enr) (c : ctext).

Definition pkt_nonce (p : packet) : nonce :=
  match p with PMsg _ n _ _ => n | PWho n _ _ _ => n | PHs _ n _ _ _ _ _ _ => n end.

Definition decrypt (k : key) (n : nonce) (a : N) (c : ctext) : option msg :=
  match c with
  | CEnc k' n' m a' => if key_eqb k k' && nonce_eqb n n' && N.eqb a a' then Some m else None
  | CJunk _ => None
  end.

Definition verify_sig (pubkey : id) (cd eph : N) (dst : id) (s : sigt) : bool :=
  match s with
  | Sig k cd' eph' dst' => N.eqb k pubkey && N.eqb cd cd' && N.eqb eph eph' && N.eqb dst dst'
  | BadSig _ => false
  end.

(* HandlerOut *)
Inductive hout :=
| HEstablished (e : enr) (a : addr) (incoming : bool)
| HRequest (na : naddr) (rid : N) (body : N)
| HResponse (na : naddr) (rid : N) (rb : rbody)
| HWhoAreYou (na : naddr) (n : nonce)
| HRequestFailed (rid : N) (err : N)
| HUnverifiable (e : enr) (a : addr) (nid : id)
| HExpiredSessions (l : list naddr).

(* RequestError variants the handler produces *)
Definition ERR_TIMEOUT : N := 0.
Definition ERR_INVALID_REMOTE_PACKET : N := 1.
Definition ERR_INVALID_REMOTE_ENR : N := 2.
Definition ERR_SELF_REQUEST : N := 3.

Inductive output := OEvent (e : hout) | OWire (dst : naddr) (p : packet).

(* RequestCall *)
Record rcall := {
  rc_contact : contact;
  rc_pkt : packet;
  rc_ext : bool;           (* HandlerReqId::External *)
  rc_rid : N;
  rc_body : N;
  rc_hs_sent : bool;
  rc_retries : N;
  rc_remaining : option N;
  rc_init : bool           (* initiating_session *)
}.
Definition rc_nonce (r : rcall) : nonce := pkt_nonce (rc_pkt r).

Record preq := { pq_contact : contact; pq_ext : bool; pq_rid : N; pq_body : N }.

Record session := {
  s_enc : key; s_dec : key;
  s_old : option (key * key);     (* (encryption, decryption) *)
  s_await : option N;             (* awaiting_enr *)
  s_counter : N;
  s_used : N                      (* the instant stored with the cache entry: time of the last use *)
}.

Record chall := { ch_cd : N; ch_enr : option enr }.

Record config := {
  cfg_local : id;
  cfg_enr : enr;                  (* the local record *)
  cfg_retries : N;
  cfg_timeout : N;
  cfg_listen : list addr;
  cfg_capacity : nat;
  cfg_session_ttl : N;   (* session_timeout *)
  cfg_clock : N;         (* the reading of the clock during the current handler call *)
  cfg_grid : N;    (* the harness moves the clock in steps of this size: an expired timer fires at
                      the first multiple of the grid after its deadline (0: at the time of the step) *)
  (* repaired behaviours of the pinned tree, see DESIGN.md section 7 *)
  fix_d1 : bool;   (* establish: attached record must carry the claimed id *)
  fix_d2a : bool;  (* new_session (update branch) releases pending requests *)
  fix_d2b : bool;  (* answered internal ENR request is removed from the active requests *)
  fix_d6 : bool    (* exemptions returned on the error paths *)
}.

Record hstate := {
  active : list (naddr * list rcall);
  nmap : list (nonce * naddr * N);          (* message nonce -> node address, deadline *)
  pending : list (naddr * list preq);
  challenges : list (naddr * chall * N);    (* deadline *)
  sessions : list (naddr * session);        (* front = least recently used *)
  expected : list (addr * nat)
}.

Definition init_state : hstate :=
  {| active := []; nmap := []; pending := []; challenges := []; sessions := []; expected := [] |}.

(* oracle draws: one quadruple per freshly created packet, one number per internal request id *)
Record draws := { d_pk : list (N * N * N * N); d_rid : list N; d_rev : list bool }.
Definition pop_pk (d : draws) : (N * N * N * N) * draws :=
  match d_pk d with
  | x :: r => (x, {| d_pk := r; d_rid := d_rid d; d_rev := d_rev d |})
  | [] => ((0, 0, 0, 0), d)
  end.
Definition pop_rid (d : draws) : N * draws :=
  match d_rid d with
  | x :: r => (x, {| d_pk := d_pk d; d_rid := r; d_rev := d_rev d |})
  | [] => (0, d)
  end.
(* order in which timers with one and the same deadline fire: insertion order or its reverse
   (tokio-util's timer wheel keeps each slot as a stack and reverses a group of equal deadlines once
   per level it cascades through; which parity results depends on when the wheel was last polled,
   which tokio's select! randomises).  The choice is an oracle input like the other draws. *)
Definition pop_rev (d : draws) : bool * draws :=
  match d_rev d with
  | x :: r => (x, {| d_pk := d_pk d; d_rid := d_rid d; d_rev := r |})
  | [] => (false, d)
  end.

(* the monad of a step: state, remaining draws, outputs (in order) *)
Record st := { hs : hstate; dr : draws; outs : list output }.
Definition emit (s : st) (o : output) : st := {| hs := hs s; dr := dr s; outs := outs s ++ [o] |}.
Definition with_hs (s : st) (h : hstate) : st := {| hs := h; dr := dr s; outs := outs s |}.

(* ---------------------------------------------------------------------------------------- *)
(* association-list helpers *)

Fixpoint alist_get {A} (k : naddr) (l : list (naddr * A)) : option A :=
  match l with
  | [] => None
  | (k', v) :: r => if naddr_eqb k k' then Some v else alist_get k r
  end.
Fixpoint alist_remove {A} (k : naddr) (l : list (naddr * A)) : list (naddr * A) :=
  match l with
  | [] => []
  | (k', v) :: r => if naddr_eqb k k' then r else (k', v) :: alist_remove k r
  end.
Fixpoint alist_set {A} (k : naddr) (v : A) (l : list (naddr * A)) : list (naddr * A) :=
  match l with
  | [] => [(k, v)]
  | (k', v') :: r => if naddr_eqb k k' then (k, v) :: r else (k', v') :: alist_set k v r
  end.

(* expected responses: filter_expected_responses *)
Fixpoint exp_add (a : addr) (l : list (addr * nat)) : list (addr * nat) :=
  match l with
  | [] => [(a, 1%nat)]
  | (a', n) :: r => if N.eqb a a' then (a', S n) :: r else (a', n) :: exp_add a r
  end.
Fixpoint exp_remove (a : addr) (l : list (addr * nat)) : list (addr * nat) :=
  match l with
  | [] => []
  | (a', n) :: r =>
    if N.eqb a a' then (match n with S (S m) => (a', S m) :: r | _ => r end)
    else (a', n) :: exp_remove a r
  end.
Definition exp_get (a : addr) (l : list (addr * nat)) : nat :=
  match find (fun x => N.eqb (fst x) a) l with Some (_, n) => n | None => 0%nat end.

Definition add_expected (s : st) (a : addr) : st :=
  let h := hs s in
  with_hs s {| active := active h; nmap := nmap h; pending := pending h; challenges := challenges h;
               sessions := sessions h; expected := exp_add a (expected h) |}.
Definition remove_expected (s : st) (a : addr) : st :=
  let h := hs s in
  with_hs s {| active := active h; nmap := nmap h; pending := pending h; challenges := challenges h;
               sessions := sessions h; expected := exp_remove a (expected h) |}.

Definition set_active (h : hstate) a n : hstate :=
  {| active := a; nmap := n; pending := pending h; challenges := challenges h;
     sessions := sessions h; expected := expected h |}.
Definition set_pending (h : hstate) p : hstate :=
  {| active := active h; nmap := nmap h; pending := p; challenges := challenges h;
     sessions := sessions h; expected := expected h |}.
Definition set_challenges (h : hstate) c : hstate :=
  {| active := active h; nmap := nmap h; pending := pending h; challenges := c;
     sessions := sessions h; expected := expected h |}.
Definition set_sessions (h : hstate) x : hstate :=
  {| active := active h; nmap := nmap h; pending := pending h; challenges := challenges h;
     sessions := x; expected := expected h |}.

(* ---------------------------------------------------------------------------------------- *)
(* ActiveRequests *)

Fixpoint nmap_remove (n : nonce) (l : list (nonce * naddr * N)) : list (nonce * naddr * N) :=
  match l with
  | [] => []
  | (n', a, d) :: r => if nonce_eqb n n' then r else (n', a, d) :: nmap_remove n r
  end.
Fixpoint nmap_get (n : nonce) (l : list (nonce * naddr * N)) : option naddr :=
  match l with
  | [] => None
  | (n', a, _) :: r => if nonce_eqb n n' then Some a else nmap_get n r
  end.
(* HashMapDelay::insert: an existing key is replaced and its timer reset; entries are kept in
   insertion order *)
Definition nmap_insert (n : nonce) (a : naddr) (deadline : N) (l : list (nonce * naddr * N)) :=
  nmap_remove n l ++ [(n, a, deadline)].

(* ActiveRequests::insert *)
Definition ar_insert (c : config) (h : hstate) (na : naddr) (r : rcall) (now : N) : hstate :=
  let cur := match alist_get na (active h) with Some l => l | None => [] end in
  let act := match alist_get na (active h) with
             | Some _ => alist_set na (cur ++ [r]) (active h)
             | None => active h ++ [(na, [r])]
             end in
  set_active h act (nmap_insert (rc_nonce r) na (now + cfg_timeout c) (nmap h)).

Fixpoint remove_first {A} (p : A -> bool) (l : list A) : option (A * list A) :=
  match l with
  | [] => None
  | x :: r => if p x then Some (x, r)
              else match remove_first p r with Some (y, r') => Some (y, x :: r') | None => None end
  end.

Definition put_list (na : naddr) (l : list rcall) (act : list (naddr * list rcall)) :=
  match l with [] => alist_remove na act | _ => alist_set na l act end.

(* ActiveRequests::remove_by_nonce *)
Definition ar_remove_by_nonce (h : hstate) (n : nonce) : hstate * option (naddr * rcall) :=
  match nmap_get n (nmap h) with
  | None => (h, None)
  | Some na =>
    let nm := nmap_remove n (nmap h) in
    match alist_get na (active h) with
    | None => (set_active h (active h) nm, None)
    | Some l =>
      match remove_first (fun r => nonce_eqb (rc_nonce r) n) l with
      | Some (r, l') => (set_active h (put_list na l' (active h)) nm, Some (na, r))
      | None => (set_active h (put_list na l (active h)) nm, None)
      end
    end
  end.

(* ActiveRequests::remove_request (by request id) *)
Definition ar_remove_request (h : hstate) (na : naddr) (rid : N) : hstate * option rcall :=
  match alist_get na (active h) with
  | None => (h, None)
  | Some l =>
    match remove_first (fun r => N.eqb (rc_rid r) rid) l with
    | Some (r, l') => (set_active h (put_list na l' (active h)) (nmap_remove (rc_nonce r) (nmap h)), Some r)
    | None => (h, None)
    end
  end.

(* ActiveRequests::remove_requests *)
Definition ar_remove_requests (h : hstate) (na : naddr) : hstate * list rcall :=
  match alist_get na (active h) with
  | None => (h, [])
  | Some l =>
    (set_active h (alist_remove na (active h))
       (fold_left (fun nm r => nmap_remove (rc_nonce r) nm) l (nmap h)), l)
  end.

(* ActiveRequests::update_packet *)
Definition ar_update_packet (c : config) (h : hstate) (old : nonce) (p : packet) (now : N) : hstate :=
  match nmap_get old (nmap h) with
  | None => h
  | Some na =>
    let nm := nmap_insert (pkt_nonce p) na (now + cfg_timeout c) (nmap_remove old (nmap h)) in
    match alist_get na (active h) with
    | None => set_active h (active h) nm
    | Some l =>
      let fix upd (l : list rcall) (done : bool) : list rcall :=
        match l with
        | [] => []
        | r :: rest =>
          if negb done && nonce_eqb (rc_nonce r) old then
            {| rc_contact := rc_contact r; rc_pkt := p; rc_ext := rc_ext r; rc_rid := rc_rid r;
               rc_body := rc_body r; rc_hs_sent := rc_hs_sent r; rc_retries := rc_retries r;
               rc_remaining := rc_remaining r; rc_init := rc_init r |} :: upd rest true
          else r :: upd rest done
        end in
      set_active h (alist_set na (upd l false) (active h)) nm
    end
  end.

(* ---------------------------------------------------------------------------------------- *)
(* Sessions: LruTimeCache *)

Definition with_clock (c : config) (t : N) : config :=
  {| cfg_local := cfg_local c; cfg_enr := cfg_enr c; cfg_retries := cfg_retries c; cfg_timeout := cfg_timeout c;
     cfg_listen := cfg_listen c; cfg_capacity := cfg_capacity c; cfg_session_ttl := cfg_session_ttl c;
     cfg_clock := t; cfg_grid := cfg_grid c; fix_d1 := fix_d1 c; fix_d2a := fix_d2a c; fix_d2b := fix_d2b c;
     fix_d6 := fix_d6 c |}.

Definition touch (se : session) (t : N) : session :=
  {| s_enc := s_enc se; s_dec := s_dec se; s_old := s_old se; s_await := s_await se;
     s_counter := s_counter se; s_used := t |}.

(* the entry has expired: time + ttl < now *)
Definition sess_expired (c : config) (se : session) : bool :=
  N.ltb (s_used se + cfg_session_ttl c) (cfg_clock c).

(* LruTimeCache::get_mut (get delegates to it): an expired entry is removed and not returned; a
   live one is stamped with the current time and moved to the back *)
Definition sess_get (c : config) (h : hstate) (na : naddr) : hstate * option session :=
  match alist_get na (sessions h) with
  | Some s =>
    if sess_expired c s then (set_sessions h (alist_remove na (sessions h)), None)
    else
      let s' := touch s (cfg_clock c) in
      (set_sessions h (alist_remove na (sessions h) ++ [(na, s')]), Some s')   (* to_back *)
  | None => (h, None)
  end.

(* LruTimeCache::remove_expired_values: pops from the front while the front entry has expired *)
Fixpoint drop_expired (c : config) (l : list (naddr * session)) : list naddr * list (naddr * session) :=
  match l with
  | (na, se) :: r =>
    if sess_expired c se then let (ks, r') := drop_expired c r in (na :: ks, r') else ([], l)
  | [] => ([], [])
  end.
Definition sess_put (h : hstate) (na : naddr) (s : session) : hstate :=
  (* write back through the &mut reference obtained by get_mut: position unchanged *)
  set_sessions h (alist_set na s (sessions h)).
Definition sess_insert (c : config) (h : hstate) (na : naddr) (s : session) : hstate :=
  (* LinkedHashMap::insert of an existing key moves it to the back *)
  let l := alist_remove na (sessions h) ++ [(na, touch s (cfg_clock c))] in
  set_sessions h (if Nat.ltb (cfg_capacity c) (length l) then tl l else l).
Definition sess_remove (h : hstate) (na : naddr) : hstate :=
  set_sessions h (alist_remove na (sessions h)).

(* Session::encrypt_message: counter + 1, nonce = counter || random, fresh IV *)
Definition encrypt_message (c : config) (s : st) (na : naddr) (se : session) (m : msg) : st * session * packet :=
  let '((_, r, aad, _), d') := pop_pk (dr s) in
  let cnt := s_counter se + 1 in
  let se' := {| s_enc := s_enc se; s_dec := s_dec se; s_old := s_old se; s_await := s_await se; s_counter := cnt; s_used := s_used se |} in
  let n := (cnt, r) in
  ({| hs := hs s; dr := d'; outs := outs s |}, se', PMsg (cfg_local c) n aad (CEnc (s_enc se) n m aad)).

(* Session::decrypt_message *)
Definition decrypt_message (se : session) (n : nonce) (aad : N) (ct : ctext) : session * option msg :=
  match decrypt (s_dec se) n aad ct with
  | Some m => (se, Some m)
  | None =>
    match s_old se with
    | Some (oe, od) =>
      match decrypt od n aad ct with
      | Some m => ({| s_enc := oe; s_dec := od; s_old := Some (s_enc se, s_dec se);
                      s_await := s_await se; s_counter := s_counter se; s_used := s_used se |}, Some m)
      | None => ({| s_enc := s_enc se; s_dec := s_dec se; s_old := None;
                    s_await := s_await se; s_counter := s_counter se; s_used := s_used se |}, None)
      end
    | None => (se, None)
    end
  end.

(* ---------------------------------------------------------------------------------------- *)
(* Handler *)

Definition send (s : st) (na : naddr) (p : packet) : st := emit s (OWire na p).

Definition is_awaiting_session (c : config) (s : st) (na : naddr) : st * bool :=
  let (h, se) := sess_get c (hs s) na in
  match se with
  | Some _ => (with_hs s h, false)
  | None =>
    (with_hs s h,
     match alist_get na (active h) with
     | Some l => existsb rc_init l
     | None => false
     end)
  end.

Definition has_challenge (h : hstate) (na : naddr) : bool :=
  existsb (fun x => naddr_eqb (fst (fst x)) na) (challenges h).

Definition push_pending (h : hstate) (na : naddr) (q : preq) : hstate :=
  match alist_get na (pending h) with
  | Some l => set_pending h (alist_set na (l ++ [q]) (pending h))
  | None => set_pending h (pending h ++ [(na, [q])])
  end.

(* Handler::send_request; returns false on Err(SelfRequest) *)
Definition send_request (c : config) (s : st) (ct : contact) (ext : bool) (rid body : N) (now : N) : st * bool :=
  let na := c_naddr ct in
  if existsb (N.eqb (c_addr ct)) (cfg_listen c) then (s, false) else
  let (s1, awaiting) :=
    if has_challenge (hs s) na then (s, true) else is_awaiting_session c s na in
  if awaiting then
    (with_hs s1 (push_pending (hs s1) na {| pq_contact := ct; pq_ext := ext; pq_rid := rid; pq_body := body |}), true)
  else
    let (h2, se) := sess_get c (hs s1) na in
    let s2 := with_hs s1 h2 in
    let '(s3, pkt, initiating) :=
      match se with
      | Some se =>
        let '(s3, se', p) := encrypt_message c s2 na se (MReq rid body) in
        (with_hs s3 (sess_put (hs s3) na se'), p, false)
      | None =>
        (* Packet::new_random *)
        let '((cn, r, aad, _), d') := pop_pk (dr s2) in
        ({| hs := hs s2; dr := d'; outs := outs s2 |}, PMsg (cfg_local c) (cn, r) aad (CJunk aad), true)
      end in
    let call := {| rc_contact := ct; rc_pkt := pkt; rc_ext := ext; rc_rid := rid; rc_body := body;
                   rc_hs_sent := false; rc_retries := 1; rc_remaining := None; rc_init := initiating |} in
    let s4 := add_expected s3 (c_addr ct) in
    let s5 := send s4 na pkt in
    (with_hs s5 (ar_insert c (hs s5) na call now), true).

(* Handler::send_pending_requests *)
Definition send_pending_requests (c : config) (s : st) (na : naddr) (now : N) : st :=
  match alist_get na (pending (hs s)) with
  | None => s
  | Some l =>
    let s1 := with_hs s (set_pending (hs s) (alist_remove na (pending (hs s)))) in
    fold_left (fun s q =>
      let (s', ok) := send_request c s (pq_contact q) (pq_ext q) (pq_rid q) (pq_body q) now in
      if ok then s'
      else if pq_ext q then emit s' (OEvent (HRequestFailed (pq_rid q) ERR_SELF_REQUEST)) else s') l s1
  end.

(* Handler::remove_expired_sessions: the purged keys are reported to the service *)
Definition remove_expired_sessions (c : config) (s : st) : st :=
  let (ks, l) := drop_expired c (sessions (hs s)) in
  match ks with
  | [] => s
  | _ :: _ => emit (with_hs s (set_sessions (hs s) l)) (OEvent (HExpiredSessions ks))
  end.

(* Handler::fail_session *)
Definition fail_session (c : config) (s : st) (na : naddr) (err : N) (remove_session : bool) : st :=
  let s1 := if remove_session
            then let s0 := remove_expired_sessions c s in with_hs s0 (sess_remove (hs s0) na)
            else s in
  let s2 :=
    match alist_get na (pending (hs s1)) with
    | Some l =>
      fold_left (fun s q => if pq_ext q then emit s (OEvent (HRequestFailed (pq_rid q) err)) else s) l
        (with_hs s1 (set_pending (hs s1) (alist_remove na (pending (hs s1)))))
    | None => s1
    end in
  let (h3, reqs) := ar_remove_requests (hs s2) na in
  fold_left (fun s r =>
    let s' := if rc_ext r then emit s (OEvent (HRequestFailed (rc_rid r) err)) else s in
    remove_expected s' (snd na)) reqs (with_hs s2 h3).

(* Handler::fail_request *)
Definition fail_request (c : config) (s : st) (r : rcall) (err : N) (remove_session : bool) : st :=
  let s1 := if rc_ext r then emit s (OEvent (HRequestFailed (rc_rid r) err)) else s in
  fail_session c s1 (c_naddr (rc_contact r)) err remove_session.

(* Handler::replay_active_requests *)
Definition replay_active_requests (c : config) (s : st) (na : naddr) (skip : option nonce) (now : N) : st :=
  let (h1, se) := sess_get c (hs s) na in
  match se with
  | None => with_hs s h1
  | Some se0 =>
    let reqs := match alist_get na (active h1) with Some l => l | None => [] end in
    let reqs := filter (fun r => match skip with Some n => negb (nonce_eqb (rc_nonce r) n) | None => true end) reqs in
    (* first encrypt all, then update + send *)
    let '(s2, se2, pkts) :=
      fold_left (fun acc r =>
        let '(s, se, pk) := acc in
        let '(s', se', p) := encrypt_message c s na se (MReq (rc_rid r) (rc_body r)) in
        (s', se', pk ++ [(rc_nonce r, p)])) reqs (with_hs s h1, se0, []) in
    let s3 := with_hs s2 (sess_put (hs s2) na se2) in
    fold_left (fun s x =>
      let s' := with_hs s (ar_update_packet c (hs s) (fst x) (snd x) now) in
      send s' na (snd x)) pkts s3
  end.

(* Handler::new_session *)
Definition new_session (c : config) (s : st) (na : naddr) (se : session) (skip : option nonce) (now : N) : st :=
  let s := remove_expired_sessions c s in
  let (h1, cur) := sess_get c (hs s) na in
  match cur with
  | Some cs =>
    (* Session::update *)
    let cs' := {| s_enc := s_enc se; s_dec := s_dec se; s_old := Some (s_enc cs, s_dec cs);
                  s_await := s_await se; s_counter := s_counter cs; s_used := s_used cs |} in
    let s1 := with_hs s (sess_put h1 na cs') in
    let s2 := replay_active_requests c s1 na skip now in
    if fix_d2a c then send_pending_requests c s2 na now else s2
  | None =>
    let s1 := with_hs s (sess_insert c h1 na se) in
    send_pending_requests c s1 na now
  end.

(* Handler::verify_enr *)
Definition verify_enr (e : enr) (na : naddr) : bool :=
  N.eqb (e_id e) (fst na) &&
  (if N.odd (snd na)
   then match e_ip6 e with Some a => N.eqb a (snd na) | None => true end
   else match e_ip4 e with Some a => N.eqb a (snd na) | None => true end).

(* Handler::handle_request_timeout *)
Definition handle_request_timeout (c : config) (s : st) (na : naddr) (r : rcall) (now : N) : st :=
  if N.leb (cfg_retries c) (rc_retries r) then
    let s1 := remove_expected s (snd na) in
    fail_request c s1 r ERR_TIMEOUT false
  else
    let s1 := send s na (rc_pkt r) in
    let r' := {| rc_contact := rc_contact r; rc_pkt := rc_pkt r; rc_ext := rc_ext r; rc_rid := rc_rid r;
                 rc_body := rc_body r; rc_hs_sent := rc_hs_sent r; rc_retries := rc_retries r + 1;
                 rc_remaining := rc_remaining r; rc_init := rc_init r |} in
    with_hs s1 (ar_insert c (hs s1) na r' now).

(* Handler::send_response *)
Definition send_response (c : config) (s : st) (na : naddr) (rid : N) (rb : rbody) : st :=
  let (h1, se) := sess_get c (hs s) na in
  match se with
  | Some se =>
    let '(s2, se', p) := encrypt_message c (with_hs s h1) na se (MResp rid rb) in
    send (with_hs s2 (sess_put (hs s2) na se')) na p
  | None => with_hs s h1
  end.

(* Handler::send_challenge *)
Definition send_challenge (c : config) (s : st) (na : naddr) (n : nonce) (known : option enr) (now : N) : st :=
  if has_challenge (hs s) na then s else
  let seq := match known with Some e => e_seq e | None => 0 end in
  let '((idn, _, cd, _), d') := pop_pk (dr s) in
  let s1 := {| hs := hs s; dr := d'; outs := outs s |} in
  let s2 := add_expected s1 (snd na) in
  let s3 := send s2 na (PWho n idn seq cd) in
  with_hs s3 (set_challenges (hs s3)
    (challenges (hs s3) ++ [(na, {| ch_cd := cd; ch_enr := known |}, now + cfg_timeout c)])).

(* Handler::handle_response *)
Definition handle_response (c : config) (s : st) (na : naddr) (rid : N) (rb : rbody) (now : N) : st :=
  let (h1, found) := ar_remove_request (hs s) na rid in
  match found with
  | None => s
  | Some r =>
    let s1 := with_hs s h1 in
    let reinsert (rem : option N) :=
      let r' := {| rc_contact := rc_contact r; rc_pkt := rc_pkt r; rc_ext := rc_ext r; rc_rid := rc_rid r;
                   rc_body := rc_body r; rc_hs_sent := rc_hs_sent r; rc_retries := rc_retries r;
                   rc_remaining := rem; rc_init := rc_init r |} in
      emit (with_hs s1 (ar_insert c (hs s1) na r' now)) (OEvent (HResponse na rid rb)) in
    let finish := emit (remove_expected s1 (snd na)) (OEvent (HResponse na rid rb)) in
    match rb with
    | RNodes total _ =>
      if N.ltb 1 total then
        match rc_remaining r with
        | Some rem =>
          (* *remaining -= 1 : u64 arithmetic; rem = 0 cannot occur (it is removed when it reaches 0) *)
          let rem' := rem - 1 in
          if negb (N.eqb rem' 0) then reinsert (Some rem') else finish
        | None => reinsert (Some (total - 1))
        end
      else finish
    | ROther _ => finish
    end
  end.

(* Handler::handle_message *)
Definition handle_message (c : config) (s : st) (na : naddr) (n : nonce) (aad : N) (ct : ctext) (now : N) : st :=
  let (h1, se) := sess_get c (hs s) na in
  match se with
  | None => emit (with_hs s h1) (OEvent (HWhoAreYou na n))
  | Some se =>
    let s1 := with_hs s h1 in
    let (se', m) := decrypt_message se n aad ct in
    let s2 := with_hs s1 (sess_put (hs s1) na se') in
    match m with
    | None =>
      let s3 := fail_session c s2 na ERR_INVALID_REMOTE_PACKET true in
      if has_challenge (hs s3) na then s3 else emit s3 (OEvent (HWhoAreYou na n))
    | Some (MBad _) => s2
    | Some (MReq rid body) => emit s2 (OEvent (HRequest na rid body))
    | Some (MResp rid rb) =>
      match s_await se' with
      | Some arid =>
        if N.eqb rid arid then
          let se'' := {| s_enc := s_enc se'; s_dec := s_dec se'; s_old := s_old se'; s_await := None;
                         s_counter := s_counter se'; s_used := s_used se' |} in
          let s3 := with_hs s2 (sess_put (hs s2) na se'') in
          let s3 :=
            if fix_d2b c then
              let (h4, found) := ar_remove_request (hs s3) na rid in
              match found with
              | Some _ => remove_expected (with_hs s3 h4) (snd na)
              | None => s3
              end
            else s3 in
          let fail := fail_session c s3 na ERR_INVALID_REMOTE_ENR true in
          match rb with
          | RNodes _ recs =>
            match rev recs with
            | e :: _ =>
              if verify_enr e na then emit s3 (OEvent (HEstablished e (snd na) false))
              else fail_session c (emit s3 (OEvent (HUnverifiable e (snd na) (fst na)))) na ERR_INVALID_REMOTE_ENR true
            | [] => fail
            end
          | ROther _ => fail
          end
        else handle_response c s2 na rid rb now
      | None => handle_response c s2 na rid rb now
      end
    end
  end.

Definition pick_enr (attached known : option enr) : option enr :=
  match attached, known with
  | Some a, Some k => if N.ltb (e_seq k) (e_seq a) then Some a else Some k
  | Some a, None => Some a
  | None, Some k => Some k
  | None, None => None
  end.

Inductive est_result := EstOk (se : session) (e : enr) | EstBadSig | EstErr.

(* Session::establish_from_challenge *)
Definition establish (c : config) (remote : id) (ch : chall) (sg : sigt) (eph : N) (eph_ok : bool)
  (attached : option enr) : est_result :=
  if fix_d1 c && match attached with Some a => negb (N.eqb (e_id a) remote) | None => false end
  then EstBadSig else
  match pick_enr attached (ch_enr ch) with
  | None => EstErr
  | Some e =>
    if negb (verify_sig (e_id e) (ch_cd ch) eph (cfg_local c) sg) then EstBadSig else
    if negb eph_ok then EstErr else
    let kd := mk_key eph (cfg_local c) (ch_cd ch) remote (cfg_local c) false in   (* initiator key *)
    let ke := mk_key eph (cfg_local c) (ch_cd ch) remote (cfg_local c) true in    (* recipient key *)
    EstOk {| s_enc := ke; s_dec := kd; s_old := None; s_await := None; s_counter := 0; s_used := 0 |} e
  end.

Fixpoint chall_get (na : naddr) (l : list (naddr * chall * N)) : option chall :=
  match l with
  | [] => None
  | (a, ch, _) :: r => if naddr_eqb a na then Some ch else chall_get na r
  end.
Fixpoint chall_remove (na : naddr) (l : list (naddr * chall * N)) : list (naddr * chall * N) :=
  match l with
  | [] => []
  | (a, ch, d) :: r => if naddr_eqb a na then r else (a, ch, d) :: chall_remove na r
  end.

(* Handler::handle_auth_message *)
Definition handle_auth_message (c : config) (s : st) (na : naddr) (n : nonce) (aad : N) (sg : sigt)
  (eph : N) (eph_ok : bool) (rec : option enr) (ct : ctext) (now : N) : st :=
  match chall_get na (challenges (hs s)) with
  | None => s
  | Some ch =>
    let s1 := with_hs s (set_challenges (hs s) (chall_remove na (challenges (hs s)))) in
    match establish c (fst na) ch sg eph eph_ok rec with
    | EstOk se e =>
      let s2 := remove_expected s1 (snd na) in
      let s3 := if verify_enr e na then emit s2 (OEvent (HEstablished e (snd na) true))
                else emit s2 (OEvent (HUnverifiable e (snd na) (fst na))) in
      let s4 := new_session c s3 na se None now in
      handle_message c s4 na n aad ct now
    | EstBadSig =>
      (* the challenge is inserted back: the timer restarts *)
      with_hs s1 (set_challenges (hs s1) (challenges (hs s1) ++ [(na, ch, now + cfg_timeout c)]))
    | EstErr =>
      let s2 := if fix_d6 c then remove_expected s1 (snd na) else s1 in
      fail_session c s2 na ERR_INVALID_REMOTE_PACKET true
    end
  end.

(* Handler::handle_challenge (a WHOAREYOU packet arrived) *)
Definition handle_challenge (c : config) (s : st) (src : addr) (n : nonce) (seq : N) (cd : N) (now : N) : st :=
  (* remove_by_nonce, re-inserting on a source mismatch *)
  match nmap_get n (nmap (hs s)) with
  | None => s
  | Some na0 =>
    let (h1, found) := ar_remove_by_nonce (hs s) n in
    match found with
    | None => with_hs s h1
    | Some (na, r) =>
      if negb (N.eqb (snd na) src) then with_hs s (ar_insert c h1 na r now) else
      let s1 := with_hs s h1 in
      (* a second WHOAREYOU for a request already answered with a handshake, or a contact for whose
         key no session keys can be derived (Session::encrypt_with_header fails): the request fails *)
      if rc_hs_sent r || c_ed (rc_contact r) then
        let s2 := if fix_d6 c then remove_expected s1 src else s1 in
        fail_request c s2 r ERR_INVALID_REMOTE_PACKET true
      else
        (* Session::encrypt_with_header *)
        let ct := rc_contact r in
        let updated := if N.ltb seq (e_seq (cfg_enr c)) then Some (cfg_enr c) else None in
        let '((cn, rr, aad, eph), d') := pop_pk (dr s1) in
        let s2 := {| hs := hs s1; dr := d'; outs := outs s1 |} in
        let ke := mk_key eph (c_id ct) cd (cfg_local c) (c_id ct) false in    (* initiator key *)
        let kd := mk_key eph (c_id ct) cd (cfg_local c) (c_id ct) true in
        let hn := (cn, rr) in
        let auth := PHs (cfg_local c) hn aad (Sig (cfg_local c) cd eph (c_id ct)) eph true updated
                        (CEnc ke hn (MReq (rc_rid r) (rc_body r)) aad) in
        let na := c_naddr ct in
        match c_enr ct with
        | Some e =>
          let r' := {| rc_contact := ct; rc_pkt := auth; rc_ext := rc_ext r; rc_rid := rc_rid r;
                       rc_body := rc_body r; rc_hs_sent := true; rc_retries := rc_retries r;
                       rc_remaining := rc_remaining r; rc_init := false |} in
          let s3 := with_hs s2 (ar_insert c (hs s2) na r' now) in
          let s4 := send s3 na auth in
          let s5 := emit s4 (OEvent (HEstablished e (snd na) (negb (rc_init r)))) in
          new_session c s5 na {| s_enc := ke; s_dec := kd; s_old := None; s_await := None; s_counter := 0; s_used := 0 |}
            (Some hn) now
        | None =>
          let r' := {| rc_contact := ct; rc_pkt := auth; rc_ext := rc_ext r; rc_rid := rc_rid r;
                       rc_body := rc_body r; rc_hs_sent := true; rc_retries := rc_retries r;
                       rc_remaining := rc_remaining r; rc_init := rc_init r |} in
          let s3 := with_hs s2 (ar_insert c (hs s2) na r' now) in
          let s4 := send s3 na auth in
          let (irid, d'') := pop_rid (dr s4) in
          let s5 := {| hs := hs s4; dr := d''; outs := outs s4 |} in
          (* FINDNODE [0]; its body is interned as 0 by convention *)
          let (s6, _) := send_request c s5 ct false irid 0 now in
          new_session c s6 na {| s_enc := ke; s_dec := kd; s_old := None; s_await := Some irid; s_counter := 0; s_used := 0 |}
            (Some hn) now
        end
    end
  end.

(* ---------------------------------------------------------------------------------------- *)
(* Timers *)

Fixpoint min_deadline_nmap (l : list (nonce * naddr * N)) (best : option (nonce * naddr * N)) :=
  match l with
  | [] => best
  | (n, a, d) :: r =>
    min_deadline_nmap r (match best with
                         | Some (_, _, bd) => if N.ltb d bd then Some (n, a, d) else best
                         | None => Some (n, a, d)
                         end)
  end.
Fixpoint min_deadline_ch (l : list (naddr * chall * N)) (best : option (naddr * chall * N)) :=
  match l with
  | [] => best
  | (a, ch, d) :: r =>
    min_deadline_ch r (match best with
                       | Some (_, _, bd) => if N.ltb d bd then Some (a, ch, d) else best
                       | None => Some (a, ch, d)
                       end)
  end.

(* an expired request timer: Stream for ActiveRequests, then handle_request_timeout *)
Definition fire_request (c : config) (s : st) (n : nonce) (na : naddr) (now : N) : st :=
  let h := hs s in
  let nm := nmap_remove n (nmap h) in
  match alist_get na (active h) with
  | None => with_hs s (set_active h (active h) nm)
  | Some l =>
    match remove_first (fun r => nonce_eqb (rc_nonce r) n) l with
    | Some (r, l') =>
      handle_request_timeout c (with_hs s (set_active h (put_list na l' (active h)) nm)) na r now
    | None => with_hs s (set_active h (active h) nm)
    end
  end.

Definition fire_challenge (c : config) (s : st) (na : naddr) (now : N) : st :=
  let s1 := with_hs s (set_challenges (hs s) (chall_remove na (challenges (hs s)))) in
  let s2 := remove_expected s1 (snd na) in
  send_pending_requests c s2 na now.

Definition fire_time (c : config) (deadline now : N) : N :=
  if N.eqb (cfg_grid c) 0 then now else (deadline / cfg_grid c + 1) * cfg_grid c.

(* all request timers with deadline [d], in insertion order *)
Definition group_of (d : N) (l : list (nonce * naddr * N)) : list (nonce * naddr) :=
  map (fun x => (fst (fst x), snd (fst x))) (filter (fun x => N.eqb (snd x) d) l).

Fixpoint nmap_deadline (n : nonce) (l : list (nonce * naddr * N)) : option N :=
  match l with
  | [] => None
  | (n', _, d) :: r => if nonce_eqb n n' then Some d else nmap_deadline n r
  end.

(* fire the members of a group one after the other; a member that an earlier one has already
   removed or re-armed is skipped *)
Definition fire_group (c : config) (s : st) (g : list (nonce * naddr)) (d ft : N) : st :=
  fold_left (fun s x =>
    match nmap_deadline (fst x) (nmap (hs s)) with
    | Some d' => if N.eqb d' d then fire_request c s (fst x) (snd x) ft else s
    | None => s
    end) g s.

(* fire everything whose deadline has passed, earliest first; a request timer and a challenge
   timer never share a deadline in the harness (they are armed by different events) *)
Fixpoint fire_due (c : config) (s : st) (now : N) (fuel : nat) : st :=
  match fuel with
  | O => s
  | S f =>
    let r := min_deadline_nmap (nmap (hs s)) None in
    let ch := min_deadline_ch (challenges (hs s)) None in
    let req_due := match r with Some (_, _, d) => N.ltb d now | None => false end in
    let ch_due := match ch with Some (_, _, d) => N.ltb d now | None => false end in
    let fire_req (d : N) :=
      let g := group_of d (nmap (hs s)) in
      match g with
      | _ :: _ :: _ =>
        let (rev_order, d') := pop_rev (dr s) in
        let s' := {| hs := hs s; dr := d'; outs := outs s |} in
        fire_group (with_clock c (fire_time c d now)) s' (if rev_order then rev g else g) d (fire_time c d now)
      | _ => fire_group (with_clock c (fire_time c d now)) s g d (fire_time c d now)
      end in
    match r, ch with
    | Some (_, _, d), Some (cna, _, cd) =>
      if req_due && (negb ch_due || N.leb d cd) then fire_due c (fire_req d) now f
      else if ch_due then fire_due c (fire_challenge (with_clock c (fire_time c cd now)) s cna (fire_time c cd now)) now f
      else s
    | Some (_, _, d), None => if req_due then fire_due c (fire_req d) now f else s
    | None, Some (cna, _, cd) =>
      if ch_due then fire_due c (fire_challenge (with_clock c (fire_time c cd now)) s cna (fire_time c cd now)) now f else s
    | None, None => s
    end
  end.

(* ---------------------------------------------------------------------------------------- *)
(* Events *)

Inductive event :=
| EvRequest (ct : contact) (rid : N) (body : N)
| EvResponse (na : naddr) (rid : N) (rb : rbody)
| EvWhoAreYou (na : naddr) (n : nonce) (known : option enr)
| EvInbound (from : addr) (p : packet)
| EvTick.

Definition TICK_FUEL : nat := 64.

Definition step (c0 : config) (h : hstate) (e : event) (now : N) (d : draws) : hstate * list output :=
  let c := with_clock c0 now in
  let s0 := fire_due c {| hs := h; dr := d; outs := [] |} now TICK_FUEL in
  let s :=
    match e with
    | EvTick => s0
    | EvRequest ct rid body =>
      let (s1, ok) := send_request c s0 ct true rid body now in
      if ok then s1 else emit s1 (OEvent (HRequestFailed rid ERR_SELF_REQUEST))
    | EvResponse na rid rb => send_response c s0 na rid rb
    | EvWhoAreYou na n known => send_challenge c s0 na n known now
    | EvInbound from p =>
      match p with
      | PWho n idn seq cd => handle_challenge c s0 from n seq cd now
      | PHs src n aad sg eph eph_ok rec ct => handle_auth_message c s0 (src, from) n aad sg eph eph_ok rec ct now
      | PMsg src n aad ct => handle_message c s0 (src, from) n aad ct now
      end
    end in
  (hs s, outs s).

Fixpoint run (c : config) (h : hstate) (evs : list (event * N * draws)) : hstate * list (list output) :=
  match evs with
  | [] => (h, [])
  | (e, now, d) :: rest =>
    let (h1, o) := step c h e now d in
    let (h2, os) := run c h1 rest in
    (h2, o :: os)
  end.
