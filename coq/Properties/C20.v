(* C20 - Every TALK request is answered exactly once.
   Statements only; every theorem is closed by [exact] of a lemma proved in Proofs/Talk.v and
   followed by Print Assumptions.  See DESIGN.md section 6 (C20) and the header of Model/Talk.v
   for the modelling conventions (linear use of request objects = Rust's move semantics; the
   channel is open until the handler's receiving end is dropped = shutdown).

   [final ops] is the state after the operation list [ops] (any interleaving of deliveries,
   respond, drop, hold, shutdown) from the initial state; [msgs_of h w] are the TALKRESP messages
   handed to the handler on behalf of the [h]-th delivered request. *)
From Coq Require Import List NArith Bool.
From Discv5V Require Import Model.Talk Proofs.Talk.
Import ListNotations.
Local Open Scope N_scope.

(* Never a second response: whatever the application and the node do, in whatever order. *)
Theorem C20_at_most_one_response :
  forall (ops : list op) (h : N), (length (msgs_of h (final ops)) <= 1)%nat.
Proof. exact at_most_one. Qed.
Print Assumptions C20_at_most_one_response.

(* Every response that is ever sent carries the request id and the node address of the request it
   answers: handle [mh m] is the [mh m]-th TALKREQ delivered, [number 0 (deliveries ops)] lists the
   delivered (id, address) pairs with their handles ... *)
Theorem C20_response_carries_id_and_address_of_its_request :
  forall (ops : list op) (m : msg), In m (inbox (final ops)) ->
  In (mh m, (mid m, maddr m)) (number 0 (deliveries ops)).
Proof. exact response_matches_request. Qed.
Print Assumptions C20_response_carries_id_and_address_of_its_request.

(* ... and a handle names exactly one delivered request. *)
Theorem C20_handle_names_one_request :
  forall (ops : list op) (h : N) (x y : N * N),
  In (h, x) (number 0 (deliveries ops)) -> In (h, y) (number 0 (deliveries ops)) -> x = y.
Proof. exact handles_name_one_request. Qed.
Print Assumptions C20_handle_names_one_request.

(* The object the application holds is the one of the delivered request. *)
Theorem C20_held_object_belongs_to_its_request :
  forall (ops : list op) (h : N) (t : talk), lookup h (pool (final ops)) = Some t ->
  In (h, (tid t, taddr t)) (number 0 (deliveries ops)).
Proof. exact held_object_request. Qed.
Print Assumptions C20_held_object_belongs_to_its_request.

(* Exactly one while running: if the application still holds the request object [t] (handle [h])
   after [pre] and the node is running, then responding with [body] returns Ok and dropping
   returns; in both cases, whatever happens afterwards ([post]), the responses for this request
   are exactly one: (id, address of the request, the given payload / the empty payload). *)
Theorem C20_answered_exactly_once_while_running :
  forall (pre post : list op) (h : N) (t : talk) (o : op) (body : list N),
  lookup h (pool (final pre)) = Some t -> open (final pre) = true ->
  (o = ORespond h body \/ (o = ODrop h /\ body = [])) ->
  nth (length pre) (results (pre ++ o :: post)) RNoSuch = (match o with ORespond _ _ => ROk | _ => RUnit end) /\
  msgs_of h (final (pre ++ o :: post)) = [{| mh := h; mid := tid t; maddr := taddr t; mbody := body |}].
Proof. exact answered_running. Qed.
Print Assumptions C20_answered_exactly_once_while_running.

(* A request that is still held has not been answered (hold = no response). *)
Theorem C20_held_request_has_no_response :
  forall (ops : list op) (h : N) (t : talk), lookup h (pool (final ops)) = Some t -> msgs_of h (final ops) = [].
Proof. exact held_is_silent. Qed.
Print Assumptions C20_held_request_has_no_response.

(* After shutdown: responding is the error value ChannelClosed, dropping returns, and no response
   is ever recorded for the request. *)
Theorem C20_after_shutdown_is_harmless :
  forall (pre post : list op) (h : N) (t : talk) (o : op),
  lookup h (pool (final pre)) = Some t -> open (final pre) = false ->
  ((exists body, o = ORespond h body) \/ o = ODrop h) ->
  nth (length pre) (results (pre ++ o :: post)) RNoSuch = (match o with ORespond _ _ => RErr | _ => RUnit end) /\
  msgs_of h (final (pre ++ o :: post)) = [].
Proof. exact answered_after_shutdown. Qed.
Print Assumptions C20_after_shutdown_is_harmless.

(* "running" is "no shutdown so far". *)
Theorem C20_running_iff_no_shutdown :
  forall ops : list op, open (final ops) = negb (existsb is_shutdown ops).
Proof. exact open_final. Qed.
Print Assumptions C20_running_iff_no_shutdown.

(* No panic in any order: [self.sender.take().unwrap()] in [respond] always finds the sender. *)
Theorem C20_never_panics :
  forall ops : list op, ~ In RPanic (results ops).
Proof. exact never_panics. Qed.
Print Assumptions C20_never_panics.

(* The hypotheses of the theorems above are satisfiable in non-trivial situations: three
   concurrent requests, the second one answered first, then a shutdown with one request held. *)
Example C20_hypotheses_running :
  let pre := [ODeliver 11 1; ODeliver 12 2; ODeliver 13 1; ORespond 1 [7]] in
  lookup 2 (pool (final pre)) = Some {| tid := 13; taddr := 1; tsender := Some HandlerChan |} /\
  open (final pre) = true /\
  map mbody (msgs_of 1 (final (pre ++ [ODrop 2; OShutdown; ORespond 0 [9]]))) = [[7]] /\
  results (pre ++ [ODrop 2; OShutdown; ORespond 0 [9]]) = [RUnit; RUnit; RUnit; ROk; RUnit; RUnit; RErr].
Proof. vm_compute. repeat split; reflexivity. Qed.
Print Assumptions C20_hypotheses_running.

Example C20_hypotheses_after_shutdown :
  let pre := [ODeliver 11 1; ODeliver 12 2; OShutdown] in
  lookup 1 (pool (final pre)) = Some {| tid := 12; taddr := 2; tsender := Some HandlerChan |} /\
  open (final pre) = false.
Proof. vm_compute. split; reflexivity. Qed.
Print Assumptions C20_hypotheses_after_shutdown.
