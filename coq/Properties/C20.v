(* C20 - Every TALK request is answered exactly once.
   Statements only; every theorem is closed by [exact] of a lemma proved in Proofs/Talk.v and
   followed by Print Assumptions.  See DESIGN.md section 6 (C20) and the header of Model/Talk.v
   for the modelling conventions (linear use of request objects = Rust's move semantics; the
   channel is open until the handler's receiving end is dropped = shutdown).

   [final ops] is the state after the operation list [ops] (any interleaving of deliveries,
   respond, drop, hold, shutdown) from the initial state; [msgs_of h w] are the TALKRESP messages
   handed to the handler on behalf of the [h]-th delivered request. *)
From Coq Require Import List NArith Bool.
From Discv5V Require Import Model.Talk Proofs.Talk Proofs.TalkGap.
Import ListNotations.
Local Open Scope N_scope.

(* Never a second response: whatever the application and the node do, in whatever order. *)
Theorem C20_at_most_one_response :
  forall (ops : list op) (h : N), (length (msgs_of h (final ops)) <= 1)%nat.
Proof. exact at_most_one. Qed.
Print Assumptions C20_at_most_one_response.

(* Every response that is ever sent carries the request id and the node address of the request it
   answers: handle [mh m] is the [mh m]-th TALKREQ delivered, [number 0 (deliveries ops)] lists the
   delivered (id, address) pairs with their handles ... *)
Theorem C20_response_carries_id_and_address_of_its_request :
  forall (ops : list op) (m : msg), In m (inbox (final ops)) ->
  In (mh m, (mid m, maddr m)) (number 0 (deliveries ops)).
Proof. exact response_matches_request. Qed.
Print Assumptions C20_response_carries_id_and_address_of_its_request.

(* ... and a handle names exactly one delivered request. *)
Theorem C20_handle_names_one_request :
  forall (ops : list op) (h : N) (x y : N * N),
  In (h, x) (number 0 (deliveries ops)) -> In (h, y) (number 0 (deliveries ops)) -> x = y.
Proof. exact handles_name_one_request. Qed.
Print Assumptions C20_handle_names_one_request.

(* The object the application holds is the one of the delivered request. *)
Theorem C20_held_object_belongs_to_its_request :
  forall (ops : list op) (h : N) (t : talk), lookup h (pool (final ops)) = Some t ->
  In (h, (tid t, taddr t)) (number 0 (deliveries ops)).
Proof. exact held_object_request. Qed.
Print Assumptions C20_held_object_belongs_to_its_request.

(* Exactly one while running: if the application still holds the request object [t] (handle [h])
   after [pre] and the node is running, then responding with [body] returns Ok and dropping
   returns; in both cases, whatever happens afterwards ([post]), the responses for this request
   are exactly one: (id, address of the request, the given payload / the empty payload). *)
Theorem C20_answered_exactly_once_while_running :
  forall (pre post : list op) (h : N) (t : talk) (o : op) (body : list N),
  lookup h (pool (final pre)) = Some t -> open (final pre) = true ->
  (o = ORespond h body \/ (o = ODrop h /\ body = [])) ->
  nth (length pre) (results (pre ++ o :: post)) RNoSuch = (match o with ORespond _ _ => ROk | _ => RUnit end) /\
  msgs_of h (final (pre ++ o :: post)) = [{| mh := h; mid := tid t; maddr := taddr t; mbody := body |}].
Proof. exact answered_running. Qed.
Print Assumptions C20_answered_exactly_once_while_running.

(* A request that is still held has not been answered (hold = no response). *)
Theorem C20_held_request_has_no_response :
  forall (ops : list op) (h : N) (t : talk), lookup h (pool (final ops)) = Some t -> msgs_of h (final ops) = [].
Proof. exact held_is_silent. Qed.
Print Assumptions C20_held_request_has_no_response.

(* After shutdown: responding is the error value ChannelClosed, dropping returns, and no response
   is ever recorded for the request. *)
Theorem C20_after_shutdown_is_harmless :
  forall (pre post : list op) (h : N) (t : talk) (o : op),
  lookup h (pool (final pre)) = Some t -> open (final pre) = false ->
  ((exists body, o = ORespond h body) \/ o = ODrop h) ->
  nth (length pre) (results (pre ++ o :: post)) RNoSuch = (match o with ORespond _ _ => RErr | _ => RUnit end) /\
  msgs_of h (final (pre ++ o :: post)) = [].
Proof. exact answered_after_shutdown. Qed.
Print Assumptions C20_after_shutdown_is_harmless.

(* "running" is "no shutdown so far". *)
Theorem C20_running_iff_no_shutdown :
  forall ops : list op, open (final ops) = negb (existsb is_shutdown ops).
Proof. exact open_final. Qed.
Print Assumptions C20_running_iff_no_shutdown.

(* No panic in any order: [self.sender.take().unwrap()] in [respond] always finds the sender. *)
Theorem C20_never_panics :
  forall ops : list op, ~ In RPanic (results ops).
Proof. exact never_panics. Qed.
Print Assumptions C20_never_panics.

(* The hypotheses of the theorems above are satisfiable in non-trivial situations: three
   concurrent requests, the second one answered first, then a shutdown with one request held. *)
Example C20_hypotheses_running :
  let pre := [ODeliver 11 1; ODeliver 12 2; ODeliver 13 1; ORespond 1 [7]] in
  lookup 2 (pool (final pre)) = Some {| tid := 13; taddr := 1; tsender := Some HandlerChan |} /\
  open (final pre) = true /\
  map mbody (msgs_of 1 (final (pre ++ [ODrop 2; OShutdown; ORespond 0 [9]]))) = [[7]] /\
  results (pre ++ [ODrop 2; OShutdown; ORespond 0 [9]]) = [RUnit; RUnit; RUnit; ROk; RUnit; RUnit; RErr].
Proof. vm_compute. repeat split; reflexivity. Qed.
Print Assumptions C20_hypotheses_running.

Example C20_hypotheses_after_shutdown :
  let pre := [ODeliver 11 1; ODeliver 12 2; OShutdown] in
  lookup 1 (pool (final pre)) = Some {| tid := 12; taddr := 2; tsender := Some HandlerChan |} /\
  open (final pre) = false.
Proof. vm_compute. split; reflexivity. Qed.
Print Assumptions C20_hypotheses_after_shutdown.

(* ---------------------------------------------------------------------------------------------- *)
(* From the delivery to the response, in terms of the operation list alone (gap audit,
   notes/gap_audit_C14_C20.md): the theorems above assume that the application holds the request
   object ([lookup h (pool ..) = Some t]); these derive it from the delivery.
   [handle_after pre] is the handle of the next delivery after [pre] (the number of deliveries so
   far); [names h o] says that [o] is a respond / drop of the object with handle [h]. *)

(* "each TALKREQ delivered to the application": the delivery hands over an object carrying the id
   and the node address of the request, which stays with the application until its first
   respond / drop, whatever else happens (other requests, shutdown). *)
Theorem C20_delivery_hands_over_the_request_object :
  forall pre id addr between,
  forallb (fun o => negb (names (handle_after pre) o)) between = true ->
  lookup (handle_after pre) (pool (final (pre ++ ODeliver id addr :: between)))
  = Some {| tid := id; taddr := addr; tsender := Some HandlerChan |}.
Proof. exact delivered_object_held. Qed.
Print Assumptions C20_delivery_hands_over_the_request_object.

Theorem C20_delivery_handle_is_the_ledger_handle :
  forall pre id addr post,
  In (handle_after pre, (id, addr)) (number 0 (deliveries (pre ++ ODeliver id addr :: post))).
Proof. exact delivered_handle_in_ledger. Qed.
Print Assumptions C20_delivery_handle_is_the_ledger_handle.

(* The property, end to end: a TALKREQ (id, addr) is delivered after any history [pre]; the
   application holds it during any [between] and then responds with [body] or drops it
   (body = []); the node is running up to that point.  Then respond returns Ok / drop returns, and
   whatever happens afterwards ([post]: further responds, drops, deliveries, shutdown) the
   TALKRESP messages for this request are exactly one, with the request's id, the node address it
   came from and the application's payload / the empty payload. *)
Theorem C20_delivered_request_answered_exactly_once :
  forall pre id addr between o body post,
  let h := handle_after pre in
  forallb (fun o => negb (names h o)) between = true ->
  existsb is_shutdown (pre ++ ODeliver id addr :: between) = false ->
  (o = ORespond h body \/ (o = ODrop h /\ body = [])) ->
  let ops := (pre ++ ODeliver id addr :: between) ++ o :: post in
  nth (length (pre ++ ODeliver id addr :: between)) (results ops) RNoSuch
    = (match o with ORespond _ _ => ROk | _ => RUnit end) /\
  msgs_of h (final ops) = [{| mh := h; mid := id; maddr := addr; mbody := body |}].
Proof. exact delivered_answered_exactly_once. Qed.
Print Assumptions C20_delivered_request_answered_exactly_once.

(* ... after a shutdown: the error value for respond, a plain return for drop, no response *)
Theorem C20_delivered_request_consumed_after_shutdown :
  forall pre id addr between o post,
  let h := handle_after pre in
  forallb (fun o => negb (names h o)) between = true ->
  existsb is_shutdown (pre ++ ODeliver id addr :: between) = true ->
  ((exists body, o = ORespond h body) \/ o = ODrop h) ->
  let ops := (pre ++ ODeliver id addr :: between) ++ o :: post in
  nth (length (pre ++ ODeliver id addr :: between)) (results ops) RNoSuch
    = (match o with ORespond _ _ => RErr | _ => RUnit end) /\
  msgs_of h (final ops) = [].
Proof. exact delivered_consumed_after_shutdown. Qed.
Print Assumptions C20_delivered_request_consumed_after_shutdown.

(* ... and while it is held nothing is sent on its behalf *)
Theorem C20_delivered_request_held_is_silent :
  forall pre id addr between,
  let h := handle_after pre in
  forallb (fun o => negb (names h o)) between = true ->
  msgs_of h (final (pre ++ ODeliver id addr :: between)) = [].
Proof. exact delivered_held_is_silent. Qed.
Print Assumptions C20_delivered_request_held_is_silent.

(* the hypotheses on a non-trivial history: two requests outstanding, the second delivered request
   (handle 1) is held while the first is answered and a third arrives, then dropped *)
Example C20_delivered_example :
  let pre := [ODeliver 11 1] in
  let between := [ORespond 0 [5]; ODeliver 13 3; OHold] in
  handle_after pre = 1 /\
  forallb (fun o => negb (names 1 o)) between = true /\
  existsb is_shutdown (pre ++ ODeliver 12 2 :: between) = false /\
  msgs_of 1 (final ((pre ++ ODeliver 12 2 :: between) ++ ODrop 1 :: [OShutdown; ODrop 2]))
  = [{| mh := 1; mid := 12; maddr := 2; mbody := [] |}].
Proof. vm_compute. repeat split; reflexivity. Qed.
Print Assumptions C20_delivered_example.
