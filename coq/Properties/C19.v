(* C19 - Encryption nonces are never reused.
   Statements about Model/Handler.v (validated against the real handler by the correspondence run of
   ./check C19; the harness monitor checks the nonce multiset per decrypting key on the wire).
   A message nonce is (counter, r): the 4 counter bytes and the interned 8 random bytes.
   Every theorem is closed by [exact] of a lemma of Proofs/HandlerB_*.v. *)
From Coq Require Import List NArith Bool.
From Discv5V Require Import Model.Handler Proofs.HandlerB_Base Proofs.HandlerB_Frame Proofs.HandlerB_Session
  Proofs.HandlerB_Auth Proofs.HandlerB_Step Proofs.HandlerB_Nonce Proofs.HandlerB_Examples.
Import ListNotations.
Local Open Scope N_scope.

(* encrypt_nonce_counter: Session::encrypt_message produces a packet whose nonce is (counter + 1, r) for
   the drawn r, encrypted under the session's current encryption key with the header as authenticated
   data; the session returned has counter + 1 and the same keys; the handler state is not touched. *)
Theorem C19_encrypt_nonce_counter :
  forall c s na se m,
  let res := encrypt_message c s na se m in
  let se' := snd (fst res) in
  exists r aad,
    snd res = PMsg (cfg_local c) (s_counter se + 1, r) aad (CEnc (s_enc se) (s_counter se + 1, r) m aad) /\
    s_counter se' = s_counter se + 1 /\
    s_enc se' = s_enc se /\ s_dec se' = s_dec se /\ s_old se' = s_old se /\ s_await se' = s_await se /\
    hs (fst (fst res)) = hs s /\ outs (fst (fst res)) = outs s.
Proof. exact encrypt_nonce_counter. Qed.
Print Assumptions C19_encrypt_nonce_counter.

(* counter_nonces_distinct: two encryptions under one session object - the later one with the session
   returned by the earlier one or any descendant of it (counter not smaller) - carry different nonces,
   for all messages and whatever the random number generator returns.  Unconditional in the model
   (counters are unbounded naturals, N has no overflow); for the Rust u32 counter see the next theorem. *)
Theorem C19_counter_nonces_distinct :
  forall c s1 s2 na1 na2 se1 se2 m1 m2,
  s_counter (snd (fst (encrypt_message c s1 na1 se1 m1))) <= s_counter se2 ->
  pkt_nonce (snd (encrypt_message c s1 na1 se1 m1)) <> pkt_nonce (snd (encrypt_message c s2 na2 se2 m2)).
Proof. exact counter_nonces_distinct. Qed.
Print Assumptions C19_counter_nonces_distinct.

Theorem C19_successive_nonces_distinct :
  forall c s na se m m',
  let '(s1, se1, p1) := encrypt_message c s na se m in
  let '(_, _, p2) := encrypt_message c s1 na se1 m' in
  pkt_nonce p1 <> pkt_nonce p2.
Proof. exact successive_nonces_distinct. Qed.
Print Assumptions C19_successive_nonces_distinct.

(* u32 range remark: the four counter bytes on the wire differ as long as the counter stays below 2^32
   (Rust: `self.counter += 1` on a u32; 2^32 messages under one session are out of reach of the session
   lifetime; on overflow a debug build panics, a release build would wrap - outside this theorem). *)
Theorem C19_counter_nonces_distinct_u32 :
  forall c1 c2 : N, c1 + 1 <= c2 -> c2 + 1 < 2 ^ 32 -> (c1 + 1) mod 2 ^ 32 <> (c2 + 1) mod 2 ^ 32.
Proof. exact counter_nonces_distinct_u32. Qed.
Print Assumptions C19_counter_nonces_distinct_u32.

(* rekey_keeps_counter: Session::update inside new_session installs the new keys in the existing session
   object, remembers the previous ones and keeps the counter; what follows (replay of the active
   requests, release of queued requests) only increases it. *)
Theorem C19_rekey_keeps_counter :
  forall c s na se skip now h1 cs,
  sess_get (hs s) na = (h1, Some cs) ->
  exists s1,
    hs s1 = sess_put h1 na {| s_enc := s_enc se; s_dec := s_dec se; s_old := Some (s_enc cs, s_dec cs);
                              s_await := s_await se; s_counter := s_counter cs |} /\
    Quiet s1 (new_session c s na se skip now).
Proof. exact rekey_keeps_counter. Qed.
Print Assumptions C19_rekey_keeps_counter.

Theorem C19_new_session_counter :
  forall c s na se skip now cs se',
  SessUniq (hs s) ->
  alist_get na (sessions (hs s)) = Some cs ->
  In (na, se') (sessions (hs (new_session c s na se skip now))) ->
  s_counter cs <= s_counter se'.
Proof. exact new_session_counter. Qed.
Print Assumptions C19_new_session_counter.

(* counter_monotone: in every step, the counter of the session stored under a node address does not
   decrease while the entry persists (a session that is removed and later re-created starts at 0 again -
   with new keys, see C01_step_sessions).  SessUniq (at most one session per node address) holds in
   every reachable state. *)
Theorem C19_counter_monotone :
  forall c h e now d na se se',
  SessUniq h ->
  alist_get na (sessions h) = Some se ->
  alist_get na (sessions (fst (step c h e now d))) = Some se' ->
  s_counter se <= s_counter se'.
Proof. exact counter_monotone. Qed.
Print Assumptions C19_counter_monotone.

Theorem C19_counter_monotone_run :
  forall c evs h na se se',
  SessUniq h ->
  (forall hi, In hi (run_states c h evs) -> alist_get na (sessions hi) <> None) ->
  alist_get na (sessions h) = Some se ->
  alist_get na (sessions (fst (run c h evs))) = Some se' ->
  s_counter se <= s_counter se'.
Proof. exact counter_monotone_run. Qed.
Print Assumptions C19_counter_monotone_run.

Theorem C19_session_unique_reachable : forall c evs, SessUniq (fst (run c init_state evs)).
Proof. exact run_SessUniq. Qed.
Print Assumptions C19_session_unique_reachable.

(* The id-nonce of a WHOAREYOU is the value the random number generator returned when the challenge was
   built (send_challenge is the only function of the handler that builds a WHOAREYOU packet).  "The
   16-byte id-nonces never repeat" is therefore exactly a statement about the oracle: two challenges
   built from different draws carry different id-nonces; the freshness of the draws is the explicit
   hypothesis - no model can prove a property of rand. *)
Theorem C19_idnonce_is_the_draw :
  forall c s na n known now,
  let s' := send_challenge c s na n known now in
  let x := fst (pop_pk (dr s)) in
  s' = s \/
  outs s' = outs s ++ [OWire na (PWho n (fst (fst (fst x))) (match known with Some e => e_seq e | None => 0 end)
                                     (snd (fst x)))].
Proof. exact send_challenge_idnonce. Qed.
Print Assumptions C19_idnonce_is_the_draw.

Theorem C19_idnonce_distinct_under_fresh_oracle :
  forall c s1 s2 na1 na2 n1 n2 k1 k2 now1 now2 dst1 dst2 m1 m2 i1 i2 q1 q2 c1 c2,
  fst (fst (fst (fst (pop_pk (dr s1))))) <> fst (fst (fst (fst (pop_pk (dr s2))))) ->   (* fresh oracle *)
  In (OWire dst1 (PWho m1 i1 q1 c1)) (outs (send_challenge c s1 na1 n1 k1 now1)) ->
  ~ In (OWire dst1 (PWho m1 i1 q1 c1)) (outs s1) ->
  In (OWire dst2 (PWho m2 i2 q2 c2)) (outs (send_challenge c s2 na2 n2 k2 now2)) ->
  ~ In (OWire dst2 (PWho m2 i2 q2 c2)) (outs s2) ->
  i1 <> i2.
Proof. exact idnonce_distinct_under_fresh_oracle. Qed.
Print Assumptions C19_idnonce_distinct_under_fresh_oracle.

(* ------------------------------------------------------------------------------------------ *)
(* trace level (Proofs/HandlerB_Trace*.v) *)
From Discv5V Require Import Proofs.HandlerB_Trace Proofs.HandlerB_Trace2 Proofs.HandlerB_Trace3 Proofs.HandlerB_TraceEx.

(* no_nonce_reuse_partial.  [NoReuse W]: any two message packets (PMsg) in W whose bodies are ciphertexts
   under the same key with the same nonce are the same packet.  In any run from the initial state, over
   ALL datagrams emitted in all steps: two message packets under the same key and nonce are
   byte-identical retransmissions - for every behaviour of the random number generator as far as the
   8 random nonce bytes are concerned (the distinctness comes from the counter).
   Hypothesis [fresh_installs]: key terms are not installed twice - the two keys installed by each
   accepted handshake (a function of the peer's ephemeral key and OUR challenge data, which contains
   the random id-nonce and IV) and by each answered WHOAREYOU (a function of OUR ephemeral key and the
   peer's challenge data) have never been installed in a session before.  This follows from the
   freshness of the (eph, cd) draws of distinct handshakes: a hypothesis on the oracle.
   Partial because (1) of that hypothesis and (2) handshake packets, whose message is encrypted under
   the new key with a raw random 12-byte nonce, are not covered: that their nonce differs from the later
   counter nonces under the same key is again a statement about the random number generator. *)
Theorem C19_no_nonce_reuse_partial :
  forall c evs, fresh_installs c init_state [] evs -> NoReuse (concat (snd (run c init_state evs))).
Proof. exact no_nonce_reuse_partial. Qed.
Print Assumptions C19_no_nonce_reuse_partial.

Theorem C19_no_nonce_reuse_packets :
  forall c evs d1 d2 s1 n1 a1 s2 n2 a2 k n m m' a a',
  fresh_installs c init_state [] evs ->
  let W := concat (snd (run c init_state evs)) in
  In (OWire d1 (PMsg s1 n1 a1 (CEnc k n m a))) W ->
  In (OWire d2 (PMsg s2 n2 a2 (CEnc k n m' a'))) W ->
  PMsg s1 n1 a1 (CEnc k n m a) = PMsg s2 n2 a2 (CEnc k n m' a').
Proof. exact no_nonce_reuse_packets. Qed.
Print Assumptions C19_no_nonce_reuse_packets.

(* the counter bound behind it: every message ciphertext ever emitted under a key of a live session has
   a counter not above that session's counter (so the next encryption, at counter + 1, is new) *)
Theorem C19_emitted_counters_bounded :
  forall c evs k cnt na se,
  fresh_installs c init_state [] evs ->
  Used (concat (snd (run c init_state evs))) k cnt ->
  In (na, se) (sessions (fst (run c init_state evs))) -> In k (sess_keys se) ->
  cnt <= s_counter se.
Proof. exact emitted_counters_bounded. Qed.
Print Assumptions C19_emitted_counters_bounded.

(* the hypothesis is satisfiable: a run with an incoming and an outgoing handshake *)
Example C19_example_fresh_run :
  fresh_installs ex_cfg init_state [] evs_both /\ NoReuse (concat (snd (run ex_cfg init_state evs_both))).
Proof. split; [exact evs_both_fresh | exact evs_both_no_reuse]. Qed.
Print Assumptions C19_example_fresh_run.

(* ------------------------------------------------------------------------------------------ *)
(* example: the session created by the handshake has counter 0; the response is encrypted with nonce
   (1, r) under the recipient key and the stored counter becomes 1 *)
Example C19_example_counter :
  option_map s_counter (alist_get (7, 100) (sessions (fst (run ex_cfg init_state [ev_unknown; ev_whoareyou; ev_handshake])))) = Some 0 /\
  option_map s_counter (alist_get (7, 100) (sessions h_session)) = Some 1 /\
  snd (run ex_cfg init_state [ev_unknown; ev_whoareyou; ev_handshake; ev_response]) =
  [[OEvent (HWhoAreYou (7, 100) (1, 1))]; [OWire (7, 100) (PWho (1, 1) 11 1 5)];
   [OEvent (HEstablished enr7 100 true); OEvent (HRequest (7, 100) 9 0)];
   [OWire (7, 100) (PMsg 1 (1, 77) 52 (CEnc (mk_key 3 1 5 7 1 true) (1, 77) (MResp 9 (ROther 1)) 52))]].
Proof. exact counter_after_response. Qed.
Print Assumptions C19_example_counter.
