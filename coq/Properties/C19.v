(* C19 - Encryption nonces are never reused.
   Statements about Model/Handler.v (validated against the real handler by the correspondence run of
   ./check C19; the harness monitor checks the nonce multiset per decrypting key on the wire).
   A message nonce is (counter, r): the 4 counter bytes and the interned 8 random bytes.
   Every theorem is closed by [exact] of a lemma of Proofs/HandlerB_*.v.

   Sessions expire (LruTimeCache): a session carries the time of its last use ([s_used]);
   [sess_expired c se] = the session has been idle for longer than [cfg_session_ttl c] at the clock
   reading [cfg_clock c]; a lookup ([sess_get c]) removes an expired session and finds nothing, and
   Handler::new_session first purges the expired sessions at the front of the cache
   ([remove_expired_sessions c], reported as HandlerOut::ExpiredSessions).  [step c h e now d] runs
   with the clock set to [now].  So a session object - and with it its counter - can now also end
   by expiry; the counter statements below say for each case what happens: while the object lives its
   counter never decreases; when it is replaced, the replacement holds only keys derived in the
   handshake that created it (never installed before under [fresh_installs]), so a counter that
   restarts at 0 restarts under new keys. *)
From Coq Require Import List NArith Bool.
From Discv5V Require Import Model.Handler Proofs.HandlerB_Base Proofs.HandlerB_Frame Proofs.HandlerB_Session
  Proofs.HandlerB_Auth Proofs.HandlerB_Step Proofs.HandlerB_Nonce Proofs.HandlerB_Examples.
Import ListNotations.
Local Open Scope N_scope.

(* encrypt_nonce_counter: Session::encrypt_message produces a packet whose nonce is (counter + 1, r) for
   the drawn r, encrypted under the session's current encryption key with the header as authenticated
   data; the session returned has counter + 1 and the same keys; the handler state is not touched. *)
Theorem C19_encrypt_nonce_counter :
  forall c s na se m,
  let res := encrypt_message c s na se m in
  let se' := snd (fst res) in
  exists r aad,
    snd res = PMsg (cfg_local c) (s_counter se + 1, r) aad (CEnc (s_enc se) (s_counter se + 1, r) m aad) /\
    s_counter se' = s_counter se + 1 /\
    s_enc se' = s_enc se /\ s_dec se' = s_dec se /\ s_old se' = s_old se /\ s_await se' = s_await se /\
    hs (fst (fst res)) = hs s /\ outs (fst (fst res)) = outs s.
Proof. exact encrypt_nonce_counter. Qed.
Print Assumptions C19_encrypt_nonce_counter.

(* counter_nonces_distinct: two encryptions under one session object - the later one with the session
   returned by the earlier one or any descendant of it (counter not smaller) - carry different nonces,
   for all messages and whatever the random number generator returns.  Unconditional in the model
   (counters are unbounded naturals, N has no overflow); for the Rust u32 counter see the next theorem. *)
Theorem C19_counter_nonces_distinct :
  forall c s1 s2 na1 na2 se1 se2 m1 m2,
  s_counter (snd (fst (encrypt_message c s1 na1 se1 m1))) <= s_counter se2 ->
  pkt_nonce (snd (encrypt_message c s1 na1 se1 m1)) <> pkt_nonce (snd (encrypt_message c s2 na2 se2 m2)).
Proof. exact counter_nonces_distinct. Qed.
Print Assumptions C19_counter_nonces_distinct.

Theorem C19_successive_nonces_distinct :
  forall c s na se m m',
  let '(s1, se1, p1) := encrypt_message c s na se m in
  let '(_, _, p2) := encrypt_message c s1 na se1 m' in
  pkt_nonce p1 <> pkt_nonce p2.
Proof. exact successive_nonces_distinct. Qed.
Print Assumptions C19_successive_nonces_distinct.

(* u32 range remark: the four counter bytes on the wire differ as long as the counter stays below 2^32
   (Rust: `self.counter += 1` on a u32; 2^32 messages under one session are out of reach of the session
   lifetime; on overflow a debug build panics, a release build would wrap - outside this theorem). *)
Theorem C19_counter_nonces_distinct_u32 :
  forall c1 c2 : N, c1 + 1 <= c2 -> c2 + 1 < 2 ^ 32 -> (c1 + 1) mod 2 ^ 32 <> (c2 + 1) mod 2 ^ 32.
Proof. exact counter_nonces_distinct_u32. Qed.
Print Assumptions C19_counter_nonces_distinct_u32.

(* rekey_keeps_counter: Session::update inside new_session installs the new keys in the existing session
   object, remembers the previous ones and keeps the counter (and the time stamp); what follows (replay
   of the active requests, release of queued requests) only increases it ([Quiet]).
   new_session looks the session up AFTER purging the expired sessions, with the lookup that itself
   drops an expired entry: the hypothesis is that this lookup finds a session [cs] (the stored one,
   stamped with the current time).  The other case - the lookup finds nothing: there was no session
   under [na], or it had expired - does not go through Session::update: [se] is inserted as a new
   session object (counter 0, only the new keys); see C19_new_session_expired_restarts. *)
Theorem C19_rekey_keeps_counter :
  forall c s na se skip now h1 cs,
  sess_get c (hs (remove_expired_sessions c s)) na = (h1, Some cs) ->
  exists s1,
    hs s1 = sess_put h1 na {| s_enc := s_enc se; s_dec := s_dec se; s_old := Some (s_enc cs, s_dec cs);
                              s_await := s_await se; s_counter := s_counter cs; s_used := s_used cs |} /\
    Quiet s1 (new_session c s na se skip now).
Proof. exact rekey_keeps_counter. Qed.
Print Assumptions C19_rekey_keeps_counter.

(* the same in terms of the state before new_session.  Case 1: the session stored under [na] has not
   expired - the session under [na] afterwards has a counter at least as large. *)
Theorem C19_new_session_counter :
  forall c s na se skip now cs se',
  SessUniq (hs s) ->
  alist_get na (sessions (hs s)) = Some cs ->
  sess_expired c cs = false ->
  In (na, se') (sessions (hs (new_session c s na se skip now))) ->
  s_counter cs <= s_counter se'.
Proof. exact new_session_counter. Qed.
Print Assumptions C19_new_session_counter.

(* Case 2: the stored session has expired - it is purged, and the session under [na] afterwards is a new
   object that descends from [se] ([sess_desc se se']: every key of se' - current or previous - is a key
   of se, counter not below that of se).  Its counter restarts (every caller of new_session - the accepted
   handshake packet, the answered WHOAREYOU - passes a session with counter 0), but it
   holds NONE of the keys of the expired session: the old counter values were used under other keys.
   (If no session is stored under [na] there is no earlier counter to compare with.) *)
Theorem C19_new_session_expired_restarts :
  forall c s na se skip now cs se',
  SessUniq (hs s) ->
  alist_get na (sessions (hs s)) = Some cs ->
  sess_expired c cs = true ->
  In (na, se') (sessions (hs (new_session c s na se skip now))) ->
  sess_desc se se'.
Proof. exact new_session_expired_restarts. Qed.
Print Assumptions C19_new_session_expired_restarts.

(* counter_monotone: in every step, the counter of the session stored under a node address does not
   decrease while the session object persists.  Without expiry "an entry before and an entry after the
   step" meant the same object; with expiry one step can also REPLACE the object: typically the stored
   session has expired and the step is a handshake (accepted handshake packet or answered WHOAREYOU) for
   that node address - new_session purges the expired session and inserts a new one.  Whatever the
   reason the old object is gone, a replacement is always of this kind.  That is the second disjunct:
   [installed_by c s0 e na se0] - the event e, handled in the state s0 left by the implicit tick,
   installs under na the session se0 with counter 0, no previous keys, and exactly the two keys derived
   in this handshake (the description of C01_step_sessions: for a handshake packet, establish returned
   EstOk se0 for the outstanding challenge of na; for a WHOAREYOU, the keys are built from the drawn
   ephemeral key and the packet's challenge data) - and the session after the step descends from se0
   ([sess_desc]: no other keys).  So the counter may restart only together with a change of ALL keys
   of the session.  SessUniq (at most one session per node address) holds in every reachable state. *)
Theorem C19_counter_monotone :
  forall c h e now d na se se',
  SessUniq h ->
  alist_get na (sessions h) = Some se ->
  alist_get na (sessions (fst (step c h e now d))) = Some se' ->
  s_counter se <= s_counter se' \/
  (exists se0, installed_by c (tick c h now d) e na se0 /\ sess_desc se0 se').
Proof. exact counter_monotone. Qed.
Print Assumptions C19_counter_monotone.

(* the same for every session of the new state, whether or not one was stored under its address before:
   it continues a session of the old state under the same address (counter not smaller), or it was
   created by this step's handshake (there was none before, or the one before had expired and was
   purged) and holds nothing but the keys just derived *)
Theorem C19_counter_monotone_step :
  forall c h e now d na se',
  In (na, se') (sessions (fst (step c h e now d))) ->
  (exists se, In (na, se) (sessions h) /\ s_counter se <= s_counter se') \/
  (exists se0, installed_by c (tick c h now d) e na se0 /\ sess_desc se0 se').
Proof. exact counter_monotone_step. Qed.
Print Assumptions C19_counter_monotone_step.

(* along a run, while the session object persists: an entry under na exists after every step
   ([run_states]) and no step of the run installs a session under na ([run_installs c h evs na]: for some
   step (e, now, d) of the run, [installed_by c (tick c hi now d) e na se0] holds for some se0, hi being
   the state the step starts in).  The other case - some step does install a session under na - is the
   second disjunct of C19_counter_monotone at that step: from there on the entry is a new object
   with new keys, to which this theorem applies again. *)
Theorem C19_counter_monotone_run :
  forall c evs h na se se',
  SessUniq h ->
  (forall hi, In hi (run_states c h evs) -> alist_get na (sessions hi) <> None) ->
  ~ run_installs c h evs na ->
  alist_get na (sessions h) = Some se ->
  alist_get na (sessions (fst (run c h evs))) = Some se' ->
  s_counter se <= s_counter se'.
Proof. exact counter_monotone_run. Qed.
Print Assumptions C19_counter_monotone_run.

Theorem C19_session_unique_reachable : forall c evs, SessUniq (fst (run c init_state evs)).
Proof. exact run_SessUniq. Qed.
Print Assumptions C19_session_unique_reachable.

(* The id-nonce of a WHOAREYOU is the value the random number generator returned when the challenge was
   built (send_challenge is the only function of the handler that builds a WHOAREYOU packet).  "The
   16-byte id-nonces never repeat" is therefore exactly a statement about the oracle: two challenges
   built from different draws carry different id-nonces; the freshness of the draws is the explicit
   hypothesis - no model can prove a property of rand. *)
Theorem C19_idnonce_is_the_draw :
  forall c s na n known now,
  let s' := send_challenge c s na n known now in
  let x := fst (pop_pk (dr s)) in
  s' = s \/
  outs s' = outs s ++ [OWire na (PWho n (fst (fst (fst x))) (match known with Some e => e_seq e | None => 0 end)
                                     (snd (fst x)))].
Proof. exact send_challenge_idnonce. Qed.
Print Assumptions C19_idnonce_is_the_draw.

Theorem C19_idnonce_distinct_under_fresh_oracle :
  forall c s1 s2 na1 na2 n1 n2 k1 k2 now1 now2 dst1 dst2 m1 m2 i1 i2 q1 q2 c1 c2,
  fst (fst (fst (fst (pop_pk (dr s1))))) <> fst (fst (fst (fst (pop_pk (dr s2))))) ->   (* fresh oracle *)
  In (OWire dst1 (PWho m1 i1 q1 c1)) (outs (send_challenge c s1 na1 n1 k1 now1)) ->
  ~ In (OWire dst1 (PWho m1 i1 q1 c1)) (outs s1) ->
  In (OWire dst2 (PWho m2 i2 q2 c2)) (outs (send_challenge c s2 na2 n2 k2 now2)) ->
  ~ In (OWire dst2 (PWho m2 i2 q2 c2)) (outs s2) ->
  i1 <> i2.
Proof. exact idnonce_distinct_under_fresh_oracle. Qed.
Print Assumptions C19_idnonce_distinct_under_fresh_oracle.

(* ------------------------------------------------------------------------------------------ *)
(* trace level (Proofs/HandlerB_Trace*.v) *)
From Discv5V Require Import Proofs.HandlerB_Trace Proofs.HandlerB_Trace2 Proofs.HandlerB_Trace3 Proofs.HandlerB_TraceEx.

(* no_nonce_reuse_partial.  [NoReuse W]: any two message packets (PMsg) in W whose bodies are ciphertexts
   under the same key with the same nonce are the same packet.  In any run from the initial state, over
   ALL datagrams emitted in all steps: two message packets under the same key and nonce are
   byte-identical retransmissions - for every behaviour of the random number generator as far as the
   8 random nonce bytes are concerned (the distinctness comes from the counter).
   Hypothesis [fresh_installs]: key terms are not installed twice - the two keys installed by each
   accepted handshake (a function of the peer's ephemeral key and OUR challenge data, which contains
   the random id-nonce and IV) and by each answered WHOAREYOU (a function of OUR ephemeral key and the
   peer's challenge data) have never been installed in a session before.  This follows from the
   freshness of the (eph, cd) draws of distinct handshakes: a hypothesis on the oracle.
   Partial because (1) of that hypothesis and (2) handshake packets, whose message is encrypted under
   the new key with a raw random 12-byte nonce, are not covered: that their nonce differs from the later
   counter nonces under the same key is again a statement about the random number generator.
   The full statement, handshake packets included, with that statement about the random number
   generator as an explicit hypothesis, is C19_no_nonce_reuse at the end of this file
   (Proofs/HandlerB_TraceHs.v). *)
Theorem C19_no_nonce_reuse_partial :
  forall c evs, fresh_installs c init_state [] evs -> NoReuse (concat (snd (run c init_state evs))).
Proof. exact no_nonce_reuse_partial. Qed.
Print Assumptions C19_no_nonce_reuse_partial.

Theorem C19_no_nonce_reuse_packets :
  forall c evs d1 d2 s1 n1 a1 s2 n2 a2 k n m m' a a',
  fresh_installs c init_state [] evs ->
  let W := concat (snd (run c init_state evs)) in
  In (OWire d1 (PMsg s1 n1 a1 (CEnc k n m a))) W ->
  In (OWire d2 (PMsg s2 n2 a2 (CEnc k n m' a'))) W ->
  PMsg s1 n1 a1 (CEnc k n m a) = PMsg s2 n2 a2 (CEnc k n m' a').
Proof. exact no_nonce_reuse_packets. Qed.
Print Assumptions C19_no_nonce_reuse_packets.

(* the counter bound behind it: every message ciphertext ever emitted under a key of a live session has
   a counter not above that session's counter (so the next encryption, at counter + 1, is new) *)
Theorem C19_emitted_counters_bounded :
  forall c evs k cnt na se,
  fresh_installs c init_state [] evs ->
  Used (concat (snd (run c init_state evs))) k cnt ->
  In (na, se) (sessions (fst (run c init_state evs))) -> In k (sess_keys se) ->
  cnt <= s_counter se.
Proof. exact emitted_counters_bounded. Qed.
Print Assumptions C19_emitted_counters_bounded.

(* the hypothesis is satisfiable: a run with an incoming and an outgoing handshake *)
Example C19_example_fresh_run :
  fresh_installs ex_cfg init_state [] evs_both /\ NoReuse (concat (snd (run ex_cfg init_state evs_both))).
Proof. split; [exact evs_both_fresh | exact evs_both_no_reuse]. Qed.
Print Assumptions C19_example_fresh_run.

(* ------------------------------------------------------------------------------------------ *)
(* example for the two cases of new_session (C19_new_session_counter / C19_new_session_expired_restarts):
   the session of the example state, counter 1, last used at time 13, ttl 1000000.  Re-keyed at time 14
   it is alive: the object is kept - counter 1, the previous keys remembered, nothing reported.
   Re-keyed at time 2000000 it has expired: it is purged (ExpiredSessions), and the session stored
   afterwards is a new object - counter 0, no previous keys. *)
Definition ex_rekey : session :=
  {| s_enc := mk_key 9 1 6 7 1 true; s_dec := mk_key 9 1 6 7 1 false; s_old := None; s_await := None;
     s_counter := 0; s_used := 0 |}.
Definition ex_rekey_at (t : N) : st :=
  new_session (with_clock ex_cfg t) {| hs := h_session; dr := nod; outs := [] |} (7, 100) ex_rekey None t.
Example C19_example_expiry :
  let cs := {| s_enc := mk_key 3 1 5 7 1 true; s_dec := kd7; s_old := None; s_await := None; s_counter := 1;
               s_used := 13 |} in
  SessUniq h_session /\ alist_get (7, 100) (sessions h_session) = Some cs /\
  (sess_expired (with_clock ex_cfg 14) cs = false /\
   sessions (hs (ex_rekey_at 14)) =
     [((7, 100), {| s_enc := s_enc ex_rekey; s_dec := s_dec ex_rekey; s_old := Some (mk_key 3 1 5 7 1 true, kd7);
                    s_await := None; s_counter := 1; s_used := 14 |})] /\
   outs (ex_rekey_at 14) = []) /\
  (sess_expired (with_clock ex_cfg 2000000) cs = true /\
   sessions (hs (ex_rekey_at 2000000)) =
     [((7, 100), {| s_enc := s_enc ex_rekey; s_dec := s_dec ex_rekey; s_old := None;
                    s_await := None; s_counter := 0; s_used := 2000000 |})] /\
   outs (ex_rekey_at 2000000) = [OEvent (HExpiredSessions [(7, 100)])]).
Proof.
  cbv zeta. split; [exact (run_SessUniq ex_cfg [ev_unknown; ev_whoareyou; ev_handshake; ev_response]) |].
  split; [exact h_session_has_session |]. vm_compute. repeat split.
Qed.
Print Assumptions C19_example_expiry.

(* ------------------------------------------------------------------------------------------ *)
(* example: the session created by the handshake has counter 0; the response is encrypted with nonce
   (1, r) under the recipient key and the stored counter becomes 1 *)
Example C19_example_counter :
  option_map s_counter (alist_get (7, 100) (sessions (fst (run ex_cfg init_state [ev_unknown; ev_whoareyou; ev_handshake])))) = Some 0 /\
  option_map s_counter (alist_get (7, 100) (sessions h_session)) = Some 1 /\
  snd (run ex_cfg init_state [ev_unknown; ev_whoareyou; ev_handshake; ev_response]) =
  [[OEvent (HWhoAreYou (7, 100) (1, 1))]; [OWire (7, 100) (PWho (1, 1) 11 1 5)];
   [OEvent (HEstablished enr7 100 true); OEvent (HRequest (7, 100) 9 0)];
   [OWire (7, 100) (PMsg 1 (1, 77) 52 (CEnc (mk_key 3 1 5 7 1 true) (1, 77) (MResp 9 (ROther 1)) 52))]].
Proof. exact counter_after_response. Qed.
Print Assumptions C19_example_counter.

(* ------------------------------------------------------------------------------------------ *)
(* trace level, handshake packets included (Proofs/HandlerB_TraceHs.v) *)
From Discv5V Require Import Proofs.HandlerA_Wire4 Proofs.HandlerB_TraceHs.

(* no_nonce_reuse: the first clause of C19 in full - "any two datagrams it emits that decrypt under the
   same key either carry different nonces or are byte-identical retransmissions", for message packets
   AND handshake packets, sessions re-keyed by either side included.
   [apkt_of o] = (key, nonce, packet) if o is a datagram whose message is a ciphertext: a message packet
   [OWire _ (PMsg _ _ _ (CEnc k n m a))] or a handshake packet [OWire _ (PHs _ _ _ _ _ _ _ (CEnc k n m a))].
   [NoReuseAll W]: any two datagrams of W, of either form, with the same key and the same nonce are
   equal as packets.  It holds for the datagrams of all steps of every run from the initial state -
   all events, times and configurations - under three hypotheses, all of them about the random number
   generator (the oracle [draws] of the model), none about the peer or the schedule:

   [fresh_installs] - key terms are not installed twice (see C19_no_nonce_reuse_partial).  It is what
   makes "under one session key" meaningful across sessions: a handshake packet is encrypted under the
   initiator key of the session installed by the very call that builds it, so no earlier datagram is
   under that key, and a counter that restarts at 0 restarts under new keys.

   [fresh_hs_nonces] - the 8 random bytes of the nonce of a handshake packet are not drawn again later
   in the run: for every step whose event is a WHOAREYOU that makes the handler build a handshake packet
   ([hc_keys] not empty), the random part of the first draw the implicit tick left over - that draw
   becomes the handshake nonce (cn, rr) - occurs neither among the rest of that step's draws nor among
   the draws of the later steps.  Why it is needed: the handshake message is encrypted under the new key
   with the raw random 12-byte nonce (cn, rr) (Packet::new_authheader), while every later message packet
   under that key carries (counter, r) with r drawn later; the two nonces collide iff cn = counter and
   r = rr, and cn is arbitrary.  Nothing is assumed about the random bytes of MESSAGE nonces (they may
   repeat freely: the counter separates them) nor about the other components of a draw.  Distinctness
   of the drawn 12-byte nonces as a whole ([NoDup (run_pool evs)], the hypothesis of C04's random_bound)
   is not enough: C19_hs_nonce_freshness_needed.

   [draws_suffice] (Proofs/HandlerA_Wire4.v) - no step exhausts the list of draws it is given.  The
   model's oracle returns zeros once its list is empty; rand does not.

   Retransmissions: the request timer sends the stored packet of a request again - for a request
   answered with a handshake, the stored handshake packet, byte for byte: the same packet, allowed by
   the property.  Re-keying: Handler::replay_active_requests re-encrypts the requests in flight under
   the newest key with new counter nonces (skipping the request the handshake packet itself carries).
   Each hypothesis is needed (the three ..._needed examples below: runs that satisfy the other two
   hypotheses and emit two different datagrams under one key and nonce); together they are satisfied by
   C19_example_hs_run. *)
Theorem C19_no_nonce_reuse :
  forall c evs,
  fresh_installs c init_state [] evs -> fresh_hs_nonces c init_state evs -> draws_suffice c init_state evs ->
  NoReuseAll (concat (snd (run c init_state evs))).
Proof. exact no_nonce_reuse. Qed.
Print Assumptions C19_no_nonce_reuse.

(* the same on packets.  [pkt_ct p] = the ciphertext the datagram p carries (message packet or
   handshake packet): two emitted datagrams whose ciphertexts are under the same key k and nonce n are
   the same packet - whatever the two messages m, m' and authenticated data a, a' *)
Theorem C19_no_nonce_reuse_all_packets :
  forall c evs d1 d2 p1 p2 k n m m' a a',
  fresh_installs c init_state [] evs -> fresh_hs_nonces c init_state evs -> draws_suffice c init_state evs ->
  let W := concat (snd (run c init_state evs)) in
  In (OWire d1 p1) W -> In (OWire d2 p2) W ->
  pkt_ct p1 = Some (CEnc k n m a) -> pkt_ct p2 = Some (CEnc k n m' a') ->
  p1 = p2.
Proof. exact no_nonce_reuse_all_packets. Qed.
Print Assumptions C19_no_nonce_reuse_all_packets.

(* the case C19_no_nonce_reuse_partial left open: a handshake packet and a message packet under one key
   never carry the same nonce *)
Theorem C19_hs_msg_nonces_differ :
  forall c evs d1 d2 s1 n1 a1 sg eph ok rc s2 n2 a2 k n n' m m' a a',
  fresh_installs c init_state [] evs -> fresh_hs_nonces c init_state evs -> draws_suffice c init_state evs ->
  let W := concat (snd (run c init_state evs)) in
  In (OWire d1 (PHs s1 n1 a1 sg eph ok rc (CEnc k n m a))) W ->
  In (OWire d2 (PMsg s2 n2 a2 (CEnc k n' m' a'))) W ->
  n <> n'.
Proof. exact hs_msg_nonces_differ. Qed.
Print Assumptions C19_hs_msg_nonces_differ.

(* [fresh_hs_nonces] follows from the plain (and much stronger) statement "the 8 random bytes of all
   nonces drawn in the run are pairwise distinct": [run_rpool evs] = the second components of the draws
   of all steps, = [map snd (run_pool evs)] *)
Theorem C19_no_nonce_reuse_distinct_draws :
  forall c evs,
  fresh_installs c init_state [] evs -> NoDup (run_rpool evs) -> draws_suffice c init_state evs ->
  NoReuseAll (concat (snd (run c init_state evs))).
Proof. exact no_nonce_reuse_distinct_draws. Qed.
Print Assumptions C19_no_nonce_reuse_distinct_draws.

Theorem C19_run_rpool_is_pool : forall evs, run_rpool evs = map snd (run_pool evs).
Proof. exact run_rpool_pool. Qed.
Print Assumptions C19_run_rpool_is_pool.

(* the hypotheses are jointly satisfiable by a run that contains a handshake packet, its retransmission
   by the request timer and two later message packets, all under the same key ke8: [wire_summary] lists,
   per datagram, (handshake packet?, key, nonce) of its ciphertext *)
Example C19_example_hs_run :
  fresh_installs hs_cfg init_state [] evs_hs_ok /\ fresh_hs_nonces hs_cfg init_state evs_hs_ok /\
  draws_suffice hs_cfg init_state evs_hs_ok /\
  wire_summary (concat (snd (run hs_cfg init_state evs_hs_ok))) =
    [None; Some (true, ke8, (5, 5)); None; Some (true, ke8, (5, 5)); Some (false, ke8, (1, 70));
     Some (false, ke8, (2, 71))] /\
  NoReuseAll (concat (snd (run hs_cfg init_state evs_hs_ok))).
Proof.
  split; [exact evs_hs_ok_installs | split; [exact evs_hs_ok_nonces | split; [exact evs_hs_ok_draws |
    split; [exact evs_hs_ok_wire | exact evs_hs_ok_no_reuse]]]].
Qed.
Print Assumptions C19_example_hs_run.

(* each hypothesis is needed.  [Reuse W]: W contains two datagrams with the same key and nonce that are
   different packets (so [NoReuseAll W] fails: Reuse_not).
   (a) the 8 random bytes of the handshake nonce (1, 5) are drawn again for the first message packet
   under the new key (counter 1): both carry (1, 5) under ke8.  The drawn 12-byte nonces (1, 5) and
   (8, 5) are distinct. *)
Example C19_hs_nonce_freshness_needed :
  fresh_installs hs_cfg init_state [] evs_hs_clash /\ draws_suffice hs_cfg init_state evs_hs_clash /\
  NoDup (run_pool evs_hs_clash) /\
  ~ fresh_hs_nonces hs_cfg init_state evs_hs_clash /\
  Reuse (concat (snd (run hs_cfg init_state evs_hs_clash))).
Proof. exact hs_nonce_freshness_needed. Qed.
Print Assumptions C19_hs_nonce_freshness_needed.

(* (b) a step without draws: the oracle of the model returns zeros *)
Example C19_draws_suffice_needed :
  fresh_installs hs_cfg init_state [] evs_hs_dry /\ fresh_hs_nonces hs_cfg init_state evs_hs_dry /\
  ~ draws_suffice hs_cfg init_state evs_hs_dry /\
  Reuse (concat (snd (run hs_cfg init_state evs_hs_dry))).
Proof. exact draws_suffice_needed. Qed.
Print Assumptions C19_draws_suffice_needed.

(* (c) the session expires and a second handshake installs the same key terms again (same ephemeral
   key drawn, same challenge data sent by the peer): the counter restarts under the same key *)
Example C19_fresh_installs_needed :
  fresh_hs_nonces exp_cfg init_state evs_rekey /\ draws_suffice exp_cfg init_state evs_rekey /\
  ~ fresh_installs exp_cfg init_state [] evs_rekey /\
  Reuse (concat (snd (run exp_cfg init_state evs_rekey))).
Proof. exact fresh_installs_needed. Qed.
Print Assumptions C19_fresh_installs_needed.

Theorem C19_reuse_refutes : forall W, Reuse W -> ~ NoReuseAll W.
Proof. exact Reuse_not. Qed.
Print Assumptions C19_reuse_refutes.
