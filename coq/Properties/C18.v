(* C18 - Inbound rate limiting and ban lists are enforced.
   Statements only; every theorem is closed by [exact] of a lemma of Proofs/Limiter.v and followed
   by Print Assumptions.  See DESIGN.md section 6 (C18).

   Model/Limiter.v transcribes socket/filter/rate_limiter.rs (Limiter = GCRA, RateLimiter),
   socket/filter/mod.rs (Filter::initial_pass / final_pass / prune_limiter), permit_ban.rs, the order
   of the two passes in socket/recv.rs (handle_inbound) and Handler::unban_nodes_check.
   Time is in nanoseconds.  tau = replenish_all_every, tt = tau / max_tokens (integer division: the
   token period), one token costs tt nanoseconds of credit.  The only bound in the statements is the
   u64 range of the limiter's clock: [B + tau + tau < U64] for the latest time B considered
   (U64 = 2^64 ns, about 584 years after the limiter was created). *)
From Coq Require Import List NArith Bool Lia.
From Discv5V Require Import Generated.Params Model.Limiter Proofs.Limiter Proofs.LimiterGap Proofs.LimiterGap2.
Import ListNotations.
Local Open Scope N_scope.

(* ---------------------------------------------------------------------------------------------- *)
(* GCRA = token bucket *)

(* one call: the limiter accepts iff the reference bucket (capacity tau ns of credit, +1 ns per ns)
   holds the cost t * tokens; the related states stay related.  [R tau cur o b]: from time cur on,
   credit of bucket b + (effective TAT of entry o) = now + tau. *)
Theorem C18_gcra_is_token_bucket_step :
  forall tau_ t_ cur o b now n,
    R tau_ cur o b -> cur <= now -> t_ * n <= tau_ -> now + tau_ + tau_ < U64 ->
    let (o', v) := gcra tau_ t_ o now n in
    let (b', ok) := tb_take tau_ b now (t_ * n) in
    verdict_ok v = ok /\ R tau_ now o' b'.
Proof. exact gcra_is_token_bucket_step. Qed.
Print Assumptions C18_gcra_is_token_bucket_step.

(* whole histories of a limiter, any keys, any interleaving of prune calls (the reference ignores
   prune): same accept / refuse decisions *)
Theorem C18_gcra_is_token_bucket :
  forall evs l m cur B,
    wfl l -> Rel l m cur -> mono_from cur evs -> all_before B evs -> B + tau l + tau l < U64 ->
    map (option_map verdict_ok) (snd (lrun l evs)) = tb_run (tau l) (tt l) m evs.
Proof. exact gcra_is_token_bucket. Qed.
Print Assumptions C18_gcra_is_token_bucket.

(* a limiter built by from_quota starts related to the empty reference (all buckets full) *)
Theorem C18_fresh_limiter_is_full_bucket :
  forall period n l cur, from_quota period n = Some l -> wfl l /\ linv l cur /\ Rel l [] cur.
Proof.
  intros period n l cur H. destruct (fresh_limiter_ok period n l cur H) as [W I].
  split; [exact W|]. split; [exact I|]. exact (Rel_fresh period n l cur H).
Qed.
Print Assumptions C18_fresh_limiter_is_full_bucket.

(* ---------------------------------------------------------------------------------------------- *)
(* the number let through in any window *)

(* [wfl l /\ linv l A] holds for every state a limiter can be in at time A (next theorem), so this is
   a statement about every window [A, B] of every history. *)
Theorem C18_window_bound :
  forall l evs A B key,
    wfl l -> linv l A -> mono_from A evs -> all_before B evs -> A <= B ->
    B + tau l + tau l < U64 ->
    tt l * accepted_tokens key evs (snd (lrun l evs)) <= tau l + (B - A).
Proof. exact window_bound. Qed.
Print Assumptions C18_window_bound.

Theorem C18_reachable_limiter_states :
  forall evs l cur B,
    wfl l -> linv l cur -> mono_from cur evs -> all_before B evs -> cur <= B -> B + tau l + tau l < U64 ->
    wfl (fst (lrun l evs)) /\ linv (fst (lrun l evs)) B.
Proof. exact lrun_invariants. Qed.
Print Assumptions C18_reachable_limiter_states.

(* the number of tokens: (tau + window) / t *)
Theorem C18_window_bound_tokens :
  forall l evs A B key,
    wfl l -> linv l A -> mono_from A evs -> all_before B evs -> A <= B ->
    B + tau l + tau l < U64 -> 0 < tt l ->
    accepted_tokens key evs (snd (lrun l evs)) <= (tau l + (B - A)) / tt l.
Proof. exact window_bound_tokens. Qed.
Print Assumptions C18_window_bound_tokens.

(* burst + rate * window, when max_tokens divides the period *)
Theorem C18_window_bound_burst_plus_rate :
  forall period m l evs A B key,
    from_quota period m = Some l -> (m | period) ->
    forall l', tau l' = tau l -> tt l' = tt l ->
    wfl l' -> linv l' A -> mono_from A evs -> all_before B evs -> A <= B ->
    B + period + period < U64 ->
    accepted_tokens key evs (snd (lrun l' evs)) <= m + ((B - A) * m) / period.
Proof.
  intros period m l evs A B key Hq Hd l' Et Ett W I M Bf AB Hov.
  destruct (from_quota_spec _ _ _ Hq) as (Etau & _ & _ & Hm & _).
  destruct (from_quota_divisible _ _ _ Hq Hd) as [Hdiv Ht].
  rewrite <- Etau, <- Et.
  apply window_bound_burst_rate; try assumption; try lia.
Qed.
Print Assumptions C18_window_bound_burst_plus_rate.

(* When max_tokens does not divide the period the integer token period t = tau / max_tokens makes the
   sustained rate 1/t, above max_tokens / tau: quota 3 tokens per 10 ns (t = 3), one arrival every
   3 ns for 300 ns: 101 are accepted, burst + rate * window = 3 + 300 * 3 / 10 = 93.  The general
   bound (tau + window) / t = 103 holds.  (For realistic quotas the excess is relative n / tau, e.g.
   9 per second: t = 111111111 ns, 9.000000009 per second.) *)
Definition steady (n : nat) : list levent := map (fun i => LAllows (3 * N.of_nat i) 1 1) (seq 0 n).
Theorem C18_rounding_of_the_token_period :
  exists l, from_quota 10 3 = Some l /\
    accepted_tokens 1 (steady 101) (snd (lrun l (steady 101))) = 101 /\
    3 + (300 * 3) / 10 = 93 /\ (tau l + 300) / tt l = 103.
Proof. eexists. split; [reflexivity|]. vm_compute. repeat split. Qed.
Print Assumptions C18_rounding_of_the_token_period.

(* a burst larger than the period in nanoseconds gives t = 0: such a quota limits nothing *)
Theorem C18_zero_token_period_limits_nothing :
  exists l, from_quota 5 10 = Some l /\ tt l = 0 /\
    accepted_tokens 1 (map (fun _ => LAllows 7 1 1) (seq 0 50))
                      (snd (lrun l (map (fun _ => LAllows 7 1 1) (seq 0 50)))) = 50.
Proof. eexists. split; [reflexivity|]. vm_compute. split; reflexivity. Qed.
Print Assumptions C18_zero_token_period_limits_nothing.

(* the hypotheses of the window bound on a non-trivial instance: 4 per 1000 ns, a burst of 6 at
   time 50, then arrivals 250 ns apart; 4 + 3 of the 9 pass in [50, 800]: bound 4 + 750*4/1000 = 7 *)
Example C18_window_bound_example :
  exists l evs,
    from_quota 1000 4 = Some l /\
    evs = map (fun x => LAllows x 1 1) [50; 50; 50; 50; 50; 50; 300; 550; 800] /\
    wfl l /\ linv l 50 /\ mono_from 50 evs /\ all_before 800 evs /\
    accepted_tokens 1 evs (snd (lrun l evs)) = 7 /\ (tau l + (800 - 50)) / tt l = 7.
Proof.
  eexists. eexists. split; [reflexivity|]. split; [reflexivity|].
  split; [constructor|]. split; [intro k; exact I|].
  split; [cbn; lia|]. split; [repeat constructor; cbn; lia|]. vm_compute. split; reflexivity.
Qed.
Print Assumptions C18_window_bound_example.

(* ---------------------------------------------------------------------------------------------- *)
(* traffic within the quota is never refused *)

Theorem C18_conforming_never_refused_limiter :
  forall l m cur B evs,
    wfl l -> Rel l m cur -> mono_from cur evs -> all_before B evs -> B + tau l + tau l < U64 ->
    tb_accepts_all (tau l) (tt l) m evs ->
    Forall (fun o => o = None \/ o = Some VOk) (snd (lrun l evs)).
Proof. exact conforming_never_refused_limiter. Qed.
Print Assumptions C18_conforming_never_refused_limiter.

(* The filter: unsolicited datagrams [ds] (arrival time, source IP, result of Packet::decode) with
   non-decreasing arrival times.  If for each of the three limiters the reference token bucket
   accepts the calls that concern it (per IP and in total: datagrams whose IP is not permit-listed;
   per node: decodable non-WHOAREYOU datagrams whose node id is not permit-listed), no sender is on
   a ban list and the nodes-per-IP rule is off, then every datagram gets through both passes and
   the ban lists are unchanged. *)
Theorem C18_conforming_never_refused :
  forall ds f p r cur B mi mt mn,
    enabled f = true -> rate f = Some r -> max_nodes_per_ip f = None ->
    (forall now ip dec, In (now, ip, dec) ds ->
       has_key ip (ban_ips p) = false /\ forall id, dec = Some (Some id) -> has_key id (ban_nodes p) = false) ->
    mono_dg cur ds -> Forall (fun d : datagram => fst (fst d) <= B) ds ->
    lim_conforms (ip_rl r) mi (cur - init_time r) (B - init_time r) (ip_calls p (init_time r) ds) ->
    lim_conforms (Some (total_rl r)) mt (cur - init_time r) (B - init_time r) (total_calls p (init_time r) ds) ->
    lim_conforms (node_rl r) mn (cur - init_time r) (B - init_time r) (node_calls p (init_time r) ds) ->
    let '(f', p', os) := frun f p (inbound ds) in p' = p /\ Forall passed os.
Proof. exact conforming_never_refused. Qed.
Print Assumptions C18_conforming_never_refused.

(* without a rate limiter, or with the filter switched off, only the lists decide *)
Theorem C18_no_limits_without_limiter :
  forall f p ip now,
    mem ip (permit_ips p) = false -> has_key ip (ban_ips p) = false ->
    (enabled f = false \/ rate f = None) -> initial_pass f p ip now = (f, p, true).
Proof. exact initial_no_limits. Qed.
Print Assumptions C18_no_limits_without_limiter.

(* the hypotheses on a non-trivial instance: quotas 3/s total, 2/s per node, 2/s per IP; two IPs and
   two node ids, five datagrams 0.3 s apart *)
Example C18_conforming_example :
  exists tq nq iq,
    from_quota 1000000000 3 = Some tq /\ from_quota 1000000000 2 = Some nq /\ from_quota 1000000000 2 = Some iq /\
    let r := {| init_time := 100; total_rl := tq; node_rl := Some nq; ip_rl := Some iq |} in
    let f := new_filter true (Some r) (Some 3600000000000) None (Some 5) in
    let ds : list datagram :=
      [(100, 1, Some (Some 7)); (300000100, 2, Some (Some 8)); (600000100, 1, Some None);
       (900000100, 2, Some (Some 7)); (1200000100, 1, None)] in
    mono_dg 100 ds /\
    lim_conforms (ip_rl r) [] 0 1200000000 (ip_calls empty_pbl 100 ds) /\
    lim_conforms (Some (total_rl r)) [] 0 1200000000 (total_calls empty_pbl 100 ds) /\
    lim_conforms (node_rl r) [] 0 1200000000 (node_calls empty_pbl 100 ds) /\
    snd (frun f empty_pbl (inbound ds)) =
      [OFate Deliver; OFate Deliver; OFate Deliver; OFate Deliver; OFate Unrecognized].
Proof.
  do 3 eexists. split; [reflexivity|]. split; [reflexivity|]. split; [reflexivity|]. cbv zeta.
  split; [cbn; lia|].
  assert (C : forall l calls, wfl l -> tats l = [] -> 1200000000 + tau l + tau l < U64 ->
              tb_accepts_all (tau l) (tt l) [] calls -> lim_conforms (Some l) [] 0 1200000000 calls).
  { intros l calls W E H A. split; [exact W|]. split; [|split; assumption].
    intro k. rewrite E. apply R_full. }
  split; [|split; [|split]].
  - apply C; [constructor|reflexivity|vm_compute; reflexivity|]. vm_compute. repeat constructor; discriminate.
  - apply C; [constructor|reflexivity|vm_compute; reflexivity|]. vm_compute. repeat constructor; discriminate.
  - apply C; [constructor|reflexivity|vm_compute; reflexivity|]. vm_compute. repeat constructor; discriminate.
  - vm_compute. reflexivity.
Qed.
Print Assumptions C18_conforming_example.

(* ---------------------------------------------------------------------------------------------- *)
(* pruning of limiter state does not change any decision *)

(* [leq cur l l']: same parameters and every key has the same effective TAT from time cur on
   (an absent key = a key whose TAT is in the past = full bucket).  The verdicts compared include
   the waiting time reported by TooSoon. *)
Theorem C18_prune_transparent :
  forall evs l l' cur B,
    wfl l -> wfl l' -> linv l cur -> leq cur l l' ->
    mono_from cur evs -> all_before B evs -> cur <= B -> B + tau l + tau l < U64 ->
    verdicts (snd (lrun l evs)) = verdicts (snd (lrun l' (no_prunes evs))) /\
    leq B (fst (lrun l evs)) (fst (lrun l' (no_prunes evs))).
Proof. exact prune_transparent. Qed.
Print Assumptions C18_prune_transparent.

(* ---------------------------------------------------------------------------------------------- *)
(* ban / permit decision table *)

Theorem C18_permit_listed_ip_passes :
  forall f p ip now, mem ip (permit_ips p) = true -> initial_pass f p ip now = (f, p, true).
Proof. exact initial_permit. Qed.
Print Assumptions C18_permit_listed_ip_passes.

Theorem C18_banned_ip_dropped :
  forall f p ip now,
    mem ip (permit_ips p) = false -> has_key ip (ban_ips p) = true -> initial_pass f p ip now = (f, p, false).
Proof. exact initial_banned. Qed.
Print Assumptions C18_banned_ip_dropped.

Theorem C18_permit_listed_node_passes :
  forall f p ip id now, mem id (permit_nodes p) = true -> final_pass f p ip id now = (f, p, true).
Proof. exact final_permit. Qed.
Print Assumptions C18_permit_listed_node_passes.

Theorem C18_banned_node_dropped :
  forall f p ip id now,
    mem id (permit_nodes p) = false -> has_key id (ban_nodes p) = true ->
    final_pass f p ip id now = (f, p, false).
Proof. exact final_banned. Qed.
Print Assumptions C18_banned_node_dropped.

(* a limiter rejection for the IP: dropped, ban entry with expiry now + ban_duration (None = for ever) *)
Theorem C18_ip_over_quota_is_banned :
  forall f p ip now r,
    mem ip (permit_ips p) = false -> has_key ip (ban_ips p) = false -> enabled f = true ->
    rate f = Some r -> verdict_ok (snd (rl_allows r now (KIp ip))) = false ->
    let '(f', p', ok) := initial_pass f p ip now in
    ok = false /\ lookup ip (ban_ips p') = Some (option_map (fun d => now + d) (ban_duration f)) /\
    ban_nodes p' = ban_nodes p /\ permit_ips p' = permit_ips p /\ permit_nodes p' = permit_nodes p.
Proof. exact initial_ip_limit_bans. Qed.
Print Assumptions C18_ip_over_quota_is_banned.

Theorem C18_node_over_quota_is_banned :
  forall f p ip id now r,
    mem id (permit_nodes p) = false -> has_key id (ban_nodes p) = false -> enabled f = true ->
    rate f = Some r -> verdict_ok (snd (rl_allows r now (KNode id))) = false ->
    let '(f', p', ok) := final_pass f p ip id now in
    ok = false /\ lookup id (ban_nodes p') = Some (option_map (fun d => now + d) (ban_duration f)).
Proof. exact final_node_limit_bans. Qed.
Print Assumptions C18_node_over_quota_is_banned.

(* exceeding only the total quota drops the datagram and bans nobody *)
Theorem C18_total_over_quota_bans_nobody :
  forall f p ip now r,
    mem ip (permit_ips p) = false -> has_key ip (ban_ips p) = false -> enabled f = true ->
    rate f = Some r -> verdict_ok (snd (rl_allows r now (KIp ip))) = true ->
    verdict_ok (snd (rl_allows (fst (rl_allows r now (KIp ip))) now KTotal)) = false ->
    let '(f', p', ok) := initial_pass f p ip now in ok = false /\ p' = p.
Proof. exact initial_total_limit_no_ban. Qed.
Print Assumptions C18_total_over_quota_bans_nobody.

(* solicited traffic (the source address has an expected response) bypasses both passes *)
Theorem C18_exempt_source_bypasses_filter :
  forall f p ip d now,
    handle_inbound f p true ip d now = (f, p, match d with None => Unrecognized | Some _ => Deliver end).
Proof. exact handle_inbound_exempt. Qed.
Print Assumptions C18_exempt_source_bypasses_filter.

(* the handler's unban check keeps an entry while now < expiry *)
Theorem C18_unban_keeps_until_expiry :
  forall p now ip u,
    wfp p -> lookup ip (ban_ips p) = Some u ->
    lookup ip (ban_ips (unban_check p now)) =
    match u with None => Some None | Some x => if now <? x then Some (Some x) else None end.
Proof. exact unban_keeps_ip. Qed.
Print Assumptions C18_unban_keeps_until_expiry.

Theorem C18_unban_keeps_node_until_expiry :
  forall p now id u,
    wfp p -> lookup id (ban_nodes p) = Some u ->
    lookup id (ban_nodes (unban_check p now)) =
    match u with None => Some None | Some x => if now <? x then Some (Some x) else None end.
Proof. exact unban_keeps_node. Qed.
Print Assumptions C18_unban_keeps_node_until_expiry.

(* ---------------------------------------------------------------------------------------------- *)
(* a sender that exceeds its quota is banned for at least the configured duration *)

(* the rejection puts the lists in a state [ip_banned ip e] for every e <= now + ban_duration ... *)
Theorem C18_rejection_starts_ip_ban :
  forall f p ip now r,
    wfp p -> mem ip (permit_ips p) = false -> has_key ip (ban_ips p) = false -> enabled f = true ->
    rate f = Some r -> verdict_ok (snd (rl_allows r now (KIp ip))) = false ->
    let '(f', p', ok) := initial_pass f p ip now in
    ok = false /\ ban_duration f' = ban_duration f /\
    forall e, match ban_duration f with Some d => e <= now + d | None => True end -> ip_banned ip e p'.
Proof. exact rejection_starts_ip_ban. Qed.
Print Assumptions C18_rejection_starts_ip_ban.

(* ... and from such a state every datagram of that IP arriving before e is dropped at the IP stage,
   whatever the filter processes in between (other datagrams, further rejections, prune_limiter,
   the handler's unban check), as long as the application itself does not call
   ban_ip / ban_ip_remove / permit_ip for that address.  The second conjunct says a re-ban can only
   extend the ban; with e = now0 + ban_duration it holds for every later time. *)
Theorem C18_ban_lasts_ip :
  forall ip e evs f p,
    ip_banned ip e p ->
    Forall (fun x => snd x < e /\
                     match ban_duration f with Some d => e <= snd x + d | None => True end /\
                     keeps_ip_ban ip (fst x)) evs ->
    all_obs (denied_ip ip) evs (snd (frun f p evs)).
Proof. exact ban_lasts_ip. Qed.
Print Assumptions C18_ban_lasts_ip.

Theorem C18_rejection_starts_node_ban :
  forall f p ip id now r,
    wfp p -> mem id (permit_nodes p) = false -> has_key id (ban_nodes p) = false -> enabled f = true ->
    rate f = Some r -> verdict_ok (snd (rl_allows r now (KNode id))) = false ->
    let '(f', p', ok) := final_pass f p ip id now in
    ok = false /\ ban_duration f' = ban_duration f /\
    forall e, match ban_duration f with Some d => e <= now + d | None => True end -> node_banned id e p'.
Proof. exact rejection_starts_node_ban. Qed.
Print Assumptions C18_rejection_starts_node_ban.

Theorem C18_ban_lasts_node :
  forall id e evs f p,
    node_banned id e p ->
    Forall (fun x => snd x < e /\
                     match ban_duration f with Some d => e <= snd x + d | None => True end /\
                     keeps_node_ban id (fst x)) evs ->
    all_obs (denied_node id) evs (snd (frun f p evs)).
Proof. exact ban_lasts_node. Qed.
Print Assumptions C18_ban_lasts_node.

(* the ban hypotheses on a non-trivial history: quota 1 per minute per IP, ban 1 h; the second
   datagram of IP 9 at t = 2000 is refused and bans it; other traffic, a prune and the unban check
   at t = 10^12 (about 17 minutes) do not let its third datagram through *)
Example C18_ban_lasts_example :
  exists tq iq,
    from_quota 1000000000 10 = Some tq /\ from_quota 60000000000 1 = Some iq /\
    let r := {| init_time := 0; total_rl := tq; node_rl := None; ip_rl := Some iq |} in
    let f := new_filter true (Some r) (Some 3600000000000) (Some 10) (Some 5) in
    let '(f1, p1, os1) := frun f empty_pbl [(FInitial 9, 1000); (FInitial 9, 2000)] in
    os1 = [OBool true; OBool false] /\ ip_banned 9 (2000 + 3600000000000) p1 /\
    snd (frun f1 p1 [(FInitial 8, 3000); (FFinal 8 5, 3000); (FPruneLimiter, 900000000000);
                      (FUnbanCheck, 1000000000000); (FInitial 9, 1000000000001)])
    = [OBool true; OBool true; ONone; ONone; OBool false].
Proof.
  do 2 eexists. split; [reflexivity|]. split; [reflexivity|]. cbv zeta. vm_compute.
  split; [reflexivity|]. split; [|reflexivity].
  split; [split; repeat constructor; intros []; try discriminate; auto|].
  split; [reflexivity|]. eexists. split; [reflexivity|]. cbn. discriminate.
Qed.
Print Assumptions C18_ban_lasts_example.

(* ---------------------------------------------------------------------------------------------- *)
(* the window bound stated about the FILTER (gap audit, notes/gap_audit_C14_C20.md) *)

(* The theorems above bound what ONE Limiter accepts.  These bound what the filter lets through:
   [frun f p evs] is any history of the filter and the global permit/ban list - unsolicited and
   solicited datagrams (FInbound), direct calls of the two passes, prune_limiter, the handler's
   unban check and the application's permit/ban calls, in any order, with times that do not go
   back.  [count_obs c evs os] counts the events that [c] selects:
     ip_stage_pass P    an unsolicited datagram (or initial_pass call) whose source IP satisfies P
                        was not dropped at the IP stage;
     node_stage_pass y  an unsolicited datagram (or final_pass call) of node id y was delivered.
   [A, B] is any window that contains the history, [l] the limiter's state at its beginning
   (wfl / linv hold of every state a limiter can be in, C18_reachable_limiter_states, and of a new
   one, C18_fresh_limiter_is_full_bucket).  The permit-list hypotheses say that the counted sender
   is not on the permit list during the window (a permit-listed sender bypasses the limiter: that
   is the next clause of the property).  Solicited datagrams (FInbound true) are not counted. *)

(* from one IP *)
Theorem C18_filter_window_bound_per_ip :
  forall evs f p r l A B x,
    enabled f = true -> rate f = Some r -> ip_rl r = Some l -> wfl l -> linv l (A - init_time r) ->
    mem x (permit_ips p) = false -> Forall (fun e => no_permit_ip (N.eqb x) (fst e)) evs ->
    init_time r <= A -> mono_ev A evs -> Forall (fun e => snd e <= B) evs -> A <= B ->
    (B - init_time r) + tau l + tau l < U64 ->
    tt l * count_obs (ip_stage_pass (N.eqb x)) evs (snd (frun f p evs)) <= tau l + (B - A).
Proof. exact filter_window_ip. Qed.
Print Assumptions C18_filter_window_bound_per_ip.

(* from one node id *)
Theorem C18_filter_window_bound_per_node :
  forall evs f p r l A B y,
    enabled f = true -> rate f = Some r -> node_rl r = Some l -> wfl l -> linv l (A - init_time r) ->
    mem y (permit_nodes p) = false -> Forall (fun e => no_permit_node y (fst e)) evs ->
    init_time r <= A -> mono_ev A evs -> Forall (fun e => snd e <= B) evs -> A <= B ->
    (B - init_time r) + tau l + tau l < U64 ->
    tt l * count_obs (node_stage_pass y) evs (snd (frun f p evs)) <= tau l + (B - A).
Proof. exact filter_window_node. Qed.
Print Assumptions C18_filter_window_bound_per_node.

(* in total: all unsolicited datagrams of the source IPs in P, none of which is permit-listed
   during the window (P = fun _ => true when the permit list stays empty) *)
Theorem C18_filter_window_bound_total :
  forall evs f p r A B (P : N -> bool),
    enabled f = true -> rate f = Some r -> wfl (total_rl r) -> linv (total_rl r) (A - init_time r) ->
    ips_unpermitted P p -> Forall (fun e => no_permit_ip P (fst e)) evs ->
    init_time r <= A -> mono_ev A evs -> Forall (fun e => snd e <= B) evs -> A <= B ->
    (B - init_time r) + tau (total_rl r) + tau (total_rl r) < U64 ->
    tt (total_rl r) * count_obs (ip_stage_pass P) evs (snd (frun f p evs)) <= tau (total_rl r) + (B - A).
Proof. exact filter_window_total. Qed.
Print Assumptions C18_filter_window_bound_total.

(* each of the three in the form of the property text: the number let through is at most
   (tau + window) / t, which is burst + rate * window when max_tokens divides the period
   (for the rounding otherwise see C18_rounding_of_the_token_period) *)
Theorem C18_filter_window_bound_tokens :
  forall n tau_ t_ win, 0 < t_ -> t_ * n <= tau_ + win -> n <= (tau_ + win) / t_.
Proof. exact tokens_form. Qed.
Print Assumptions C18_filter_window_bound_tokens.

Theorem C18_filter_window_bound_burst_plus_rate :
  forall n period m l win,
    from_quota period m = Some l -> (m | period) -> tt l * n <= tau l + win ->
    n <= m + (win * m) / period.
Proof. exact burst_rate_form. Qed.
Print Assumptions C18_filter_window_bound_burst_plus_rate.

(* the hypotheses on a non-trivial history: quotas 3 per 1000 ns per IP, 100 per 1000 ns in total;
   IP 9 sends a burst at time 50 (3 pass, the fourth is refused and bans it), IP 8 one datagram,
   a prune in between: 3 of IP 9 pass in [50, 80], the bound is (1000 + 30) / 333 = 3 *)
Example C18_filter_window_bound_example :
  exists iq tq,
    from_quota 1000 3 = Some iq /\ from_quota 1000 100 = Some tq /\
    let r := {| init_time := 10; total_rl := tq; node_rl := None; ip_rl := Some iq |} in
    let f := new_filter true (Some r) (Some 5000) None None in
    let evs := [(FInbound false 9 None, 50); (FInitial 9, 50); (FInbound false 9 (Some None), 50);
                (FInitial 9, 50); (FInitial 8, 60); (FPruneLimiter, 70); (FInitial 9, 80)] in
    mono_ev 50 evs /\ Forall (fun e => no_permit_ip (N.eqb 9) (fst e)) evs /\
    count_obs (ip_stage_pass (N.eqb 9)) evs (snd (frun f empty_pbl evs)) = 3 /\
    (tau iq + (80 - 50)) / tt iq = 3.
Proof. exact filter_window_ip_example. Qed.
Print Assumptions C18_filter_window_bound_example.

(* ---------------------------------------------------------------------------------------------- *)
(* pruning does not change any decision OF THE FILTER (gap audit, notes/gap_audit_C14_C20.md) *)

(* C18_prune_transparent is about one Limiter.  Lifted to the filter: take any history [evs] of the
   filter and the permit/ban list (datagrams, direct calls of the passes, the unban check, the
   application's permit/ban calls) with prune_limiter calls interleaved anywhere, times that do not
   go back; [no_fprunes evs] is the history without the prune calls.  Both produce the same
   observations for every other event ([drop_prune_obs] removes the prune calls' empty observations)
   and the same permit/ban lists.  [fgood B cur f]: the limiters of [f] are in a state they can be
   in at time [cur] (wfl, linv) and the limiter clock does not overflow before B. *)
Theorem C18_filter_prune_transparent :
  forall evs f p cur B,
    fgood B cur f -> mono_ev cur evs -> Forall (fun x => snd x <= B) evs ->
    snd (fst (frun f p evs)) = snd (fst (frun f p (no_fprunes evs))) /\
    drop_prune_obs evs (snd (frun f p evs)) = snd (frun f p (no_fprunes evs)).
Proof. exact filter_prune_transparent. Qed.
Print Assumptions C18_filter_prune_transparent.

Example C18_filter_prune_transparent_example :
  exists iq nq tq,
    from_quota 1000 3 = Some iq /\ from_quota 1000 2 = Some nq /\ from_quota 1000 100 = Some tq /\
    let r := {| init_time := 10; total_rl := tq; node_rl := Some nq; ip_rl := Some iq |} in
    let f := new_filter true (Some r) (Some 5000) None None in
    let evs := [(FInbound false 9 (Some (Some 5)), 50); (FPruneLimiter, 55); (FInitial 9, 60);
                (FPruneLimiter, 2000); (FInbound false 9 (Some (Some 5)), 2000); (FInitial 9, 2000);
                (FInitial 9, 2000); (FPruneLimiter, 2001); (FInitial 9, 2001); (FInitial 8, 2002)] in
    fgood 3000 50 f /\ mono_ev 50 evs /\ Forall (fun x => snd x <= 3000) evs /\
    snd (frun f empty_pbl (no_fprunes evs))
    = [OFate Deliver; OBool true; OFate Deliver; OBool true; OBool true; OBool false; OBool true].
Proof. exact filter_prune_transparent_example. Qed.
Print Assumptions C18_filter_prune_transparent_example.

(* ---------------------------------------------------------------------------------------------- *)
(* the ban / permit decision table for one unsolicited datagram (RecvHandler::handle_inbound), in
   the words of the property: dropped at the IP stage if its IP is banned, at the node stage if its
   node id is banned, unless permit-listed, in which case that stage always lets it pass - in every
   state of the filter and the lists, whatever the limiters say *)
Theorem C18_datagram_of_banned_ip_dropped_at_ip_stage :
  forall f p ip d now,
    mem ip (permit_ips p) = false -> has_key ip (ban_ips p) = true ->
    handle_inbound f p false ip d now = (f, p, DropIpStage).
Proof. exact inbound_banned_ip. Qed.
Print Assumptions C18_datagram_of_banned_ip_dropped_at_ip_stage.

Theorem C18_datagram_of_permitted_ip_passes_ip_stage :
  forall f p ip d now,
    mem ip (permit_ips p) = true -> snd (handle_inbound f p false ip d now) <> DropIpStage.
Proof. exact inbound_permitted_ip. Qed.
Print Assumptions C18_datagram_of_permitted_ip_passes_ip_stage.

(* (a datagram of a banned node id that is already dropped at the IP stage never reaches the node
   stage) *)
Theorem C18_datagram_of_banned_node_dropped :
  forall f p ip id now,
    mem id (permit_nodes p) = false -> has_key id (ban_nodes p) = true ->
    snd (handle_inbound f p false ip (Some (Some id)) now) = DropIpStage \/
    snd (handle_inbound f p false ip (Some (Some id)) now) = DropNodeStage.
Proof. exact inbound_banned_node. Qed.
Print Assumptions C18_datagram_of_banned_node_dropped.

Theorem C18_datagram_of_permitted_node_passes_node_stage :
  forall f p ip id now,
    mem id (permit_nodes p) = true ->
    snd (handle_inbound f p false ip (Some (Some id)) now) <> DropNodeStage.
Proof. exact inbound_permitted_node. Qed.
Print Assumptions C18_datagram_of_permitted_node_passes_node_stage.

(* ---------------------------------------------------------------------------------------------- *)
(* the limiter states a filter can reach: the hypotheses [wfl l], [linv l (A - init_time r)] and the
   overflow bound of the three filter window theorems hold at every point of every history that
   starts from a good filter (e.g. a new one, see the example above), so those theorems bound every
   window of every history, not only windows that start at the creation of the filter *)
Theorem C18_filter_reachable_limiter_states :
  forall evs f p cur B,
    fgood B cur f -> mono_ev cur evs -> Forall (fun x => snd x <= B) evs ->
    fgood B (last_ev_time cur evs) (fst (fst (frun f p evs))).
Proof. exact filter_limiters_reachable. Qed.
Print Assumptions C18_filter_reachable_limiter_states.

Theorem C18_good_filter_has_good_limiters :
  forall B cur f r,
    fgood B cur f -> rate f = Some r ->
    (wfl (total_rl r) /\ linv (total_rl r) (cur - init_time r) /\
     (B - init_time r) + tau (total_rl r) + tau (total_rl r) < U64) /\
    (forall l, node_rl r = Some l ->
       wfl l /\ linv l (cur - init_time r) /\ (B - init_time r) + tau l + tau l < U64) /\
    (forall l, ip_rl r = Some l ->
       wfl l /\ linv l (cur - init_time r) /\ (B - init_time r) + tau l + tau l < U64).
Proof. exact fgood_limiters. Qed.
Print Assumptions C18_good_filter_has_good_limiters.

(* Configuration plumbing (Model/Config.v, transcribing ConfigBuilder, Config, Discv5::new / Discv5::start,
   tied to the code by the `glue` correspondence run on real loopback sockets): the parameters the theorems
   above take as given are the ones the application configured - the value set last through the builder,
   or the default - at every component they are handed to. *)
Require Discv5V.Generated.Params Discv5V.Model.Config Discv5V.Proofs.Config.
Theorem C18_configured_filter_reaches_the_receive_path : forall ops v, Discv5V.Model.Config.start_node ops = Some v ->
  Discv5V.Model.Config.VB (Discv5V.Model.Config.c_enable_packet_filter (Discv5V.Model.Config.nv_handler v)) = Discv5V.Model.Config.configured ops Discv5V.Model.Config.FEnablePacketFilter /\
  Discv5V.Model.Config.VO (Discv5V.Model.Config.c_filter_max_nodes_per_ip (Discv5V.Model.Config.nv_handler v)) = Discv5V.Model.Config.configured ops Discv5V.Model.Config.FFilterMaxNodesPerIp /\
  Discv5V.Model.Config.VO (Discv5V.Model.Config.c_filter_max_bans_per_ip (Discv5V.Model.Config.nv_handler v)) = Discv5V.Model.Config.configured ops Discv5V.Model.Config.FFilterMaxBansPerIp /\
  Discv5V.Model.Config.VR (Discv5V.Model.Config.c_filter_rate_limiter (Discv5V.Model.Config.nv_handler v)) = Discv5V.Model.Config.configured ops Discv5V.Model.Config.FFilterRateLimiter.
Proof. exact Discv5V.Proofs.Config.effective_filter. Qed.
Print Assumptions C18_configured_filter_reaches_the_receive_path.
Theorem C18_configured_permit_ban_list_is_installed : forall ops v, Discv5V.Model.Config.start_node ops = Some v ->
  Discv5V.Model.Config.VP (Discv5V.Model.Config.nv_permit_ban v) = Discv5V.Model.Config.configured ops Discv5V.Model.Config.FPermitBanList /\
  Discv5V.Model.Config.VP (Discv5V.Model.Config.c_permit_ban_list (Discv5V.Model.Config.nv_handler v)) = Discv5V.Model.Config.configured ops Discv5V.Model.Config.FPermitBanList.
Proof. exact Discv5V.Proofs.Config.effective_permit_ban_list. Qed.
Print Assumptions C18_configured_permit_ban_list_is_installed.
Theorem C18_configuration_example : exists v, Discv5V.Model.Config.start_node Discv5V.Proofs.Config.example_ops = Some v.
Proof. destruct Discv5V.Proofs.Config.example_starts as [v [H _]]. exists v. exact H. Qed.
Print Assumptions C18_configuration_example.

(* The receive task in front of the handler (RecvHandler::handle_inbound, Model/Limiter.v recv_inbound,
   compared with the real task through the virtual handler on generated datagrams): *)
Require Discv5V.Model.Limiter Discv5V.Proofs.Limiter.
Module C18Recv.
Import Discv5V.Model.Limiter.
Theorem C18_exemption_is_per_socket_address : forall (f : pfilter) (p : pbl) (expected : list saddr) (src : saddr) (packet : option pkind) (now : N),
  (forall e : saddr, In e expected -> sa_ip e <> sa_ip src \/ sa_port e <> sa_port src) ->
  recv_inbound f p expected src packet now = recv_inbound f p nil src packet now.
Proof. exact Discv5V.Proofs.Limiter.exemption_is_per_socket_address. Qed.
Print Assumptions C18_exemption_is_per_socket_address.
Theorem C18_awaited_source_bypasses_the_filter : forall (f : pfilter) (p : pbl) (expected : list saddr) (src : saddr) (packet : option pkind) (now : N),
  In (normalise_src src) expected ->
  recv_inbound f p expected src packet now =
  (f, p, match packet with Some _ => Deliver | None => Unrecognized end, normalise_src src).
Proof. exact Discv5V.Proofs.Limiter.exempted_source_bypasses_filter. Qed.
Print Assumptions C18_awaited_source_bypasses_the_filter.
Theorem C18_handshake_packets_pass_the_node_stage_like_messages : forall (f : pfilter) (p : pbl) (expected : list saddr) (src : saddr) (id now : N),
  recv_inbound f p expected src (Some (PHandshake id)) now = recv_inbound f p expected src (Some (PMessage id)) now.
Proof. exact Discv5V.Proofs.Limiter.handshake_packets_pass_node_stage. Qed.
Print Assumptions C18_handshake_packets_pass_the_node_stage_like_messages.
Theorem C18_unsolicited_datagram_of_a_banned_ip_is_dropped : forall (f : pfilter) (p : pbl) (expected : list saddr) (src : saddr) (packet : option pkind) (now : N),
  (forall e : saddr, In e expected -> sa_ip e <> sa_ip src \/ sa_port e <> sa_port src) ->
  mem (sa_ip src) (permit_ips p) = false -> has_key (sa_ip src) (ban_ips p) = true ->
  recv_inbound f p expected src packet now = (f, p, DropIpStage, normalise_src src).
Proof. exact Discv5V.Proofs.Limiter.unsolicited_banned_ip_dropped. Qed.
Print Assumptions C18_unsolicited_datagram_of_a_banned_ip_is_dropped.
End C18Recv.

(* The receive task composed with the handler's exemption ledger (Proofs/RecvHandler.v): in every
   reachable handler state a datagram from an address this node is waiting for - an unanswered request or
   an unanswered WHOAREYOU - passes the receive task whatever the filter and the ban lists hold; when
   nothing is outstanding every source is unsolicited. [sa_of] maps the handler model's addresses to the
   receive task's socket addresses (normalised: the handler never sees any other). *)
Require Discv5V.Model.Handler Discv5V.Proofs.HandlerInv Discv5V.Model.Limiter Discv5V.Proofs.RecvHandler.
Module C18Compose.
Import Discv5V.Model.Handler Discv5V.Proofs.HandlerInv Discv5V.Model.Limiter.
Theorem C18_awaited_answer_passes_the_receive_task :
  forall (sa_of : N -> saddr), (forall x, normalise_src (sa_of x) = sa_of x) ->
  forall c evs a f p packet now, fixed_cfg c ->
  let h := fst (run c init_state evs) in
  (0 < cnt_active a h + cnt_chall a h)%nat ->
  recv_inbound f p (Discv5V.Proofs.RecvHandler.expected_sources sa_of h) (sa_of a) packet now =
  (f, p, match packet with Some _ => Deliver | None => Unrecognized end, sa_of a).
Proof. exact Discv5V.Proofs.RecvHandler.awaited_answer_passes_the_receive_task. Qed.
Print Assumptions C18_awaited_answer_passes_the_receive_task.
Theorem C18_nothing_outstanding_everything_is_unsolicited :
  forall (sa_of : N -> saddr) c evs f p src packet now, fixed_cfg c ->
  let h := fst (run c init_state evs) in
  active h = nil -> challenges h = nil ->
  recv_inbound f p (Discv5V.Proofs.RecvHandler.expected_sources sa_of h) src packet now = recv_inbound f p nil src packet now.
Proof. exact Discv5V.Proofs.RecvHandler.nothing_outstanding_everything_is_unsolicited. Qed.
Print Assumptions C18_nothing_outstanding_everything_is_unsolicited.
End C18Compose.
