(* C07 - Routing-table structural invariants.
   Statements only; every theorem is closed by [exact] of a lemma proved in Proofs/KBucket*.v and
   followed by Print Assumptions.  See DESIGN.md section 6 (C07).

   [TInv c t]      : the structural invariant (bucket sizes, placement by log2 distance, no duplicate
                     ids incl. pending, disconnected-before-connected with a consistent first-connected
                     position, incoming limit) - its plain reading is C07_invariant_meaning;
   [TInvAt c now t]: TInv + inside each group the nodes are ordered by the time of their last status
                     report and no such time is later than [now] (C07_invariant_meaning_stamps).
   The bucket filter and the table filter in [c] are arbitrary functions. *)
From Coq Require Import List Arith NArith Permutation Sorted.
From Discv5V Require Import Generated.Params Lib.ListX Model.KBucket
  Proofs.KBucketInv Proofs.KBucketTable Proofs.KBucketPending Proofs.KBucketGap.
Import ListNotations.

Theorem C07_invariant_initial : forall c loc, TInv c (new_table loc).
Proof. exact TInv_new. Qed.
Print Assumptions C07_invariant_initial.

(* every operation of the op alphabet, at every time (no assumption on the clock) *)
Theorem C07_invariant_step :
  forall fixed c t o now, TInv c t -> TInv c (fst (step fixed c t o now)).
Proof. exact step_inv. Qed.
Print Assumptions C07_invariant_step.

(* the ordering by time of last status report needs a clock that does not run backwards:
   [t0] bounds every stamp in the table and [now] is not earlier *)
Theorem C07_invariant_step_with_stamps :
  forall fixed c t o t0 now,
  TInvAt c t0 t -> (t0 <= now)%N -> TInvAt c now (fst (step fixed c t o now)).
Proof. exact step_inv_at. Qed.
Print Assumptions C07_invariant_step_with_stamps.

Theorem C07_reachable :
  forall fixed c loc ops, TInv c (fst (run fixed c (new_table loc) ops)).
Proof. exact reachable_inv. Qed.
Print Assumptions C07_reachable.

Theorem C07_reachable_with_stamps :
  forall fixed c loc ops t0,
  times_mono t0 ops -> TInvAt c (last_time t0 ops) (fst (run fixed c (new_table loc) ops)).
Proof. exact reachable_inv_at. Qed.
Print Assumptions C07_reachable_with_stamps.

(* what the invariant says *)
Theorem C07_invariant_meaning : forall c t, TInv c t ->
  length (buckets t) = NB /\
  NoDup (table_keys t) /\
  forall i b, nth_error (buckets t) i = Some b ->
    length (nodes b) <= K /\
    (forall k, In k (bkeys b) -> bucket_index (local t) k = Some i /\ k <> local t) /\
    (exists D C, nodes b = D ++ C /\ Forall (fun n => nconn n = false) D /\
                 Forall (fun n => nconn n = true) C /\ fcp b = fcp_of D C) /\
    status_by_index b /\
    count kin (nodes b) <= max_incoming c /\
    (forall p, pend b = Some p -> ~ In (nkey (pn p)) (map nkey (nodes b))).
Proof. exact TInv_spec. Qed.
Print Assumptions C07_invariant_meaning.

Theorem C07_invariant_meaning_stamps : forall c now t, TInvAt c now t ->
  TInv c t /\
  forall i b, nth_error (buckets t) i = Some b ->
    stamps_sorted (filter (fun n => negb (nconn n)) (nodes b)) /\
    stamps_sorted (filter nconn (nodes b)) /\
    nodes b = filter (fun n => negb (nconn n)) (nodes b) ++ filter nconn (nodes b) /\
    Forall (fun n => (nstamp n <= now)%N) (nodes b).
Proof. exact TInvAt_spec. Qed.
Print Assumptions C07_invariant_meaning_stamps.

(* pending life cycle *)
Theorem C07_apply_pending_spec : forall c b now,
  let b' := fst (b_apply_pending c b now) in
  match snd (b_apply_pending c b now) with
  | None => nodes b' = nodes b /\ fcp b' = fcp b /\ (pend b' = pend b \/ pend b' = None)
  | Some (ins, ev) =>
      exists p, pend b = Some p /\ (preplace p <= now)%N /\ ins = nkey (pn p) /\ pend b' = None /\
        run_filter (bfilter c) (nval (pn p)) (values (nodes b)) = true /\
        let n := set_stamp (pn p) now in
        match ev with
        | None => is_full b = false /\ Permutation (nodes b') (n :: nodes b)
        | Some e => is_full b = true /\
                    exists h rest, nodes b = h :: rest /\ e = nkey h /\ nconn h = false /\
                                   Permutation (nodes b') (n :: rest)
        end
  end.
Proof. exact apply_pending_spec. Qed.
Print Assumptions C07_apply_pending_spec.

Theorem C07_reconnect_drops_pending : forall c T loc i b k dir now,
  BInv c T loc i b -> position k (nodes b) = Some 0 ->
  pend (fst (b_update_status c b k true dir now)) = None.
Proof. exact reconnect_drops_pending. Qed.
Print Assumptions C07_reconnect_drops_pending.

Theorem C07_pending_only_when_full : forall c T loc i b n0 now d,
  BInv c T loc i b -> snd (b_insert c b n0 now) = BPending d ->
  is_full b = true /\ length (nodes b) = K /\ pend b = None /\ nconn n0 = true /\
  exists h rest, nodes b = h :: rest /\ nconn h = false /\ d = nkey h /\
    fst (b_insert c b n0 now) =
      {| nodes := nodes b; fcp := fcp b;
         pend := Some {| pn := set_stamp n0 now; preplace := (now + pending_timeout c)%N |} |}.
Proof. exact pending_only_when_full. Qed.
Print Assumptions C07_pending_only_when_full.

Theorem C07_pending_created_only_by_pending_answer : forall c b n0 now,
  (forall d, snd (b_insert c b n0 now) <> BPending d) ->
  pend (fst (b_insert c b n0 now)) = pend b \/ pend (fst (b_insert c b n0 now)) = None.
Proof. exact insert_pending_slot. Qed.
Print Assumptions C07_pending_created_only_by_pending_answer.

(* the numbers of the property text: 16 nodes per bucket, 256 buckets (regenerated from /repo) *)
Theorem C07_constants : K = 16 /\ NB = 256.
Proof. exact (conj K_is_16 NB_is_256). Qed.
Print Assumptions C07_constants.

(* "... only by evicting the LEAST-RECENTLY-ACTIVE disconnected node": in a table satisfying the
   invariant with stamps, the node evicted by a pending node is the head of the bucket, it is
   disconnected, and no disconnected node of the bucket has an earlier last status report. *)
Theorem C07_evicted_is_least_recently_active :
  forall c t0 t i now ins e,
  TInvAt c t0 t -> snd (b_apply_pending c (get_bucket t i) now) = Some (ins, Some e) ->
  exists h rest, nodes (get_bucket t i) = h :: rest /\ nkey h = e /\ nconn h = false /\
    is_full (get_bucket t i) = true /\
    forall n, In n (nodes (get_bucket t i)) -> nconn n = false -> (nstamp h <= nstamp n)%N.
Proof.
  intros c t0 t i now ins e HT. apply (evicted_is_least_recently_active c t0 (local t) i). apply HT.
Qed.
Print Assumptions C07_evicted_is_least_recently_active.

(* the hypotheses hold on a non-trivial instance: sixteen disconnected nodes 32..47 fill bucket 5
   of the table of node 0 (inserted at times 1..16), node 48 connects at time 20 and becomes the
   pending node; at time 100 (timeout 60) it evicts node 32, the first one inserted *)
Example C07_eviction_example :
  let c := {| max_incoming := 16; pending_timeout := 60%N; bfilter := None; tfilter := None |} in
  let ops := map (fun k => (OInsertOrUpdate (N.of_nat (31 + k)) {| vid := N.of_nat k; vsub := None |} false false, N.of_nat k))
                 (seq 1 16)
             ++ [(OInsertOrUpdate 48%N {| vid := 99%N; vsub := None |} true false, 20%N)] in
  let t := fst (run true c (new_table 0%N) ops) in
  TInvAt c 20%N t /\
  snd (b_apply_pending c (get_bucket t 5) 100%N) = Some (48%N, Some 32%N).
Proof.
  intros c ops t. split; [|vm_compute; reflexivity].
  assert (Hm : times_mono 0%N ops) by (vm_compute; repeat split; discriminate).
  pose proof (reachable_inv_at true c 0%N ops 0%N Hm) as H.
  assert (E : last_time 0%N ops = 20%N) by (vm_compute; reflexivity).
  rewrite E in H. exact H.
Qed.
Print Assumptions C07_eviction_example.

(* "a pending node enters a FULL bucket ONLY after its timeout and ONLY by evicting ...": the node
   list of a bucket gains a key only in b_insert and b_apply_pending (b_remove ends with
   b_apply_pending, C07_apply_pending_spec); b_insert leaves the nodes of a full bucket untouched,
   and the status / value / pending updates never add a key to the nodes. *)
Theorem C07_insert_never_changes_a_full_bucket :
  forall c b n now, is_full b = true -> nodes (fst (b_insert c b n now)) = nodes b.
Proof. exact b_insert_full_nodes_unchanged. Qed.
Print Assumptions C07_insert_never_changes_a_full_bucket.

Theorem C07_updates_never_add_a_node :
  (forall c b n now k, In k (map nkey (nodes (fst (b_insert c b n now)))) ->
     In k (map nkey (nodes b)) \/ (k = nkey n /\ is_full b = false)) /\
  (forall c b k0 conn dir now k, In k (map nkey (nodes (fst (b_update_status c b k0 conn dir now)))) ->
     In k (map nkey (nodes b))) /\
  (forall c b k0 v k, In k (map nkey (nodes (fst (b_update_value c b k0 v)))) -> In k (map nkey (nodes b))) /\
  (forall b conn inc, nodes (b_update_pending b conn inc) = nodes b).
Proof.
  split; [exact b_insert_node_keys|]. split; [exact b_update_status_node_keys|].
  split; [exact b_update_value_node_keys|exact b_update_pending_nodes].
Qed.
Print Assumptions C07_updates_never_add_a_node.

(* no index panic: every index the model hands to insert_at / remove_at / nth_error / the bucket
   array is in range under the invariant *)
Theorem C07_no_panic_fcp_in_range : forall c T loc i b p,
  BInv c T loc i b -> fcp b = Some p -> p < length (nodes b).
Proof. exact fcp_in_range. Qed.
Print Assumptions C07_no_panic_fcp_in_range.

Theorem C07_no_panic_position_in_range : forall k l pos, position k l = Some pos -> pos < length l.
Proof. exact position_in_range. Qed.
Print Assumptions C07_no_panic_position_in_range.

Theorem C07_no_panic_reinsert_in_range : forall k (l : list node) pos,
  position k l = Some pos -> pos <= length (remove_at pos l).
Proof. exact reinsert_in_range. Qed.
Print Assumptions C07_no_panic_reinsert_in_range.

Theorem C07_no_panic_evict_insert_in_range : forall c T loc i b h rest q,
  BInv c T loc i b -> nodes b = h :: rest -> fcp b = Some (S q) -> q <= length rest.
Proof. exact evict_insert_in_range. Qed.
Print Assumptions C07_no_panic_evict_insert_in_range.

Theorem C07_no_panic_full_has_head : forall b, is_full b = true -> exists h rest, nodes b = h :: rest.
Proof. exact full_has_head. Qed.
Print Assumptions C07_no_panic_full_has_head.

Theorem C07_no_panic_status_reinsert : forall c T loc i b k conn dir now pos old,
  BInv c T loc i b -> position k (nodes b) = Some pos -> nth_error (nodes b) pos = Some old ->
  let rest := remove_at pos (nodes b) in
  forall f pd,
  let r := snd (b_insert c {| nodes := rest; fcp := f; pend := pd |}
                  {| nkey := nkey old; nval := nval old; nconn := conn;
                     nin := match dir with Some d => d | None => nin old end; nstamp := nstamp old |} now) in
  r = BInserted \/ r = BTooManyIncoming \/ r = BFailedFilter.
Proof. exact status_reinsert_results. Qed.
Print Assumptions C07_no_panic_status_reinsert.

Theorem C07_no_panic_bucket_index_in_range : forall c T t k i,
  TInvG c T t -> (local t < 2 ^ NUM_BUCKETS)%N -> (k < 2 ^ NUM_BUCKETS)%N ->
  bucket_index (local t) k = Some i -> i < length (buckets t).
Proof. exact table_index_in_range. Qed.
Print Assumptions C07_no_panic_bucket_index_in_range.

(* Configuration plumbing (Model/Config.v, transcribing ConfigBuilder, Config, Discv5::new / Discv5::start,
   tied to the code by the `glue` correspondence run on real loopback sockets): the parameters the theorems
   above take as given are the ones the application configured - the value set last through the builder,
   or the default - at every component they are handed to. *)
Require Discv5V.Generated.Params Discv5V.Model.Config Discv5V.Proofs.Config.
Theorem C07_configured_incoming_limit_reaches_the_table : forall ops v, Discv5V.Model.Config.start_node ops = Some v ->
  Discv5V.Model.Config.VN (Discv5V.Model.Config.nv_table_incoming_limit v) = Discv5V.Model.Config.configured ops Discv5V.Model.Config.FIncomingBucketLimit /\
  (Discv5V.Model.Config.nv_table_incoming_limit v <= Discv5V.Generated.Params.MAX_NODES_PER_BUCKET)%N /\
  Discv5V.Model.Config.VN (Discv5V.Model.Config.c_incoming_bucket_limit (Discv5V.Model.Config.nv_service v)) = Discv5V.Model.Config.configured ops Discv5V.Model.Config.FIncomingBucketLimit.
Proof. exact Discv5V.Proofs.Config.effective_incoming_bucket_limit. Qed.
Print Assumptions C07_configured_incoming_limit_reaches_the_table.
Theorem C07_configuration_example : exists v, Discv5V.Model.Config.start_node Discv5V.Proofs.Config.example_ops = Some v.
Proof. destruct Discv5V.Proofs.Config.example_starts as [v [H _]]. exists v. exact H. Qed.
Print Assumptions C07_configuration_example.

(* A pending node is promoted only over a disconnected head: no operation of the table removes a
   connected node that it does not address (Proofs/KBucketGap.v). *)
Require Discv5V.Model.KBucket Discv5V.Proofs.KBMembers Discv5V.Proofs.KBucketGap.
Module C07Pending.
Import Discv5V.Model.KBucket.
Theorem C07_connected_node_never_evicted_by_pending : forall c b now n,
  In n (nodes b) -> nconn n = true -> In n (nodes (fst (b_apply_pending c b now))).
Proof. exact Discv5V.Proofs.KBucketGap.apply_pending_never_evicts_connected. Qed.
Print Assumptions C07_connected_node_never_evicted_by_pending.
Theorem C07_what_a_promotion_removes : forall c b now n,
  In n (nodes b) -> ~ In n (nodes (fst (b_apply_pending c b now))) ->
  nconn n = false /\ is_full b = true /\ (exists rest, nodes b = n :: rest) /\
  exists p, pend b = Some p /\ (preplace p <= now)%N.
Proof. exact Discv5V.Proofs.KBucketGap.apply_pending_departures. Qed.
Print Assumptions C07_what_a_promotion_removes.
Theorem C07_no_operation_drops_a_connected_node_it_does_not_address : forall fixed c t o now j n,
  In n (nodes (get_bucket t j)) -> nconn n = true -> Discv5V.Proofs.KBucketGap.addressed o <> Some (nkey n) ->
  In n (nodes (get_bucket (fst (step fixed c t o now)) j)).
Proof. exact Discv5V.Proofs.KBucketGap.step_never_drops_connected. Qed.
Print Assumptions C07_no_operation_drops_a_connected_node_it_does_not_address.
End C07Pending.
