(* C06 - RPC message codec is exact, total and strict.
   Statements only; every theorem is closed by [exact] of a lemma proved in Proofs/Rlp.v,
   Proofs/Rpc.v or Proofs/RpcGap.v and followed by Print Assumptions.  See DESIGN.md section 6 (C06).

   The model (Model/Rlp.v, Model/Rpc.v) transcribes rpc.rs::Message::{encode,decode} and the
   decoding rules of alloy-rlp 0.3.16.  ENR records are opaque: the theorems quantify over every
   type [enr] with functions [enr_encode], [enr_decode] and carry the laws they use as explicit
   premises ([enr_round_trip], [enr_canonical], [enr_only_lists] - DESIGN.md section 4).
   [decode_msg .. true] is the decoder with the repair of D9 (DESIGN.md section 7), [.. false] the
   decoder of the pinned tree; theorems stated for [forall fixed] hold for both. *)
From Coq Require Import List Arith NArith Bool.
From Discv5V Require Import Generated.Params Model.Rlp Model.Rpc Proofs.Rlp Proofs.Rpc Proofs.RpcGap.
Import ListNotations.
Local Open Scope N_scope.

Section C06.
  Variable enr : Type.
  Variable enr_encode : enr -> bytes.
  Variable enr_decode : bytes -> option enr.
  Local Notation decode := (decode_msg enr enr_encode enr_decode).
  Local Notation encode := (encode_msg enr enr_encode).
  Local Notation Hround := (enr_round_trip enr enr_encode enr_decode).
  Local Notation Hcanon := (enr_canonical enr enr_encode enr_decode).
  Local Notation Hlists := (enr_only_lists enr enr_decode).

  (* ---- exact ---- *)

  (* Round trip: every well-formed message (id <= 8 bytes, u64 fields < 2^64, distances <= 256,
     port 1..65535, a 16-byte address that is not of the collapsed forms, encoding shorter than
     2^64 bytes; any number of records) decodes to itself. *)
  Theorem C06_decode_encode_msg :
    Hround -> Hlists ->
    forall fixed m, wf_msg enr enr_encode m -> decode fixed (encode m) = Ok m.
  Proof. exact (decode_encode_msg enr enr_encode enr_decode). Qed.

  (* "IPv6 addresses of the IPv4-mapped/compatible forms decode to their IPv4 value by design":
     a PONG that is well formed except that its 16-byte address [o] is ::ffff:a.b.c.d or ::a.b.c.d
     (other than ::1), i.e. Ipv6Addr::to_ipv4 gives [v4], decodes to the PONG with the IPv4 address
     [v4].  No premise on the record codec. *)
  Theorem C06_decode_encode_pong_mapped :
    forall fixed id s o v4 p,
    bytes_ok id -> len id <= REQUEST_ID_MAX_LEN -> s < 2 ^ 64 -> 1 <= p <= 65535 ->
    length o = 16%nat -> bytes_ok o -> len (encode (Pong id s (IP6 o) p)) < 2 ^ 64 ->
    is_loopback6 o = false -> to_ipv4 o = Some v4 ->
    decode fixed (encode (Pong id s (IP6 o) p)) = Ok (Pong id s (IP4 v4) p).
  Proof. exact (decode_encode_pong_mapped enr enr_encode enr_decode). Qed.

  (* The same for every message: with the address condition of PONG relaxed to "4 or 16 bytes"
     ([wf_msg_lax], spelled out below), decoding the encoding returns the message up to the
     IPv6 -> IPv4 collapse of PONG ([collapse], the identity on every well-formed message). *)
  Theorem C06_decode_encode_msg_collapse :
    Hround -> Hlists ->
    forall fixed m, wf_msg_lax enr enr_encode m -> decode fixed (encode m) = Ok (collapse enr m).
  Proof. exact (decode_encode_msg_collapse enr enr_encode enr_decode). Qed.

  Theorem C06_wf_msg_lax_meaning :
    forall m, wf_msg_lax enr enr_encode m <->
    (bytes_ok (msg_id m) /\ len (msg_id m) <= REQUEST_ID_MAX_LEN /\ len (encode m) < 2 ^ 64 /\
     match m with
     | Ping _ enr_seq => enr_seq < 2 ^ 64
     | Pong _ enr_seq ip port =>
       enr_seq < 2 ^ 64
       /\ match ip with
          | IP4 o => length o = 4%nat /\ bytes_ok o
          | IP6 o => length o = 16%nat /\ bytes_ok o
          end
       /\ 1 <= port <= 65535
     | FindNode _ distances => Forall (fun d => d <= FINDNODE_MAX_DISTANCE) distances
     | Nodes _ total _ => total < 2 ^ 64
     | TalkReq _ protocol request => bytes_ok protocol /\ bytes_ok request
     | TalkResp _ response => bytes_ok response
     end).
  Proof. intro m. unfold wf_msg_lax, wf_ip_lax. reflexivity. Qed.

  Theorem C06_collapse_meaning :
    (forall m, collapse enr m =
       match m with
       | Pong id s (IP6 o) p =>
         if is_loopback6 o then m
         else match to_ipv4 o with Some v4 => Pong id s (IP4 v4) p | None => m end
       | _ => m
       end)
    /\ (forall m, wf_msg enr enr_encode m -> collapse enr m = m)
    /\ (forall m, wf_msg enr enr_encode m -> wf_msg_lax enr enr_encode m).
  Proof.
    split; [|split; [exact (collapse_wf enr enr_encode)|exact (wf_msg_is_lax enr enr_encode)]].
    intros [id s|id s [o|o] p|id ds|id t ns|id p r|id r]; try reflexivity.
    cbn [collapse collapse_ip]. destruct (is_loopback6 o); [reflexivity|].
    destruct (to_ipv4 o); reflexivity.
  Qed.

  (* Layout: type byte, then the RLP list of the fields of the wire specification. *)
  Theorem C06_encode_layout :
    forall m, encode m = msg_type m :: encode_list (msg_fields enr enr_encode m).
  Proof. exact (encode_layout enr enr_encode). Qed.

  (* ... where the integer fields are the RLP integers of the specification (big-endian, no
     leading zeros, as a byte string) *)
  Theorem C06_integers_are_rlp_integers :
    (forall x, x < 2 ^ 64 -> encode_uint 8 x = rlp_uint x) /\
    (forall x, x < 65536 -> encode_uint 2 x = rlp_uint x).
  Proof. split; [exact encode_uint_is_rlp_uint | exact encode_u16_is_rlp_uint]. Qed.

  (* ---- total ---- *)

  (* Decoding any byte string never panics (the one candidate is payload.advance(enr.size()),
     safe because a record's size is the length of the slice it was decoded from) ... *)
  Theorem C06_decode_msg_total :
    Hcanon -> forall fixed bs, decode fixed bs <> Panic.
  Proof. exact (decode_msg_total enr enr_encode enr_decode). Qed.

  (* ... and terminates: the fuel of the model's loops never runs out. *)
  Theorem C06_decode_msg_terminates :
    Hcanon -> forall fixed bs, decode fixed bs <> Err EFuel.
  Proof. exact (decode_msg_no_fuel enr enr_encode enr_decode). Qed.

  (* ---- strict ---- *)

  (* Canonicity (repaired decoder): an accepted byte string IS the encoding of a message that
     satisfies every rule of the decoder (id <= 8 bytes, distances <= 256, port 1..65535, address
     of 4 or 16 bytes, every record accepted by the record decoder), and the returned message is
     that message up to the IPv6 -> IPv4 collapse of PONG.  In particular there are no trailing,
     missing or non-canonical bytes anywhere in an accepted input. *)
  Theorem C06_decode_msg_canonical :
    Hcanon -> forall bs m, bytes_ok bs -> decode true bs = Ok m ->
    exists m', bs = encode m' /\ accepted enr enr_encode enr_decode m' /\ collapse enr m' = m.
  Proof. exact (decode_msg_canonical enr enr_encode enr_decode). Qed.

  (* Exact in the other direction (repaired decoder): the message returned for an accepted byte
     string encodes back to that byte string - except for a PONG whose 16-byte address of an
     IPv4-mapped/compatible form was returned as its IPv4 value (by design); then the input is the
     encoding of the same PONG with that 16-byte address. *)
  Theorem C06_encode_decode_msg :
    Hcanon -> forall bs m, bytes_ok bs -> decode true bs = Ok m ->
    encode m = bs \/
    exists id s o v4 p, m = Pong id s (IP4 v4) p /\ is_loopback6 o = false /\ to_ipv4 o = Some v4 /\
                        length o = 16%nat /\ bs = encode (Pong id s (IP6 o) p).
  Proof. exact (encode_decode_msg enr enr_encode enr_decode). Qed.

  (* ... so every returned message that is not a PONG with an IPv4 address encodes back exactly *)
  Theorem C06_encode_decode_msg_exact :
    Hcanon -> forall bs m, bytes_ok bs -> decode true bs = Ok m ->
    match m with Pong _ _ (IP4 _) _ => False | _ => True end ->
    encode m = bs.
  Proof. exact (encode_decode_msg_exact enr enr_encode enr_decode). Qed.

  (* ... and a returned PONG with an IPv4 address has two possible origins *)
  Theorem C06_encode_decode_pong4 :
    Hcanon -> forall bs id s v4 p, bytes_ok bs -> decode true bs = Ok (Pong id s (IP4 v4) p) ->
    bs = encode (Pong id s (IP4 v4) p) \/
    exists o, length o = 16%nat /\ is_loopback6 o = false /\ to_ipv4 o = Some v4 /\
              bs = encode (Pong id s (IP6 o) p).
  Proof. exact (encode_decode_pong4 enr enr_encode enr_decode). Qed.

  (* trailing bytes after the outer list *)
  Theorem C06_strict_trailing :
    forall fixed m x xs, len (encode m) < 2 ^ 64 ->
    decode fixed (encode m ++ x :: xs) = Err E_extra_data.
  Proof. exact (strict_trailing_msg enr enr_encode enr_decode). Qed.

  (* missing bytes: every proper prefix of [type ‖ list(body)] is rejected (short outer list) *)
  Theorem C06_strict_truncated :
    forall fixed t body k, len body < 2 ^ 64 -> (k < length (framed t body))%nat ->
    decode fixed (firstn k (framed t body)) = Err EInputTooShort.
  Proof. exact (strict_truncated enr enr_encode enr_decode). Qed.

  (* the outer item is not a list *)
  Theorem C06_strict_non_list :
    forall fixed t payload h body, RPC_MIN_MESSAGE_LEN <= len (t :: payload) ->
    decode_header payload = Ok (h, body) -> hlist h = false ->
    decode fixed (t :: payload) = Err E_invalid_header.
  Proof. exact (strict_non_list enr enr_encode enr_decode). Qed.

  (* request id longer than 8 bytes, whatever the type byte and whatever follows the id *)
  Theorem C06_strict_long_id :
    forall fixed t id rest, bytes_ok id -> REQUEST_ID_MAX_LEN < len id ->
    len (encode_bytes id ++ rest) < 2 ^ 64 ->
    decode fixed (framed t (encode_bytes id ++ rest)) = Err E_invalid_id.
  Proof. exact (strict_long_id enr enr_encode enr_decode). Qed.

  (* FINDNODE with a distance above 256 *)
  Theorem C06_strict_distance :
    forall fixed id ds, bytes_ok id -> len id <= REQUEST_ID_MAX_LEN ->
    Forall (fun d => d < 2 ^ 64) ds -> Exists (fun d => FINDNODE_MAX_DISTANCE < d) ds ->
    len (encode (FindNode id ds)) < 2 ^ 64 ->
    decode fixed (encode (FindNode id ds)) = Err E_distance.
  Proof. exact (strict_distance enr enr_encode enr_decode). Qed.

  (* PONG with port 0 *)
  Theorem C06_strict_port_zero :
    forall fixed id s o, bytes_ok id -> len id <= REQUEST_ID_MAX_LEN -> s < 2 ^ 64 -> bytes_ok o ->
    len (pong_bytes id s o 0) < 2 ^ 64 -> (length o = 4%nat \/ length o = 16%nat) ->
    decode fixed (pong_bytes id s o 0) = Err E_port.
  Proof. exact (strict_port_zero enr enr_encode enr_decode). Qed.

  (* PONG with a port that does not fit 16 bits *)
  Theorem C06_strict_port_overflow :
    forall fixed id s o p, bytes_ok id -> len id <= REQUEST_ID_MAX_LEN -> s < 2 ^ 64 -> bytes_ok o ->
    len (pong_bytes id s o p) < 2 ^ 64 -> (length o = 4%nat \/ length o = 16%nat) ->
    65536 <= p -> p < 2 ^ 64 ->
    decode fixed (pong_bytes id s o p) = Err EOverflow.
  Proof. exact (strict_port_overflow enr enr_encode enr_decode). Qed.

  (* PONG with an address field that is neither 4 nor 16 bytes *)
  Theorem C06_strict_ip_length :
    forall fixed id s o p, bytes_ok id -> len id <= REQUEST_ID_MAX_LEN -> s < 2 ^ 64 -> bytes_ok o ->
    len (pong_bytes id s o p) < 2 ^ 64 -> length o <> 4%nat -> length o <> 16%nat ->
    decode fixed (pong_bytes id s o p) = Err E_ip_length.
  Proof. exact (strict_ip_length enr enr_encode enr_decode). Qed.

  (* NODES with an item that is an RLP list but not a valid signed record, after any valid records *)
  Theorem C06_strict_bad_record :
    Hround -> Hlists ->
    forall fixed id total good c tail,
    bytes_ok id -> len id <= REQUEST_ID_MAX_LEN -> total < 2 ^ 64 -> len c < 2 ^ 64 ->
    enr_decode (encode_header true (len c) ++ c) = None ->
    let records := concat (map enr_encode good) ++ (encode_header true (len c) ++ c) ++ tail in
    let body := encode_bytes id ++ encode_uint 8 total ++ encode_header true (len records) ++ records in
    len body < 2 ^ 64 ->
    decode fixed (framed 4 body) = Err EOpaque.
  Proof. exact (strict_bad_record enr enr_encode enr_decode). Qed.

  (* unknown message type *)
  Theorem C06_strict_unknown_type :
    Hcanon -> forall fixed t payload, ~ In t [1; 2; 3; 4; 5; 6] ->
    exists e, decode fixed (t :: payload) = Err e.
  Proof. exact (strict_unknown_type enr enr_encode enr_decode). Qed.

  (* bytes left in the outer list after the last field (all types but NODES, next theorem) *)
  Theorem C06_strict_leftover :
    Hround -> Hlists ->
    forall fixed m x xs, wf_fields enr m -> len (encode_body enr enr_encode m ++ x :: xs) < 2 ^ 64 ->
    match m with Nodes _ _ _ => False | _ => True end ->
    decode fixed (framed (msg_type m) (encode_body enr enr_encode m ++ x :: xs)) = Err E_not_empty.
  Proof. exact (strict_leftover enr enr_encode enr_decode). Qed.

  (* NODES (repaired decoder): bytes left in the outer list after the record list *)
  Theorem C06_nodes_leftover_rejected :
    forall id total ns x xs, bytes_ok id -> len id <= REQUEST_ID_MAX_LEN -> total < 2 ^ 64 ->
    len (encode_body enr enr_encode (Nodes id total ns) ++ x :: xs) < 2 ^ 64 ->
    decode true (framed 4 (encode_body enr enr_encode (Nodes id total ns) ++ x :: xs)) = Err E_extra_data.
  Proof. exact (nodes_leftover_rejected enr enr_encode enr_decode). Qed.

  (* NODES (repaired decoder): the inner list header covers exactly the rest of the payload,
     which is exactly the concatenation of the returned records *)
  Theorem C06_nodes_inner_list_exact :
    Hcanon -> forall bs id total ns, bytes_ok bs ->
    decode true bs = Ok (Nodes id total ns) ->
    bs = encode (Nodes id total ns) /\
    exists pre, bs = pre ++ encode_header true (len (concat (map enr_encode ns))) ++ concat (map enr_encode ns).
  Proof. exact (nodes_inner_list_exact enr enr_encode enr_decode). Qed.
End C06.

Print Assumptions C06_decode_encode_msg.
Print Assumptions C06_encode_layout.
Print Assumptions C06_integers_are_rlp_integers.
Print Assumptions C06_decode_msg_total.
Print Assumptions C06_decode_msg_terminates.
Print Assumptions C06_decode_msg_canonical.
Print Assumptions C06_strict_trailing.
Print Assumptions C06_strict_truncated.
Print Assumptions C06_strict_non_list.
Print Assumptions C06_strict_long_id.
Print Assumptions C06_strict_distance.
Print Assumptions C06_strict_port_zero.
Print Assumptions C06_strict_port_overflow.
Print Assumptions C06_strict_ip_length.
Print Assumptions C06_strict_bad_record.
Print Assumptions C06_strict_unknown_type.
Print Assumptions C06_strict_leftover.
Print Assumptions C06_nodes_leftover_rejected.
Print Assumptions C06_nodes_inner_list_exact.
Print Assumptions C06_decode_encode_pong_mapped.
Print Assumptions C06_decode_encode_msg_collapse.
Print Assumptions C06_wf_msg_lax_meaning.
Print Assumptions C06_collapse_meaning.
Print Assumptions C06_encode_decode_msg.
Print Assumptions C06_encode_decode_msg_exact.
Print Assumptions C06_encode_decode_pong4.

(* The premises on the ENR codec are satisfiable: a two-record codec (the RLP lists [] and [0x01]). *)
Example C06_enr_hypotheses_satisfiable :
  enr_round_trip bool toy_encode toy_decode /\ enr_canonical bool toy_encode toy_decode /\
  enr_only_lists bool toy_decode.
Proof. exact (conj toy_round_trip (conj toy_canonical toy_only_lists)). Qed.
Print Assumptions C06_enr_hypotheses_satisfiable.

(* The premises of C06_decode_encode_pong_mapped / C06_decode_encode_msg_collapse are satisfiable
   by a message that is NOT well formed in the strict sense: a PONG carrying ::ffff:10.0.0.1
   decodes to the PONG carrying 10.0.0.1 (by evaluation). *)
Example C06_pong_mapped_example :
  wf_msg_lax bool toy_encode (Pong [1; 2] 7 (IP6 mapped_10_0_0_1) 30303) /\
  is_loopback6 mapped_10_0_0_1 = false /\ to_ipv4 mapped_10_0_0_1 = Some [10; 0; 0; 1] /\
  ~ wf_msg bool toy_encode (Pong [1; 2] 7 (IP6 mapped_10_0_0_1) 30303) /\
  decode_msg bool toy_encode toy_decode true
    (encode_msg bool toy_encode (Pong [1; 2] 7 (IP6 mapped_10_0_0_1) 30303))
  = Ok (Pong [1; 2] 7 (IP4 [10; 0; 0; 1]) 30303).
Proof. exact pong_mapped_example. Qed.
Print Assumptions C06_pong_mapped_example.

(* D9, the record of the finding: the decoder of the pinned tree (fixed = false) accepts
   04 ‖ list[01, 01, c0, <record>] - an input whose inner list header does not cover the rest of
   the payload - and the result does not encode back to the input; the repaired decoder rejects it. *)
Theorem C06_nodes_inner_list_exact_refuted :
  exists bs m, bytes_ok bs /\
    decode_msg bool toy_encode toy_decode false bs = Ok m /\ encode_msg bool toy_encode m <> bs.
Proof. exact nodes_inner_list_exact_refuted. Qed.
Print Assumptions C06_nodes_inner_list_exact_refuted.

Theorem C06_refutation_witness_rejected_after_repair :
  decode_msg bool toy_encode toy_decode true [4; 196; 1; 1; 192; 192] = Err E_extra_data.
Proof. exact nodes_inner_list_witness_rejected. Qed.
Print Assumptions C06_refutation_witness_rejected_after_repair.
