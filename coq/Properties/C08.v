(* C08 - Closest-node and distance lookups are exact.
   Statements only; every theorem is closed by [exact] of a lemma proved elsewhere and followed by
   Print Assumptions.  See DESIGN.md section 6 (C08). *)
From Coq Require Import List Arith NArith Permutation Sorted.
From Discv5V Require Import Generated.Params Lib.NBits Model.KBucket Proofs.ClosestOrder.
Import ListNotations.

(* The bucket indices visited by the closest iterator, for every distance d between the local id
   and the target: every bucket exactly once. *)
Theorem C08_bucket_order_is_a_permutation :
  forall d : N, (d < 2 ^ NUM_BUCKETS)%N -> Permutation (bucket_order true d) (seq 0 NB).
Proof.
  intros d H. rewrite (bucket_order_closed_form d H). exact (order_spec_perm d H).
Qed.
Print Assumptions C08_bucket_order_is_a_permutation.

(* ... in an order in which every node of an earlier bucket is strictly closer to the target than
   every node of a later bucket ([before d i j] implies that, lemma before_lt below). *)
Theorem C08_bucket_order_is_sorted :
  forall d : N, (d < 2 ^ NUM_BUCKETS)%N -> StronglySorted (beforeN d) (bucket_order true d).
Proof.
  intros d H. rewrite (bucket_order_closed_form d H). exact (order_spec_sorted d H).
Qed.
Print Assumptions C08_bucket_order_is_sorted.

Theorem C08_earlier_bucket_is_closer :
  forall d x y : N, x <> 0%N -> y <> 0%N -> before d (N.log2 x) (N.log2 y) ->
  (N.lxor d x < N.lxor d y)%N.
Proof. exact before_lt. Qed.
Print Assumptions C08_earlier_bucket_is_closer.

(* The iteration of the pinned tree (before the repair of ClosestBucketsIter::next) violated the
   property: bucket 0 twice. Kept as the record of the finding. *)
Theorem C08_pinned_iteration_refuted :
  exists d, (d < 2 ^ NUM_BUCKETS)%N /\ ~ NoDup (bucket_order false d).
Proof. exact pinned_order_refuted. Qed.
Print Assumptions C08_pinned_iteration_refuted.

(* ------------------------------------------------------------------------------------------ *)
(* Table level (Proofs/ClosestTable.v), on tables satisfying the C07 invariant *)
From Discv5V Require Import Proofs.KBucketInv Proofs.KBucketTable Proofs.KBucketPending Proofs.ClosestTable.

(* Iterating by closeness yields every stored node exactly once (a permutation of the full scan of
   the table after the pending nodes were applied), in strictly increasing XOR distance to the
   target, for every local id, target and table content. *)
Theorem C08_closest_is_the_sorted_full_scan :
  forall c t target now,
  TInv c t -> (local t < 2 ^ NUM_BUCKETS)%N -> (target < 2 ^ NUM_BUCKETS)%N ->
  let t' := fst (t_closest true c t target now) in
  let out := snd (t_closest true c t target now) in
  Permutation out (all_nodes t') /\
  StronglySorted (fun a b => (N.lxor target (nkey a) < N.lxor target (nkey b))%N) out /\
  TInv c t'.
Proof. exact closest_exact. Qed.
Print Assumptions C08_closest_is_the_sorted_full_scan.

(* nodes_by_distances: the concatenation, in request order, of the buckets of the in-range requested
   distances, cut at the cap (max(max_nodes, 1): the code checks the count after each push) *)
Theorem C08_nodes_by_distances_spec :
  forall c t ds maxn now,
  let t' := fst (t_nodes_by_distances c t ds maxn now) in
  snd (t_nodes_by_distances c t ds maxn now) =
  firstn (cap maxn) (flat_map (bucket_of_distance t') (valid_distances ds)).
Proof. exact nodes_by_distances_spec. Qed.
Print Assumptions C08_nodes_by_distances_spec.

Theorem C08_nodes_by_distances_only_requested :
  forall c t ds maxn now n,
  TInv c t ->
  let t' := fst (t_nodes_by_distances c t ds maxn now) in
  In n (snd (t_nodes_by_distances c t ds maxn now)) ->
  exists d, In d ds /\ (0 < d <= NUM_BUCKETS)%N /\ In n (bucket_of_distance t' d) /\
            N.lxor (local t') (nkey n) <> 0%N /\ (N.log2 (N.lxor (local t') (nkey n)) + 1 = d)%N.
Proof. exact nbd_only_requested. Qed.
Print Assumptions C08_nodes_by_distances_only_requested.

Theorem C08_nodes_by_distances_out_of_range_ignored :
  forall c t ds maxn now,
  t_nodes_by_distances c t ds maxn now = t_nodes_by_distances c t (valid_distances ds) maxn now /\
  ((forall d, In d ds -> d = 0%N \/ (NUM_BUCKETS < d)%N) ->
   snd (t_nodes_by_distances c t ds maxn now) = []).
Proof.
  intros. split; [apply nbd_out_of_range_ignored|apply nbd_nothing_out_of_range].
Qed.
Print Assumptions C08_nodes_by_distances_out_of_range_ignored.

Theorem C08_nodes_by_distances_complete :
  forall c t ds maxn now,
  TInv c t -> NoDup ds ->
  let t' := fst (t_nodes_by_distances c t ds maxn now) in
  let res := snd (t_nodes_by_distances c t ds maxn now) in
  let stored := flat_map (bucket_of_distance t') (valid_distances ds) in
  TInv c t' /\
  NoDup (map nkey stored) /\ NoDup (map nkey res) /\
  length res = Nat.min (cap maxn) (length stored) /\
  (length stored <= cap maxn -> res = stored).
Proof. exact nbd_complete. Qed.
Print Assumptions C08_nodes_by_distances_complete.
