(* C08 - Closest-node and distance lookups are exact.
   Statements only; every theorem is closed by [exact] of a lemma proved elsewhere and followed by
   Print Assumptions.  See DESIGN.md section 6 (C08). *)
From Coq Require Import List Arith NArith Permutation Sorted.
From Discv5V Require Import Generated.Params Lib.NBits Model.KBucket Proofs.ClosestOrder.
Import ListNotations.

(* The bucket indices visited by the closest iterator, for every distance d between the local id
   and the target: every bucket exactly once. *)
Theorem C08_bucket_order_is_a_permutation :
  forall d : N, (d < 2 ^ NUM_BUCKETS)%N -> Permutation (bucket_order true d) (seq 0 NB).
Proof.
  intros d H. rewrite (bucket_order_closed_form d H). exact (order_spec_perm d H).
Qed.
Print Assumptions C08_bucket_order_is_a_permutation.

(* ... in an order in which every node of an earlier bucket is strictly closer to the target than
   every node of a later bucket ([before d i j] implies that, lemma before_lt below). *)
Theorem C08_bucket_order_is_sorted :
  forall d : N, (d < 2 ^ NUM_BUCKETS)%N -> StronglySorted (beforeN d) (bucket_order true d).
Proof.
  intros d H. rewrite (bucket_order_closed_form d H). exact (order_spec_sorted d H).
Qed.
Print Assumptions C08_bucket_order_is_sorted.

Theorem C08_earlier_bucket_is_closer :
  forall d x y : N, x <> 0%N -> y <> 0%N -> before d (N.log2 x) (N.log2 y) ->
  (N.lxor d x < N.lxor d y)%N.
Proof. exact before_lt. Qed.
Print Assumptions C08_earlier_bucket_is_closer.

(* The iteration of the pinned tree (before the repair of ClosestBucketsIter::next) violated the
   property: bucket 0 twice. Kept as the record of the finding. *)
Theorem C08_pinned_iteration_refuted :
  exists d, (d < 2 ^ NUM_BUCKETS)%N /\ ~ NoDup (bucket_order false d).
Proof. exact pinned_order_refuted. Qed.
Print Assumptions C08_pinned_iteration_refuted.
