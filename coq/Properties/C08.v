(* C08 - Closest-node and distance lookups are exact.
   Statements only; every theorem is closed by [exact] of a lemma proved elsewhere and followed by
   Print Assumptions.  See DESIGN.md section 6 (C08). *)
From Coq Require Import List Arith NArith Permutation Sorted.
From Discv5V Require Import Generated.Params Lib.NBits Model.KBucket Proofs.ClosestOrder.
Import ListNotations.

(* The bucket indices visited by the closest iterator, for every distance d between the local id
   and the target: every bucket exactly once. *)
Theorem C08_bucket_order_is_a_permutation :
  forall d : N, (d < 2 ^ NUM_BUCKETS)%N -> Permutation (bucket_order true d) (seq 0 NB).
Proof.
  intros d H. rewrite (bucket_order_closed_form d H). exact (order_spec_perm d H).
Qed.
Print Assumptions C08_bucket_order_is_a_permutation.

(* ... in an order in which every node of an earlier bucket is strictly closer to the target than
   every node of a later bucket ([before d i j] implies that, lemma before_lt below). *)
Theorem C08_bucket_order_is_sorted :
  forall d : N, (d < 2 ^ NUM_BUCKETS)%N -> StronglySorted (beforeN d) (bucket_order true d).
Proof.
  intros d H. rewrite (bucket_order_closed_form d H). exact (order_spec_sorted d H).
Qed.
Print Assumptions C08_bucket_order_is_sorted.

Theorem C08_earlier_bucket_is_closer :
  forall d x y : N, x <> 0%N -> y <> 0%N -> before d (N.log2 x) (N.log2 y) ->
  (N.lxor d x < N.lxor d y)%N.
Proof. exact before_lt. Qed.
Print Assumptions C08_earlier_bucket_is_closer.

(* The iteration of the pinned tree (before the repair of ClosestBucketsIter::next) violated the
   property: bucket 0 twice. Kept as the record of the finding. *)
Theorem C08_pinned_iteration_refuted :
  exists d, (d < 2 ^ NUM_BUCKETS)%N /\ ~ NoDup (bucket_order false d).
Proof. exact pinned_order_refuted. Qed.
Print Assumptions C08_pinned_iteration_refuted.

(* ------------------------------------------------------------------------------------------ *)
(* Table level (Proofs/ClosestTable.v), on tables satisfying the C07 invariant *)
From Discv5V Require Import Proofs.KBucketInv Proofs.KBucketTable Proofs.KBucketPending Proofs.ClosestTable.

(* Iterating by closeness yields every stored node exactly once (a permutation of the full scan of
   the table after the pending nodes were applied), in strictly increasing XOR distance to the
   target, for every local id, target and table content. *)
Theorem C08_closest_is_the_sorted_full_scan :
  forall c t target now,
  TInv c t -> (local t < 2 ^ NUM_BUCKETS)%N -> (target < 2 ^ NUM_BUCKETS)%N ->
  let t' := fst (t_closest true c t target now) in
  let out := snd (t_closest true c t target now) in
  Permutation out (all_nodes t') /\
  StronglySorted (fun a b => (N.lxor target (nkey a) < N.lxor target (nkey b))%N) out /\
  TInv c t'.
Proof. exact closest_exact. Qed.
Print Assumptions C08_closest_is_the_sorted_full_scan.

(* nodes_by_distances: the concatenation, in request order, of the buckets of the in-range requested
   distances, cut at the cap (max(max_nodes, 1): the code checks the count after each push) *)
Theorem C08_nodes_by_distances_spec :
  forall c t ds maxn now,
  let t' := fst (t_nodes_by_distances c t ds maxn now) in
  snd (t_nodes_by_distances c t ds maxn now) =
  firstn (cap maxn) (flat_map (bucket_of_distance t') (valid_distances ds)).
Proof. exact nodes_by_distances_spec. Qed.
Print Assumptions C08_nodes_by_distances_spec.

Theorem C08_nodes_by_distances_only_requested :
  forall c t ds maxn now n,
  TInv c t ->
  let t' := fst (t_nodes_by_distances c t ds maxn now) in
  In n (snd (t_nodes_by_distances c t ds maxn now)) ->
  exists d, In d ds /\ (0 < d <= NUM_BUCKETS)%N /\ In n (bucket_of_distance t' d) /\
            N.lxor (local t') (nkey n) <> 0%N /\ (N.log2 (N.lxor (local t') (nkey n)) + 1 = d)%N.
Proof. exact nbd_only_requested. Qed.
Print Assumptions C08_nodes_by_distances_only_requested.

Theorem C08_nodes_by_distances_out_of_range_ignored :
  forall c t ds maxn now,
  t_nodes_by_distances c t ds maxn now = t_nodes_by_distances c t (valid_distances ds) maxn now /\
  ((forall d, In d ds -> d = 0%N \/ (NUM_BUCKETS < d)%N) ->
   snd (t_nodes_by_distances c t ds maxn now) = []).
Proof.
  intros. split; [apply nbd_out_of_range_ignored|apply nbd_nothing_out_of_range].
Qed.
Print Assumptions C08_nodes_by_distances_out_of_range_ignored.

Theorem C08_nodes_by_distances_complete :
  forall c t ds maxn now,
  TInv c t -> NoDup ds ->
  let t' := fst (t_nodes_by_distances c t ds maxn now) in
  let res := snd (t_nodes_by_distances c t ds maxn now) in
  let stored := flat_map (bucket_of_distance t') (valid_distances ds) in
  TInv c t' /\
  NoDup (map nkey stored) /\ NoDup (map nkey res) /\
  length res = Nat.min (cap maxn) (length stored) /\
  (length stored <= cap maxn -> res = stored).
Proof. exact nbd_complete. Qed.
Print Assumptions C08_nodes_by_distances_complete.

(* ------------------------------------------------------------------------------------------ *)
(* The three public iterators (Proofs/KBucketGap.v).  closest_keys, closest_values and
   closest_values_predicate share ClosestIter and differ in the projection applied to a bucket
   before it is sorted (Model/KBucket.v: t_closest_keys, t_closest_values,
   t_closest_values_predicate; t_closest is the same iteration yielding whole nodes). *)
From Discv5V Require Import Proofs.KBucketGap.

(* Each variant is the projection of the node sequence of t_closest - no element is lost, added or
   reordered by projecting before sorting - and leaves the table in the same state (the same
   pending nodes were applied). *)
Theorem C08_variants_are_projections :
  forall fixed predicate c t target now,
  let rn := t_closest fixed c t target now in
  t_closest_keys fixed c t target now = (fst rn, map nkey (snd rn)) /\
  t_closest_values fixed c t target now =
    (fst rn, map (fun n => {| cv_key := nkey n; cv_value := nval n |}) (snd rn)) /\
  t_closest_values_predicate fixed predicate c t target now =
    (fst rn, map (fun n => {| pv_key := nkey n; pv_match := predicate (nval n); pv_value := nval n |}) (snd rn)).
Proof. exact closest_variants_spec. Qed.
Print Assumptions C08_variants_are_projections.

(* "The predicate variant yields the same sequence with correct match flags": the same (key, value)
   sequence as closest_values and the same keys as closest_keys, every flag is the predicate
   applied to the value it accompanies - for every predicate, table (no invariant needed), local id,
   target and time. *)
Theorem C08_predicate_variant_same_sequence_correct_flags :
  forall fixed predicate c t target now,
  let rp := t_closest_values_predicate fixed predicate c t target now in
  let rv := t_closest_values fixed c t target now in
  let rk := t_closest_keys fixed c t target now in
  fst rp = fst rv /\ fst rp = fst rk /\
  map (fun x => (pv_key x, pv_value x)) (snd rp) = map (fun x => (cv_key x, cv_value x)) (snd rv) /\
  map pv_key (snd rp) = snd rk /\
  map cv_key (snd rv) = snd rk /\
  Forall (fun x => pv_match x = predicate (pv_value x)) (snd rp).
Proof. exact predicate_variant_same_sequence. Qed.
Print Assumptions C08_predicate_variant_same_sequence_correct_flags.

(* Hence the predicate variant itself is the sorted full scan with flags: on a table satisfying the
   C07 invariant it yields every stored (key, value) exactly once, in strictly increasing XOR
   distance to the target, each with the value of the predicate on it. *)
Theorem C08_predicate_variant_is_the_sorted_full_scan :
  forall predicate c t target now,
  TInv c t -> (local t < 2 ^ NUM_BUCKETS)%N -> (target < 2 ^ NUM_BUCKETS)%N ->
  let t' := fst (t_closest_values_predicate true predicate c t target now) in
  let out := snd (t_closest_values_predicate true predicate c t target now) in
  Permutation (map (fun x => (pv_key x, pv_value x)) out) (map (fun n => (nkey n, nval n)) (all_nodes t')) /\
  StronglySorted (fun a b => (N.lxor target (pv_key a) < N.lxor target (pv_key b))%N) out /\
  Forall (fun x => pv_match x = predicate (pv_value x)) out /\
  TInv c t'.
Proof. exact predicate_variant_exact. Qed.
Print Assumptions C08_predicate_variant_is_the_sorted_full_scan.

(* ... and so are closest_keys (distinct keys) and closest_values. *)
Theorem C08_keys_and_values_variants_are_the_sorted_full_scan :
  forall c t target now,
  TInv c t -> (local t < 2 ^ NUM_BUCKETS)%N -> (target < 2 ^ NUM_BUCKETS)%N ->
  let t' := fst (t_closest true c t target now) in
  let ks := snd (t_closest_keys true c t target now) in
  let vs := snd (t_closest_values true c t target now) in
  fst (t_closest_keys true c t target now) = t' /\ fst (t_closest_values true c t target now) = t' /\
  Permutation ks (map nkey (all_nodes t')) /\ NoDup ks /\
  StronglySorted (fun a b => (N.lxor target a < N.lxor target b)%N) ks /\
  Permutation (map (fun x => (cv_key x, cv_value x)) vs) (map (fun n => (nkey n, nval n)) (all_nodes t')) /\
  StronglySorted (fun a b => (N.lxor target (cv_key a) < N.lxor target (cv_key b))%N) vs.
Proof. exact keys_values_variants_exact. Qed.
Print Assumptions C08_keys_and_values_variants_are_the_sorted_full_scan.

(* The hypotheses are satisfiable on a non-trivial instance: local id 5, four stored nodes in three
   buckets (two of them in bucket 3, a low-index bucket 0 occupied), target 9, predicate "the value
   id is even".  The predicate variant yields the keys by increasing distance to 9 with the flags. *)
Example C08_predicate_variant_example :
  let c := {| max_incoming := 16; pending_timeout := 60%N; bfilter := None; tfilter := None |} in
  let ins t k v now := fst (t_insert_or_update c t k {| vid := v; vsub := None |} true false now) in
  let t := (ins (ins (ins (ins (new_table 5) 12 2 1) 4 3 2) 14 4 3) 7 5 4)%N in
  let predicate := fun v : val => N.even (vid v) in
  TInv c t /\ (local t < 2 ^ NUM_BUCKETS)%N /\ (9 < 2 ^ NUM_BUCKETS)%N /\
  map (fun x => (pv_key x, pv_match x, vid (pv_value x)))
      (snd (t_closest_values_predicate true predicate c t 9%N 5%N))
  = [(12, true, 2); (14, true, 4); (4, false, 3); (7, false, 5)]%N.
Proof.
  cbv zeta. split; [|split; [|split]]; [|vm_compute; reflexivity..].
  repeat apply (t_insert_or_update_inv _ None _ (Proofs.KBucketInv.tm_None None _)).
  apply TInv_new.
Qed.
Print Assumptions C08_predicate_variant_example.

(* Configuration plumbing (Model/Config.v, transcribing ConfigBuilder, Config, Discv5::new / Discv5::start,
   tied to the code by the `glue` correspondence run on real loopback sockets): the parameters the theorems
   above take as given are the ones the application configured - the value set last through the builder,
   or the default - at every component they are handed to. *)
Require Discv5V.Generated.Params Discv5V.Model.Config Discv5V.Proofs.Config.
Theorem C08_configured_max_nodes_response_reaches_the_service : forall ops v, Discv5V.Model.Config.start_node ops = Some v ->
  Discv5V.Model.Config.VN (Discv5V.Model.Config.c_max_nodes_response (Discv5V.Model.Config.nv_built v)) = Discv5V.Model.Config.configured ops Discv5V.Model.Config.FMaxNodesResponse /\
  Discv5V.Model.Config.VN (Discv5V.Model.Config.c_max_nodes_response (Discv5V.Model.Config.nv_service v)) = Discv5V.Model.Config.configured ops Discv5V.Model.Config.FMaxNodesResponse /\
  Discv5V.Model.Config.VN (Discv5V.Model.Config.c_max_nodes_response (Discv5V.Model.Config.nv_handler v)) = Discv5V.Model.Config.configured ops Discv5V.Model.Config.FMaxNodesResponse.
Proof. exact Discv5V.Proofs.Config.effective_max_nodes_response. Qed.
Print Assumptions C08_configured_max_nodes_response_reaches_the_service.
Theorem C08_configuration_example : exists v, Discv5V.Model.Config.start_node Discv5V.Proofs.Config.example_ops = Some v.
Proof. destruct Discv5V.Proofs.Config.example_starts as [v [H _]]. exists v. exact H. Qed.
Print Assumptions C08_configuration_example.
