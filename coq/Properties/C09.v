(* C09 - Iterative queries terminate with bounded parallelism.
   Statements only; every theorem is closed by [exact]/a short script from lemmas proved in
   Proofs/Query.v and Proofs/QueryPool.v and followed by Print Assumptions.  The model
   (Model/Query.v) transcribes src/query_pool.rs, src/query_pool/peers/closest.rs and
   src/query_pool/peers/predicate.rs.  None of the theorems has a hypothesis besides the run it
   talks about: every configuration (parallelism, num_results and timeouts are arbitrary N, zero
   included), target, candidate list, kind of query and event list is covered.
   See DESIGN.md section 6 (C09 / C10). *)
From Coq Require Import List NArith Bool.
From Discv5V Require Import Model.Query Proofs.Query Proofs.QueryPool.
Import ListNotations.
Local Open Scope N_scope.

(* Whatever the caller does (any list of next / on_success / on_failure calls with any times, peers
   and reports), the state machine does not panic (the debug_assert / underflow of num_waiting) ... *)
Theorem C09_no_panic :
  forall k c t known evs, run evs (with_config k c t known) <> None.
Proof.
  intros. apply run_no_panic. apply (io_wf _ _ (with_config_init k c t known)).
Qed.
Print Assumptions C09_no_panic.

(* ... and num_waiting is the number of peers in state Waiting. *)
Theorem C09_waiting_count :
  forall k c t known evs, exists q os,
    run evs (with_config k c t known) = Some (q, os) /\
    num_waiting q = N.of_nat (length (filter (fun dp => is_waiting (pst (snd dp))) (peers q))).
Proof. exact waiting_count. Qed.
Print Assumptions C09_waiting_count.

(* capacity: next hands out a peer only below the limit of the current progress state (in every
   state of the query, reachable or not). *)
Theorem C09_capacity :
  forall q now q' p, next q now = Some (q', SWaiting (Some p)) ->
  match prog q with
  | Iterating _ => num_waiting q < parallelism (cfg q)
  | Stalled => num_waiting q < num_results (cfg q)
  | Finished => False
  end.
Proof. exact capacity_lemma. Qed.
Print Assumptions C09_capacity.

(* Hence the bound of the property: never more requests in flight than the parallelism or, once
   the query has been Stalled at some point of the run, than num_results. *)
Theorem C09_inflight_bound :
  forall k c t known evs q os,
    run evs (with_config k c t known) = Some (q, os) ->
    num_waiting q <= parallelism c \/
    (ever_stalled evs (with_config k c t known) = true /\ num_waiting q <= num_results c).
Proof. exact inflight_bound. Qed.
Print Assumptions C09_inflight_bound.

(* contact_once: no peer is handed out twice, and every peer handed out was one of the (first
   num_results) initial candidates or was reported in an on_success call. *)
Theorem C09_contact_once :
  forall k c t known evs q os,
    run evs (with_config k c t known) = Some (q, os) ->
    NoDup (emitted os) /\
    forall p, In p (emitted os) ->
      In p (map fst (firstn (N.to_nat (num_results c)) known)) \/ In p (map fst (reported evs)).
Proof. exact contact_once. Qed.
Print Assumptions C09_contact_once.

(* termination, state machine: the budget is the number of NotContacted peers.  A next that hands
   out a peer decreases it by one, any other next and on_failure leave it unchanged, on_success
   adds at most the number of reported ids; so a run hands out at most as many peers as there are
   candidates and reported ids. *)
Theorem C09_budget :
  (forall q now q' p, next q now = Some (q', SWaiting (Some p)) ->
     cnt fNC (peers q') + 1 = cnt fNC (peers q)) /\
  (forall q now q' s, next q now = Some (q', s) -> (forall p, s <> SWaiting (Some p)) ->
     cnt fNC (peers q') = cnt fNC (peers q)) /\
  (forall q node q', on_failure q node = Some q' -> cnt fNC (peers q') = cnt fNC (peers q)) /\
  (forall q node closer q', on_success q node closer = Some q' ->
     cnt fNC (peers q') <= cnt fNC (peers q) + N.of_nat (length closer)) /\
  (forall k c t known evs q os, run evs (with_config k c t known) = Some (q, os) ->
     (length (emitted os) <= length (firstn (N.to_nat (num_results c)) known) + length (reported evs))%nat).
Proof.
  split; [intros q now q' p H; apply next_emit in H; tauto|].
  split; [exact next_no_emit|]. split; [exact on_failure_budget|]. split; [exact on_success_budget|].
  exact emitted_bounded.
Qed.
Print Assumptions C09_budget.

(* The pool: no event list makes it panic. *)
Theorem C09_pool_no_panic :
  forall timeout evs, prun evs (pool_new timeout) <> None.
Proof. intros. apply prun_no_panic. apply pool_new_inv. Qed.
Print Assumptions C09_pool_no_panic.

(* poll_after_deadline: in any pool reached by any event list, if a query has been started and
   the query timeout has elapsed, poll returns Finished, Timeout or a new request; each of these
   strictly decreases the weight of the pool (number of queries + NotContacted peers). *)
Theorem C09_poll_after_deadline :
  forall timeout evs p os0 i x s now order p' out,
    prun evs (pool_new timeout) = Some (p, os0) ->
    q_find i (queries p) = Some x -> started x = Some s -> query_timeout p <= now - s ->
    pool_poll p now order = Some (p', out) ->
    match out with
    | PFinished _ _ | PTimeout _ _ | PWaiting (Some _) => mu (queries p') < mu (queries p)
    | PIdle | PWaiting None => False
    end.
Proof.
  intros timeout evs p os0 i x s now order p' out R F St DL H.
  pose proof (prun_inv _ _ _ _ (pool_new_inv timeout) R) as PI.
  assert (OD : overdue now (query_timeout p) x) by (exists s; auto).
  pose proof (poll_after_deadline _ _ _ _ _ _ _ PI F OD H) as A.
  destruct (pool_mu_poll _ _ _ _ _ PI H) as (_ & B & _).
  destruct out as [|[[j peer]|]|j y|j y]; try contradiction; exact B.
Qed.
Print Assumptions C09_poll_after_deadline.

(* The weight never grows by polling or by failures, and grows by at most the number of reported
   ids on a success. *)
Theorem C09_pool_weight :
  (forall timeout evs p os0 now order p' out,
     prun evs (pool_new timeout) = Some (p, os0) -> pool_poll p now order = Some (p', out) ->
     mu (queries p') <= mu (queries p)) /\
  (forall p i node p', pool_on_failure p i node = Some p' -> mu (queries p') = mu (queries p)) /\
  (forall p i node closer p', pool_on_success p i node closer = Some p' ->
     mu (queries p') <= mu (queries p) + N.of_nat (length closer)).
Proof.
  split; [|split; [exact pool_mu_failure|exact pool_mu_success]].
  intros timeout evs p os0 now order p' out R H.
  apply (pool_mu_poll _ _ _ _ _ (prun_inv _ _ _ _ (pool_new_inv timeout) R) H).
Qed.
Print Assumptions C09_pool_weight.

(* So a started query leaves the pool: once its deadline has passed, more polls than the weight
   of the pool (whatever their times after the deadline and iteration orders) remove it. *)
Theorem C09_pool_drains :
  forall timeout evs p os0 l p' os i x s,
    prun evs (pool_new timeout) = Some (p, os0) ->
    q_find i (queries p) = Some x -> started x = Some s ->
    (forall no, In no l -> query_timeout p <= fst no - s) ->
    prun (polls l) p = Some (p', os) ->
    mu (queries p) < N.of_nat (length l) ->
    q_find i (queries p') = None.
Proof.
  intros timeout evs p os0 l p' os i x s R. apply pool_drains.
  apply (prun_inv _ _ _ _ (pool_new_inv timeout) R).
Qed.
Print Assumptions C09_pool_drains.

(* result_once: in any run of the pool, the number of times the result of query id i was handed
   out (Finished or Timeout) is at most the number of times i was returned by add, and strictly
   smaller while i is in the pool; after being handed out the id is absent. *)
Theorem C09_result_once :
  forall timeout evs p os i,
    prun evs (pool_new timeout) = Some (p, os) ->
    (count_out (is_terminal i) os <= count_out (is_added i) os)%nat /\
    (In i (ids (queries p)) -> (count_out (is_terminal i) os < count_out (is_added i) os)%nat).
Proof. exact result_once. Qed.
Print Assumptions C09_result_once.

Theorem C09_absent_after_result :
  forall timeout evs p os0 now order p' i x,
    prun evs (pool_new timeout) = Some (p, os0) ->
    (pool_poll p now order = Some (p', PFinished i x) \/ pool_poll p now order = Some (p', PTimeout i x)) ->
    q_find i (queries p) <> None /\ q_find i (queries p') = None.
Proof.
  intros timeout evs p os0 now order p' i x R. apply absent_after_result.
  apply (prun_inv _ _ _ _ (pool_new_inv timeout) R).
Qed.
Print Assumptions C09_absent_after_result.

(* Non-vacuity of the hypotheses of the deadline theorems: a pool with a started, overdue query. *)
Example C09_deadline_hypotheses_satisfiable :
  exists timeout evs p os0 i x s now,
    prun evs (pool_new timeout) = Some (p, os0) /\
    q_find i (queries p) = Some x /\ started x = Some s /\ query_timeout p <= now - s /\
    exists p' y, pool_poll p now [] = Some (p', PTimeout i y).
Proof.
  exists 100, [PAdd KFindNode {| parallelism := 1; num_results := 2; peer_timeout := 1000 |} 0 [(5, true)];
               PPoll 7 [0]].
  eexists. eexists. exists 0. eexists. exists 7, 200.
  split; [vm_compute; reflexivity|]. split; [vm_compute; reflexivity|]. split; [reflexivity|].
  split; [vm_compute; discriminate|]. eexists. eexists. vm_compute. reflexivity.
Qed.
Print Assumptions C09_deadline_hypotheses_satisfiable.
