(* C09 - Iterative queries terminate with bounded parallelism.
   Statements only; every theorem is closed by [exact]/a short script from lemmas proved in
   Proofs/Query.v, Proofs/QueryPool.v and Proofs/QueryGap.v and followed by Print Assumptions.
   The model (Model/Query.v) transcribes src/query_pool.rs, src/query_pool/peers/closest.rs and
   src/query_pool/peers/predicate.rs.  Apart from the deadline / drain theorems (which say when the
   polls happen) and C09_result_exactly_once (at most 2^64 adds), none of the theorems has a
   hypothesis besides the run it talks about: every configuration (parallelism, num_results and
   timeouts are arbitrary N, zero included), target, candidate list, kind of query and event list
   is covered.
   See DESIGN.md section 6 (C09 / C10). *)
From Coq Require Import List NArith Bool.
From Discv5V Require Import Model.Query Proofs.Query Proofs.QueryPool Proofs.QueryGap.
Import ListNotations.
Local Open Scope N_scope.

(* Whatever the caller does (any list of next / on_success / on_failure calls with any times, peers
   and reports), the state machine does not panic (the debug_assert / underflow of num_waiting) ... *)
Theorem C09_no_panic :
  forall k c t known evs, run evs (with_config k c t known) <> None.
Proof.
  intros. apply run_no_panic. apply (io_wf _ _ (with_config_init k c t known)).
Qed.
Print Assumptions C09_no_panic.

(* ... and num_waiting is the number of peers in state Waiting. *)
Theorem C09_waiting_count :
  forall k c t known evs, exists q os,
    run evs (with_config k c t known) = Some (q, os) /\
    num_waiting q = N.of_nat (length (filter (fun dp => is_waiting (pst (snd dp))) (peers q))).
Proof. exact waiting_count. Qed.
Print Assumptions C09_waiting_count.

(* capacity: next hands out a peer only below the limit of the current progress state (in every
   state of the query, reachable or not). *)
Theorem C09_capacity :
  forall q now q' p, next q now = Some (q', SWaiting (Some p)) ->
  match prog q with
  | Iterating _ => num_waiting q < parallelism (cfg q)
  | Stalled => num_waiting q < num_results (cfg q)
  | Finished => False
  end.
Proof. exact capacity_lemma. Qed.
Print Assumptions C09_capacity.

(* Hence the bound of the property: never more requests in flight than the parallelism or, once
   the query has been Stalled at some point of the run, than num_results. *)
Theorem C09_inflight_bound :
  forall k c t known evs q os,
    run evs (with_config k c t known) = Some (q, os) ->
    num_waiting q <= parallelism c \/
    (ever_stalled evs (with_config k c t known) = true /\ num_waiting q <= num_results c).
Proof. exact inflight_bound. Qed.
Print Assumptions C09_inflight_bound.

(* contact_once: no peer is handed out twice, and every peer handed out was one of the (first
   num_results) initial candidates or was reported in an on_success call. *)
Theorem C09_contact_once :
  forall k c t known evs q os,
    run evs (with_config k c t known) = Some (q, os) ->
    NoDup (emitted os) /\
    forall p, In p (emitted os) ->
      In p (map fst (firstn (N.to_nat (num_results c)) known)) \/ In p (map fst (reported evs)).
Proof. exact contact_once. Qed.
Print Assumptions C09_contact_once.

(* termination, state machine: the budget is the number of NotContacted peers.  A next that hands
   out a peer decreases it by one, any other next and on_failure leave it unchanged, on_success
   adds at most the number of reported ids; so a run hands out at most as many peers as there are
   candidates and reported ids. *)
Theorem C09_budget :
  (forall q now q' p, next q now = Some (q', SWaiting (Some p)) ->
     cnt fNC (peers q') + 1 = cnt fNC (peers q)) /\
  (forall q now q' s, next q now = Some (q', s) -> (forall p, s <> SWaiting (Some p)) ->
     cnt fNC (peers q') = cnt fNC (peers q)) /\
  (forall q node q', on_failure q node = Some q' -> cnt fNC (peers q') = cnt fNC (peers q)) /\
  (forall q node closer q', on_success q node closer = Some q' ->
     cnt fNC (peers q') <= cnt fNC (peers q) + N.of_nat (length closer)) /\
  (forall k c t known evs q os, run evs (with_config k c t known) = Some (q, os) ->
     (length (emitted os) <= length (firstn (N.to_nat (num_results c)) known) + length (reported evs))%nat).
Proof.
  split; [intros q now q' p H; apply next_emit in H; tauto|].
  split; [exact next_no_emit|]. split; [exact on_failure_budget|]. split; [exact on_success_budget|].
  exact emitted_bounded.
Qed.
Print Assumptions C09_budget.

(* The pool: no event list makes it panic. *)
Theorem C09_pool_no_panic :
  forall timeout evs, prun evs (pool_new timeout) <> None.
Proof. intros. apply prun_no_panic. apply pool_new_inv. Qed.
Print Assumptions C09_pool_no_panic.

(* poll_after_deadline: in any pool reached by any event list, if a query has been started and
   the query timeout has elapsed, poll returns Finished, Timeout or a new request; each of these
   strictly decreases the weight of the pool (number of queries + NotContacted peers). *)
Theorem C09_poll_after_deadline :
  forall timeout evs p os0 i x s now order p' out,
    prun evs (pool_new timeout) = Some (p, os0) ->
    q_find i (queries p) = Some x -> started x = Some s -> query_timeout p <= now - s ->
    pool_poll p now order = Some (p', out) ->
    match out with
    | PFinished _ _ | PTimeout _ _ | PWaiting (Some _) => mu (queries p') < mu (queries p)
    | PIdle | PWaiting None => False
    end.
Proof.
  intros timeout evs p os0 i x s now order p' out R F St DL H.
  pose proof (prun_inv _ _ _ _ (pool_new_inv timeout) R) as PI.
  assert (OD : overdue now (query_timeout p) x) by (exists s; auto).
  pose proof (poll_after_deadline _ _ _ _ _ _ _ PI F OD H) as A.
  destruct (pool_mu_poll _ _ _ _ _ PI H) as (_ & B & _).
  destruct out as [|[[j peer]|]|j y|j y]; try contradiction; exact B.
Qed.
Print Assumptions C09_poll_after_deadline.

(* The weight never grows by polling or by failures, and grows by at most the number of reported
   ids on a success. *)
Theorem C09_pool_weight :
  (forall timeout evs p os0 now order p' out,
     prun evs (pool_new timeout) = Some (p, os0) -> pool_poll p now order = Some (p', out) ->
     mu (queries p') <= mu (queries p)) /\
  (forall p i node p', pool_on_failure p i node = Some p' -> mu (queries p') = mu (queries p)) /\
  (forall p i node closer p', pool_on_success p i node closer = Some p' ->
     mu (queries p') <= mu (queries p) + N.of_nat (length closer)).
Proof.
  split; [|split; [exact pool_mu_failure|exact pool_mu_success]].
  intros timeout evs p os0 now order p' out R H.
  apply (pool_mu_poll _ _ _ _ _ (prun_inv _ _ _ _ (pool_new_inv timeout) R) H).
Qed.
Print Assumptions C09_pool_weight.

(* So a started query leaves the pool: once its deadline has passed, more polls than the weight
   of the pool (whatever their times after the deadline and iteration orders) remove it. *)
Theorem C09_pool_drains :
  forall timeout evs p os0 l p' os i x s,
    prun evs (pool_new timeout) = Some (p, os0) ->
    q_find i (queries p) = Some x -> started x = Some s ->
    (forall no, In no l -> query_timeout p <= fst no - s) ->
    prun (polls l) p = Some (p', os) ->
    mu (queries p) < N.of_nat (length l) ->
    q_find i (queries p') = None.
Proof.
  intros timeout evs p os0 l p' os i x s R. apply pool_drains.
  apply (prun_inv _ _ _ _ (pool_new_inv timeout) R).
Qed.
Print Assumptions C09_pool_drains.

(* result_once: in any run of the pool, the number of times the result of query id i was handed
   out (Finished or Timeout) is at most the number of times i was returned by add, and strictly
   smaller while i is in the pool; after being handed out the id is absent. *)
Theorem C09_result_once :
  forall timeout evs p os i,
    prun evs (pool_new timeout) = Some (p, os) ->
    (count_out (is_terminal i) os <= count_out (is_added i) os)%nat /\
    (In i (ids (queries p)) -> (count_out (is_terminal i) os < count_out (is_added i) os)%nat).
Proof. exact result_once. Qed.
Print Assumptions C09_result_once.

Theorem C09_absent_after_result :
  forall timeout evs p os0 now order p' i x,
    prun evs (pool_new timeout) = Some (p, os0) ->
    (pool_poll p now order = Some (p', PFinished i x) \/ pool_poll p now order = Some (p', PTimeout i x)) ->
    q_find i (queries p) <> None /\ q_find i (queries p') = None.
Proof.
  intros timeout evs p os0 now order p' i x R. apply absent_after_result.
  apply (prun_inv _ _ _ _ (pool_new_inv timeout) R).
Qed.
Print Assumptions C09_absent_after_result.

(* Non-vacuity of the hypotheses of the deadline theorems: a pool with a started, overdue query. *)
Example C09_deadline_hypotheses_satisfiable :
  exists timeout evs p os0 i x s now,
    prun evs (pool_new timeout) = Some (p, os0) /\
    q_find i (queries p) = Some x /\ started x = Some s /\ query_timeout p <= now - s /\
    exists p' y, pool_poll p now [] = Some (p', PTimeout i y).
Proof.
  exists 100, [PAdd KFindNode {| parallelism := 1; num_results := 2; peer_timeout := 1000 |} 0 [(5, true)];
               PPoll 7 [0]].
  eexists. eexists. exists 0. eexists. exists 7, 200.
  split; [vm_compute; reflexivity|]. split; [vm_compute; reflexivity|]. split; [reflexivity|].
  split; [vm_compute; discriminate|]. eexists. eexists. vm_compute. reflexivity.
Qed.
Print Assumptions C09_deadline_hypotheses_satisfiable.

(* ---- "hands its result to the caller EXACTLY once" ----
   C09_result_once is "at most once".  "At least once" - a query that left the pool was handed out -
   holds as long as next_id has not wrapped, i.e. for the first 2^64 adds: then the ids returned by
   add are 0, 1, ..., adds-1, each once (a); a query that is in the pool was added once and has not
   been handed out; a query that is not in the pool was handed out exactly as often as it was added
   (b), that is exactly once if it was added at all (c: C09_result_exactly_once_c). *)
Theorem C09_result_exactly_once :
  forall timeout evs p os,
    prun evs (pool_new timeout) = Some (p, os) ->
    N.of_nat (length (filter is_add_event evs)) <= USIZE ->
    forall i,
      count_out (is_added i) os = (if i <? N.of_nat (length (filter is_add_event evs)) then 1%nat else 0%nat) /\
      (In i (ids (queries p)) -> count_out (is_added i) os = 1%nat /\ count_out (is_terminal i) os = 0%nat) /\
      (~ In i (ids (queries p)) -> count_out (is_terminal i) os = count_out (is_added i) os).
Proof. exact result_exactly_once. Qed.
Print Assumptions C09_result_exactly_once.

Theorem C09_added_at_most_once :
  forall timeout evs p os i,
    prun evs (pool_new timeout) = Some (p, os) ->
    N.of_nat (length (filter is_add_event evs)) <= USIZE ->
    (count_out (is_added i) os <= 1)%nat.
Proof. exact added_at_most_once. Qed.
Print Assumptions C09_added_at_most_once.

Theorem C09_result_exactly_once_c :
  forall timeout evs p os i,
    prun evs (pool_new timeout) = Some (p, os) ->
    N.of_nat (length (filter is_add_event evs)) <= USIZE ->
    (0 < count_out (is_added i) os)%nat ->
    (In i (ids (queries p)) -> count_out (is_terminal i) os = 0%nat) /\
    (~ In i (ids (queries p)) -> count_out (is_terminal i) os = 1%nat).
Proof. exact result_exactly_once_c. Qed.
Print Assumptions C09_result_exactly_once_c.

(* Non-vacuity: two queries added, one timed out and handed out once, the other still in the pool. *)
Example C09_result_exactly_once_instance :
  exists timeout evs p os,
    prun evs (pool_new timeout) = Some (p, os) /\
    N.of_nat (length (filter is_add_event evs)) <= USIZE /\
    ids (queries p) = [1] /\
    count_out (is_added 0) os = 1%nat /\ count_out (is_terminal 0) os = 1%nat /\
    count_out (is_added 1) os = 1%nat /\ count_out (is_terminal 1) os = 0%nat.
Proof.
  exists 100, [PAdd KFindNode {| parallelism := 1; num_results := 2; peer_timeout := 1000 |} 0 [(5, true)];
               PPoll 7 [0];
               PAdd KFindNode {| parallelism := 1; num_results := 2; peer_timeout := 1000 |} 9 [(6, true)];
               PPoll 200 [0]].
  eexists. eexists. split; [vm_compute; reflexivity|]. split; [vm_compute; discriminate|].
  repeat split; vm_compute; reflexivity.
Qed.
Print Assumptions C09_result_exactly_once_instance.

(* Without the bound on the number of adds "at least once" is false of the code: next_id wraps
   (wrapping_add) and the 2^64+1-th add returns id 0 again; if query 0 is still in the pool,
   HashMap::insert replaces it and its result is never handed out.  The 2^64-event witness is not
   built; the mechanism is this fact about one add in an arbitrary pool state (reachable or not): an
   add whose id is that of a live query replaces that query, and an add at 2^64-1 wraps next_id. *)
Theorem C09_add_replaces_live_query :
  forall p x k c t known,
    q_find (next_id p) (queries p) = Some x ->
    let (p', id) := pool_add p k c t known in
    id = next_id p /\
    ids (queries p') = ids (queries p) /\
    q_find id (queries p') = Some {| qiter := with_config k c t known; started := None |} /\
    (forall j, j <> id -> q_find j (queries p') = q_find j (queries p)).
Proof. exact pool_add_replaces_live. Qed.
Print Assumptions C09_add_replaces_live_query.

Theorem C09_next_id_wraps :
  forall p k c t known, next_id p = USIZE - 1 -> next_id (fst (pool_add p k c t known)) = 0.
Proof. exact pool_add_wraps. Qed.
Print Assumptions C09_next_id_wraps.

(* ---- "every lookup terminates ... or is cut off by the query timeout": un-started queries ----
   C09_pool_drains needs a query that has been started; add creates it with started = None.  One
   poll: if poll has nothing to report (Idle / Waiting(None)) then it has visited every query, and
   every query left in the pool has a start time - the one it had before, else the time of this
   poll; any other outcome strictly decreases the weight of the pool. *)
Theorem C09_poll_starts_or_progresses :
  forall timeout evs p os0 now order p' out,
    prun evs (pool_new timeout) = Some (p, os0) ->
    pool_poll p now order = Some (p', out) ->
    match out with
    | PIdle | PWaiting None =>
      forall i x', q_find i (queries p') = Some x' ->
        exists x, q_find i (queries p) = Some x /\
                  started x' = Some (match started x with Some s => s | None => now end)
    | PWaiting (Some _) | PFinished _ _ | PTimeout _ _ => mu (queries p') < mu (queries p)
    end.
Proof.
  intros timeout evs p os0 now order p' out R.
  apply poll_starts_or_progresses. apply (prun_inv _ _ _ _ (pool_new_inv timeout) R).
Qed.
Print Assumptions C09_poll_starts_or_progresses.

(* Hence every query leaves the pool, started or not, when the pool is polled by a clock that does
   not run backwards: T bounds the start times recorded so far and the times of a first list of
   polls, longer than the weight of the pool (they start every query that is not removed); a second
   list of polls, again longer than the weight, comes at least the query timeout after T.  After
   them no query of the pool is left (each was handed out: C09_result_exactly_once).  The iteration
   orders are arbitrary. *)
Theorem C09_pool_drains_unstarted :
  forall timeout evs p os0 l1 l2 p' os T i,
    prun evs (pool_new timeout) = Some (p, os0) ->
    (forall j x s, q_find j (queries p) = Some x -> started x = Some s -> s <= T) ->
    (forall no, In no l1 -> fst no <= T) ->
    (forall no, In no l2 -> T + query_timeout p <= fst no) ->
    prun (polls (l1 ++ l2)) p = Some (p', os) ->
    mu (queries p) < N.of_nat (length l1) ->
    mu (queries p) < N.of_nat (length l2) ->
    q_find i (queries p') = None.
Proof.
  intros timeout evs p os0 l1 l2 p' os T i R. apply pool_drains_unstarted.
  apply (prun_inv _ _ _ _ (pool_new_inv timeout) R).
Qed.
Print Assumptions C09_pool_drains_unstarted.

Theorem C09_pool_empties :
  forall timeout evs p os0 l1 l2 p' os T,
    prun evs (pool_new timeout) = Some (p, os0) ->
    (forall j x s, q_find j (queries p) = Some x -> started x = Some s -> s <= T) ->
    (forall no, In no l1 -> fst no <= T) ->
    (forall no, In no l2 -> T + query_timeout p <= fst no) ->
    prun (polls (l1 ++ l2)) p = Some (p', os) ->
    mu (queries p) < N.of_nat (length l1) ->
    mu (queries p) < N.of_nat (length l2) ->
    queries p' = [].
Proof.
  intros timeout evs p os0 l1 l2 p' os T R. apply pool_empties_unstarted.
  apply (prun_inv _ _ _ _ (pool_new_inv timeout) R).
Qed.
Print Assumptions C09_pool_empties.

(* Non-vacuity: a pool with a query started at time 3 and a query that was never polled
   (started = None); four polls at time 7 and four polls at time 200 >= 7 + 100 drain it. *)
Example C09_drain_unstarted_instance :
  exists timeout evs p os0 l1 l2 T i x,
    prun evs (pool_new timeout) = Some (p, os0) /\
    q_find i (queries p) = Some x /\ started x = None /\
    (forall j x s, q_find j (queries p) = Some x -> started x = Some s -> s <= T) /\
    (forall no, In no l1 -> fst no <= T) /\
    (forall no, In no l2 -> T + query_timeout p <= fst no) /\
    mu (queries p) < N.of_nat (length l1) /\ mu (queries p) < N.of_nat (length l2) /\
    exists p' os, prun (polls (l1 ++ l2)) p = Some (p', os) /\ queries p' = [].
Proof.
  exists 100, [PAdd KFindNode {| parallelism := 1; num_results := 2; peer_timeout := 1000 |} 0 [(5, true)];
               PPoll 3 [0];
               PAdd KFindNode {| parallelism := 1; num_results := 2; peer_timeout := 1000 |} 9 [(6, true)]].
  eexists. eexists. exists [(7, []); (7, [1]); (7, []); (7, [])], [(200, []); (200, []); (200, [0]); (200, [])], 7, 1.
  eexists.
  split; [vm_compute; reflexivity|]. split; [vm_compute; reflexivity|]. split; [reflexivity|].
  split.
  { intros j x s F St. cbn [queries q_find] in F.
    destruct (j =? 0); [inversion F; subst; cbn in St; inversion St; subst; vm_compute; discriminate|].
    destruct (j =? 1); [inversion F; subst; discriminate|discriminate]. }
  split; [intros no [<-|[<-|[<-|[<-|[]]]]]; vm_compute; discriminate|].
  split; [intros no [<-|[<-|[<-|[<-|[]]]]]; vm_compute; discriminate|].
  split; [vm_compute; reflexivity|]. split; [vm_compute; reflexivity|].
  eexists. eexists. split; vm_compute; reflexivity.
Qed.
Print Assumptions C09_drain_unstarted_instance.

(* Configuration plumbing (Model/Config.v, transcribing ConfigBuilder, Config, Discv5::new / Discv5::start,
   tied to the code by the `glue` correspondence run on real loopback sockets): the parameters the theorems
   above take as given are the ones the application configured - the value set last through the builder,
   or the default - at every component they are handed to. *)
Require Discv5V.Generated.Params Discv5V.Model.Config Discv5V.Proofs.Config.
Theorem C09_configured_query_timeout_reaches_the_service : forall ops v, Discv5V.Model.Config.start_node ops = Some v ->
  Discv5V.Model.Config.VN (Discv5V.Model.Config.c_query_timeout (Discv5V.Model.Config.nv_built v)) = Discv5V.Model.Config.configured ops Discv5V.Model.Config.FQueryTimeout /\
  Discv5V.Model.Config.VN (Discv5V.Model.Config.c_query_timeout (Discv5V.Model.Config.nv_service v)) = Discv5V.Model.Config.configured ops Discv5V.Model.Config.FQueryTimeout /\
  Discv5V.Model.Config.VN (Discv5V.Model.Config.c_query_timeout (Discv5V.Model.Config.nv_handler v)) = Discv5V.Model.Config.configured ops Discv5V.Model.Config.FQueryTimeout.
Proof. exact Discv5V.Proofs.Config.effective_query_timeout. Qed.
Print Assumptions C09_configured_query_timeout_reaches_the_service.
Theorem C09_configuration_example : exists v, Discv5V.Model.Config.start_node Discv5V.Proofs.Config.example_ops = Some v.
Proof. destruct Discv5V.Proofs.Config.example_starts as [v [H _]]. exists v. exact H. Qed.
Print Assumptions C09_configuration_example.
