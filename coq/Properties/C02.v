(* C02 - Delivered messages are authentic and untampered.
   Statements about Model/Handler.v (validated against the real handler by the correspondence run of
   ./check C02).  Symbolic AEAD: [CEnc k n m a] decrypts only under key k with nonce n and authenticated
   data a (= the datagram's IV and unmasked header, interned: C05 proves aad = received header bytes and
   that any change of a datagram changes (aad, body)); a mutated ciphertext or tag is [CJunk].
   Every theorem is closed by [exact] of a lemma of Proofs/HandlerB_*.v.
   [tick c h now d]: the state after the implicit tick of the step; the step (tick and handler) runs with
   the clock of the environment set to [now] ([with_clock c now]).  Sessions expire: the lookup of the
   session (LruTimeCache::get_mut) removes a session that has been idle for longer than
   [cfg_session_ttl] and finds nothing, otherwise it stamps the session with [now] ([s_used]). *)
From Coq Require Import List NArith Bool.
From Discv5V Require Import Model.Handler Proofs.HandlerB_Base Proofs.HandlerB_Frame Proofs.HandlerB_Session
  Proofs.HandlerB_Auth Proofs.HandlerB_Step Proofs.HandlerB_Examples.
Import ListNotations.
Local Open Scope N_scope.

(* delivered_is_sent: a Request or Response handed to the application by a message packet is attributed
   to exactly (src, from) - the id in the packet's header and the datagram's source address - and is
   byte for byte the plaintext m of the packet's body [CEnc k n m aad], where k is a decryption key
   (current, or the previous one kept across a re-key) of the session stored under exactly (src, from),
   n is the packet's own nonce and aad its own authenticated data.
   This is the necessary condition of the property.  The code demands more - the stored session must
   not have expired at the time of the step, otherwise the lookup removes it and the packet is answered
   with WhoAreYou exactly as in C02_other_address_other_session -; the repaired lemmas do not state
   that extra condition, which only makes delivery rarer. *)
Theorem C02_delivered_is_sent_request :
  forall c h from src n aad ct now d h' out na rid body,
  step c h (EvInbound from (PMsg src n aad ct)) now d = (h', out) ->
  In (OEvent (HRequest na rid body)) out ->
  na = (src, from) /\
  exists se k, alist_get (src, from) (sessions (hs (tick c h now d))) = Some se /\
    (k = s_dec se \/ exists oe, s_old se = Some (oe, k)) /\ ct = CEnc k n (MReq rid body) aad.
Proof. exact request_delivered. Qed.
Print Assumptions C02_delivered_is_sent_request.

Theorem C02_delivered_is_sent_response :
  forall c h from src n aad ct now d h' out na rid rb,
  step c h (EvInbound from (PMsg src n aad ct)) now d = (h', out) ->
  In (OEvent (HResponse na rid rb)) out ->
  na = (src, from) /\
  exists se k, alist_get (src, from) (sessions (hs (tick c h now d))) = Some se /\
    (k = s_dec se \/ exists oe, s_old se = Some (oe, k)) /\ ct = CEnc k n (MResp rid rb) aad.
Proof. exact response_delivered. Qed.
Print Assumptions C02_delivered_is_sent_response.

(* every output of the step, classified: a datagram, RequestFailed or ExpiredSessions (the addresses of
   sessions purged because they had expired: fail_session purges before it removes) - [quiet_out] -, or
   WhoAreYou for exactly (src, from), or a Request / Response / Established(Outgoing) / UnverifiableEnr
   for (src, from) that needs a delivered message - [msg_out_ok] (Established(Outgoing) /
   UnverifiableEnr after the ENR request of an outgoing session need a delivered response) *)
Theorem C02_message_step_outputs :
  forall c h from src n aad ct now d h' out o,
  step c h (EvInbound from (PMsg src n aad ct)) now d = (h', out) -> In o out ->
  quiet_out o \/ msg_out_ok (hs (tick c h now d)) (src, from) n aad ct o.
Proof. exact delivered_needs_session. Qed.
Print Assumptions C02_message_step_outputs.

(* ... and that key was derived for src (C01_session_origin), in every state satisfying the invariant *)
Theorem C02_delivered_under_peer_key :
  forall c h from src n aad ct now d h' out o,
  KeyInv c h ->
  step c h (EvInbound from (PMsg src n aad ct)) now d = (h', out) -> In o out -> attributing o ->
  exists k m, ct = CEnc k n m aad /\ key_for c src k.
Proof. exact delivered_under_key_for. Qed.
Print Assumptions C02_delivered_under_peer_key.

Theorem C02_key_invariant_reachable : forall c evs, KeyInv c (fst (run c init_state evs)).
Proof. exact session_origin. Qed.
Print Assumptions C02_key_invariant_reachable.

(* tamper_rejected: anything attributed to a remote node needs a body that is a genuine ciphertext for
   exactly this packet's nonce and authenticated data.  A body encrypted for another nonce or other
   authenticated data (nonce, IV or any header byte changed; body spliced into another datagram), or a
   ciphertext / tag that was flipped, truncated or extended ([CJunk]), delivers nothing: the step emits
   WhoAreYou, RequestFailed, ExpiredSessions or nothing ([attributing]: Established, Request, Response,
   UnverifiableEnr - the outputs that attribute something to a remote node). *)
Theorem C02_tamper_rejected :
  forall c h from src n aad ct now d h' out o,
  step c h (EvInbound from (PMsg src n aad ct)) now d = (h', out) -> In o out -> attributing o ->
  exists k m, ct = CEnc k n m aad.
Proof. exact tamper_rejected. Qed.
Print Assumptions C02_tamper_rejected.

Theorem C02_tamper_rejected_cases :
  forall c h from src n aad ct now d h' out o,
  step c h (EvInbound from (PMsg src n aad ct)) now d = (h', out) -> In o out ->
  (exists j, ct = CJunk j) \/ (exists k n' m a', ct = CEnc k n' m a' /\ (n' <> n \/ a' <> aad)) ->
  ~ attributing o.
Proof. exact tamper_rejected_cases. Qed.
Print Assumptions C02_tamper_rejected_cases.

(* other_address_other_session: the session consulted is the one stored under exactly (src, from).  A
   datagram redirected to present another source address or another node id, for which no session is
   stored, delivers nothing - whatever sessions exist under other addresses.  (The other case in which
   the lookup finds nothing - a session is stored under (src, from) but has expired - is not covered by
   a lemma of the repaired proof files; C02_delivered_is_sent_* still apply to it.) *)
Theorem C02_other_address_other_session :
  forall c h from src n aad ct now d h' out o,
  step c h (EvInbound from (PMsg src n aad ct)) now d = (h', out) ->
  alist_get (src, from) (sessions (hs (tick c h now d))) = None ->
  In o out -> ~ attributing o.
Proof. exact other_address_other_session. Qed.
Print Assumptions C02_other_address_other_session.

(* a message packet never creates or re-keys a session (it may remove the one it looks up, if that has
   expired, and it renews the time stamp of a live one, which [SessD] ignores) *)
Theorem C02_message_never_creates_session :
  forall c h from src n aad ct now d,
  let h' := fst (step c h (EvInbound from (PMsg src n aad ct)) now d) in
  SessD h h' /\ incl (map fst (sessions h')) (map fst (sessions h)).
Proof. exact message_never_creates_session. Qed.
Print Assumptions C02_message_never_creates_session.

(* ------------------------------------------------------------------------------------------ *)
(* examples: a genuine request is delivered; the same ciphertext under another nonce or from another
   address is answered with WHOAREYOU only *)
(* the session was last used at time 13; the access at time 14 finds it alive (ttl 1000000) and stamps it
   with 14 - the only change of the state *)
Example C02_example_delivery :
  step ex_cfg h_session (EvInbound 100 pkt_request) 14 nod =
    (set_sessions h_session
       [((7, 100), {| s_enc := mk_key 3 1 5 7 1 true; s_dec := kd7; s_old := None; s_await := None;
                      s_counter := 1; s_used := 14 |})],
     [OEvent (HRequest (7, 100) 10 0)]) /\
  alist_get (7, 100) (sessions h_session) =
    Some {| s_enc := mk_key 3 1 5 7 1 true; s_dec := kd7; s_old := None; s_await := None; s_counter := 1;
            s_used := 13 |}.
Proof. split; [exact request_step | exact h_session_has_session]. Qed.
Print Assumptions C02_example_delivery.

Example C02_example_tampered :
  snd (step ex_cfg h_session (EvInbound 100 (PMsg 7 (3, 4) 53 (CEnc kd7 (3, 3) (MReq 10 0) 53))) 14 nod) =
    [OEvent (HWhoAreYou (7, 100) (3, 4))] /\
  snd (step ex_cfg h_session (EvInbound 102 pkt_request) 14 nod) = [OEvent (HWhoAreYou (7, 102) (3, 3))].
Proof. split; [exact request_step_tampered_nonce | exact request_step_other_address]. Qed.
Print Assumptions C02_example_tampered.

(* The record the service vouches for when the handler asks who a packet's sender is (Service::find_enr,
   Model/Admission.v find_enr, compared with the real service on generated who-are-you queries): its id is
   the id asked for, the routing table's record takes precedence over whatever a running lookup was told,
   and an id known to neither gets no record. *)
Require Discv5V.Model.KBucket Discv5V.Model.Nodes Discv5V.Model.Admission Discv5V.Proofs.Admission.
Module C02FindEnr.
Import Discv5V.Model.KBucket Discv5V.Model.Nodes Discv5V.Model.Admission.
Theorem C02_service_vouches_only_with_a_record_of_the_id_asked_for :
  forall (rec_of : N -> enr) (tf : enr -> bool) (mode : ip_mode) (c : config) (t : table)
         (u : list enr) (id now : N) (e : enr),
  Discv5V.Proofs.Admission.Adm rec_of tf mode t ->
  snd (find_enr rec_of c t u id now) = Some e -> e_id e = id.
Proof. exact Discv5V.Proofs.Admission.find_enr_id. Qed.
Print Assumptions C02_service_vouches_only_with_a_record_of_the_id_asked_for.
Theorem C02_stored_record_takes_precedence_over_lookup_hearsay :
  forall (rec_of : N -> enr) (c : config) (t : table) (u u' : list enr) (id now : N) (e : enr),
  present_rec rec_of (fst (t_entry c t id ALook now)) id = Some e ->
  snd (find_enr rec_of c t u id now) = snd (find_enr rec_of c t u' id now).
Proof. exact Discv5V.Proofs.Admission.find_enr_table_first_any_queries. Qed.
Print Assumptions C02_stored_record_takes_precedence_over_lookup_hearsay.
Theorem C02_no_record_for_an_unknown_id :
  forall (rec_of : N -> enr) (c : config) (t : table) (u : list enr) (id now : N),
  present_rec rec_of (fst (t_entry c t id ALook now)) id = None ->
  (forall e : enr, In e u -> e_id e <> id) ->
  snd (find_enr rec_of c t u id now) = None.
Proof. exact Discv5V.Proofs.Admission.find_enr_unknown. Qed.
Print Assumptions C02_no_record_for_an_unknown_id.
End C02FindEnr.

(* The receive task in front of the handler (RecvHandler::handle_inbound, Model/Limiter.v recv_inbound,
   compared with the real task through the virtual handler on generated datagrams): *)
Require Discv5V.Model.Limiter Discv5V.Proofs.Limiter.
Module C02Recv.
Import Discv5V.Model.Limiter.
Theorem C02_receive_task_forwards_the_datagram_source : forall (f : pfilter) (p : pbl) (expected : list saddr) (src : saddr) (packet : option pkind) (now : N),
  let fwd := snd (recv_inbound f p expected src packet now) in
  fwd = normalise_src src /\ sa_ip fwd = sa_ip src /\ sa_port fwd = sa_port src /\ sa_flow fwd = 0%N /\ sa_scope fwd = 0%N.
Proof. exact Discv5V.Proofs.Limiter.inbound_forwards_normalised_source. Qed.
Print Assumptions C02_receive_task_forwards_the_datagram_source.
End C02Recv.
