(* C01 - Handshake proves node identity.
   Statements about Model/Handler.v (validated against src/handler/{mod,session,active_requests}.rs by
   the correspondence run of ./check C01).  Every theorem is closed by [exact] of a lemma proved in
   Proofs/HandlerB_*.v and followed by Print Assumptions.  See DESIGN.md section 6 (Handler model).

   Symbolic setting: a public key is named by the node id it hashes to; [Sig k cd eph dst] verifies only
   under key k for exactly (cd, eph, dst).  "A party that lacks X's secret key" = no term [Sig X ...]
   in its packets; the theorems say what an effect REQUIRES of the step's input.

   Sessions expire (LruTimeCache): a session carries the time of its last use ([s_used]); [step c h e now d]
   runs with the clock of the environment set to the time of the step ([with_clock c now]: the component
   [cfg_clock] of the [c] passed to [step] is overwritten, never read), and an access to a session that
   has been idle for longer than [cfg_session_ttl] removes it and finds nothing.  [tick c h now d] is the
   state after the implicit tick of the step (expired timers fired, each under the clock of its fire time).
   Expiry only ever REMOVES sessions and reports their addresses (HandlerOut::ExpiredSessions, an output
   that names no remote record, request or response): it is on the safe side of every statement below. *)
From Coq Require Import List NArith Bool.
From Discv5V Require Import Model.Handler Proofs.HandlerB_Base Proofs.HandlerB_Frame Proofs.HandlerB_Session
  Proofs.HandlerB_Auth Proofs.HandlerB_Step Proofs.HandlerB_Examples.
Import ListNotations.
Local Open Scope N_scope.

(* Session::establish_from_challenge with the repair of D1: success means the reported record carries
   the claimed id and the id-signature is the claimed id's signature over exactly this challenge data,
   this ephemeral key and this node's id.  [ch_enr ch] is the record the service passed with
   HandlerOut::WhoAreYou; the service looks it up under the claimed node id (ChallOK below). *)
Theorem C01_establish_binds_id :
  forall c remote ch sg eph eph_ok rec se e,
  fix_d1 c = true ->
  (forall known, ch_enr ch = Some known -> e_id known = remote) ->
  establish c remote ch sg eph eph_ok rec = EstOk se e ->
  e_id e = remote /\ sg = Sig remote (ch_cd ch) eph (cfg_local c) /\ eph_ok = true.
Proof. exact establish_binds_id. Qed.
Print Assumptions C01_establish_binds_id.

(* Pinned tree (D1): the attached record is used without comparing its id with the claimed id - a
   handshake claiming id 7, signed by node 9's key and carrying node 9's record, establishes a session
   keyed to id 7.  Kept as the record of the finding. *)
Theorem C01_establish_pinned_refuted :
  exists c remote ch sg eph rec se e,
    fix_d1 c = false /\
    (forall known, ch_enr ch = Some known -> e_id known = remote) /\
    establish c remote ch sg eph true (Some rec) = EstOk se e /\
    e_id e <> remote /\ (forall cd eph' dst, sg <> Sig remote cd eph' dst) /\
    k_ida (s_dec se) = remote.
Proof. exact establish_pinned_refuted. Qed.
Print Assumptions C01_establish_pinned_refuted.

(* The challenge table: every stored challenge remembers a record of the node it was sent to, and
   there is at most one challenge per node address - invariant of every step with well-formed events
   ([ev_wf]: the record passed with EvWhoAreYou carries the node id of the node address). *)
Theorem C01_challenge_table_invariant :
  forall c h e now d, ev_wf e -> ChallOK h /\ ChallUniq h ->
  ChallOK (fst (step c h e now d)) /\ ChallUniq (fst (step c h e now d)).
Proof. exact step_ChallInv. Qed.
Print Assumptions C01_challenge_table_invariant.

Theorem C01_challenge_table_reachable :
  forall c evs, evs_wf evs ->
  ChallOK (fst (run c init_state evs)) /\ ChallUniq (fst (run c init_state evs)).
Proof. exact run_ChallInv. Qed.
Print Assumptions C01_challenge_table_reachable.

(* incoming_identity.  If the step that processes a handshake packet claiming id [src] from address
   [from] reports anything attributed to a remote node (Established, UnverifiableEnr, Request,
   Response - [attributing]) or creates / re-keys any session ([session_changed]: some session of the
   new state holds a key that no session under that address held before), then a WHOAREYOU sent by
   this node to exactly (src, from) was outstanding before the step and the packet's id-signature is
   the signature of src's key over that challenge's data, the packet's ephemeral key and this node's id. *)
Theorem C01_incoming_identity :
  forall c h from src n aad sg eph eph_ok rec ct now d h' out,
  fixed_cfg c -> ChallOK h ->
  step c h (EvInbound from (PHs src n aad sg eph eph_ok rec ct)) now d = (h', out) ->
  (exists o, In o out /\ attributing o) \/ session_changed h h' ->
  exists ch deadline,
    In ((src, from), ch, deadline) (challenges h) /\
    sg = Sig src (ch_cd ch) eph (cfg_local c) /\ eph_ok = true.
Proof. intros c h from src n aad sg eph ok rec ct now d h' out [H _]. apply incoming_identity. exact H. Qed.
Print Assumptions C01_incoming_identity.

(* ... and what is reported is about that node: Established(Incoming) carries a record whose id is
   src, at the packet's source address; UnverifiableEnr names src. *)
Theorem C01_incoming_established_id :
  forall c h from src n aad sg eph eph_ok rec ct now d h' out e a nid,
  fix_d1 c = true -> ChallOK h ->
  step c h (EvInbound from (PHs src n aad sg eph eph_ok rec ct)) now d = (h', out) ->
  In (OEvent (HEstablished e a true)) out \/ In (OEvent (HUnverifiable e a nid)) out ->
  a = from /\ (In (OEvent (HUnverifiable e a nid)) out -> nid = src) /\
  (In (OEvent (HEstablished e a true)) out -> e_id e = src).
Proof. exact incoming_established_id. Qed.
Print Assumptions C01_incoming_established_id.

(* no_key_no_effect: without a signature term of src's key the packet has none of the effects,
   whatever node record, nonce, ephemeral key or source address it presents. *)
Theorem C01_no_key_no_effect :
  forall c h from src n aad sg eph eph_ok rec ct now d h' out,
  fix_d1 c = true -> ChallOK h ->
  step c h (EvInbound from (PHs src n aad sg eph eph_ok rec ct)) now d = (h', out) ->
  (forall cd e dst, sg <> Sig src cd e dst) ->
  (forall o, In o out -> ~ attributing o) /\ ~ session_changed h h'.
Proof. exact no_key_no_effect. Qed.
Print Assumptions C01_no_key_no_effect.

(* Only inbound WHOAREYOU and handshake packets create or re-key sessions: for every other event every
   session of the new state descends from one under the same node address (no new key, counter not
   smaller; [SessD] ignores the time stamp [s_used], which every access renews).  Sessions may
   disappear - evicted, failed, or expired and purged -, they never appear.  In particular an ordinary
   message packet never creates a session. *)
Theorem C01_only_handshakes_create_sessions :
  forall c h e now d, creates_sessions e = false -> SessD h (fst (step c h e now d)).
Proof. exact only_handshakes_create_sessions. Qed.
Print Assumptions C01_only_handshakes_create_sessions.

Theorem C01_message_never_creates_session :
  forall c h from src n aad ct now d,
  let h' := fst (step c h (EvInbound from (PMsg src n aad ct)) now d) in
  SessD h h' /\ incl (map fst (sessions h')) (map fst (sessions h)).
Proof. exact message_never_creates_session. Qed.
Print Assumptions C01_message_never_creates_session.

(* delivered_needs_session: whatever a message packet claiming (src, from) makes the handler report is
   either a datagram / RequestFailed / ExpiredSessions (the report of purged sessions) - [quiet_out] -,
   or WhoAreYou for exactly (src, from), or it is attributed to
   exactly (src, from) and the packet's body is [CEnc k n m aad] for a decryption key k (current or
   previous) of the session stored under (src, from) after the implicit tick, with the packet's own
   nonce and authenticated data, and the reported message is m ([msg_out_ok], [Delivered]).
   The statement gives the necessary condition "a session with that key is stored".  The code demands
   more: the stored session must not have expired (idle for longer than the session timeout at the time
   of the step) - the lookup removes an expired session and the packet is answered with WhoAreYou like a
   packet without session.  That stronger reading is not needed for C01 and is not stated here. *)
Theorem C01_delivered_needs_session :
  forall c h from src n aad ct now d h' out o,
  step c h (EvInbound from (PMsg src n aad ct)) now d = (h', out) -> In o out ->
  quiet_out o \/ msg_out_ok (hs (tick c h now d)) (src, from) n aad ct o.
Proof. exact delivered_needs_session. Qed.
Print Assumptions C01_delivered_needs_session.

Theorem C01_request_needs_session :
  forall c h from src n aad ct now d h' out na rid body,
  step c h (EvInbound from (PMsg src n aad ct)) now d = (h', out) ->
  In (OEvent (HRequest na rid body)) out ->
  na = (src, from) /\
  exists se k, alist_get (src, from) (sessions (hs (tick c h now d))) = Some se /\
    (k = s_dec se \/ exists oe, s_old se = Some (oe, k)) /\ ct = CEnc k n (MReq rid body) aad.
Proof. exact request_delivered. Qed.
Print Assumptions C01_request_needs_session.

(* session_origin: in every reachable state every key (current or previous) of a session stored under
   (X, a) was derived either with this node's static key for a handshake claimed by X and accepted by
   establish (recipient side), or with X's static key when this node answered a WHOAREYOU for a
   request addressed to X (initiator side) - [key_for c X k]. *)
Theorem C01_session_origin :
  forall c evs na se k,
  In (na, se) (sessions (fst (run c init_state evs))) -> In k (sess_keys se) -> key_for c (fst na) k.
Proof. intros c evs na se k H1 H2. exact (session_origin c evs na se H1 k H2). Qed.
Print Assumptions C01_session_origin.

(* how sessions change in one step: they descend from the previous ones, or the step is an accepted
   handshake (establish returned EstOk for the outstanding challenge of (src, from): by
   C01_establish_binds_id that needs src's signature) or an answered WHOAREYOU, and the new keys have
   the corresponding shape.  [SessN na se h h']: every session of h' descends from one of h under the
   same address, except that a session under [na] may additionally hold the keys of [se] (re-key of a
   live session: Session::update) or be a new object descending from [se] - there was no session under
   [na], or the one there had expired and was purged by new_session before the lookup.  In both cases the
   only new keys in the state are those of [se], under [na]. *)
Theorem C01_step_sessions :
  forall c h e now d,
  let h' := fst (step c h e now d) in
  SessD h h' \/
  exists na se, SessN na se h h' /\ s_counter se = 0 /\ s_old se = None /\
    exists eph cd,
      (s_dec se = mk_key eph (cfg_local c) cd (fst na) (cfg_local c) false /\
       s_enc se = mk_key eph (cfg_local c) cd (fst na) (cfg_local c) true /\
       exists from src n aad sg ok rec ct ch,
         e = EvInbound from (PHs src n aad sg eph ok rec ct) /\ na = (src, from) /\
         chall_get na (challenges (hs (tick c h now d))) = Some ch /\ cd = ch_cd ch /\
         exists e0, establish c src ch sg eph ok rec = EstOk se e0)
      \/
      (s_enc se = mk_key eph (fst na) cd (cfg_local c) (fst na) false /\
       s_dec se = mk_key eph (fst na) cd (cfg_local c) (fst na) true /\
       exists from n idn seq, e = EvInbound from (PWho n idn seq cd)).
Proof. exact step_sessions. Qed.
Print Assumptions C01_step_sessions.

(* outgoing direction (outgoing_needs_x_key): anything a message packet makes the handler attribute to
   (X, a) was encrypted under a key derived for X *)
Theorem C01_delivered_under_key_for :
  forall c h from src n aad ct now d h' out o,
  KeyInv c h ->
  step c h (EvInbound from (PMsg src n aad ct)) now d = (h', out) -> In o out -> attributing o ->
  exists k m, ct = CEnc k n m aad /\ key_for c src k.
Proof. exact delivered_under_key_for. Qed.
Print Assumptions C01_delivered_under_key_for.

(* ------------------------------------------------------------------------------------------ *)
(* the remaining events (Proofs/HandlerB_Who.v): completeness of the case analysis *)
From Discv5V Require Import Proofs.HandlerB_Who.

(* An inbound WHOAREYOU can attribute only one thing: Established for the record of the contact of the
   request in flight (to the packet's source address) whose nonce it echoes - a contact the application
   itself addressed; the session installed is keyed with that contact's public key (C01_step_sessions,
   initiator shape).  Established(Outgoing) is emitted before key confirmation by protocol design. *)
Theorem C01_whoareyou_attributes_contact :
  forall c h from n idn seq cd now d h' out o,
  step c h (EvInbound from (PWho n idn seq cd)) now d = (h', out) -> In o out -> attributing o ->
  exists na r e, snd (ar_remove_by_nonce (hs (tick c h now d)) n) = Some (na, r) /\ snd na = from /\
    c_enr (rc_contact r) = Some e /\
    o = OEvent (HEstablished e (c_addr (rc_contact r)) (negb (rc_init r))).
Proof. exact whoareyou_attributes_contact. Qed.
Print Assumptions C01_whoareyou_attributes_contact.

(* application events and timer ticks attribute nothing: datagrams, RequestFailed and ExpiredSessions
   (the addresses of purged sessions) only - [quiet_out] *)
Theorem C01_local_events_attribute_nothing :
  forall c h e now d o,
  local_event e = true -> In o (snd (step c h e now d)) -> quiet_out o.
Proof. exact local_events_attribute_nothing. Qed.
Print Assumptions C01_local_events_attribute_nothing.

(* ------------------------------------------------------------------------------------------ *)
(* the hypotheses are satisfiable: a completed incoming handshake (Proofs/HandlerB_Examples.v) *)
Example C01_example_incoming_handshake :
  fixed_cfg ex_cfg /\ ChallOK h_challenged /\
  step ex_cfg h_challenged (EvInbound 100 pkt_handshake) 12 nod =
    (fst (run ex_cfg init_state [ev_unknown; ev_whoareyou; ev_handshake]),
     [OEvent (HEstablished enr7 100 true); OEvent (HRequest (7, 100) 9 0)]) /\
  (exists o, In o [OEvent (HEstablished enr7 100 true); OEvent (HRequest (7, 100) 9 0)] /\ attributing o).
Proof.
  split; [exact ex_cfg_fixed | split; [exact (proj1 h_challenged_ChallOK) | split]].
  - exact handshake_step.
  - exact handshake_step_attributes.
Qed.
Print Assumptions C01_example_incoming_handshake.

(* a request under the session's key is delivered; the only change of the state is the time stamp of
   the session: stored with the time 13 of its last use (the response sent at 13), the access at time 14
   finds it alive (ttl 1000000) and stamps it with 14 *)
Example C01_example_session_delivers :
  alist_get (7, 100) (sessions h_session) =
    Some {| s_enc := mk_key 3 1 5 7 1 true; s_dec := kd7; s_old := None; s_await := None; s_counter := 1;
            s_used := 13 |} /\
  step ex_cfg h_session (EvInbound 100 pkt_request) 14 nod =
    (set_sessions h_session
       [((7, 100), {| s_enc := mk_key 3 1 5 7 1 true; s_dec := kd7; s_old := None; s_await := None;
                      s_counter := 1; s_used := 14 |})],
     [OEvent (HRequest (7, 100) 10 0)]).
Proof. split; [exact h_session_has_session | exact request_step]. Qed.
Print Assumptions C01_example_session_delivers.

(* Routing-table level: whatever sequence of table operations runs, every stored record (pending slot
   included) sits under the id it belongs to, as long as every operation offers records under their own
   ids (Proofs/KBucketGap.v; the `kb --focus rec` monitors state the same of the real table). *)
Require Discv5V.Model.KBucket Discv5V.Proofs.KBMembers Discv5V.Proofs.KBucketGap.
Module C01Table.
Import Discv5V.Model.KBucket.
Theorem C01_table_records_sit_under_their_own_ids : forall (owner : N -> N) fixed c loc ops,
  Forall (fun o => forall k v, In (k, v) (Discv5V.Proofs.KBucketGap.offered (fst o)) -> owner (vid v) = k) ops ->
  forall k v, In (k, v) (Discv5V.Proofs.KBMembers.tmem (fst (run fixed c (new_table loc) ops))) -> owner (vid v) = k.
Proof. exact Discv5V.Proofs.KBucketGap.values_keyed_reachable. Qed.
Print Assumptions C01_table_records_sit_under_their_own_ids.
End C01Table.

(* The record the service vouches for when the handler asks who a packet's sender is (Service::find_enr,
   Model/Admission.v find_enr, compared with the real service on generated who-are-you queries): its id is
   the id asked for, the routing table's record takes precedence over whatever a running lookup was told,
   and an id known to neither gets no record. *)
Require Discv5V.Model.KBucket Discv5V.Model.Nodes Discv5V.Model.Admission Discv5V.Proofs.Admission.
Module C01FindEnr.
Import Discv5V.Model.KBucket Discv5V.Model.Nodes Discv5V.Model.Admission.
Theorem C01_service_vouches_only_with_a_record_of_the_id_asked_for :
  forall (rec_of : N -> enr) (tf : enr -> bool) (mode : ip_mode) (c : config) (t : table)
         (u : list enr) (id now : N) (e : enr),
  Discv5V.Proofs.Admission.Adm rec_of tf mode t ->
  snd (find_enr rec_of c t u id now) = Some e -> e_id e = id.
Proof. exact Discv5V.Proofs.Admission.find_enr_id. Qed.
Print Assumptions C01_service_vouches_only_with_a_record_of_the_id_asked_for.
Theorem C01_stored_record_takes_precedence_over_lookup_hearsay :
  forall (rec_of : N -> enr) (c : config) (t : table) (u u' : list enr) (id now : N) (e : enr),
  present_rec rec_of (fst (t_entry c t id ALook now)) id = Some e ->
  snd (find_enr rec_of c t u id now) = snd (find_enr rec_of c t u' id now).
Proof. exact Discv5V.Proofs.Admission.find_enr_table_first_any_queries. Qed.
Print Assumptions C01_stored_record_takes_precedence_over_lookup_hearsay.
Theorem C01_no_record_for_an_unknown_id :
  forall (rec_of : N -> enr) (c : config) (t : table) (u : list enr) (id now : N),
  present_rec rec_of (fst (t_entry c t id ALook now)) id = None ->
  (forall e : enr, In e u -> e_id e <> id) ->
  snd (find_enr rec_of c t u id now) = None.
Proof. exact Discv5V.Proofs.Admission.find_enr_unknown. Qed.
Print Assumptions C01_no_record_for_an_unknown_id.
End C01FindEnr.
