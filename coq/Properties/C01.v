Theorem placeholder_removed_later : True. Proof. exact I. Qed. Print Assumptions placeholder_removed_later.
