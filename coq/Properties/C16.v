(* C16 - IP-diversity limits.
   Statements only; every theorem is closed by [exact] of a lemma proved in Proofs/Subnet.v and
   followed by Print Assumptions.  See DESIGN.md section 6 (C16).

   [SubnetInv t] : for every /24 [s], at most MAX_NODES_PER_SUBNET_TABLE values of the table (nodes and
                   pending nodes of all buckets) and at most MAX_NODES_PER_SUBNET_BUCKET nodes of each
                   bucket have [vsub = Some s].
   Hypotheses (visible in the statements):
   - the configuration installs the two IP filters of src/kbucket/filter.rs;
   - [op_ok owner subof o]: the values carried by insert_or_update / update_node are records of the key
     they are offered for ([owner (vid v) = k]; a record's node id IS its key) and the /24 is a function
     of the record ([vsub v = subof (vid v)]); the raw Entry-API insertion (AbsentEntry::insert,
     documented as bypassing the filters) is not used.
   Proofs/SubnetExamples.v shows the hypotheses are satisfiable, the limits are reached exactly, and
   that each of the two well-formedness hypotheses is necessary for the model. *)
From Coq Require Import List Arith NArith.
From Discv5V Require Import Generated.Params Lib.ListX Model.KBucket
  Proofs.KBucketInv Proofs.KBucketTable Proofs.KBucketPending Proofs.Subnet.
Import ListNotations.

Theorem C16_limits_are_the_rust_constants :
  LT = N.to_nat MAX_NODES_PER_SUBNET_TABLE /\ LB = N.to_nat MAX_NODES_PER_SUBNET_BUCKET.
Proof. split; reflexivity. Qed.
Print Assumptions C16_limits_are_the_rust_constants.

Theorem C16_subnet_limits_reachable :
  forall (owner : N -> N) (subof : N -> option N) c fixed loc ops,
  bfilter c = Some ip_bucket_filter -> tfilter c = Some ip_table_filter ->
  Forall (fun x => op_ok owner subof (fst x)) ops ->
  forall s,
    count (in_sub s) (table_values (fst (run fixed c (new_table loc) ops))) <= LT /\
    forall i, count (in_sub s) (values (nodes (get_bucket (fst (run fixed c (new_table loc) ops)) i))) <= LB.
Proof. exact reachable_subnet. Qed.
Print Assumptions C16_subnet_limits_reachable.

(* the inductive step: limits + C07 invariant + well-formedness of the stored records *)
Theorem C16_subnet_limits_step :
  forall (owner : N -> N) (subof : N -> option N) c fixed t o now,
  bfilter c = Some ip_bucket_filter -> tfilter c = Some ip_table_filter ->
  TCInv owner subof c t -> op_ok owner subof o ->
  TCInv owner subof c (fst (step fixed c t o now)).
Proof. exact step_subnet. Qed.
Print Assumptions C16_subnet_limits_step.

(* nodes without an IPv4 address are never refused by either filter *)
Theorem C16_no_ip_unaffected :
  forall v others, vsub v = None ->
  ip_bucket_filter v others = true /\ ip_table_filter v others = true.
Proof. intros v others H. split; exact (no_ip_unaffected _ v others H). Qed.
Print Assumptions C16_no_ip_unaffected.
