(* C16 - IP-diversity limits.
   Statements only; every theorem is closed by [exact] of a lemma proved in Proofs/Subnet.v and
   followed by Print Assumptions.  See DESIGN.md section 6 (C16).

   [SubnetInv t] : for every /24 [s], at most MAX_NODES_PER_SUBNET_TABLE values of the table (nodes and
                   pending nodes of all buckets) and at most MAX_NODES_PER_SUBNET_BUCKET nodes of each
                   bucket have [vsub = Some s].
   Hypotheses (visible in the statements):
   - the configuration installs the two IP filters of src/kbucket/filter.rs;
   - [op_ok owner subof o]: the values carried by insert_or_update / update_node are records of the key
     they are offered for ([owner (vid v) = k]; a record's node id IS its key) and the /24 is a function
     of the record ([vsub v = subof (vid v)]); the raw Entry-API insertion (AbsentEntry::insert,
     documented as bypassing the filters) is not used.
   Proofs/SubnetExamples.v shows the hypotheses are satisfiable, the limits are reached exactly, and
   that each of the two well-formedness hypotheses is necessary for the model. *)
From Coq Require Import List Arith NArith.
From Discv5V Require Import Generated.Params Lib.ListX Model.KBucket
  Proofs.KBucketInv Proofs.KBucketTable Proofs.KBucketPending Proofs.Subnet Proofs.SubnetExamples
  Proofs.SubnetGap.
Import ListNotations.

Theorem C16_limits_are_the_rust_constants :
  LT = N.to_nat MAX_NODES_PER_SUBNET_TABLE /\ LB = N.to_nat MAX_NODES_PER_SUBNET_BUCKET.
Proof. split; reflexivity. Qed.
Print Assumptions C16_limits_are_the_rust_constants.

Theorem C16_subnet_limits_reachable :
  forall (owner : N -> N) (subof : N -> option N) c fixed loc ops,
  bfilter c = Some ip_bucket_filter -> tfilter c = Some ip_table_filter ->
  Forall (fun x => op_ok owner subof (fst x)) ops ->
  forall s,
    count (in_sub s) (table_values (fst (run fixed c (new_table loc) ops))) <= LT /\
    forall i, count (in_sub s) (values (nodes (get_bucket (fst (run fixed c (new_table loc) ops)) i))) <= LB.
Proof. exact reachable_subnet. Qed.
Print Assumptions C16_subnet_limits_reachable.

(* the inductive step: limits + C07 invariant + well-formedness of the stored records *)
Theorem C16_subnet_limits_step :
  forall (owner : N -> N) (subof : N -> option N) c fixed t o now,
  bfilter c = Some ip_bucket_filter -> tfilter c = Some ip_table_filter ->
  TCInv owner subof c t -> op_ok owner subof o ->
  TCInv owner subof c (fst (step fixed c t o now)).
Proof. exact step_subnet. Qed.
Print Assumptions C16_subnet_limits_step.

(* nodes without an IPv4 address are never refused by either filter *)
Theorem C16_no_ip_unaffected :
  forall v others, vsub v = None ->
  ip_bucket_filter v others = true /\ ip_table_filter v others = true.
Proof. intros v others H. split; exact (no_ip_unaffected _ v others H). Qed.
Print Assumptions C16_no_ip_unaffected.

(* ---------------------------------------------------------------------------------------------- *)
(* "A change that would exceed a limit is refused", and the table API for records without an IPv4
   address (gap audit, notes/gap_audit_C14_C20.md) *)

(* The filter of src/kbucket/filter.rs accepts a record [v] iff [v] has no IPv4 address or fewer
   than [limit] OTHER records of the list ([same_subnet_others]: records of the same /24 that are
   not copies of [v] itself) share its /24: it refuses exactly the changes that would take the
   count above the limit - no more (no spurious refusal), no less. *)
Theorem C16_filter_refuses_exactly_at_the_limit :
  forall limit v others, (0 < limit)%nat ->
  (ip_filter limit v others = true <->
   match vsub v with None => True | Some s => (same_subnet_others v s others < limit)%nat end).
Proof. exact ip_filter_exact. Qed.
Print Assumptions C16_filter_refuses_exactly_at_the_limit.

(* insert_or_update answers Failed(TableFilter) when the table (pending nodes included) already
   holds MAX_NODES_PER_SUBNET_TABLE other records of the /24 ... *)
Theorem C16_insert_refused_at_table_limit :
  forall c t k v conn inc now i s,
  tfilter c = Some ip_table_filter ->
  bucket_index (local t) k = Some i -> vsub v = Some s ->
  (forall n, get k (nodes (get_bucket t i)) = Some n -> val_eqb (nval n) v = false) ->
  (LT <= same_subnet_others v s (table_values t))%nat ->
  snd (t_insert_or_update c t k v conn inc now) = TFailed FTableFilter.
Proof. intros c t k v conn inc now i s Htf. exact (insert_refused_table c Htf t k v conn inc now i s). Qed.
Print Assumptions C16_insert_refused_at_table_limit.

(* ... and Failed(BucketFilter), leaving the table as it is (but for the due pending node of the
   bucket, which every table operation applies first), when the bucket already holds
   MAX_NODES_PER_SUBNET_BUCKET other nodes of the /24. *)
Theorem C16_insert_refused_at_bucket_limit :
  forall c t k v conn inc now i s,
  bfilter c = Some ip_bucket_filter ->
  bucket_index (local t) k = Some i -> vsub v = Some s ->
  passes_table_filter c t k v = true ->
  position k (nodes (fst (applied_bucket c t i now))) = None ->
  (LB <= same_subnet_others v s (values (nodes (fst (applied_bucket c t i now)))))%nat ->
  t_insert_or_update c t k v conn inc now =
    (set_bucket t i (fst (applied_bucket c t i now)) (snd (applied_bucket c t i now)), TFailed FBucketFilter).
Proof. intros c t k v conn inc now i s Hbf. exact (insert_refused_bucket c Hbf t k v conn inc now i s). Qed.
Print Assumptions C16_insert_refused_at_bucket_limit.

(* the hypotheses on the table of Proofs/SubnetExamples.v: ten records of /24 number 7 in buckets
   5..9, two of them in bucket 5; an eleventh (key 2048, bucket 11) meets the table limit, a third
   for bucket 5 (key 34) the bucket limit *)
Example C16_refusal_hypotheses_example :
  let t := fst (run true sx_cfg (new_table 0) (firstn 11 sx_ops)) in
  bucket_index (local t) 2048 = Some 11%nat /\ get 2048 (nodes (get_bucket t 11)) = None /\
  (LT <= same_subnet_others (sx_val 2048) 7 (table_values t))%nat /\
  let t2 := fst (run true sx_cfg (new_table 0) (firstn 2 sx_ops)) in
  bucket_index (local t2) 34 = Some 5%nat /\ passes_table_filter sx_cfg t2 34 (sx_val 34) = true /\
  position 34 (nodes (fst (applied_bucket sx_cfg t2 5 1))) = None /\
  (LB <= same_subnet_others (sx_val 34) 7 (values (nodes (fst (applied_bucket sx_cfg t2 5 1)))))%nat.
Proof. vm_compute. repeat split; try reflexivity; Lia.lia. Qed.
Print Assumptions C16_refusal_hypotheses_example.

(* "nodes without an IPv4 address are unaffected", at the level of the table API: for EVERY table
   state and every status, insert_or_update of a record without an IPv4 address never answers
   Failed(TableFilter) nor Failed(BucketFilter) when the two IP filters are the installed ones
   (and such a record is never counted against any /24: [in_sub s v = false] by definition). *)
Theorem C16_no_ip_never_refused_by_insert :
  forall c t k v conn inc now,
  bfilter c = Some ip_bucket_filter -> tfilter c = Some ip_table_filter -> vsub v = None ->
  snd (t_insert_or_update c t k v conn inc now) <> TFailed FTableFilter /\
  snd (t_insert_or_update c t k v conn inc now) <> TFailed FBucketFilter.
Proof. intros c t k v conn inc now Hb Ht. exact (no_ip_insert_never_filtered c Hb Ht t k v conn inc now). Qed.
Print Assumptions C16_no_ip_never_refused_by_insert.

Theorem C16_no_ip_not_counted : forall s v, vsub v = None -> in_sub s v = false.
Proof. intros s v H. unfold in_sub. rewrite H. reflexivity. Qed.
Print Assumptions C16_no_ip_not_counted.

(* ... and neither does update_node (the record-update path), provided a STORED record that is
   equal to the offered one (Rust ==; equal vid in the model) has no IPv4 address either - true in
   every table the service builds, where the /24 is a function of the record (hypothesis [subof]
   of C16_subnet_limits_reachable) *)
Theorem C16_no_ip_never_refused_by_update_node :
  forall c t k v state now,
  bfilter c = Some ip_bucket_filter -> tfilter c = Some ip_table_filter -> vsub v = None ->
  (forall o, In o (table_values t) -> val_eqb o v = true -> vsub o = None) ->
  snd (t_update_node c t k v state now) <> UFailed FTableFilter /\
  snd (t_update_node c t k v state now) <> UFailed FBucketFilter.
Proof. intros c t k v state now Hb Ht. exact (no_ip_update_never_filtered c Hb Ht t k v state now). Qed.
Print Assumptions C16_no_ip_never_refused_by_update_node.

(* the hypothesis on the table of Proofs/SubnetExamples.v (both limits reached): node 32 of /24
   number 7 announces a record without IPv4 address and is updated *)
Example C16_no_ip_update_example :
  let t := fst (run true sx_cfg (new_table 0) sx_ops) in
  let v := {| vid := 77777; vsub := None |} in
  (forall o, In o (table_values t) -> val_eqb o v = true -> vsub o = None) /\
  snd (t_update_node sx_cfg t 32 v (Some true) 2) = UUpdated.
Proof.
  cbv zeta. split; [|vm_compute; reflexivity].
  assert (F : Forall (fun o => val_eqb o {| vid := 77777; vsub := None |} = false)
                     (table_values (fst (run true sx_cfg (new_table 0) sx_ops)))).
  { vm_compute. repeat constructor. }
  intros o Ho E. rewrite Forall_forall in F. rewrite (F o Ho) in E. discriminate.
Qed.
Print Assumptions C16_no_ip_update_example.

(* Configuration plumbing (Model/Config.v, transcribing ConfigBuilder, Config, Discv5::new / Discv5::start,
   tied to the code by the `glue` correspondence run on real loopback sockets): the parameters the theorems
   above take as given are the ones the application configured - the value set last through the builder,
   or the default - at every component they are handed to. *)
Require Discv5V.Generated.Params Discv5V.Model.Config Discv5V.Proofs.Config.
Theorem C16_configured_ip_limit_installs_the_filters : forall ops v, Discv5V.Model.Config.start_node ops = Some v ->
  Discv5V.Model.Config.VB (Discv5V.Model.Config.nv_ip_filters v) = Discv5V.Model.Config.configured ops Discv5V.Model.Config.FIpLimit /\
  Discv5V.Model.Config.VB (Discv5V.Model.Config.c_ip_limit (Discv5V.Model.Config.nv_service v)) = Discv5V.Model.Config.configured ops Discv5V.Model.Config.FIpLimit.
Proof. exact Discv5V.Proofs.Config.effective_ip_limit. Qed.
Print Assumptions C16_configured_ip_limit_installs_the_filters.
Theorem C16_configuration_example : exists v, Discv5V.Model.Config.start_node Discv5V.Proofs.Config.example_ops = Some v.
Proof. destruct Discv5V.Proofs.Config.example_starts as [v [H _]]. exists v. exact H. Qed.
Print Assumptions C16_configuration_example.
