(* C12 - Routing-table admission and update policy.
   Statements only; every theorem is closed by [exact] of a lemma proved in Proofs/Admission.v and
   followed by Print Assumptions.  See DESIGN.md section 6.

   Model: Model/Admission.v (inject_session_established, discovered, the PING / PONG branches,
   rpc_failure, UnverifiableEnr, add_enr, remove_node, disconnect_node, get_contactable_addr,
   verify_enr) on top of the routing-table model.  The table stores interned values; [rec_of] is the
   interning environment and [interned e] says that it gives the record [e] back for [e]'s own
   identity (the harness interns records by content; this is the only hypothesis on [rec_of]).
   The IP mode [mode], the table filter [tf : enr -> bool] and the routing-table configuration [c]
   (with its bucket / table filters) are arbitrary.  [fix_d5 fx = true]: the code after the fix
   commit for D5; the pinned behaviour is kept for the refutation at the end. *)
From Coq Require Import List Arith NArith Bool.
From Discv5V Require Import Generated.Params Model.KBucket Model.Nodes Model.Admission
  Proofs.KBMembers Proofs.Admission Proofs.KBucketTable Proofs.AdmissionGap.
Import ListNotations.
Local Open Scope N_scope.

(* Every entry (node or pending node) of every reachable table: it is stored under the node id of
   its record, the record is contactable in the node's IP mode, passes the configured table filter,
   and the key is not the local node - after every sequence of session reports, discovered records,
   pongs, pings, request failures, unverifiable-record reports and user calls. *)
Theorem C12_entries_admissible :
  forall rec_of tf mode fx c loc ops,
  fix_d5 fx = true -> Forall (fun on => op_interned rec_of (fst on)) ops ->
  forall x, In x (tmem (arun rec_of tf mode fx c (new_table loc) ops)) ->
    let e := rec_of (vid (snd x)) in
    e_id e = fst x /\ contactable mode e = true /\ tf e = true /\ fst x <> loc.
Proof.
  intros rec_of tf mode fx c loc ops H5 Hint x Hx.
  pose proof (entries_admissible rec_of tf mode fx c loc ops H5 Hint x Hx) as H.
  rewrite arun_local in H. exact H.
Qed.
Print Assumptions C12_entries_admissible.

(* A node becomes a table entry only through an established session or an explicit add by the user:
   every key of the table after a step was a key before it, unless the step is a session report or
   an add_enr for exactly that node id.  In particular never in a discovered() step. *)
Theorem C12_entry_origin :
  forall rec_of tf mode fx c t o now k,
  In k (tkeys (fst (astep rec_of tf mode fx c t o now))) ->
  In k (tkeys t) \/
  (exists e inc, o = AEstablished e inc /\ e_id e = k) \/ (exists e, o = AAddEnr e /\ e_id e = k).
Proof. exact entry_origin. Qed.
Print Assumptions C12_entry_origin.

Theorem C12_discovered_never_inserts :
  forall rec_of tf mode c l t src now k,
  In k (tkeys (fst (discovered rec_of tf mode c t src l now))) -> In k (tkeys t).
Proof. intros rec_of tf mode c l. exact (discovered_keys rec_of tf mode c l). Qed.
Print Assumptions C12_discovered_never_inserts.

(* In single-stack operation a session report admits a new node only if the handler verified the
   record against the observed address (verify_enr), which for a contactable record means: the UDP
   address of that family in the record equals the address the packets came from. *)
Theorem C12_single_stack_address_bound_ip4 :
  forall tf fx c t e id a inc now k,
  a_v6 a = false ->
  In k (tkeys (session_report tf Ip4 fx c t e id a inc now)) -> ~ In k (tkeys t) ->
  k = id /\ e_id e = id /\ e_udp4 e = Some (a_ip a, a_port a).
Proof. exact single_stack_address_bound_v4. Qed.
Print Assumptions C12_single_stack_address_bound_ip4.

Theorem C12_single_stack_address_bound_ip6 :
  forall tf fx c t e id a inc now k,
  a_v6 a = true ->
  In k (tkeys (session_report tf Ip6 fx c t e id a inc now)) -> ~ In k (tkeys t) ->
  k = id /\ e_id e = id /\ e_udp6 e = Some (a_ip a, a_port a).
Proof. exact single_stack_address_bound_v6. Qed.
Print Assumptions C12_single_stack_address_bound_ip6.

(* A record learnt from the network (one record of discovered()) changes the (key, value) pairs of
   the table at most by putting itself under its own node id, and only if that id is not the local
   one, the record passes the table filter and is contactable, and the id is already in the table
   with a record of a strictly smaller sequence number.  (Pairs may also disappear: an older stored
   version of an inadmissible record is removed, and the routing table's own filters may evict.) *)
Theorem C12_discovered_update_rule :
  forall rec_of tf mode c t src e now x,
  In x (tmem (fst (discovered_one rec_of tf mode c t src e now))) ->
  In x (tmem t) \/
  (x = (e_id e, to_val e) /\ e_id e <> local t /\ tf e = true /\ contactable mode e = true /\
   exists v0, In (e_id e, v0) (tmem t) /\ e_seq (rec_of (vid v0)) < e_seq e).
Proof. exact discovered_one_mem. Qed.
Print Assumptions C12_discovered_update_rule.

(* What happens to the STORED entry, completely (Proofs/AdmissionGap.v).  [t1] is the table as the
   look-up of the record's node id leaves it (KBucketsTable::entry applies the pending node of that
   bucket, like every table access); [stored_older] says that the node id is stored - as a node or
   as a pending node - with a record of a strictly smaller sequence number.  One record of
   discovered() then does exactly one of four things: nothing at all (the local id), nothing more
   than the look-up (no stored entry, or the stored record is not older: lower or equal sequence
   numbers never replace or remove anything), the update of the stored value (admissible and
   newer; the routing table's update_node applies its own filters), or the removal of the entry
   (newer, but not contactable or rejected by the table filter). *)
Theorem C12_discovered_stored_entry_cases :
  forall rec_of tf mode c t src e now,
  let t1 := fst (t_entry c t (e_id e) ALook now) in
  fst (discovered_one rec_of tf mode c t src e now) =
    if e_id e =? local t then t
    else if negb (stored_older rec_of t1 e) then t1
    else if tf e && contactable mode e then fst (t_update_node c t1 (e_id e) (to_val e) None now)
    else fst (t_entry c t1 (e_id e) ARemove now).
Proof. exact discovered_one_table. Qed.
Print Assumptions C12_discovered_stored_entry_cases.

Theorem C12_stored_older_meaning :
  forall rec_of t1 e,
  stored_older rec_of t1 e =
    match stored t1 (e_id e) with
    | Some (_, v) => e_seq (rec_of (vid v)) <? e_seq e
    | None => false
    end.
Proof. intros. unfold stored_older, stored_rec. destruct (stored t1 (e_id e)) as [[b v]|]; reflexivity. Qed.
Print Assumptions C12_stored_older_meaning.

(* A record that is not contactable or fails the table filter is dropped from the list handed to
   the lookup and brings nothing into the table ... *)
Theorem C12_discovered_inadmissible_brings_nothing :
  forall rec_of tf mode c t src e now,
  tf e && contactable mode e = false ->
  snd (discovered_one rec_of tf mode c t src e now) = false /\
  forall x, In x (tmem (fst (discovered_one rec_of tf mode c t src e now))) -> In x (tmem t).
Proof. exact discovered_one_inadmissible. Qed.
Print Assumptions C12_discovered_inadmissible_brings_nothing.

(* ... and if it is newer than the record of a stored NODE, that node is removed: in a table
   satisfying the routing-table invariant (C07; every table of the service does,
   C12_service_tables_satisfy_the_invariant) the node id is in no bucket and no pending slot
   afterwards. *)
Theorem C12_discovered_inadmissible_newer_removes_node :
  forall rec_of tf mode c t src e now v,
  TInv c t -> e_id e <> local t -> tf e && contactable mode e = false ->
  let t1 := fst (t_entry c t (e_id e) ALook now) in
  stored t1 (e_id e) = Some (false, v) -> e_seq (rec_of (vid v)) < e_seq e ->
  ~ In (e_id e) (tkeys (fst (discovered_one rec_of tf mode c t src e now))).
Proof. exact discovered_one_inadmissible_newer_removes. Qed.
Print Assumptions C12_discovered_inadmissible_newer_removes_node.

(* The other newer case: a newer record that IS contactable and passes the table filter.  The
   stored entry is updated in place - a node stays a node, a pending node stays pending - and then
   carries the new record; the only exception is a failure reported by the routing table's
   update_node (its own table / bucket filter rejected the new value and removed the entry, see
   C14 / C16), and then the record is also dropped from the list handed to the lookup. *)
Theorem C12_discovered_admissible_newer_updates_entry :
  forall rec_of tf mode c t src e now,
  e_id e <> local t -> tf e && contactable mode e = true ->
  let t1 := fst (t_entry c t (e_id e) ALook now) in
  stored_older rec_of t1 e = true ->
  fst (discovered_one rec_of tf mode c t src e now) = fst (t_update_node c t1 (e_id e) (to_val e) None now) /\
  match snd (t_update_node c t1 (e_id e) (to_val e) None now) with
  | UFailed _ => snd (discovered_one rec_of tf mode c t src e now) = false
  | _ => exists pending v0 v',
           stored t1 (e_id e) = Some (pending, v0) /\
           stored (fst (discovered_one rec_of tf mode c t src e now)) (e_id e) = Some (pending, v') /\
           vid v' = e_vid e
  end.
Proof. exact discovered_one_admissible_newer_updates. Qed.
Print Assumptions C12_discovered_admissible_newer_updates_entry.

Theorem C12_service_tables_satisfy_the_invariant :
  forall rec_of tf mode fx c loc ops, TInv c (arun rec_of tf mode fx c (new_table loc) ops).
Proof. exact Proofs.ServiceInv.service_table_tinv. Qed.
Print Assumptions C12_service_tables_satisfy_the_invariant.

(* OBSERVATION (not a violation of the property text: the entry that stays still holds its old,
   admissible record).  The removal does NOT happen when the node id is stored as the PENDING node
   of its bucket: discovered() calls PendingEntry::remove, which is KBucket::remove(key), and that
   function only searches [nodes] - for a pending entry it is a no-op (the same holds for
   Discv5::remove_node and the UnverifiableEnr report).  The witness is reachable through the
   service's own operations: local id 0, IPv4 mode, no filters; the user adds the sixteen nodes
   32..47 (bucket 5 is full, all disconnected), a session with node 48 makes it the pending node of
   that bucket; a NODES response then carries a newer record of node 48 (seq 2 > 1) without an IPv4
   address.  Node 48 stays pending with its old record and will enter the bucket once the pending
   timeout has elapsed. *)
Theorem C12_pending_entry_not_removed_observation :
  let rec_of := obs_rec in
  let tf := fun _ : enr => true in
  let e := obs_rec 148 in
  let t := arun rec_of tf Ip4 repaired obs_cfg (new_table 0) obs_ops in
  Forall (fun on => op_interned rec_of (fst on)) obs_ops /\ interned rec_of e /\
  TInv obs_cfg t /\ e_id e <> local t /\ tf e && contactable Ip4 e = false /\
  (exists v, stored (fst (t_entry obs_cfg t (e_id e) ALook 3)) (e_id e) = Some (true, v) /\
             e_seq (rec_of (vid v)) < e_seq e) /\
  let t' := fst (discovered_one rec_of tf Ip4 obs_cfg t 40 e 3) in
  stored t' (e_id e) = Some (true, to_val (obs_rec 48)) /\ In (e_id e) (tkeys t').
Proof. exact pending_entry_not_removed_observation. Qed.
Print Assumptions C12_pending_entry_not_removed_observation.

(* the hypotheses of C12_discovered_admissible_newer_updates_entry hold on a non-trivial instance:
   node 6 is stored with r1 (seq 1); a NODES response carries r2 (seq 2, another address) *)
Example C12_update_example :
  let r1 := {| e_vid := 1; e_id := 6; e_seq := 1; e_udp4 := Some (167772161, 30303); e_udp6 := None; e_sub := Some 655360; e_size := 120 |} in
  let r2 := {| e_vid := 2; e_id := 6; e_seq := 2; e_udp4 := Some (167772162, 30303); e_udp6 := None; e_sub := Some 655360; e_size := 120 |} in
  let rec_of := fun v => if v =? 1 then r1 else r2 in
  let tf := fun _ : enr => true in
  let c := {| max_incoming := 16; pending_timeout := 60; bfilter := None; tfilter := None |} in
  let t := arun rec_of tf Ip4 repaired c (new_table 5) [(AEstablished r1 false, 1)] in
  e_id r2 <> local t /\ tf r2 && contactable Ip4 r2 = true /\
  stored_older rec_of (fst (t_entry c t (e_id r2) ALook 3)) r2 = true /\
  snd (t_update_node c (fst (t_entry c t (e_id r2) ALook 3)) (e_id r2) (to_val r2) None 3) = UUpdated /\
  tmem (fst (discovered_one rec_of tf Ip4 c t 9 r2 3)) = [(6, to_val r2)].
Proof. cbv zeta. split; [vm_compute; discriminate|]. repeat split; vm_compute; reflexivity. Qed.
Print Assumptions C12_update_example.

(* the hypotheses of C12_discovered_inadmissible_newer_removes_node hold on a non-trivial instance:
   node 6 is in the table (a session) with record r1 (seq 1); a NODES response carries r2 for the
   same id with seq 2 and no IPv4 address; afterwards the table is empty *)
Example C12_removal_example :
  let r1 := {| e_vid := 1; e_id := 6; e_seq := 1; e_udp4 := Some (167772161, 30303); e_udp6 := None; e_sub := Some 655360; e_size := 120 |} in
  let r2 := {| e_vid := 2; e_id := 6; e_seq := 2; e_udp4 := None; e_udp6 := None; e_sub := None; e_size := 100 |} in
  let rec_of := fun v => if v =? 1 then r1 else r2 in
  let tf := fun _ : enr => true in
  let c := {| max_incoming := 16; pending_timeout := 60; bfilter := None; tfilter := None |} in
  let t := arun rec_of tf Ip4 repaired c (new_table 5) [(AEstablished r1 false, 1)] in
  TInv c t /\ e_id r2 <> local t /\ tf r2 && contactable Ip4 r2 = false /\
  stored (fst (t_entry c t (e_id r2) ALook 3)) (e_id r2) = Some (false, to_val r1) /\
  e_seq (rec_of (vid (to_val r1))) < e_seq r2 /\
  tmem t = [(6, to_val r1)] /\
  tmem (fst (discovered_one rec_of tf Ip4 c t 9 r2 3)) = [].
Proof.
  cbv zeta. split; [apply Proofs.ServiceInv.service_table_tinv|].
  split; [vm_compute; discriminate|]. repeat split; vm_compute; reflexivity.
Qed.
Print Assumptions C12_removal_example.

(* the hypotheses of C12_entries_admissible hold for a non-trivial history: a session, an add by
   the user, a discovered newer record, a pong, a failure; the table ends with two entries *)
Example C12_example_history :
  let r1 := {| e_vid := 1; e_id := 6; e_seq := 1; e_udp4 := Some (167772161, 30303); e_udp6 := None; e_sub := Some 655360; e_size := 120 |} in
  let r2 := {| e_vid := 2; e_id := 6; e_seq := 2; e_udp4 := Some (167772162, 30303); e_udp6 := None; e_sub := Some 655360; e_size := 120 |} in
  let r3 := {| e_vid := 3; e_id := 12; e_seq := 1; e_udp4 := Some (167772163, 30303); e_udp6 := None; e_sub := Some 655360; e_size := 120 |} in
  let rec_of := fun v => if v =? 1 then r1 else if v =? 2 then r2 else r3 in
  let c := {| max_incoming := 16; pending_timeout := 60; bfilter := None; tfilter := None |} in
  let ops := [(AEstablished r1 false, 1); (AAddEnr r3, 2); (ADiscovered 12 [r2], 3); (APong 6 2, 4); (AFailure 12, 5)] in
  Forall (fun on => op_interned rec_of (fst on)) ops /\
  tmem (arun rec_of (fun _ => true) Ip4 repaired c (new_table 5) ops) = [(6, to_val r2); (12, to_val r3)].
Proof.
  cbv zeta. split; [|vm_compute; reflexivity].
  repeat constructor.
Qed.
Print Assumptions C12_example_history.

(* D5, record of the finding on the pinned tree: a session admitted a record that the configured
   table filter rejects. *)
Theorem C12_pinned_session_bypasses_filter_refuted :
  exists (rec_of : N -> enr) tf c loc e,
    interned rec_of e /\ tf e = false /\
    In (e_id e, to_val e) (tmem (fst (established tf Ip4 pinned c (new_table loc) e true 1))).
Proof. exact pinned_session_bypasses_filter. Qed.
Print Assumptions C12_pinned_session_bypasses_filter_refuted.

(* Configuration plumbing (Model/Config.v, transcribing ConfigBuilder, Config, Discv5::new / Discv5::start,
   tied to the code by the `glue` correspondence run on real loopback sockets): the parameters the theorems
   above take as given are the ones the application configured - the value set last through the builder,
   or the default - at every component they are handed to. *)
Require Discv5V.Generated.Params Discv5V.Model.Config Discv5V.Proofs.Config.
Theorem C12_configured_table_filter_reaches_the_service : forall ops v, Discv5V.Model.Config.start_node ops = Some v ->
  Discv5V.Model.Config.VN (Discv5V.Model.Config.c_table_filter (Discv5V.Model.Config.nv_built v)) = Discv5V.Model.Config.configured ops Discv5V.Model.Config.FTableFilter /\
  Discv5V.Model.Config.VN (Discv5V.Model.Config.c_table_filter (Discv5V.Model.Config.nv_service v)) = Discv5V.Model.Config.configured ops Discv5V.Model.Config.FTableFilter /\
  Discv5V.Model.Config.VN (Discv5V.Model.Config.c_table_filter (Discv5V.Model.Config.nv_handler v)) = Discv5V.Model.Config.configured ops Discv5V.Model.Config.FTableFilter.
Proof. exact Discv5V.Proofs.Config.effective_table_filter. Qed.
Print Assumptions C12_configured_table_filter_reaches_the_service.
Theorem C12_configuration_example : exists v, Discv5V.Model.Config.start_node Discv5V.Proofs.Config.example_ops = Some v.
Proof. destruct Discv5V.Proofs.Config.example_starts as [v [H _]]. exists v. exact H. Qed.
Print Assumptions C12_configuration_example.

(* Routing-table level: whatever sequence of table operations runs, every stored record (pending slot
   included) sits under the id it belongs to, as long as every operation offers records under their own
   ids (Proofs/KBucketGap.v; the `kb --focus rec` monitors state the same of the real table). *)
Require Discv5V.Model.KBucket Discv5V.Proofs.KBMembers Discv5V.Proofs.KBucketGap.
Module C12Table.
Import Discv5V.Model.KBucket.
Theorem C12_table_records_sit_under_their_own_ids : forall (owner : N -> N) fixed c loc ops,
  Forall (fun o => forall k v, In (k, v) (Discv5V.Proofs.KBucketGap.offered (fst o)) -> owner (vid v) = k) ops ->
  forall k v, In (k, v) (Discv5V.Proofs.KBMembers.tmem (fst (run fixed c (new_table loc) ops))) -> owner (vid v) = k.
Proof. exact Discv5V.Proofs.KBucketGap.values_keyed_reachable. Qed.
Print Assumptions C12_table_records_sit_under_their_own_ids.
End C12Table.

(* The record the service vouches for when the handler asks who a packet's sender is (Service::find_enr,
   Model/Admission.v find_enr, compared with the real service on generated who-are-you queries): its id is
   the id asked for, the routing table's record takes precedence over whatever a running lookup was told,
   and an id known to neither gets no record. *)
Require Discv5V.Model.KBucket Discv5V.Model.Nodes Discv5V.Model.Admission Discv5V.Proofs.Admission.
Module C12FindEnr.
Import Discv5V.Model.KBucket Discv5V.Model.Nodes Discv5V.Model.Admission.
Theorem C12_service_vouches_only_with_a_record_of_the_id_asked_for :
  forall (rec_of : N -> enr) (tf : enr -> bool) (mode : ip_mode) (c : config) (t : table)
         (u : list enr) (id now : N) (e : enr),
  Discv5V.Proofs.Admission.Adm rec_of tf mode t ->
  snd (find_enr rec_of c t u id now) = Some e -> e_id e = id.
Proof. exact Discv5V.Proofs.Admission.find_enr_id. Qed.
Print Assumptions C12_service_vouches_only_with_a_record_of_the_id_asked_for.
Theorem C12_stored_record_takes_precedence_over_lookup_hearsay :
  forall (rec_of : N -> enr) (c : config) (t : table) (u u' : list enr) (id now : N) (e : enr),
  present_rec rec_of (fst (t_entry c t id ALook now)) id = Some e ->
  snd (find_enr rec_of c t u id now) = snd (find_enr rec_of c t u' id now).
Proof. exact Discv5V.Proofs.Admission.find_enr_table_first_any_queries. Qed.
Print Assumptions C12_stored_record_takes_precedence_over_lookup_hearsay.
Theorem C12_no_record_for_an_unknown_id :
  forall (rec_of : N -> enr) (c : config) (t : table) (u : list enr) (id now : N),
  present_rec rec_of (fst (t_entry c t id ALook now)) id = None ->
  (forall e : enr, In e u -> e_id e <> id) ->
  snd (find_enr rec_of c t u id now) = None.
Proof. exact Discv5V.Proofs.Admission.find_enr_unknown. Qed.
Print Assumptions C12_no_record_for_an_unknown_id.
End C12FindEnr.

(* The receive task in front of the handler (RecvHandler::handle_inbound, Model/Limiter.v recv_inbound,
   compared with the real task through the virtual handler on generated datagrams): *)
Require Discv5V.Model.Limiter Discv5V.Proofs.Limiter.
Module C12Recv.
Import Discv5V.Model.Limiter.
Theorem C12_receive_task_forwards_the_datagram_source : forall (f : pfilter) (p : pbl) (expected : list saddr) (src : saddr) (packet : option pkind) (now : N),
  let fwd := snd (recv_inbound f p expected src packet now) in
  fwd = normalise_src src /\ sa_ip fwd = sa_ip src /\ sa_port fwd = sa_port src /\ sa_flow fwd = 0%N /\ sa_scope fwd = 0%N.
Proof. exact Discv5V.Proofs.Limiter.inbound_forwards_normalised_source. Qed.
Print Assumptions C12_receive_task_forwards_the_datagram_source.
End C12Recv.

(* A PONG writes no record: whatever the lookups in progress were told about the node (Model/Admission.v
   pong_q = the PONG arm with find_enr and the running queries' records in view, compared with the real
   service on generated histories), every (id, record) pair of the table - pending slots included - was
   there before, no key is new, and the admission invariant is kept. *)
Module C12Pong.
Import Discv5V.Model.KBucket Discv5V.Model.Nodes Discv5V.Model.Admission.
Theorem C12_a_pong_writes_no_record :
  forall (rec_of : N -> enr) (mode : ip_mode) (c : config) (t : table) (u : list enr) (id s now : N) (x : N * val),
  In x (Discv5V.Proofs.KBMembers.tmem (fst (pong_q rec_of mode c t u id s now))) -> In x (Discv5V.Proofs.KBMembers.tmem t).
Proof. exact Discv5V.Proofs.Admission.pong_q_mem. Qed.
Print Assumptions C12_a_pong_writes_no_record.
Theorem C12_a_pong_admits_nobody :
  forall (rec_of : N -> enr) (mode : ip_mode) (c : config) (t : table) (u : list enr) (id s now k : N),
  In k (Discv5V.Proofs.KBMembers.tkeys (fst (pong_q rec_of mode c t u id s now))) -> In k (Discv5V.Proofs.KBMembers.tkeys t).
Proof. exact Discv5V.Proofs.Admission.pong_q_no_new_key. Qed.
Print Assumptions C12_a_pong_admits_nobody.
Theorem C12_a_pong_keeps_the_admission_invariant :
  forall (rec_of : N -> enr) (tf : enr -> bool) (mode : ip_mode) (c : config) (t : table) (u : list enr) (id s now : N),
  Discv5V.Proofs.Admission.Adm rec_of tf mode t ->
  Discv5V.Proofs.Admission.Adm rec_of tf mode (fst (pong_q rec_of mode c t u id s now)).
Proof. exact Discv5V.Proofs.Admission.pong_q_adm. Qed.
Print Assumptions C12_a_pong_keeps_the_admission_invariant.
End C12Pong.
