(* C12 - Routing-table admission and update policy.
   Statements only; every theorem is closed by [exact] of a lemma proved in Proofs/Admission.v and
   followed by Print Assumptions.  See DESIGN.md section 6.

   Model: Model/Admission.v (inject_session_established, discovered, the PING / PONG branches,
   rpc_failure, UnverifiableEnr, add_enr, remove_node, disconnect_node, get_contactable_addr,
   verify_enr) on top of the routing-table model.  The table stores interned values; [rec_of] is the
   interning environment and [interned e] says that it gives the record [e] back for [e]'s own
   identity (the harness interns records by content; this is the only hypothesis on [rec_of]).
   The IP mode [mode], the table filter [tf : enr -> bool] and the routing-table configuration [c]
   (with its bucket / table filters) are arbitrary.  [fix_d5 fx = true]: the code after the fix
   commit for D5; the pinned behaviour is kept for the refutation at the end. *)
From Coq Require Import List Arith NArith Bool.
From Discv5V Require Import Generated.Params Model.KBucket Model.Nodes Model.Admission
  Proofs.KBMembers Proofs.Admission.
Import ListNotations.
Local Open Scope N_scope.

(* Every entry (node or pending node) of every reachable table: it is stored under the node id of
   its record, the record is contactable in the node's IP mode, passes the configured table filter,
   and the key is not the local node - after every sequence of session reports, discovered records,
   pongs, pings, request failures, unverifiable-record reports and user calls. *)
Theorem C12_entries_admissible :
  forall rec_of tf mode fx c loc ops,
  fix_d5 fx = true -> Forall (fun on => op_interned rec_of (fst on)) ops ->
  forall x, In x (tmem (arun rec_of tf mode fx c (new_table loc) ops)) ->
    let e := rec_of (vid (snd x)) in
    e_id e = fst x /\ contactable mode e = true /\ tf e = true /\ fst x <> loc.
Proof.
  intros rec_of tf mode fx c loc ops H5 Hint x Hx.
  pose proof (entries_admissible rec_of tf mode fx c loc ops H5 Hint x Hx) as H.
  rewrite arun_local in H. exact H.
Qed.
Print Assumptions C12_entries_admissible.

(* A node becomes a table entry only through an established session or an explicit add by the user:
   every key of the table after a step was a key before it, unless the step is a session report or
   an add_enr for exactly that node id.  In particular never in a discovered() step. *)
Theorem C12_entry_origin :
  forall rec_of tf mode fx c t o now k,
  In k (tkeys (fst (astep rec_of tf mode fx c t o now))) ->
  In k (tkeys t) \/
  (exists e inc, o = AEstablished e inc /\ e_id e = k) \/ (exists e, o = AAddEnr e /\ e_id e = k).
Proof. exact entry_origin. Qed.
Print Assumptions C12_entry_origin.

Theorem C12_discovered_never_inserts :
  forall rec_of tf mode c l t src now k,
  In k (tkeys (fst (discovered rec_of tf mode c t src l now))) -> In k (tkeys t).
Proof. intros rec_of tf mode c l. exact (discovered_keys rec_of tf mode c l). Qed.
Print Assumptions C12_discovered_never_inserts.

(* In single-stack operation a session report admits a new node only if the handler verified the
   record against the observed address (verify_enr), which for a contactable record means: the UDP
   address of that family in the record equals the address the packets came from. *)
Theorem C12_single_stack_address_bound_ip4 :
  forall tf fx c t e id a inc now k,
  a_v6 a = false ->
  In k (tkeys (session_report tf Ip4 fx c t e id a inc now)) -> ~ In k (tkeys t) ->
  k = id /\ e_id e = id /\ e_udp4 e = Some (a_ip a, a_port a).
Proof. exact single_stack_address_bound_v4. Qed.
Print Assumptions C12_single_stack_address_bound_ip4.

Theorem C12_single_stack_address_bound_ip6 :
  forall tf fx c t e id a inc now k,
  a_v6 a = true ->
  In k (tkeys (session_report tf Ip6 fx c t e id a inc now)) -> ~ In k (tkeys t) ->
  k = id /\ e_id e = id /\ e_udp6 e = Some (a_ip a, a_port a).
Proof. exact single_stack_address_bound_v6. Qed.
Print Assumptions C12_single_stack_address_bound_ip6.

(* A record learnt from the network (one record of discovered()) changes the (key, value) pairs of
   the table at most by putting itself under its own node id, and only if that id is not the local
   one, the record passes the table filter and is contactable, and the id is already in the table
   with a record of a strictly smaller sequence number.  (Pairs may also disappear: an older stored
   version of an inadmissible record is removed, and the routing table's own filters may evict.) *)
Theorem C12_discovered_update_rule :
  forall rec_of tf mode c t src e now x,
  In x (tmem (fst (discovered_one rec_of tf mode c t src e now))) ->
  In x (tmem t) \/
  (x = (e_id e, to_val e) /\ e_id e <> local t /\ tf e = true /\ contactable mode e = true /\
   exists v0, In (e_id e, v0) (tmem t) /\ e_seq (rec_of (vid v0)) < e_seq e).
Proof. exact discovered_one_mem. Qed.
Print Assumptions C12_discovered_update_rule.

(* the hypotheses of C12_entries_admissible hold for a non-trivial history: a session, an add by
   the user, a discovered newer record, a pong, a failure; the table ends with two entries *)
Example C12_example_history :
  let r1 := {| e_vid := 1; e_id := 6; e_seq := 1; e_udp4 := Some (167772161, 30303); e_udp6 := None; e_sub := Some 655360; e_size := 120 |} in
  let r2 := {| e_vid := 2; e_id := 6; e_seq := 2; e_udp4 := Some (167772162, 30303); e_udp6 := None; e_sub := Some 655360; e_size := 120 |} in
  let r3 := {| e_vid := 3; e_id := 12; e_seq := 1; e_udp4 := Some (167772163, 30303); e_udp6 := None; e_sub := Some 655360; e_size := 120 |} in
  let rec_of := fun v => if v =? 1 then r1 else if v =? 2 then r2 else r3 in
  let c := {| max_incoming := 16; pending_timeout := 60; bfilter := None; tfilter := None |} in
  let ops := [(AEstablished r1 false, 1); (AAddEnr r3, 2); (ADiscovered 12 [r2], 3); (APong 6 2, 4); (AFailure 12, 5)] in
  Forall (fun on => op_interned rec_of (fst on)) ops /\
  tmem (arun rec_of (fun _ => true) Ip4 repaired c (new_table 5) ops) = [(6, to_val r2); (12, to_val r3)].
Proof.
  cbv zeta. split; [|vm_compute; reflexivity].
  repeat constructor.
Qed.
Print Assumptions C12_example_history.

(* D5, record of the finding on the pinned tree: a session admitted a record that the configured
   table filter rejects. *)
Theorem C12_pinned_session_bypasses_filter_refuted :
  exists (rec_of : N -> enr) tf c loc e,
    interned rec_of e /\ tf e = false /\
    In (e_id e, to_val e) (tmem (fst (established tf Ip4 pinned c (new_table loc) e true 1))).
Proof. exact pinned_session_bypasses_filter. Qed.
Print Assumptions C12_pinned_session_bypasses_filter_refuted.
