(* C11 - NODES responses are validated; honest peers are never banned.
   Statements only; every theorem is closed by [exact] of a lemma proved in Proofs/Nodes.v,
   Proofs/Serve.v or Proofs/ServiceInv.v and followed by Print Assumptions.  See DESIGN.md section 6.

   Models: Model/Nodes.v (log2_distance, findnode_log2distance, the filter of handle_rpc_response,
   active_nodes_responses), Model/Serve.v (what a responder that runs this implementation sends).
   [fixes]: every theorem is about the repaired behaviour (fix_d4 = fix_enr1 = true, the code after
   the fix commits for D4 and D10); the behaviour of the pinned tree is kept for the two refutations
   at the end. *)
From Coq Require Import List Arith NArith Bool.
From Discv5V Require Import Generated.Params Model.KBucket Model.Nodes Model.Serve Model.Admission
  Proofs.Nodes Proofs.KBMembers Proofs.Serve Proofs.KBucketTable Proofs.ServiceInv Proofs.NodesGap.
Import ListNotations.
Local Open Scope N_scope.

(* Records accepted from a NODES packet are exactly those whose log2 distance from the responder is
   one of the distances requested, the responder's own record counting as distance 0. *)
Theorem C11_kept_exact :
  forall fx peer ds records, fix_d4 fx = true -> fix_enr1 fx = true ->
  fst (filter_response fx peer ds records) = filter (on_distance peer ds) records.
Proof. exact kept_exact. Qed.
Print Assumptions C11_kept_exact.

(* A responder that returns a record at another distance is banned ... *)
Theorem C11_off_distance_banned :
  forall fx peer ds records, fix_d4 fx = true -> fix_enr1 fx = true ->
  (exists r, In r records /\ on_distance peer ds r = false) ->
  snd (filter_response fx peer ds records) = true.
Proof. exact off_distance_banned. Qed.
Print Assumptions C11_off_distance_banned.

(* ... and only such a responder. *)
Theorem C11_banned_iff_off_distance :
  forall fx peer ds records, fix_d4 fx = true -> fix_enr1 fx = true ->
  (snd (filter_response fx peer ds records) = true <->
   exists r, In r records /\ on_distance peer ds r = false).
Proof. exact banned_iff. Qed.
Print Assumptions C11_banned_iff_off_distance.

(* A responder that answers as this implementation prescribes (Model/Serve.v, property C14) is
   never banned and none of its records is dropped: for every table of the responder in which
   every node sits in the bucket of its distance ([placed]), every requester, request id, distance
   list [ds] (any list: the three distances of a lookup, [0], a user-supplied list with duplicates
   or out-of-range values), every maximum and every record size function, and every packet of the
   answer.  [mk] is any way of completing a served (node id, value) pair to a record. *)
Theorem C11_honest_never_banned :
  forall fx c t lv requester id ds maxn rsize now (mk : sitem -> enr),
  fix_d4 fx = true -> placed t -> (forall s, e_id (mk s) = s_key s) ->
  forall p, In p (snd (serve_findnode c t lv requester id ds maxn rsize now)) ->
    filter_response fx (local t) ds (map mk (p_nodes p)) = (map mk (p_nodes p), false).
Proof. exact honest_never_banned. Qed.
Print Assumptions C11_honest_never_banned.

(* The same for the distances a lookup generates (findnode_log2distance with
   DISTANCES_TO_REQUEST_PER_PEER distances, [0] when the target is the peer), for every target, and
   for every table that satisfies the routing-table invariant of C07. *)
Theorem C11_honest_never_banned_lookup :
  forall fx c t lv requester id target ds maxn rsize now (mk : sitem -> enr),
  fix_d4 fx = true -> TInv c t -> (forall s, e_id (mk s) = s_key s) ->
  rpc_request_distances target (local t) (N.to_nat DISTANCES_TO_REQUEST_PER_PEER) = Some ds ->
  forall p, In p (snd (serve_findnode c t lv requester id ds maxn rsize now)) ->
    filter_response fx (local t) ds (map mk (p_nodes p)) = (map mk (p_nodes p), false).
Proof.
  intros fx c t lv requester id target ds maxn rsize now mk H4 HT Hmk _.
  apply honest_never_banned; auto. eapply TInv_placed; eauto.
Qed.
Print Assumptions C11_honest_never_banned_lookup.

(* The hypothesis on the table is not a restriction: the table of a node that runs this
   implementation satisfies it after every sequence of session reports, discovered records, pongs,
   pings, failures and user calls (Model/Admission.v), in every IP mode and for every table filter. *)
Theorem C11_service_tables_are_placed :
  forall rec_of tf mode fx c loc ops, placed (arun rec_of tf mode fx c (new_table loc) ops).
Proof. exact service_table_placed. Qed.
Print Assumptions C11_service_tables_are_placed.

(* A responder cannot make this node collect more than MAX_NODES_RESPONSES (15) packets for one
   request, whatever totals it claims and whatever the packets contain ... *)
Theorem C11_packets_bounded :
  forall fx maxn peer ds user ps,
  (length (filter collected
     (run_pkts fx maxn (Some {| ar_peer := peer; ar_ds := ds; ar_user := user; ar_partial := None |}) ps))
   <= N.to_nat MAX_NODES_RESPONSES)%nat.
Proof. exact packets_bounded. Qed.
Print Assumptions C11_packets_bounded.

(* ... every step that hands records on (to discovered() or to the user) ends the request ... *)
Theorem C11_completion_is_final :
  forall fx maxn st p,
  match snd (on_pkt fx maxn st p) with
  | SONodes (PDone _ _) | SONodes (PUser _) | SOFail (FPartial _) | SOFail FNothing | SOFail FUser =>
    fst (on_pkt fx maxn st p) = None
  | _ => True
  end.
Proof. exact completion_is_final. Qed.
Print Assumptions C11_completion_is_final.

(* ... and once the request has completed every further packet for it is ignored. *)
Theorem C11_completed_ignores :
  forall fx maxn ps,
  Forall (fun o => o = SONodes PIgnored \/ o = SOFail FIgnored) (run_pkts fx maxn None ps).
Proof. exact completed_ignores. Qed.
Print Assumptions C11_completed_ignores.

(* Acceptance over the packets of one answer (Proofs/NodesGap.v).  C11_kept_exact is about one
   packet; the packets of a request are collected in active_nodes_responses and handed to
   discovered() when the request completes (PDone) or, after a failure, as a partial result
   (FPartial).  Whatever is handed on - for every split of the answer into packets, every claimed
   total, duplicates and failures in between - is a record of one of the packets of this request
   whose log2 distance from the responder was requested: *)
Theorem C11_handed_on_only_requested :
  forall fx maxn peer ds, fix_d4 fx = true -> fix_enr1 fx = true ->
  forall ps o l,
  In o (run_pkts fx maxn (Some {| ar_peer := peer; ar_ds := ds; ar_user := false; ar_partial := None |}) ps) ->
  handed_on o = Some l ->
  forall r, In r l -> on_distance peer ds r = true /\ In r (pkt_records ps).
Proof. exact handed_on_only_requested. Qed.
Print Assumptions C11_handed_on_only_requested.

(* ... and exactly those: while the packets [pre] are being stored (every one answered "stored"),
   the packet that completes the request hands on the records at requested distances of ALL packets
   received, in order of arrival - or, if it claims a total <= 1, of itself only (the code drops
   what was collected: "all previous nodes will be ignored"). *)
Theorem C11_handed_on_exact :
  forall fx maxn peer ds, fix_d4 fx = true -> fix_enr1 fx = true ->
  forall pre total nodes b l,
  forallb is_stored (run_pkts fx maxn (fresh peer ds) (map nodes_of pre)) = true ->
  snd (on_pkt fx maxn (final_state fx maxn (fresh peer ds) (map nodes_of pre)) (PktNodes total nodes))
    = SONodes (PDone b l) ->
  l = (if 1 <? total then flat_map (fun p => filter (on_distance peer ds) (snd p)) pre else [])
      ++ filter (on_distance peer ds) nodes.
Proof. exact completion_exact. Qed.
Print Assumptions C11_handed_on_exact.

(* the hypotheses are satisfiable: an answer in three packets claiming a total of 3, the second
   one carrying an off-distance record; the third packet completes the request and hands on the
   four on-distance records *)
Example C11_handed_on_example :
  let mk := fun id => {| e_vid := id; e_id := id; e_seq := 1; e_udp4 := None; e_udp6 := None; e_sub := None; e_size := 100 |} in
  let pre := [(3, [mk 6; mk 7]); (3, [mk 4; mk 12])] in
  forallb is_stored (run_pkts repaired 16 (fresh 5 [2; 1]) (map nodes_of pre)) = true /\
  snd (on_pkt repaired 16 (final_state repaired 16 (fresh 5 [2; 1]) (map nodes_of pre)) (PktNodes 3 [mk 7]))
    = SONodes (PDone false [mk 6; mk 7; mk 4; mk 7]).
Proof. cbv zeta. split; vm_compute; reflexivity. Qed.
Print Assumptions C11_handed_on_example.

(* findnode_log2distance for 256-bit ids and at most 127 distances: no panic, terminates (the
   model's fuel suffices), None exactly for target = peer, otherwise [size] distinct distances
   <= 256 within [size] of the exact distance, the exact distance first. *)
Theorem C11_findnode_distances_spec :
  forall target peer size,
  target < 2 ^ 256 -> peer < 2 ^ 256 -> (size <= 127)%nat ->
  match findnode_distances target peer size with
  | FDNone => target = peer
  | FDSome l =>
    exists d, log2_distance peer target = Some d /\ 1 <= d <= 256 /\
    length l = size /\ NoDup l /\
    (forall x, In x l -> x <= 256 /\ x <= d + N.of_nat size /\ d <= x + N.of_nat size) /\
    (size <> 0%nat -> hd_error l = Some d)
  | FDPanic | FDOutOfFuel => False
  end.
Proof. exact findnode_distances_spec. Qed.
Print Assumptions C11_findnode_distances_spec.

(* The hypotheses are satisfiable on a non-trivial input: a responder with two entries, asked for
   the distances of a lookup whose target is adjacent to it ([1; 2; 0]). *)
Example C11_example_honest_exchange :
  let c := {| max_incoming := 16; pending_timeout := 60; bfilter := None; tfilter := None |} in
  let t := fst (t_insert_or_update c (fst (t_insert_or_update c (new_table 5) 7 {| vid := 2; vsub := None |} true false 1))
                  4 {| vid := 3; vsub := None |} true false 2) in
  TInv c t /\ rpc_request_distances 4 5 3 = Some [1; 2; 0] /\
  map (fun p => map s_key (p_nodes p))
      (snd (serve_findnode c t {| vid := 1; vsub := None |} 9 [1] [1; 2; 0] 16 (fun _ => 100) 3))
  = [[5; 4; 7]].
Proof.
  cbv zeta. split; [|split; vm_compute; reflexivity].
  apply (t_insert_or_update_inv _ None 2 (Proofs.KBucketInv.tm_None None 2)).
  apply (t_insert_or_update_inv _ None 1 (Proofs.KBucketInv.tm_None None 1)).
  apply TInv_new.
Qed.
Print Assumptions C11_example_honest_exchange.

(* Record of the findings on the pinned tree (before the fix commits). *)

(* D4: the lookup for a target adjacent to the peer asks for [1; 2; 0]; the honest answer contains
   the peer's own record; the pinned filter drops it and bans the peer. *)
Theorem C11_pinned_honest_responder_banned_refuted :
  exists target peer ds c t lv requester id maxn rsize now p,
    rpc_request_distances target peer 3 = Some ds /\ local t = peer /\ placed t /\
    In p (snd (serve_findnode c t lv requester id ds maxn rsize now)) /\
    snd (filter_response pinned peer ds
           (map (fun s => {| e_vid := vid (s_val s); e_id := s_key s; e_seq := 1; e_udp4 := None;
                             e_udp6 := None; e_sub := None; e_size := 100 |}) (p_nodes p))) = true.
Proof. exact honest_banned_pinned. Qed.
Print Assumptions C11_pinned_honest_responder_banned_refuted.

(* D10: a single record at an unrequested distance answering a request for [0] (a lookup for the
   peer's own id, an ENR update) was accepted and the responder not banned. *)
Theorem C11_pinned_single_record_unfiltered_refuted :
  exists peer r, on_distance peer [0] r = false /\ filter_response pinned peer [0] [r] = ([r], false).
Proof. exact pinned_single_record_unfiltered. Qed.
Print Assumptions C11_pinned_single_record_unfiltered_refuted.

(* Configuration plumbing (Model/Config.v, transcribing ConfigBuilder, Config, Discv5::new / Discv5::start,
   tied to the code by the `glue` correspondence run on real loopback sockets): the parameters the theorems
   above take as given are the ones the application configured - the value set last through the builder,
   or the default - at every component they are handed to. *)
Require Discv5V.Generated.Params Discv5V.Model.Config Discv5V.Proofs.Config.
Theorem C11_configured_ban_duration_reaches_service_and_handler : forall ops v, Discv5V.Model.Config.start_node ops = Some v ->
  Discv5V.Model.Config.VO (Discv5V.Model.Config.c_ban_duration (Discv5V.Model.Config.nv_built v)) = Discv5V.Model.Config.configured ops Discv5V.Model.Config.FBanDuration /\
  Discv5V.Model.Config.VO (Discv5V.Model.Config.c_ban_duration (Discv5V.Model.Config.nv_service v)) = Discv5V.Model.Config.configured ops Discv5V.Model.Config.FBanDuration /\
  Discv5V.Model.Config.VO (Discv5V.Model.Config.c_ban_duration (Discv5V.Model.Config.nv_handler v)) = Discv5V.Model.Config.configured ops Discv5V.Model.Config.FBanDuration.
Proof. exact Discv5V.Proofs.Config.effective_ban_duration. Qed.
Print Assumptions C11_configured_ban_duration_reaches_service_and_handler.
Theorem C11_configuration_example : exists v, Discv5V.Model.Config.start_node Discv5V.Proofs.Config.example_ops = Some v.
Proof. destruct Discv5V.Proofs.Config.example_starts as [v [H _]]. exists v. exact H. Qed.
Print Assumptions C11_configuration_example.

(* The receive task composed with the handler's exemption ledger (Proofs/RecvHandler.v): in every
   reachable handler state a datagram from an address this node is waiting for - an unanswered request or
   an unanswered WHOAREYOU - passes the receive task whatever the filter and the ban lists hold; when
   nothing is outstanding every source is unsolicited. [sa_of] maps the handler model's addresses to the
   receive task's socket addresses (normalised: the handler never sees any other). *)
Require Discv5V.Model.Handler Discv5V.Proofs.HandlerInv Discv5V.Model.Limiter Discv5V.Proofs.RecvHandler.
Module C11Compose.
Import Discv5V.Model.Handler Discv5V.Proofs.HandlerInv Discv5V.Model.Limiter.
Theorem C11_awaited_answer_passes_the_receive_task :
  forall (sa_of : N -> saddr), (forall x, normalise_src (sa_of x) = sa_of x) ->
  forall c evs a f p packet now, fixed_cfg c ->
  let h := fst (run c init_state evs) in
  (0 < cnt_active a h + cnt_chall a h)%nat ->
  recv_inbound f p (Discv5V.Proofs.RecvHandler.expected_sources sa_of h) (sa_of a) packet now =
  (f, p, match packet with Some _ => Deliver | None => Unrecognized end, sa_of a).
Proof. exact Discv5V.Proofs.RecvHandler.awaited_answer_passes_the_receive_task. Qed.
Print Assumptions C11_awaited_answer_passes_the_receive_task.
Theorem C11_nothing_outstanding_everything_is_unsolicited :
  forall (sa_of : N -> saddr) c evs f p src packet now, fixed_cfg c ->
  let h := fst (run c init_state evs) in
  active h = nil -> challenges h = nil ->
  recv_inbound f p (Discv5V.Proofs.RecvHandler.expected_sources sa_of h) src packet now = recv_inbound f p nil src packet now.
Proof. exact Discv5V.Proofs.RecvHandler.nothing_outstanding_everything_is_unsolicited. Qed.
Print Assumptions C11_nothing_outstanding_everything_is_unsolicited.
End C11Compose.
