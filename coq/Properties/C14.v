(* C14 - Served FINDNODE and PING answers are correct and fit a datagram.
   Statements only; every theorem is closed by [exact] of a lemma proved in Proofs/Serve.v and
   followed by Print Assumptions.  See DESIGN.md section 6.

   Model: Model/Serve.v (send_nodes_response with its splitting loop, the PONG) on top of
   KBucketsTable::nodes_by_distances of Model/KBucket.v.  The size function [wire_size] /
   [nodes_msg_size] is written out in Model/Serve.v; the correspondence run compares it with the
   length of the datagram the real codec produces for every emitted response. *)
From Coq Require Import List Arith NArith Bool.
From Discv5V Require Import Generated.Params Model.KBucket Model.Nodes Model.Serve
  Proofs.Nodes Proofs.KBMembers Proofs.Serve Proofs.ServeGap.
Import ListNotations.
Local Open Scope N_scope.

(* The records of an answer, in order: the local record iff distance 0 is requested, followed by the
   entries (other than the requester) that nodes_by_distances returns for the sorted, de-duplicated,
   in-range distances on the table whose due pending nodes have been applied. *)
Theorem C14_served_records_exact :
  forall c t lv requester id ds maxn rsize now,
  let (t', ps) := serve_findnode c t lv requester id ds maxn rsize now in
  let vds := table_distances ds in
  t' = nbd_apply c t vds 0 maxn now /\
  served_records ps =
    (if mem 0 ds then [{| s_key := local t; s_val := lv |}] else [])
    ++ map item_of_node (filter (fun n => negb (nkey n =? requester)) (nbd_collect t' vds 0 maxn)).
Proof.
  intros c t lv requester id ds maxn rsize now.
  pose proof (serve_findnode_answer c t lv requester id ds maxn rsize now) as H.
  destruct (serve_findnode c t lv requester id ds maxn rsize now) as [t' ps].
  destruct H as (H1 & H2). cbv zeta. unfold answer in H1, H2. cbn [fst snd] in H1, H2.
  split; [exact H1|]. rewrite H2, <- H1. reflexivity.
Qed.
Print Assumptions C14_served_records_exact.

(* the distances used for the table: those of the request that lie in 1..=256, each once, ascending *)
Theorem C14_table_distances_spec :
  forall ds d, In d (table_distances ds) <-> In d ds /\ 1 <= d <= NUM_BUCKETS.
Proof.
  intros ds d. unfold table_distances. rewrite In_valid_distances, In_dedup_N, In_sort_N. tauto.
Qed.
Print Assumptions C14_table_distances_spec.

Theorem C14_table_distances_nodup : forall ds, NoDup (table_distances ds).
Proof.
  intros ds. unfold table_distances, valid_distances. apply NoDup_filter.
  apply strict_NoDup, dedup_strict, sort_N_sorted.
Qed.
Print Assumptions C14_table_distances_nodup.

(* what the collection returns: only entries of the requested buckets ... *)
Theorem C14_collect_sound :
  forall t maxn ds n, In n (nbd_collect t ds 0 maxn) ->
  exists d, In d ds /\ In n (nodes (get_bucket t (N.to_nat (d - 1)))).
Proof. intros t maxn ds n. exact (nbd_collect_sound t maxn ds 0 n). Qed.
Print Assumptions C14_collect_sound.

(* ... at most the configured maximum of them (one if the maximum is 0: the loop pushes a node
   before it tests the limit) ... *)
Theorem C14_collect_bounded :
  forall t maxn ds, (length (nbd_collect t ds 0 maxn) <= Nat.max maxn 1)%nat.
Proof.
  intros t maxn ds. pose proof (nbd_collect_length t maxn ds 0) as H.
  rewrite Nat.add_0_r in H. exact H.
Qed.
Print Assumptions C14_collect_bounded.

(* ... and all of them, bucket by bucket in the order of the distances, when fewer than the
   maximum match. *)
Theorem C14_collect_complete :
  forall t maxn ds,
  (length (flat_map (fun d => nodes (get_bucket t (N.to_nat (d - 1)))) ds) < maxn)%nat ->
  nbd_collect t ds 0 maxn = flat_map (fun d => nodes (get_bucket t (N.to_nat (d - 1)))) ds.
Proof. intros t maxn ds H. apply nbd_collect_complete. exact H. Qed.
Print Assumptions C14_collect_complete.

(* every served record is the local record (and then 0 was requested) or a table entry at a
   requested distance from the local id that is not the requester's (for tables in which every node
   sits in the bucket of its distance, i.e. every table the service builds - C07 / C11) *)
Theorem C14_served_records_sound :
  forall c t lv requester ds maxn now, placed t ->
  forall s, In s (snd (answer c t lv requester ds maxn now)) ->
    (s_key s = local t /\ In 0 ds) \/
    (exists d, In d ds /\ 1 <= d <= NUM_BUCKETS /\ log2_distance (local t) (s_key s) = Some d /\
               s_key s <> requester).
Proof. exact answer_records_requested. Qed.
Print Assumptions C14_served_records_sound.

(* The packets: there is at least one; all carry the request's id and a total equal to the number
   of packets; together they carry the records of the answer in order; an empty answer is one empty
   packet; and if every record is smaller than the splitting limit (MAX_PACKET_SIZE - 104; a record
   is at most MAX_ENR_SIZE = 300 bytes) every packet stays below the limit and none is empty unless
   the whole answer is. *)
Theorem C14_split_sound :
  forall c t lv requester id ds maxn rsize now,
  let ps := snd (serve_findnode c t lv requester id ds maxn rsize now) in
  let recs := snd (answer c t lv requester ds maxn now) in
  ps <> [] /\
  (forall p, In p ps -> p_id p = id /\ p_total p = N.of_nat (length ps)) /\
  concat (map p_nodes ps) = recs /\
  (recs = [] -> ps = [{| p_id := id; p_total := 1; p_nodes := [] |}]) /\
  (forall p, In p ps -> (forall s, In s recs -> rsize (s_val s) < SPLIT_LIMIT) ->
     sum_sizes (fun s => rsize (s_val s)) (p_nodes p) < SPLIT_LIMIT /\ (recs <> [] -> p_nodes p <> [])).
Proof. exact serve_findnode_packets. Qed.
Print Assumptions C14_split_sound.

(* Every packet of an answer encodes to at most MAX_PACKET_SIZE bytes on the wire (masking IV,
   static header, 32-byte authdata, RLP-encoded message, 16-byte GCM tag) provided every record is
   at most MAX_ENR_SIZE bytes, the request id at most 8 bytes (the decoder's limit) and the answer
   has at most 255 packets (true whenever max_nodes_response <= 254).  Checked against the
   constants regenerated from /repo. *)
Theorem C14_packet_fits :
  forall c t lv requester id ds maxn rsize now,
  (forall v, rsize v <= MAX_ENR_SIZE) -> (length id <= 8)%nat ->
  (length (snd (serve_findnode c t lv requester id ds maxn rsize now)) <= 255)%nat ->
  forall p, In p (snd (serve_findnode c t lv requester id ds maxn rsize now)) ->
    wire_size (nodes_msg_size rsize p) <= MAX_PACKET_SIZE.
Proof.
  intros c t lv requester id ds maxn rsize now Hsz Hid Hn p Hp.
  pose proof (serve_findnode_packets c t lv requester id ds maxn rsize now) as H. cbv zeta in H.
  destruct H as (_ & Hidt & _ & _ & Hb). destruct (Hidt p Hp) as (Hpid & Htot).
  assert (Hlim : forall s, In s (snd (answer c t lv requester ds maxn now)) -> rsize (s_val s) < SPLIT_LIMIT).
  { intros s _. specialize (Hsz (s_val s)).
    assert (MAX_ENR_SIZE < SPLIT_LIMIT) by (vm_compute; reflexivity). Lia.lia. }
  destruct (Hb p Hp Hlim) as (Hsum & _).
  apply nodes_packet_fits; [exact Hsum|now rewrite Hpid|rewrite Htot; Lia.lia].
Qed.
Print Assumptions C14_packet_fits.

(* the bound on the number of packets cannot be dropped: with a total of 256 a full packet is one
   byte too long *)
Theorem C14_packet_total_256_too_long :
  exists rsize p,
    sum_sizes (fun s => rsize (s_val s)) (p_nodes p) < SPLIT_LIMIT /\ (length (p_id p) <= 8)%nat /\
    p_total p = 256 /\ MAX_PACKET_SIZE < wire_size (nodes_msg_size rsize p).
Proof. exact nodes_packet_total_256_too_long. Qed.
Print Assumptions C14_packet_total_256_too_long.

(* PING: answered iff the source port is not 0, with the local sequence number and exactly the
   observed source *)
Theorem C14_pong_exact :
  forall seq ip port,
  (port <> 0 -> serve_ping seq ip port = Some {| pg_seq := seq; pg_ip := ip; pg_port := port |}) /\
  (port = 0 -> serve_ping seq ip port = None).
Proof.
  intros seq ip port. unfold serve_ping. split; intros H.
  - destruct (port =? 0) eqn:E; [apply N.eqb_eq in E; congruence|reflexivity].
  - subst. reflexivity.
Qed.
Print Assumptions C14_pong_exact.

(* the hypotheses of C14_packet_fits hold for a non-trivial answer: 17 records of 300 bytes *)
Example C14_example_full_answer :
  let c := {| max_incoming := 16; pending_timeout := 60; bfilter := None; tfilter := None |} in
  let t := fold_left (fun t k => fst (t_insert_or_update c t (2 ^ 255 + k) {| vid := k; vsub := None |} true false 1))
                     (map N.of_nat (seq 1 16)) (new_table 0) in
  let ps := snd (serve_findnode c t {| vid := 99; vsub := None |} 7 [1; 2; 3; 4; 5; 6; 7; 8] [256; 0] 16 (fun _ => 300) 2) in
  map (fun p => (p_total p, length (p_nodes p), wire_size (nodes_msg_size (fun _ => 300) p))) ps
  = [(6, 3%nat, 1004); (6, 3%nat, 1004); (6, 3%nat, 1004); (6, 3%nat, 1004); (6, 3%nat, 1004); (6, 2%nat, 704)].
Proof. vm_compute. reflexivity. Qed.
Print Assumptions C14_example_full_answer.

(* ---------------------------------------------------------------------------------------------- *)
(* Statements about the answer as a whole (gap audit, notes/gap_audit_C14_C20.md) *)

Lemma C14_served_is_answer c t lv requester id ds maxn rsize now :
  served_records (snd (serve_findnode c t lv requester id ds maxn rsize now))
  = snd (answer c t lv requester ds maxn now).
Proof.
  pose proof (serve_findnode_answer c t lv requester id ds maxn rsize now) as H.
  destruct (serve_findnode c t lv requester id ds maxn rsize now). exact (proj2 H).
Qed.
Print Assumptions C14_served_is_answer.

(* "at most the configured maximum (plus its own record)": the records of all packets of an answer
   together are at most max_nodes_response table entries, plus the local record iff distance 0 was
   requested - for every table, distance list, requester and configured maximum >= 1. *)
Theorem C14_answer_at_most_max_plus_own :
  forall c t lv requester id ds maxn rsize now, (1 <= maxn)%nat ->
  (length (served_records (snd (serve_findnode c t lv requester id ds maxn rsize now)))
   <= (if mem 0 ds then 1 else 0) + maxn)%nat.
Proof.
  intros c t lv requester id ds maxn rsize now H. rewrite C14_served_is_answer.
  apply answer_length_pos. exact H.
Qed.
Print Assumptions C14_answer_at_most_max_plus_own.

(* The hypothesis 1 <= max_nodes_response cannot be dropped: with max_nodes_response = 0 the
   collection loop of nodes_by_distances pushes a node before it tests the limit, and one table
   entry is served (in general: at most max(maximum, 1), C14_collect_bounded). *)
Theorem C14_max_zero_serves_one_refuted :
  exists c t lv requester ds now,
    length (snd (answer c t lv requester ds 0 now)) = 1%nat /\ mem 0 ds = false.
Proof. exact answer_max_zero_serves_one. Qed.
Print Assumptions C14_max_zero_serves_one_refuted.

(* "never the requester's own record": for EVERY table (no placement hypothesis), a served record
   is the local record (and then distance 0 was requested) or a collected table entry whose key is
   not the requester's node id. *)
Theorem C14_never_the_requesters_record :
  forall c t lv requester id ds maxn rsize now s,
  In s (served_records (snd (serve_findnode c t lv requester id ds maxn rsize now))) ->
    (s = {| s_key := local t; s_val := lv |} /\ mem 0 ds = true) \/
    (s_key s <> requester /\
     exists n, s = item_of_node n /\
               In n (nbd_collect (fst (serve_findnode c t lv requester id ds maxn rsize now))
                                 (table_distances ds) 0 maxn)).
Proof.
  intros c t lv requester id ds maxn rsize now s. rewrite C14_served_is_answer.
  pose proof (serve_findnode_answer c t lv requester id ds maxn rsize now) as H.
  destruct (serve_findnode c t lv requester id ds maxn rsize now) as [t' ps]. cbn [fst].
  rewrite (proj1 H). apply answer_never_requester.
Qed.
Print Assumptions C14_never_the_requesters_record.

(* never more packets than records (exactly one packet for an empty answer) *)
Theorem C14_packet_count :
  forall c t lv requester id ds maxn rsize now,
  (forall s, In s (snd (answer c t lv requester ds maxn now)) -> rsize (s_val s) < SPLIT_LIMIT) ->
  (length (snd (serve_findnode c t lv requester id ds maxn rsize now))
   <= Nat.max 1 (length (snd (answer c t lv requester ds maxn now))))%nat.
Proof. exact packets_count. Qed.
Print Assumptions C14_packet_count.

(* "split into packets that each encode to at most 1280 bytes on the wire", with hypotheses on the
   inputs only (C14_packet_fits assumes a bound on the number of EMITTED packets): records of at
   most MAX_ENR_SIZE = 300 bytes, a request id of at most 8 bytes (the decoder's limit) and
   max_nodes_response <= 254 (the default is 16).  For every table, distance list and requester. *)
Theorem C14_packet_fits_config :
  forall c t lv requester id ds maxn rsize now,
  (forall v, rsize v <= MAX_ENR_SIZE) -> (length id <= 8)%nat -> (maxn <= 254)%nat ->
  forall p, In p (snd (serve_findnode c t lv requester id ds maxn rsize now)) ->
    wire_size (nodes_msg_size rsize p) <= MAX_PACKET_SIZE.
Proof. exact packet_fits_config. Qed.
Print Assumptions C14_packet_fits_config.
(* (C14_example_full_answer above is an instance: maxn = 16, 300-byte records, id of 8 bytes.) *)

(* "records that are exactly its table entries at the requested distances ... at most the configured
   maximum": the whole answer in closed form, for every table, distance list, requester and
   maximum.  With [t'] the table after the call (due pending nodes of the requested buckets
   applied) and [ds'] the requested distances that lie in 1..=256, each once, ascending
   (C14_table_distances_spec): the served records are the local record iff 0 was requested,
   followed by the first max(max_nodes_response, 1) entries of the buckets ds' (bucket by bucket, in
   bucket order), minus the requester's entry. *)
Theorem C14_answer_exact :
  forall c t lv requester id ds maxn rsize now,
  let (t', ps) := serve_findnode c t lv requester id ds maxn rsize now in
  served_records ps =
    (if mem 0 ds then [{| s_key := local t; s_val := lv |}] else [])
    ++ map item_of_node
         (filter (fun n => negb (nkey n =? requester))
            (firstn (Nat.max maxn 1)
               (flat_map (fun d => nodes (get_bucket t' (N.to_nat (d - 1)))) (table_distances ds)))).
Proof.
  intros c t lv requester id ds maxn rsize now.
  pose proof (C14_served_records_exact c t lv requester id ds maxn rsize now) as H.
  destruct (serve_findnode c t lv requester id ds maxn rsize now) as [t' ps]. cbv zeta in H.
  destruct H as (_ & H2). rewrite H2, nbd_collect_exact. reflexivity.
Qed.
Print Assumptions C14_answer_exact.

(* The bound on max_nodes_response in C14_packet_fits_config cannot be dropped altogether - end to
   end, on a table built by insert_or_update: configured maximum 1280, 16 nodes in each of the
   buckets 177..256, records of 235 bytes (< 300), a request id of 8 bytes, FINDNODE for these 80
   distances: the answer has 256 packets, "total" needs three RLP bytes, and EVERY packet is 1281
   bytes on the wire.  Configuration corner (the default maximum is 16); the clause "each encodes to
   at most 1280 bytes" is false of the code for such a configuration. *)
Theorem C14_packet_over_1280_with_large_maximum_refuted :
  exists c t lv requester id ds maxn rsize now,
    (forall v, rsize v <= MAX_ENR_SIZE) /\ (length id <= 8)%nat /\ maxn = 1280%nat /\
    length (snd (serve_findnode c t lv requester id ds maxn rsize now)) = 256%nat /\
    forall p, In p (snd (serve_findnode c t lv requester id ds maxn rsize now)) ->
      wire_size (nodes_msg_size rsize p) = MAX_PACKET_SIZE + 1.
Proof. exact packet_over_1280_with_large_maximum. Qed.
Print Assumptions C14_packet_over_1280_with_large_maximum_refuted.

(* Configuration plumbing (Model/Config.v, transcribing ConfigBuilder, Config, Discv5::new / Discv5::start,
   tied to the code by the `glue` correspondence run on real loopback sockets): the parameters the theorems
   above take as given are the ones the application configured - the value set last through the builder,
   or the default - at every component they are handed to. *)
Require Discv5V.Generated.Params Discv5V.Model.Config Discv5V.Proofs.Config.
Theorem C14_configured_max_nodes_response_reaches_the_service : forall ops v, Discv5V.Model.Config.start_node ops = Some v ->
  Discv5V.Model.Config.VN (Discv5V.Model.Config.c_max_nodes_response (Discv5V.Model.Config.nv_built v)) = Discv5V.Model.Config.configured ops Discv5V.Model.Config.FMaxNodesResponse /\
  Discv5V.Model.Config.VN (Discv5V.Model.Config.c_max_nodes_response (Discv5V.Model.Config.nv_service v)) = Discv5V.Model.Config.configured ops Discv5V.Model.Config.FMaxNodesResponse /\
  Discv5V.Model.Config.VN (Discv5V.Model.Config.c_max_nodes_response (Discv5V.Model.Config.nv_handler v)) = Discv5V.Model.Config.configured ops Discv5V.Model.Config.FMaxNodesResponse.
Proof. exact Discv5V.Proofs.Config.effective_max_nodes_response. Qed.
Print Assumptions C14_configured_max_nodes_response_reaches_the_service.
Theorem C14_configuration_example : exists v, Discv5V.Model.Config.start_node Discv5V.Proofs.Config.example_ops = Some v.
Proof. destruct Discv5V.Proofs.Config.example_starts as [v [H _]]. exists v. exact H. Qed.
Print Assumptions C14_configuration_example.

(* The receive task in front of the handler (RecvHandler::handle_inbound, Model/Limiter.v recv_inbound,
   compared with the real task through the virtual handler on generated datagrams): *)
Require Discv5V.Model.Limiter Discv5V.Proofs.Limiter.
Module C14Recv.
Import Discv5V.Model.Limiter.
Theorem C14_receive_task_forwards_the_datagram_source : forall (f : pfilter) (p : pbl) (expected : list saddr) (src : saddr) (packet : option pkind) (now : N),
  let fwd := snd (recv_inbound f p expected src packet now) in
  fwd = normalise_src src /\ sa_ip fwd = sa_ip src /\ sa_port fwd = sa_port src /\ sa_flow fwd = 0%N /\ sa_scope fwd = 0%N.
Proof. exact Discv5V.Proofs.Limiter.inbound_forwards_normalised_source. Qed.
Print Assumptions C14_receive_task_forwards_the_datagram_source.
Theorem C14_decoded_packet_reaches_the_handler : forall (f : pfilter) (p : pbl) (expected : list saddr) (src : saddr) (k : pkind) (now : N),
  enabled f = false -> has_key (sa_ip src) (ban_ips p) = false ->
  (forall id : N, packet_src_id k = Some id -> has_key id (ban_nodes p) = false) ->
  recv_inbound f p expected src (Some k) now = (f, p, Deliver, normalise_src src).
Proof. exact Discv5V.Proofs.Limiter.unfiltered_packet_is_delivered. Qed.
Print Assumptions C14_decoded_packet_reaches_the_handler.
End C14Recv.
