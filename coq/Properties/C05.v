(* C05 - Packet wire codec is exact, total and strict.
   Statements only; every theorem is closed by [exact] of a lemma of Proofs/Packet.v or
   Proofs/PacketGap.v and followed by Print Assumptions.  See DESIGN.md section 6 (C05).

   The model (Model/Packet.v) transcribes Packet::encode / Packet::decode of /repo/src/packet/mod.rs.
   External behaviour is a premise of the theorems, never an axiom:
   * [ks key iv i] - the AES-128-CTR keystream (byte [i] of the stream for [key], [iv]); every theorem
     holds for every [ks];
   * [enr], [enr_encode], [enr_decode] - the ENR record codec of the `enr` crate; only the round trip
     needs the two laws written in its statement.
   Vocabulary (Proofs/Packet.v), for a datagram [data] received by the node [local]:
     sh_of ks local data      the 23-byte static header unmasked with key local[..16], iv data[..16]
     asz_of ks local data     the authdata-size field of that header
     ad_of ks local data      the unmasked auth-data (asz_of bytes at keystream offset 23)
     flag_of ks local data    the kind byte of that header
     remaining_of data        the number of bytes after the static header (length data - 39)
     size_ok data             MIN_PACKET_SIZE <= |data| <= MAX_PACKET_SIZE
     header_ok ks local data  size_ok, protocol id and version as expected. *)
From Coq Require Import List NArith Arith Bool.
From Discv5V Require Import Generated.Params Lib.Bytes Model.Packet Proofs.Packet Proofs.PacketGap.
Import ListNotations.

(* ---- the constants of /repo the theorems depend on (re-checked against the regenerated
        Generated/Params.v on every run) ---- *)
Theorem C05_constants :
  (MIN_PACKET_SIZE = IV_LENGTH + STATIC_HEADER_LENGTH + 24)%N
  /\ (STATIC_HEADER_LENGTH = PROTOCOL_ID_LENGTH + 2 + 1 + MESSAGE_NONCE_LENGTH + 2)%N
  /\ (ID_NONCE_LENGTH + 8 = 24)%N
  /\ (IV_LENGTH = 16 /\ STATIC_HEADER_LENGTH = 23 /\ MESSAGE_NONCE_LENGTH = 12
      /\ ID_NONCE_LENGTH = 16 /\ MIN_PACKET_SIZE = 63 /\ MAX_PACKET_SIZE = 1280)%N
  /\ protocol_id = [100; 105; 115; 99; 118; 53]%N     (* "discv5" *)
  /\ protocol_version = [0; 1]%N.                     (* 0x0001 *)
Proof.
  split; [exact min_packet_size_inst|]. split; [exact static_header_inst|].
  split; [exact whoareyou_authdata_inst|]. repeat split.
Qed.
Print Assumptions C05_constants.

(* ---- exact: decoding the encoded datagram with the destination id returns the same packet and
        the same authenticated bytes.  A packet is well formed (packet_wf) when its fields have the
        sizes of the Rust types: iv < 2^128, nonce 12 bytes, node ids 32 bytes, id-nonce 16 bytes,
        enr-seq < 2^64, signature and key at most 255 bytes, WHOAREYOU without body. ---- *)
Theorem C05_decode_encode :
  forall (ks : bytes -> bytes -> nat -> N) (enr : Type)
         (enr_encode : enr -> bytes) (enr_decode : bytes -> option enr),
    (forall e, enr_decode (enr_encode e) = Some e) ->
    (forall e, enr_encode e <> []) ->
  forall (p : packet enr) (dst : bytes),
    packet_wf enr p ->
    (MIN_PACKET_SIZE <= len (encode ks enr_encode p dst)
     /\ len (encode ks enr_encode p dst) <= MAX_PACKET_SIZE)%N ->
    decode ks enr_decode dst (encode ks enr_encode p dst)
    = Ok (p, authenticated_data enr_encode p).
Proof. exact decode_encode. Qed.
Print Assumptions C05_decode_encode.

(* what "well formed" means (the definition used above, spelled out) *)
Theorem C05_packet_wf_meaning :
  forall (enr : Type) (p : packet enr),
    packet_wf enr p <->
    ((p_iv p < 2 ^ 128)%N /\ length (p_nonce p) = 12%nat
     /\ match p_kind p with
        | KMessage src => length src = 32%nat
        | KWhoAreYou idn seq => length idn = 16%nat /\ (seq < 2 ^ 64)%N
        | KHandshake src sig key _ =>
          length src = 32%nat /\ (length sig <= 255)%nat /\ (length key <= 255)%nat
        end
     /\ (is_whoareyou (p_kind p) = true -> p_message p = [])).
Proof. intros. unfold packet_wf, kind_wf. reflexivity. Qed.
Print Assumptions C05_packet_wf_meaning.

(* the size of the datagram in terms of the packet (so the bound 63..1280 above is a bound on the
   auth-data and the body) *)
Theorem C05_encoded_size :
  forall (ks : bytes -> bytes -> nat -> N) (enr : Type) (enr_encode : enr -> bytes)
         (p : packet enr) (dst : bytes),
    length (encode ks enr_encode p dst) =
    (16 + (6 + 2 + 1 + length (p_nonce p) + 2 + length (kind_encode enr_encode (p_kind p)))
     + length (p_message p))%nat.
Proof. exact encode_length. Qed.
Print Assumptions C05_encoded_size.

(* the hypotheses are satisfiable: a toy keystream, a toy record codec, a handshake with a 64-byte
   signature, a 33-byte key and a record; the model indeed round-trips it (by evaluation) *)
Definition toy_ks (key iv : bytes) (i : nat) : N :=
  ((nth (i mod 16) key 0 + 7 * nth (i mod 16) iv 0 + N.of_nat i * 29) mod 256)%N.
Definition toy_enr_encode (e : bytes) : bytes := 192%N :: e.
Definition toy_enr_decode (b : bytes) : option bytes :=
  match b with x :: t => if (x =? 192)%N then Some t else None | [] => None end.
Definition toy_bytes (n : nat) (seed : N) : bytes :=
  map (fun i => ((N.of_nat i * 31 + seed) mod 256)%N) (seq 0 n).
Definition toy_packet : packet bytes :=
  {| p_iv := 1234567890123456789012345678%N; p_nonce := toy_bytes 12 5;
     p_kind := KHandshake (toy_bytes 32 9) (toy_bytes 64 1) (toy_bytes 33 2) (Some (toy_bytes 120 3));
     p_message := toy_bytes 20 4 |}.
Example C05_decode_encode_hypotheses_hold :
  (forall e, toy_enr_decode (toy_enr_encode e) = Some e)
  /\ (forall e, toy_enr_encode e <> [])
  /\ packet_wf bytes toy_packet
  /\ (MIN_PACKET_SIZE <= len (encode toy_ks toy_enr_encode toy_packet (toy_bytes 32 77))
      /\ len (encode toy_ks toy_enr_encode toy_packet (toy_bytes 32 77)) <= MAX_PACKET_SIZE)%N
  /\ decode toy_ks toy_enr_decode (toy_bytes 32 77)
       (encode toy_ks toy_enr_encode toy_packet (toy_bytes 32 77))
     = Ok (toy_packet, authenticated_data toy_enr_encode toy_packet).
Proof.
  split; [reflexivity|]. split; [discriminate|].
  split.
  { split; [reflexivity|]. split; [reflexivity|]. split; [|discriminate].
    split; [reflexivity|]. split; apply Nat.leb_le; reflexivity. }
  split; [split; apply N.leb_le; vm_compute; reflexivity|].
  vm_compute. reflexivity.
Qed.
Print Assumptions C05_decode_encode_hypotheses_hold.

(* ---- exact, the other direction: whatever Packet::decode accepts re-encodes (for the same node
        id) to the received datagram, the authenticated bytes it returns are
        Packet::authenticated_data of the returned packet, and that packet is well formed.
        Premises, all visible here:
        * the datagram consists of bytes (< 256) and so does the keystream used for it (the model's
          byte strings are lists of N; to_be (from_be x) = x needs bytes);
        * the record decoder is canonical: a record it returns encodes to exactly the bytes it
          was given.  This premise is only used for a handshake that carries a record (next
          theorems) and it cannot be dropped: see
          C05_noncanonical_handshake_accepted_observation at the end of the file. ---- *)
Theorem C05_encode_decode :
  forall (ks : bytes -> bytes -> nat -> N) (enr : Type)
         (enr_encode : enr -> bytes) (enr_decode : bytes -> option enr)
         (local data : bytes) (p : packet enr) (aad : bytes),
    (forall b e, enr_decode b = Some e -> enr_encode e = b) ->
    bytes_ok data ->
    (forall i, byte_ok (ks (firstn 16 local) (firstn 16 data) i)) ->
    decode ks enr_decode local data = Ok (p, aad) ->
    encode ks enr_encode p local = data
    /\ authenticated_data enr_encode p = aad
    /\ packet_wf enr p.
Proof. exact encode_decode. Qed.
Print Assumptions C05_encode_decode.

(* the record of a packet: only a handshake can carry one *)
Theorem C05_kind_record_meaning :
  forall (enr : Type) (k : pkind enr),
    kind_record k = match k with KHandshake _ _ _ r => r | _ => None end.
Proof. reflexivity. Qed.
Print Assumptions C05_kind_record_meaning.

(* without a record (MESSAGE, WHOAREYOU, handshake without record) nothing is asked of the record
   codec: the codec is exact in both directions for every [enr_encode], [enr_decode] *)
Theorem C05_encode_decode_no_record :
  forall (ks : bytes -> bytes -> nat -> N) (enr : Type)
         (enr_encode : enr -> bytes) (enr_decode : bytes -> option enr)
         (local data : bytes) (p : packet enr) (aad : bytes),
    bytes_ok data ->
    (forall i, byte_ok (ks (firstn 16 local) (firstn 16 data) i)) ->
    decode ks enr_decode local data = Ok (p, aad) ->
    kind_record (p_kind p) = None ->
    encode ks enr_encode p local = data
    /\ authenticated_data enr_encode p = aad
    /\ packet_wf enr p.
Proof. exact encode_decode_no_record. Qed.
Print Assumptions C05_encode_decode_no_record.

(* the general form, and its converse: for an accepted datagram (whose authenticated data are
   bytes) the packet re-encodes to the datagram IF AND ONLY IF the record it carries, if any,
   encodes to exactly the record bytes of the auth-data (the bytes after signature and key) *)
Theorem C05_encode_decode_iff_record_canonical :
  forall (ks : bytes -> bytes -> nat -> N) (enr : Type)
         (enr_encode : enr -> bytes) (enr_decode : bytes -> option enr)
         (local data : bytes) (p : packet enr) (aad : bytes),
    decode ks enr_decode local data = Ok (p, aad) ->
    let record_is_canonical :=
      match kind_record (p_kind p) with
      | Some e => enr_encode e
                  = skipn (34 + sig_size_of ks local data + key_size_of ks local data) (ad_of ks local data)
      | None => True
      end in
    (bytes_ok aad -> record_is_canonical ->
       encode ks enr_encode p local = data /\ authenticated_data enr_encode p = aad /\ packet_wf enr p)
    /\ (authenticated_data enr_encode p = aad -> record_is_canonical).
Proof.
  intros ks enr enr_encode enr_decode local data p aad H. split.
  - exact (encode_decode_gen ks enr enr_encode enr_decode local data p aad H).
  - exact (encode_decode_needs_canonical_record ks enr enr_encode enr_decode local data p aad H).
Qed.
Print Assumptions C05_encode_decode_iff_record_canonical.

(* the hypotheses are satisfiable: the toy record codec is canonical, the toy keystream consists of
   bytes, and the encoding of the toy handshake (with a record) is a datagram of bytes that is
   accepted *)
Example C05_encode_decode_hypotheses_hold :
  (forall b e, toy_enr_decode b = Some e -> toy_enr_encode e = b)
  /\ (forall key iv i, byte_ok (toy_ks key iv i))
  /\ (let d := encode toy_ks toy_enr_encode toy_packet (toy_bytes 32 77) in
      bytes_ok d
      /\ decode toy_ks toy_enr_decode (toy_bytes 32 77) d
         = Ok (toy_packet, authenticated_data toy_enr_encode toy_packet)
      /\ kind_record (p_kind toy_packet) = Some (toy_bytes 120 3)).
Proof.
  split.
  { intros [|x t] e; cbn [toy_enr_decode]; [discriminate|].
    destruct (N.eqb_spec x 192) as [->|]; [|discriminate]. intro H; injection H as <-. reflexivity. }
  split; [intros key iv i; unfold toy_ks, byte_ok; apply N.mod_lt; discriminate|].
  cbv zeta. split; [apply bytes_ok_check; vm_compute; reflexivity|].
  split; vm_compute; reflexivity.
Qed.
Print Assumptions C05_encode_decode_hypotheses_hold.

(* ---- the datagram equals the discv5.1 layout: iv, masked header, body; the header is
        "discv5" || version || flag || nonce || authdata-size || authdata ---- *)
Theorem C05_encode_layout :
  forall (ks : bytes -> bytes -> nat -> N) (enr : Type) (enr_encode : enr -> bytes)
         (p : packet enr) (dst : bytes),
    encode ks enr_encode p dst =
      to_be 16 (p_iv p)
      ++ xor_stream (ks (firstn 16 dst) (to_be 16 (p_iv p))) 0
           (protocol_id ++ protocol_version ++ to_be 1 (kind_flag (p_kind p)) ++ p_nonce p
            ++ to_be 2 (len (kind_encode enr_encode (p_kind p))) ++ kind_encode enr_encode (p_kind p))
      ++ p_message p.
Proof. exact encode_layout. Qed.
Print Assumptions C05_encode_layout.

Theorem C05_authdata_layout :
  forall (enr : Type) (enr_encode : enr -> bytes) (k : pkind enr),
    kind_encode enr_encode k =
    match k with
    | KMessage src => src
    | KWhoAreYou idn seq => idn ++ to_be 8 seq
    | KHandshake src sig key rec =>
      src ++ to_be 1 (len sig) ++ to_be 1 (len key) ++ sig ++ key
          ++ match rec with Some e => enr_encode e | None => [] end
    end.
Proof. exact authdata_layout. Qed.
Print Assumptions C05_authdata_layout.

(* ---- total: decoding any byte string with any local id ends with a packet or an error ---- *)
Theorem C05_decode_total :
  forall (ks : bytes -> bytes -> nat -> N) (enr : Type) (enr_decode : bytes -> option enr)
         (local data : bytes),
    decode ks enr_decode local data <> Panic.
Proof. exact decode_total. Qed.
Print Assumptions C05_decode_total.

(* two variants of PacketError can never be returned by Packet::decode (dead code) *)
Theorem C05_decode_dead_errors :
  forall (ks : bytes -> bytes -> nat -> N) (enr : Type) (enr_decode : bytes -> option enr)
         (local data : bytes),
    decode ks enr_decode local data <> Err InvalidNodeId
    /\ forall n, decode ks enr_decode local data <> Err (HeaderLengthInvalid n).
Proof. exact decode_dead_errors. Qed.
Print Assumptions C05_decode_dead_errors.

(* ---- strict ---- *)
Theorem C05_strict_too_small :
  forall ks enr (enr_decode : bytes -> option enr) local data,
    (len data < MIN_PACKET_SIZE)%N -> decode ks enr_decode local data = Err TooSmall.
Proof. exact strict_too_small. Qed.
Print Assumptions C05_strict_too_small.

Theorem C05_strict_too_large :
  forall ks enr (enr_decode : bytes -> option enr) local data,
    (MAX_PACKET_SIZE < len data)%N -> decode ks enr_decode local data = Err TooLarge.
Proof. exact strict_too_large. Qed.
Print Assumptions C05_strict_too_large.

Theorem C05_strict_protocol_id :
  forall ks enr (enr_decode : bytes -> option enr) local data,
    size_ok data -> firstn 6 (sh_of ks local data) <> protocol_id ->
    decode ks enr_decode local data = Err HeaderDecryptionFailed.
Proof. exact strict_protocol_id. Qed.
Print Assumptions C05_strict_protocol_id.

Theorem C05_strict_version :
  forall ks enr (enr_decode : bytes -> option enr) local data,
    size_ok data -> firstn 6 (sh_of ks local data) = protocol_id ->
    firstn 2 (skipn 6 (sh_of ks local data)) <> protocol_version ->
    decode ks enr_decode local data
    = Err (InvalidVersion (from_be (firstn 2 (skipn 6 (sh_of ks local data))))).
Proof. exact strict_version. Qed.
Print Assumptions C05_strict_version.

Theorem C05_strict_authdata_exceeds_datagram :
  forall ks enr (enr_decode : bytes -> option enr) local data,
    header_ok ks local data -> (remaining_of data < asz_of ks local data)%nat ->
    decode ks enr_decode local data = Err InvalidAuthDataSize.
Proof. exact strict_authdata_exceeds. Qed.
Print Assumptions C05_strict_authdata_exceeds_datagram.

Theorem C05_strict_unknown_kind :
  forall ks enr (enr_decode : bytes -> option enr) local data,
    header_ok ks local data -> (asz_of ks local data <= remaining_of data)%nat ->
    flag_of ks local data <> 0%N -> flag_of ks local data <> 1%N -> flag_of ks local data <> 2%N ->
    decode ks enr_decode local data = Err UnknownPacket.
Proof. exact strict_unknown_kind. Qed.
Print Assumptions C05_strict_unknown_kind.

(* (the size test comes first in the code: with an impossible size the error is the size error) *)
Theorem C05_strict_unknown_kind_always_rejected :
  forall ks enr (enr_decode : bytes -> option enr) local data,
    header_ok ks local data ->
    flag_of ks local data <> 0%N -> flag_of ks local data <> 1%N -> flag_of ks local data <> 2%N ->
    decode ks enr_decode local data = Err UnknownPacket
    \/ decode ks enr_decode local data = Err InvalidAuthDataSize.
Proof. exact strict_unknown_kind_rejected. Qed.
Print Assumptions C05_strict_unknown_kind_always_rejected.

Theorem C05_strict_message_authdata_size :
  forall ks enr (enr_decode : bytes -> option enr) local data,
    header_ok ks local data -> (asz_of ks local data <= remaining_of data)%nat ->
    flag_of ks local data = 0%N -> asz_of ks local data <> 32%nat ->
    decode ks enr_decode local data = Err InvalidAuthDataSize.
Proof. exact strict_message_authdata. Qed.
Print Assumptions C05_strict_message_authdata_size.

Theorem C05_strict_whoareyou_authdata_size :
  forall ks enr (enr_decode : bytes -> option enr) local data,
    header_ok ks local data -> (asz_of ks local data <= remaining_of data)%nat ->
    flag_of ks local data = 1%N -> asz_of ks local data <> 24%nat ->
    decode ks enr_decode local data = Err InvalidAuthDataSize.
Proof. exact strict_whoareyou_authdata. Qed.
Print Assumptions C05_strict_whoareyou_authdata_size.

Theorem C05_strict_handshake_authdata_fixed_part :
  forall ks enr (enr_decode : bytes -> option enr) local data,
    header_ok ks local data -> (asz_of ks local data <= remaining_of data)%nat ->
    flag_of ks local data = 2%N -> (asz_of ks local data < 34)%nat ->
    decode ks enr_decode local data = Err InvalidAuthDataSize.
Proof. exact strict_handshake_authdata_fixed. Qed.
Print Assumptions C05_strict_handshake_authdata_fixed_part.

Theorem C05_strict_handshake_authdata_sig_key :
  forall ks enr (enr_decode : bytes -> option enr) local data,
    header_ok ks local data -> (asz_of ks local data <= remaining_of data)%nat ->
    flag_of ks local data = 2%N ->
    (asz_of ks local data < 34 + sig_size_of ks local data + key_size_of ks local data)%nat ->
    decode ks enr_decode local data = Err InvalidAuthDataSize.
Proof. exact strict_handshake_authdata_sig_key. Qed.
Print Assumptions C05_strict_handshake_authdata_sig_key.

(* a handshake whose auth-data continue after signature and key with bytes that are not a valid
   signed record (the record decoder refuses them) *)
Theorem C05_strict_handshake_bad_record :
  forall ks enr (enr_decode : bytes -> option enr) local data,
    header_ok ks local data -> (asz_of ks local data <= remaining_of data)%nat ->
    flag_of ks local data = 2%N ->
    (34 + sig_size_of ks local data + key_size_of ks local data < asz_of ks local data)%nat ->
    enr_decode (skipn (34 + sig_size_of ks local data + key_size_of ks local data) (ad_of ks local data))
      = None ->
    decode ks enr_decode local data = Err InvalidEnr.
Proof. exact strict_handshake_bad_record. Qed.
Print Assumptions C05_strict_handshake_bad_record.

Theorem C05_strict_whoareyou_with_body :
  forall ks enr (enr_decode : bytes -> option enr) local data,
    header_ok ks local data -> flag_of ks local data = 1%N -> asz_of ks local data = 24%nat ->
    (63 < length data)%nat ->
    decode ks enr_decode local data = Err UnknownPacket.
Proof. exact strict_whoareyou_body_exact. Qed.
Print Assumptions C05_strict_whoareyou_with_body.

(* all rules at once: whatever is accepted passed every one of them *)
Theorem C05_accepts_only_well_formed_datagrams :
  forall ks enr (enr_decode : bytes -> option enr) local data p aad,
    decode ks enr_decode local data = Ok (p, aad) ->
    header_ok ks local data /\ (asz_of ks local data <= remaining_of data)%nat /\
    (   (flag_of ks local data = 0%N /\ asz_of ks local data = 32%nat)
     \/ (flag_of ks local data = 1%N /\ asz_of ks local data = 24%nat /\ length data = 63%nat)
     \/ (flag_of ks local data = 2%N
         /\ (34 + sig_size_of ks local data + key_size_of ks local data <= asz_of ks local data)%nat)).
Proof. exact decode_accepts_only. Qed.
Print Assumptions C05_accepts_only_well_formed_datagrams.

(* ... and for an accepted handshake: the fields are the slices of the auth-data, a record is
   returned exactly when there are bytes after signature and key, and it is what the record
   decoder returned for those bytes (so bytes the record decoder refuses are never accepted) *)
Theorem C05_accepts_only_handshakes_with_valid_record :
  forall ks enr (enr_decode : bytes -> option enr) local data p aad,
    decode ks enr_decode local data = Ok (p, aad) -> flag_of ks local data = 2%N ->
    exists src sig key rec,
      p_kind p = KHandshake src sig key rec
      /\ src = firstn 32 (ad_of ks local data)
      /\ sig = firstn (sig_size_of ks local data) (skipn 34 (ad_of ks local data))
      /\ key = firstn (key_size_of ks local data) (skipn (34 + sig_size_of ks local data) (ad_of ks local data))
      /\ (34 + sig_size_of ks local data + key_size_of ks local data <= asz_of ks local data)%nat
      /\ ((34 + sig_size_of ks local data + key_size_of ks local data < asz_of ks local data)%nat ->
            exists e, enr_decode (skipn (34 + sig_size_of ks local data + key_size_of ks local data)
                                        (ad_of ks local data)) = Some e /\ rec = Some e)
      /\ ((34 + sig_size_of ks local data + key_size_of ks local data = asz_of ks local data)%nat ->
            rec = None).
Proof. exact decode_accepts_handshake. Qed.
Print Assumptions C05_accepts_only_handshakes_with_valid_record.

(* the hypotheses of the strictness theorems are satisfiable: datagrams built in the unmasked
   domain (static header, auth-data, body) and masked with the toy keystream *)
Definition toy_local : bytes := toy_bytes 32 77.
Definition toy_iv : bytes := toy_bytes 16 8.
Definition toy_static (pid ver : bytes) (flag asz : N) : bytes :=
  pid ++ ver ++ [flag] ++ toy_bytes 12 5 ++ to_be 2 asz.
Definition toy_datagram (st ad body : bytes) : bytes :=
  toy_iv ++ xor_stream (toy_ks (firstn 16 toy_local) toy_iv) 0 (st ++ ad) ++ body.
Ltac toy :=
  repeat match goal with
         | |- _ /\ _ => split
         | |- size_ok _ => split; apply N.leb_le; vm_compute; reflexivity
         | |- header_ok _ _ _ => split; [split; apply N.leb_le; vm_compute; reflexivity|split; vm_compute; reflexivity]
         | |- (_ <= _)%nat => apply Nat.leb_le; vm_compute; reflexivity
         | |- (_ < _)%nat => apply Nat.ltb_lt; vm_compute; reflexivity
         | |- (_ < _)%N => apply N.ltb_lt; vm_compute; reflexivity
         | |- _ <> _ => vm_compute; congruence
         | |- _ = _ => vm_compute; reflexivity
         end.
Example C05_strictness_hypotheses_hold :
  (* a foreign protocol id *)
  (let d := toy_datagram (toy_static [100; 105; 115; 99; 118; 52]%N [0; 1]%N 0 32) (toy_bytes 32 1) (toy_bytes 9 2) in
   size_ok d /\ firstn 6 (sh_of toy_ks toy_local d) <> protocol_id)
  (* a foreign version *)
  /\ (let d := toy_datagram (toy_static protocol_id [0; 2]%N 0 32) (toy_bytes 32 1) (toy_bytes 9 2) in
      size_ok d /\ firstn 6 (sh_of toy_ks toy_local d) = protocol_id
      /\ firstn 2 (skipn 6 (sh_of toy_ks toy_local d)) <> protocol_version)
  (* an auth-data size larger than the datagram *)
  /\ (let d := toy_datagram (toy_static protocol_id protocol_version 0 42) (toy_bytes 32 1) (toy_bytes 9 2) in
      header_ok toy_ks toy_local d /\ (remaining_of d < asz_of toy_ks toy_local d)%nat)
  (* kind 3 *)
  /\ (let d := toy_datagram (toy_static protocol_id protocol_version 3 32) (toy_bytes 32 1) (toy_bytes 9 2) in
      header_ok toy_ks toy_local d /\ (asz_of toy_ks toy_local d <= remaining_of d)%nat
      /\ flag_of toy_ks toy_local d <> 0%N /\ flag_of toy_ks toy_local d <> 1%N
      /\ flag_of toy_ks toy_local d <> 2%N)
  (* a message with 33 bytes of auth-data *)
  /\ (let d := toy_datagram (toy_static protocol_id protocol_version 0 33) (toy_bytes 33 1) (toy_bytes 9 2) in
      header_ok toy_ks toy_local d /\ (asz_of toy_ks toy_local d <= remaining_of d)%nat
      /\ flag_of toy_ks toy_local d = 0%N /\ asz_of toy_ks toy_local d <> 32%nat)
  (* a WHOAREYOU with 23 bytes of auth-data *)
  /\ (let d := toy_datagram (toy_static protocol_id protocol_version 1 23) (toy_bytes 23 1) (toy_bytes 9 2) in
      header_ok toy_ks toy_local d /\ (asz_of toy_ks toy_local d <= remaining_of d)%nat
      /\ flag_of toy_ks toy_local d = 1%N /\ asz_of toy_ks toy_local d <> 24%nat)
  (* a handshake with 33 bytes of auth-data *)
  /\ (let d := toy_datagram (toy_static protocol_id protocol_version 2 33) (toy_bytes 33 1) (toy_bytes 9 2) in
      header_ok toy_ks toy_local d /\ (asz_of toy_ks toy_local d <= remaining_of d)%nat
      /\ flag_of toy_ks toy_local d = 2%N /\ (asz_of toy_ks toy_local d < 34)%nat)
  (* a handshake announcing a 64-byte signature and a 33-byte key in 130 bytes of auth-data *)
  /\ (let d := toy_datagram (toy_static protocol_id protocol_version 2 130)
                  (toy_bytes 32 1 ++ [64; 33]%N ++ toy_bytes 96 3) (toy_bytes 9 2) in
      header_ok toy_ks toy_local d /\ (asz_of toy_ks toy_local d <= remaining_of d)%nat
      /\ flag_of toy_ks toy_local d = 2%N
      /\ (asz_of toy_ks toy_local d < 34 + sig_size_of toy_ks toy_local d + key_size_of toy_ks toy_local d)%nat)
  (* a WHOAREYOU with a one-byte body *)
  /\ (let d := toy_datagram (toy_static protocol_id protocol_version 1 24) (toy_bytes 24 1) [7%N] in
      header_ok toy_ks toy_local d /\ flag_of toy_ks toy_local d = 1%N
      /\ asz_of toy_ks toy_local d = 24%nat /\ (63 < length d)%nat).
Proof. cbv zeta. toy. Qed.
Print Assumptions C05_strictness_hypotheses_hold.

(* the hypotheses of C05_strict_handshake_bad_record are satisfiable: a handshake with a 4-byte
   signature, a 3-byte key and two more bytes that the toy record decoder refuses (and it is
   rejected with InvalidEnr, by evaluation); the same datagram with the record bytes 192, 7 is
   accepted with the record [7] *)
Definition toy_handshake_datagram (record_bytes : bytes) : bytes :=
  toy_datagram (toy_static protocol_id protocol_version 2 (41 + len record_bytes))
               (toy_bytes 32 1 ++ [4; 3]%N ++ toy_bytes 7 3 ++ record_bytes) (toy_bytes 9 2).
Example C05_strict_handshake_bad_record_hypotheses_hold :
  (let d := toy_handshake_datagram [7; 7]%N in
   header_ok toy_ks toy_local d /\ (asz_of toy_ks toy_local d <= remaining_of d)%nat
   /\ flag_of toy_ks toy_local d = 2%N
   /\ (34 + sig_size_of toy_ks toy_local d + key_size_of toy_ks toy_local d < asz_of toy_ks toy_local d)%nat
   /\ toy_enr_decode (skipn (34 + sig_size_of toy_ks toy_local d + key_size_of toy_ks toy_local d)
                            (ad_of toy_ks toy_local d)) = None
   /\ decode toy_ks toy_enr_decode toy_local d = Err InvalidEnr)
  /\ (let d := toy_handshake_datagram [192; 7]%N in
      exists p aad, decode toy_ks toy_enr_decode toy_local d = Ok (p, aad)
                    /\ flag_of toy_ks toy_local d = 2%N /\ kind_record (p_kind p) = Some [7%N]).
Proof.
  cbv zeta. split; [toy|].
  exists {| p_iv := from_be toy_iv; p_nonce := toy_bytes 12 5;
            p_kind := KHandshake (toy_bytes 32 1) (firstn 4 (toy_bytes 7 3)) (skipn 4 (toy_bytes 7 3))
                                 (Some [7%N]);
            p_message := toy_bytes 9 2 |},
         (toy_iv ++ toy_static protocol_id protocol_version 2 43
                 ++ toy_bytes 32 1 ++ [4; 3]%N ++ toy_bytes 7 3 ++ [192; 7]%N).
  toy.
Qed.
Print Assumptions C05_strict_handshake_bad_record_hypotheses_hold.

(* ---- the authenticated data handed to the handler are the received iv and the unmasked header
        (static header and auth-data), the body is what follows ---- *)
Theorem C05_aad_is_received_bytes :
  forall ks enr (enr_decode : bytes -> option enr) local data p aad,
    decode ks enr_decode local data = Ok (p, aad) ->
    aad = firstn 16 data ++
          xor_stream (ks (firstn 16 local) (firstn 16 data)) 0
            (firstn (23 + asz_of ks local data) (skipn 16 data))
    /\ p_message p = skipn (16 + 23 + asz_of ks local data) data
    /\ (16 + 23 + asz_of ks local data <= length data)%nat.
Proof. exact aad_is_received_bytes. Qed.
Print Assumptions C05_aad_is_received_bytes.

(* ... hence two accepted datagrams with the same authenticated data and body are the same bytes
   (used by C02: the AEAD binds the whole datagram) *)
Theorem C05_decode_injective :
  forall ks enr (enr_decode : bytes -> option enr) local d1 d2 p1 p2 a1 a2,
    decode ks enr_decode local d1 = Ok (p1, a1) -> decode ks enr_decode local d2 = Ok (p2, a2) ->
    a1 = a2 -> p_message p1 = p_message p2 -> d1 = d2.
Proof. exact decode_injective. Qed.
Print Assumptions C05_decode_injective.

(* ---- a datagram masked for another node id is accepted only if the two keystreams agree on the
        first 8 bytes (protocol id and version); with key = id[..16] this is what can be said about
        an abstract stream cipher.  NOTE: ids sharing their first 16 bytes share the masking key. ---- *)
Theorem C05_wrong_id_needs_collision :
  forall ks enr (enr_encode : enr -> bytes) (enr_decode : bytes -> option enr)
         (p : packet enr) dst dst' q aad,
    decode ks enr_decode dst' (encode ks enr_encode p dst) = Ok (q, aad) ->
    forall i, (i < 8)%nat ->
      ks (firstn 16 dst') (to_be 16 (p_iv p)) i = ks (firstn 16 dst) (to_be 16 (p_iv p)) i.
Proof. exact wrong_id_needs_collision. Qed.
Print Assumptions C05_wrong_id_needs_collision.

(* with the toy keystream another id is indeed rejected (by evaluation) *)
Example C05_wrong_id_rejected_example :
  decode toy_ks toy_enr_decode (toy_bytes 32 78)
    (encode toy_ks toy_enr_encode toy_packet (toy_bytes 32 77)) = Err HeaderDecryptionFailed.
Proof. vm_compute. reflexivity. Qed.
Print Assumptions C05_wrong_id_rejected_example.

(* ---- OBSERVATION (laxness of the real code, and the reason for the canonicity premise of
        C05_encode_decode).  PacketKind::decode hands the rest of the auth-data to
        <Enr>::decode(&mut &remaining_data[total_size..]) through a temporary cursor.  The decoder
        of enr 0.13 reads ONE RLP list item from the front of that slice and Packet::decode never
        looks at what is left.  Hence a handshake whose auth-data continue after the record is
        accepted; the extra bytes are dropped from the returned Packet (they are still part of the
        authenticated data handed to the handler), and the packet does not re-encode to the
        datagram.  Shown on the model with a record codec that, like the real one, satisfies the two
        laws of C05_decode_encode and ignores trailing bytes ([lax_enr_encode], [lax_enr_decode]:
        the records are the RLP lists c0 and c1 01): the auth-data end with c0 09 09. ---- *)
Theorem C05_noncanonical_handshake_accepted_observation :
  (forall e, lax_enr_decode (lax_enr_encode e) = Some e)
  /\ (forall e, lax_enr_encode e <> [])
  /\ exists d p aad,
       bytes_ok d
       /\ (forall i, byte_ok (toy_ks (firstn 16 toy_local) (firstn 16 d) i))
       /\ decode toy_ks lax_enr_decode toy_local d = Ok (p, aad)
       /\ kind_record (p_kind p) = Some false
       /\ encode toy_ks lax_enr_encode p toy_local <> d
       /\ authenticated_data lax_enr_encode p <> aad
       /\ (length (encode toy_ks lax_enr_encode p toy_local) + 2 = length d)%nat.
Proof.
  split; [exact lax_enr_round_trip|]. split; [exact lax_enr_encode_nonempty|].
  exists (toy_handshake_datagram [192; 9; 9]%N),
         {| p_iv := from_be toy_iv; p_nonce := toy_bytes 12 5;
            p_kind := KHandshake (toy_bytes 32 1) (firstn 4 (toy_bytes 7 3)) (skipn 4 (toy_bytes 7 3))
                                 (Some false);
            p_message := toy_bytes 9 2 |},
         (toy_iv ++ toy_static protocol_id protocol_version 2 44
                 ++ toy_bytes 32 1 ++ [4; 3]%N ++ toy_bytes 7 3 ++ [192; 9; 9]%N).
  split; [apply bytes_ok_check; vm_compute; reflexivity|].
  split; [intro i; unfold toy_ks, byte_ok; apply N.mod_lt; discriminate|].
  toy.
Qed.
Print Assumptions C05_noncanonical_handshake_accepted_observation.

(* Configuration plumbing (Model/Config.v, transcribing ConfigBuilder, Config, Discv5::new / Discv5::start,
   tied to the code by the `glue` correspondence run on real loopback sockets): the parameters the theorems
   above take as given are the ones the application configured - the value set last through the builder,
   or the default - at every component they are handed to. *)
Require Discv5V.Generated.Params Discv5V.Model.Config Discv5V.Proofs.Config.
Theorem C05_configured_protocol_identity_reaches_the_codec : forall ops v, Discv5V.Model.Config.start_node ops = Some v ->
  Discv5V.Model.Config.VI (Discv5V.Model.Config.c_protocol_id (Discv5V.Model.Config.nv_built v)) (Discv5V.Model.Config.c_protocol_version (Discv5V.Model.Config.nv_built v)) = Discv5V.Model.Config.configured ops Discv5V.Model.Config.FProtocolIdentity /\
  Discv5V.Model.Config.VI (Discv5V.Model.Config.c_protocol_id (Discv5V.Model.Config.nv_service v)) (Discv5V.Model.Config.c_protocol_version (Discv5V.Model.Config.nv_service v)) = Discv5V.Model.Config.configured ops Discv5V.Model.Config.FProtocolIdentity /\
  Discv5V.Model.Config.VI (Discv5V.Model.Config.c_protocol_id (Discv5V.Model.Config.nv_handler v)) (Discv5V.Model.Config.c_protocol_version (Discv5V.Model.Config.nv_handler v)) = Discv5V.Model.Config.configured ops Discv5V.Model.Config.FProtocolIdentity.
Proof. exact Discv5V.Proofs.Config.effective_protocol_identity. Qed.
Print Assumptions C05_configured_protocol_identity_reaches_the_codec.
Theorem C05_configuration_example : exists v, Discv5V.Model.Config.start_node Discv5V.Proofs.Config.example_ops = Some v.
Proof. destruct Discv5V.Proofs.Config.example_starts as [v [H _]]. exists v. exact H. Qed.
Print Assumptions C05_configuration_example.

(* The receive task in front of the handler (RecvHandler::handle_inbound, Model/Limiter.v recv_inbound,
   compared with the real task through the virtual handler on generated datagrams): *)
Require Discv5V.Model.Limiter Discv5V.Proofs.Limiter.
Module C05Recv.
Import Discv5V.Model.Limiter.
Theorem C05_decoded_packet_reaches_the_handler : forall (f : pfilter) (p : pbl) (expected : list saddr) (src : saddr) (k : pkind) (now : N),
  enabled f = false -> has_key (sa_ip src) (ban_ips p) = false ->
  (forall id : N, packet_src_id k = Some id -> has_key id (ban_nodes p) = false) ->
  recv_inbound f p expected src (Some k) now = (f, p, Deliver, normalise_src src).
Proof. exact Discv5V.Proofs.Limiter.unfiltered_packet_is_delivered. Qed.
Print Assumptions C05_decoded_packet_reaches_the_handler.
End C05Recv.
