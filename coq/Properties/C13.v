(* C13 - Filter exemptions track outstanding exchanges exactly.
   "A remote address is exempt from the inbound packet filter only while this node is waiting for
   something from it - an unanswered request or an unanswered WHOAREYOU - and the number of
   exemptions for an address equals the number of such outstanding items.  Whenever every request
   has completed or failed and every challenge was answered or expired, no exemption remains, no
   matter how the remote side behaved."

   Statements about Model/Handler.v (validated against the real handler by the correspondence run);
   every theorem is closed by a lemma of Proofs/HandlerInv.v and followed by Print Assumptions.
   [fixed_cfg c]: the four repairs (D1, D2a, D2b, D6) are switched on; only D6 matters for C13
   ([C13_expected_exact_needs_only_d6]).  The events, the times and the oracle draws of a run are
   arbitrary: "no matter how the remote side behaved". *)
From Coq Require Import List Arith NArith Bool.
From Discv5V Require Import Model.Handler Proofs.HandlerInv.
Import ListNotations.

(* [cnt_active a h]: number of request calls stored in the active requests under node addresses
   with socket address a; [cnt_chall a h]: number of challenges (sent WHOAREYOUs not yet answered
   or expired) for node addresses with socket address a; [exp_get a (expected h)]: the number of
   exemptions of a. *)

(* the invariant holds initially and is preserved by every step: every event, time and draws *)
Theorem C13_invariant_initially : ExpInv init_state.
Proof. exact init_ExpInv. Qed.
Print Assumptions C13_invariant_initially.

Theorem C13_invariant_preserved :
  forall c h e now d, fixed_cfg c -> ExpInv h -> ExpInv (fst (step c h e now d)).
Proof. exact step_inv. Qed.
Print Assumptions C13_invariant_preserved.

(* expected_exact: in every reachable state the number of exemptions of every address equals the
   number of outstanding items *)
Theorem C13_expected_exact :
  forall c evs, fixed_cfg c ->
  let h := fst (run c init_state evs) in
  forall a, exp_get a (expected h) = cnt_active a h + cnt_chall a h.
Proof. intros c evs F h a. apply (expected_exact c evs F). Qed.
Print Assumptions C13_expected_exact.

Theorem C13_expected_exact_needs_only_d6 :
  forall c evs, fix_d6 c = true ->
  let h := fst (run c init_state evs) in
  forall a, exp_get a (expected h) = cnt_active a h + cnt_chall a h.
Proof. intros c evs F h a. apply (run_inv_d6 c evs init_state F init_ExpInv). Qed.
Print Assumptions C13_expected_exact_needs_only_d6.

(* the well-formedness half of the invariant, spelled out: node addresses occur once in the active
   requests, no empty list is stored, every request is stored under the node address of its
   contact; addresses occur once in the exemption map and every stored count is positive *)
Theorem C13_reachable_well_formed :
  forall c evs, fixed_cfg c ->
  let h := fst (run c init_state evs) in
  NoDup (map fst (active h)) /\
  Forall (fun x => snd x <> [] /\ Forall (fun r => c_naddr (rc_contact r) = fst x) (snd x)) (active h) /\
  NoDup (map fst (expected h)) /\ Forall (fun x => 0 < snd x) (expected h).
Proof.
  intros c evs F h. destruct (expected_exact c evs F) as (((H1 & H2) & (H3 & H4)) & _).
  repeat split; assumption.
Qed.
Print Assumptions C13_reachable_well_formed.

(* an address is exempt (it is a key of the map, which is what the filter tests) exactly while
   something is outstanding for it *)
Theorem C13_exempt_only_while_waiting :
  forall c evs a, fixed_cfg c ->
  let h := fst (run c init_state evs) in
  In a (map fst (expected h)) <-> 0 < cnt_active a h + cnt_chall a h.
Proof. intros c evs a F h. apply exempt_iff_waiting. apply expected_exact. exact F. Qed.
Print Assumptions C13_exempt_only_while_waiting.

(* all_done_no_exemption *)
Theorem C13_all_done_no_exemption :
  forall c evs, fixed_cfg c ->
  let h := fst (run c init_state evs) in
  active h = [] -> challenges h = [] -> expected h = [].
Proof. intros c evs F h. apply all_done_no_exemption. apply expected_exact. exact F. Qed.
Print Assumptions C13_all_done_no_exemption.

(* The pinned behaviour (exemptions not returned on the error paths, DESIGN.md section 7 D6)
   violated the property: a request, the peer's WHOAREYOU, and a second WHOAREYOU for the handshake
   packet leave an exemption behind although nothing is outstanding.  Record of the finding. *)
Theorem C13_pinned_exemption_leak_refuted :
  exists c evs, fix_d6 c = false /\
    let h := fst (run c init_state evs) in active h = [] /\ challenges h = [] /\ expected h <> [].
Proof. exact pinned_exemption_leak_refuted. Qed.
Print Assumptions C13_pinned_exemption_leak_refuted.

(* The hypotheses are satisfiable by non-trivial states: a configuration with all repairs, and a
   run after which a session is established, two requests are active and a challenge is pending. *)
Example C13_hypotheses_satisfiable :
  fixed_cfg (ex_cfg true) /\
  let h := fst (run (ex_cfg true) init_state ex_busy_events) in
  ExpInv h /\ length (sessions h) = 1 /\ cnt_active 20%N h = 2 /\ cnt_chall 30%N h = 1 /\
  expected h = [(20%N, 2); (30%N, 1)].
Proof. split; [exact ex_cfg_fixed|exact busy_state]. Qed.
Print Assumptions C13_hypotheses_satisfiable.

(* "Whenever every request has completed or failed and every challenge was answered or expired, no
   exemption remains, no matter how the remote side behaved": beyond [C13_all_done_no_exemption]
   (nothing outstanding => no exemption), the handler also GETS there on its own: after any run, when
   only time passes, a bounded number of ticks settles every request and every challenge and leaves
   no exemption (Proofs/HandlerA_Drain*.v; hypotheses explained at C04_drain in Properties/C04.v). *)
From Discv5V Require Import Proofs.HandlerA_Ledger Proofs.HandlerA_Nonce Proofs.HandlerA_Progress
  Proofs.HandlerA_Drain Proofs.HandlerA_Drain2.
Theorem C13_time_alone_clears_every_exemption :
  forall c evs ticks T,
  fixed_cfg c -> fresh_run c init_state evs -> times_le T evs ->
  let h := fst (run c init_state evs) in
  tick_schedule c (next_bound c T) ticks -> fresh_run c h ticks ->
  drain_bound c h <= length ticks ->
  let h' := fst (run c h ticks) in
  active h' = [] /\ challenges h' = [] /\ expected h' = [].
Proof.
  intros c evs ticks T F R TL h TS RT B h'.
  destruct (drain_after c evs ticks T F R TL TS RT B) as ((A & _ & C & _ & E) & _).
  repeat split; assumption.
Qed.
Print Assumptions C13_time_alone_clears_every_exemption.

(* Configuration plumbing (Model/Config.v, transcribing ConfigBuilder, Config, Discv5::new / Discv5::start,
   tied to the code by the `glue` correspondence run on real loopback sockets): the parameters the theorems
   above take as given are the ones the application configured - the value set last through the builder,
   or the default - at every component they are handed to. *)
Require Discv5V.Generated.Params Discv5V.Model.Config Discv5V.Proofs.Config.
Theorem C13_configured_filter_reaches_the_receive_path : forall ops v, Discv5V.Model.Config.start_node ops = Some v ->
  Discv5V.Model.Config.VB (Discv5V.Model.Config.c_enable_packet_filter (Discv5V.Model.Config.nv_handler v)) = Discv5V.Model.Config.configured ops Discv5V.Model.Config.FEnablePacketFilter /\
  Discv5V.Model.Config.VO (Discv5V.Model.Config.c_filter_max_nodes_per_ip (Discv5V.Model.Config.nv_handler v)) = Discv5V.Model.Config.configured ops Discv5V.Model.Config.FFilterMaxNodesPerIp /\
  Discv5V.Model.Config.VO (Discv5V.Model.Config.c_filter_max_bans_per_ip (Discv5V.Model.Config.nv_handler v)) = Discv5V.Model.Config.configured ops Discv5V.Model.Config.FFilterMaxBansPerIp /\
  Discv5V.Model.Config.VR (Discv5V.Model.Config.c_filter_rate_limiter (Discv5V.Model.Config.nv_handler v)) = Discv5V.Model.Config.configured ops Discv5V.Model.Config.FFilterRateLimiter.
Proof. exact Discv5V.Proofs.Config.effective_filter. Qed.
Print Assumptions C13_configured_filter_reaches_the_receive_path.
Theorem C13_configuration_example : exists v, Discv5V.Model.Config.start_node Discv5V.Proofs.Config.example_ops = Some v.
Proof. destruct Discv5V.Proofs.Config.example_starts as [v [H _]]. exists v. exact H. Qed.
Print Assumptions C13_configuration_example.

(* The receive task in front of the handler (RecvHandler::handle_inbound, Model/Limiter.v recv_inbound,
   compared with the real task through the virtual handler on generated datagrams): *)
Require Discv5V.Model.Limiter Discv5V.Proofs.Limiter.
Module C13Recv.
Import Discv5V.Model.Limiter.
Theorem C13_exemption_is_per_socket_address : forall (f : pfilter) (p : pbl) (expected : list saddr) (src : saddr) (packet : option pkind) (now : N),
  (forall e : saddr, In e expected -> sa_ip e <> sa_ip src \/ sa_port e <> sa_port src) ->
  recv_inbound f p expected src packet now = recv_inbound f p nil src packet now.
Proof. exact Discv5V.Proofs.Limiter.exemption_is_per_socket_address. Qed.
Print Assumptions C13_exemption_is_per_socket_address.
Theorem C13_awaited_source_bypasses_the_filter : forall (f : pfilter) (p : pbl) (expected : list saddr) (src : saddr) (packet : option pkind) (now : N),
  In (normalise_src src) expected ->
  recv_inbound f p expected src packet now =
  (f, p, match packet with Some _ => Deliver | None => Unrecognized end, normalise_src src).
Proof. exact Discv5V.Proofs.Limiter.exempted_source_bypasses_filter. Qed.
Print Assumptions C13_awaited_source_bypasses_the_filter.
End C13Recv.

(* The receive task composed with the handler's exemption ledger (Proofs/RecvHandler.v): in every
   reachable handler state a datagram from an address this node is waiting for - an unanswered request or
   an unanswered WHOAREYOU - passes the receive task whatever the filter and the ban lists hold; when
   nothing is outstanding every source is unsolicited. [sa_of] maps the handler model's addresses to the
   receive task's socket addresses (normalised: the handler never sees any other). *)
Require Discv5V.Model.Handler Discv5V.Proofs.HandlerInv Discv5V.Model.Limiter Discv5V.Proofs.RecvHandler.
Module C13Compose.
Import Discv5V.Model.Handler Discv5V.Proofs.HandlerInv Discv5V.Model.Limiter.
Theorem C13_awaited_answer_passes_the_receive_task :
  forall (sa_of : N -> saddr), (forall x, normalise_src (sa_of x) = sa_of x) ->
  forall c evs a f p packet now, fixed_cfg c ->
  let h := fst (run c init_state evs) in
  (0 < cnt_active a h + cnt_chall a h)%nat ->
  recv_inbound f p (Discv5V.Proofs.RecvHandler.expected_sources sa_of h) (sa_of a) packet now =
  (f, p, match packet with Some _ => Deliver | None => Unrecognized end, sa_of a).
Proof. exact Discv5V.Proofs.RecvHandler.awaited_answer_passes_the_receive_task. Qed.
Print Assumptions C13_awaited_answer_passes_the_receive_task.
Theorem C13_nothing_outstanding_everything_is_unsolicited :
  forall (sa_of : N -> saddr) c evs f p src packet now, fixed_cfg c ->
  let h := fst (run c init_state evs) in
  active h = nil -> challenges h = nil ->
  recv_inbound f p (Discv5V.Proofs.RecvHandler.expected_sources sa_of h) src packet now = recv_inbound f p nil src packet now.
Proof. exact Discv5V.Proofs.RecvHandler.nothing_outstanding_everything_is_unsolicited. Qed.
Print Assumptions C13_nothing_outstanding_everything_is_unsolicited.
End C13Compose.
