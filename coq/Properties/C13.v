(* C13 - Filter exemptions track outstanding exchanges exactly.
   "A remote address is exempt from the inbound packet filter only while this node is waiting for
   something from it - an unanswered request or an unanswered WHOAREYOU - and the number of
   exemptions for an address equals the number of such outstanding items.  Whenever every request
   has completed or failed and every challenge was answered or expired, no exemption remains, no
   matter how the remote side behaved."

   Statements about Model/Handler.v (validated against the real handler by the correspondence run);
   every theorem is closed by a lemma of Proofs/HandlerInv.v and followed by Print Assumptions.
   [fixed_cfg c]: the four repairs (D1, D2a, D2b, D6) are switched on; only D6 matters for C13
   ([C13_expected_exact_needs_only_d6]).  The events, the times and the oracle draws of a run are
   arbitrary: "no matter how the remote side behaved". *)
From Coq Require Import List Arith NArith Bool.
From Discv5V Require Import Model.Handler Proofs.HandlerInv.
Import ListNotations.

(* [cnt_active a h]: number of request calls stored in the active requests under node addresses
   with socket address a; [cnt_chall a h]: number of challenges (sent WHOAREYOUs not yet answered
   or expired) for node addresses with socket address a; [exp_get a (expected h)]: the number of
   exemptions of a. *)

(* the invariant holds initially and is preserved by every step: every event, time and draws *)
Theorem C13_invariant_initially : ExpInv init_state.
Proof. exact init_ExpInv. Qed.
Print Assumptions C13_invariant_initially.

Theorem C13_invariant_preserved :
  forall c h e now d, fixed_cfg c -> ExpInv h -> ExpInv (fst (step c h e now d)).
Proof. exact step_inv. Qed.
Print Assumptions C13_invariant_preserved.

(* expected_exact: in every reachable state the number of exemptions of every address equals the
   number of outstanding items *)
Theorem C13_expected_exact :
  forall c evs, fixed_cfg c ->
  let h := fst (run c init_state evs) in
  forall a, exp_get a (expected h) = cnt_active a h + cnt_chall a h.
Proof. intros c evs F h a. apply (expected_exact c evs F). Qed.
Print Assumptions C13_expected_exact.

Theorem C13_expected_exact_needs_only_d6 :
  forall c evs, fix_d6 c = true ->
  let h := fst (run c init_state evs) in
  forall a, exp_get a (expected h) = cnt_active a h + cnt_chall a h.
Proof. intros c evs F h a. apply (run_inv_d6 c evs init_state F init_ExpInv). Qed.
Print Assumptions C13_expected_exact_needs_only_d6.

(* the well-formedness half of the invariant, spelled out: node addresses occur once in the active
   requests, no empty list is stored, every request is stored under the node address of its
   contact; addresses occur once in the exemption map and every stored count is positive *)
Theorem C13_reachable_well_formed :
  forall c evs, fixed_cfg c ->
  let h := fst (run c init_state evs) in
  NoDup (map fst (active h)) /\
  Forall (fun x => snd x <> [] /\ Forall (fun r => c_naddr (rc_contact r) = fst x) (snd x)) (active h) /\
  NoDup (map fst (expected h)) /\ Forall (fun x => 0 < snd x) (expected h).
Proof.
  intros c evs F h. destruct (expected_exact c evs F) as (((H1 & H2) & (H3 & H4)) & _).
  repeat split; assumption.
Qed.
Print Assumptions C13_reachable_well_formed.

(* an address is exempt (it is a key of the map, which is what the filter tests) exactly while
   something is outstanding for it *)
Theorem C13_exempt_only_while_waiting :
  forall c evs a, fixed_cfg c ->
  let h := fst (run c init_state evs) in
  In a (map fst (expected h)) <-> 0 < cnt_active a h + cnt_chall a h.
Proof. intros c evs a F h. apply exempt_iff_waiting. apply expected_exact. exact F. Qed.
Print Assumptions C13_exempt_only_while_waiting.

(* all_done_no_exemption *)
Theorem C13_all_done_no_exemption :
  forall c evs, fixed_cfg c ->
  let h := fst (run c init_state evs) in
  active h = [] -> challenges h = [] -> expected h = [].
Proof. intros c evs F h. apply all_done_no_exemption. apply expected_exact. exact F. Qed.
Print Assumptions C13_all_done_no_exemption.

(* The pinned behaviour (exemptions not returned on the error paths, DESIGN.md section 7 D6)
   violated the property: a request, the peer's WHOAREYOU, and a second WHOAREYOU for the handshake
   packet leave an exemption behind although nothing is outstanding.  Record of the finding. *)
Theorem C13_pinned_exemption_leak_refuted :
  exists c evs, fix_d6 c = false /\
    let h := fst (run c init_state evs) in active h = [] /\ challenges h = [] /\ expected h <> [].
Proof. exact pinned_exemption_leak_refuted. Qed.
Print Assumptions C13_pinned_exemption_leak_refuted.

(* The hypotheses are satisfiable by non-trivial states: a configuration with all repairs, and a
   run after which a session is established, two requests are active and a challenge is pending. *)
Example C13_hypotheses_satisfiable :
  fixed_cfg (ex_cfg true) /\
  let h := fst (run (ex_cfg true) init_state ex_busy_events) in
  ExpInv h /\ length (sessions h) = 1 /\ cnt_active 20%N h = 2 /\ cnt_chall 30%N h = 1 /\
  expected h = [(20%N, 2); (30%N, 1)].
Proof. split; [exact ex_cfg_fixed|exact busy_state]. Qed.
Print Assumptions C13_hypotheses_satisfiable.

(* "Whenever every request has completed or failed and every challenge was answered or expired, no
   exemption remains, no matter how the remote side behaved": beyond [C13_all_done_no_exemption]
   (nothing outstanding => no exemption), the handler also GETS there on its own: after any run, when
   only time passes, a bounded number of ticks settles every request and every challenge and leaves
   no exemption (Proofs/HandlerA_Drain*.v; hypotheses explained at C04_drain in Properties/C04.v). *)
From Discv5V Require Import Proofs.HandlerA_Ledger Proofs.HandlerA_Nonce Proofs.HandlerA_Progress
  Proofs.HandlerA_Drain Proofs.HandlerA_Drain2.
Theorem C13_time_alone_clears_every_exemption :
  forall c evs ticks T,
  fixed_cfg c -> fresh_run c init_state evs -> times_le T evs ->
  let h := fst (run c init_state evs) in
  tick_schedule c (next_bound c T) ticks -> fresh_run c h ticks ->
  drain_bound c h <= length ticks ->
  let h' := fst (run c h ticks) in
  active h' = [] /\ challenges h' = [] /\ expected h' = [].
Proof.
  intros c evs ticks T F R TL h TS RT B h'.
  destruct (drain_after c evs ticks T F R TL TS RT B) as ((A & _ & C & _ & E) & _).
  repeat split; assumption.
Qed.
Print Assumptions C13_time_alone_clears_every_exemption.
