(* C17 - External address is updated only by a clear majority.
   Statements only; every theorem is closed by [exact] / a short combination of lemmas proved in
   Proofs/IpVote.v and followed by Print Assumptions.  See DESIGN.md section 6 (C17) and the
   header of Model/IpVote.v for the modelling conventions.

   Notation: [cnt now a l] is the number of entries of the vote table [l] that vote for address
   [a] and are unexpired at [now]; a table has one entry per node id (its most recent vote);
   [threshold m] is the code's f64 expression ((m as f64) * (1.0 - 0.3)).round() as usize, modelled
   exactly (IEEE-754 binary64); [majority_of now mn l] is the verdict of
   filter_stale_find_most_frequent for the minimum [mn]. *)
From Coq Require Import List NArith Bool Permutation.
From Discv5V Require Import Generated.Params Model.IpVote Proofs.IpVote Proofs.IpVoteGap.
Import ListNotations.
Local Open Scope N_scope.

(* ---------------------------------------------------------------- the threshold *)

(* The f64 computation is 0.7 * max rounded to an integer, with an error of at most one half, for
   every leading count below 2^49 (beyond that binary64 is too coarse for this argument; a count
   is the number of entries of an in-memory hash map). *)
Theorem C17_threshold_is_70_percent_rounded :
  forall m, m < 2 ^ 49 -> 10 * threshold m <= 7 * m + 5 /\ 7 * m <= 10 * threshold m + 5.
Proof. exact threshold_bounds. Qed.
Print Assumptions C17_threshold_is_70_percent_rounded.

(* Away from exact half-way points it is round-half-up of 0.7 * max ... *)
Theorem C17_threshold_round_half_up :
  forall m, m < 2 ^ 49 -> m mod 10 <> 5 -> threshold m = (7 * m + 5) / 10.
Proof. exact threshold_half_up. Qed.
Print Assumptions C17_threshold_round_half_up.

(* ... but at half-way points the f64 product may fall on either side: the formula written in
   DESIGN.md before the code was modelled, (7 max + 5) / 10, is refuted (45 -> 31, not 32). *)
Theorem C17_design_formula_refuted :
  exists m, m < 2 ^ 49 /\ threshold m <> (7 * m + 5) / 10.
Proof. exact design_formula_refuted. Qed.
Print Assumptions C17_design_formula_refuted.

Theorem C17_threshold_at_most_max : forall m, threshold m <= m.
Proof. exact threshold_le. Qed.
Print Assumptions C17_threshold_at_most_max.

(* the model's constant is the one regenerated from ip_vote.rs *)
Theorem C17_constant_tied_to_params :
  CLEAR_MAJORITY_PERCENT = 30 /\ f_percentage = 5404319552844595 /\ f_keep = 12610078956637388.
Proof. split; [reflexivity | split; [exact f_percentage_value | exact f_keep_value]]. Qed.
Print Assumptions C17_constant_tied_to_params.

(* ---------------------------------------------------------------- the scan *)

(* scan_correct: after the single pass, max_count is the largest count, max_vote attains it,
   second_max_count is the largest count among the other addresses (record [scan_inv]); and
   max_count, second_max_count and the verdict are the same for every order in which the hash map
   may yield the votes. *)
Theorem C17_scan_correct :
  forall now mn l l', Permutation l l' ->
  scan_inv now l (run_scan now l) /\
  max_count (run_scan now l) = max_count (run_scan now l') /\
  second_max_count (run_scan now l) = second_max_count (run_scan now l') /\
  majority_of now mn l = majority_of now mn l'.
Proof. exact scan_correct. Qed.
Print Assumptions C17_scan_correct.

(* winner_spec: [a] wins iff it has at least the minimum of unexpired votes and every other
   address has fewer than [threshold] of a's count. *)
Theorem C17_winner_spec :
  forall now mn l a, 1 <= mn ->
  (majority_of now mn l = Some a <->
   mn <= cnt now a l /\ forall b, b <> a -> cnt now b l < threshold (cnt now a l)).
Proof. exact winner_spec. Qed.
Print Assumptions C17_winner_spec.

(* in terms of the 30 % margin: every rival of a winner has at most 0.7 m - 1/2 votes *)
Theorem C17_winner_leads_by_margin :
  forall now mn l a b, 1 <= mn -> cnt now a l < 2 ^ 49 ->
  majority_of now mn l = Some a -> b <> a ->
  mn <= cnt now a l /\ 10 * cnt now b l + 5 <= 7 * cnt now a l.
Proof. exact winner_leads_by_margin. Qed.
Print Assumptions C17_winner_leads_by_margin.

(* conversely, the minimum and a lead of more than 30 % (plus one half) suffice *)
Theorem C17_clear_lead_wins :
  forall now mn l a, 1 <= mn -> cnt now a l < 2 ^ 49 ->
  mn <= cnt now a l -> (forall b, b <> a -> 10 * cnt now b l + 5 < 7 * cnt now a l) ->
  majority_of now mn l = Some a.
Proof. exact clear_lead_wins. Qed.
Print Assumptions C17_clear_lead_wins.

(* ---------------------------------------------------------------- one vote per node *)

Theorem C17_one_vote_per_node :
  forall (ops : list (vop * N)) iv, wf iv ->
  wf (fold_left (fun s x => fst (vstep s (fst x) (snd x))) ops iv).
Proof. exact one_vote_per_node. Qed.
Print Assumptions C17_one_vote_per_node.

(* the entry of a node is its most recent vote, other nodes' entries are untouched, and an entry
   goes away exactly by expiring *)
Theorem C17_entry_is_most_recent_unexpired_vote :
  forall l, NoDup (map vnode l) ->
  (forall v, entry (vnode v) (put v l) = Some v) /\
  (forall v n, n <> vnode v -> entry n (put v l) = entry n l) /\
  (forall now n, entry n (prune now l) =
                 match entry n l with Some v => if fresh now v then Some v else None | None => None end).
Proof.
  intros l ND. split; [|split].
  - intros v. apply entry_put_same. exact ND.
  - intros v n Hn. apply entry_put_other; assumption.
  - intros now n. apply entry_prune. exact ND.
Qed.
Print Assumptions C17_entry_is_most_recent_unexpired_vote.

(* ---------------------------------------------------------------- the service *)

(* Every change of an address of the local record by a PONG, in every state [s] (reachable or
   not), for every voter status / time / connectivity input:
   the new address is the clear-majority winner, at that moment, of the table that contains the
   new vote ([iv1] is the table of the state, possibly pruned by require_more_ip_votes), the
   other family's address is untouched, the sequence number grows by one and exactly one
   SocketUpdated event for the new address is appended.
   update_bumps_seq_and_emits is the last two conjuncts. *)
Theorem C17_change_only_to_clear_majority_winner :
  forall s p nq ni fam,
  let s' := handle_pong s p nq ni in
  udp fam (enr s') <> udp fam (enr s) ->
  exists iv iv1 a,
    ip_votes s = Some iv /\ p_count_ok p = true /\ fst (p_sock p) = fam /\
    (iv1 = iv \/ iv1 = fst (majority iv nq)) /\
    majority_of nq (minimum iv) (put (new_vote iv (p_node p) (p_sock p) ni) (tbl fam iv1)) = Some a /\
    udp fam (enr s') = Some a /\
    udp (negb fam) (enr s') = udp (negb fam) (enr s) /\
    seq (enr s') = seq (enr s) + 1 /\
    events s' = events s ++ [(fam, a)].
Proof. exact handle_pong_change. Qed.
Print Assumptions C17_change_only_to_clear_majority_winner.

(* ... and without a change of address, neither the record nor the event stream moves *)
Theorem C17_no_change_no_bump_no_event :
  forall s p nq ni,
  let s' := handle_pong s p nq ni in
  udp4 (enr s') = udp4 (enr s) -> udp6 (enr s') = udp6 (enr s) ->
  enr s' = enr s /\ events s' = events s.
Proof. exact handle_pong_quiet. Qed.
Print Assumptions C17_no_change_no_bump_no_event.

(* fewer_than_min_cannot_move: over every sequence of PONGs (any voters, any connection status,
   any times, any mix of families, voters changing their vote) from a service whose vote tables
   are empty: if fewer than [mn] distinct peers ever report [(fam, a)], no PONG changes the
   record's address of that family to [a]. *)
Theorem C17_fewer_than_min_cannot_move :
  forall mn dur dual e0 (ps : list (pong * N * N)) fam a,
  N.of_nat (length (voters_for (fam, a) (map pong_of ps))) < mn ->
  forall pre x post, ps = pre ++ x :: post ->
  let s1 := run_pongs (initial_service mn dur dual e0) pre in
  let s2 := handle_pong s1 (pong_of x) (snd (fst x)) (snd x) in
  udp fam (enr s2) = Some a -> udp fam (enr s1) = Some a.
Proof. exact fewer_than_min_cannot_move. Qed.
Print Assumptions C17_fewer_than_min_cannot_move.

(* The hypotheses are satisfiable and the conclusions non-trivial: minimum 2, two peers report
   address 7, a third one a rival; the second PONG moves the record (seq 1 -> 2, one event); a
   single liar for address 9 never does. *)
Example C17_example_update :
  let P n a := ({| p_node := n; p_sock := (false, a); p_count_ok := true; p_conn_out := true; p_enr_ok := true |}, 100, 100) in
  let s := run_pongs (initial_service 2 1000 false {| seq := 1; udp4 := None; udp6 := None |}) [P 1 7; P 2 7; P 3 9] in
  enr s = {| seq := 2; udp4 := Some 7; udp6 := None |} /\ events s = [(false, 7)] /\
  length (voters_for (false, 9) (map pong_of [P 1 7; P 2 7; P 3 9])) = 1%nat.
Proof. vm_compute. repeat split; reflexivity. Qed.
Print Assumptions C17_example_update.

(* ---------------------------------------------------------------- the whole first sentence, composed *)

(* (gap audit, notes/gap_audit_C14_C20.md)  The theorems above state the clauses separately
   (the change is to the verdict of the scan; the verdict is the address with >= minimum unexpired
   entries and a clear lead; a table has one entry per node, its most recent vote).  Composed, for
   every PONG [x] of every history [pre ++ [x]] from the initial service (any voters, connection
   directions, times, families, minimum >= 1 - IpVote::new insists on >= 2):
   if the PONG changes the record's address of family [fam], then with [t] the vote table the
   decision was taken on and [nq] the moment of the decision,
     - the new address [a] is the entry of each peer of [quorum nq a t]: these peers are pairwise
       distinct and at least [mn]; the entry of each is unexpired at [nq], and was cast by a PONG
       of that peer in the history that reported exactly (fam, a);
     - [t] has one entry per peer (its most recent vote, C17_entry_is_most_recent_unexpired_vote);
     - every rival address has fewer than threshold(count of a) unexpired entries (the clear-
       majority margin, C17_threshold_is_70_percent_rounded);
     - the sequence number grows by one and exactly one SocketUpdated(a) event is appended.
   The signature of the new record is the enr crate's (oracle input p_enr_ok; observed to verify
   by the correspondence run). *)
Theorem C17_every_change_is_backed_by_a_quorum :
  forall mn dur dual e0 (pre : list (pong * N * N)) (x : pong * N * N) fam, 1 <= mn ->
  let s1 := run_pongs (initial_service mn dur dual e0) pre in
  let nq := snd (fst x) in
  let s2 := handle_pong s1 (pong_of x) nq (snd x) in
  udp fam (enr s2) <> udp fam (enr s1) ->
  exists a t,
    udp fam (enr s2) = Some a /\
    NoDup (map vnode t) /\
    NoDup (quorum nq a t) /\ mn <= N.of_nat (length (quorum nq a t)) /\
    (forall n, In n (quorum nq a t) ->
       (exists v, entry n t = Some v /\ vaddr v = a /\ fresh nq v = true) /\
       (exists p, In p (map pong_of (pre ++ [x])) /\ p_node p = n /\ p_sock p = (fam, a))) /\
    (forall b, b <> a -> cnt nq b t < threshold (cnt nq a t)) /\
    seq (enr s2) = seq (enr s1) + 1 /\
    events s2 = events s1 ++ [(fam, a)].
Proof. exact change_backed_by_quorum. Qed.
Print Assumptions C17_every_change_is_backed_by_a_quorum.

(* non-trivial instance: in C17_example_update the second PONG changes udp4 from None to 7 *)
Example C17_example_change_happens :
  let P n a := ({| p_node := n; p_sock := (false, a); p_count_ok := true; p_conn_out := true; p_enr_ok := true |}, 100, 100) in
  let s1 := run_pongs (initial_service 2 1000 false {| seq := 1; udp4 := None; udp6 := None |}) [P 1 7] in
  let s2 := handle_pong s1 (pong_of (P 2 7)) 100 100 in
  udp false (enr s2) <> udp false (enr s1) /\ udp false (enr s2) = Some 7.
Proof. vm_compute. split; [discriminate|reflexivity]. Qed.
Print Assumptions C17_example_change_happens.

(* Configuration plumbing (Model/Config.v, transcribing ConfigBuilder, Config, Discv5::new / Discv5::start,
   tied to the code by the `glue` correspondence run on real loopback sockets): the parameters the theorems
   above take as given are the ones the application configured - the value set last through the builder,
   or the default - at every component they are handed to. *)
Require Discv5V.Generated.Params Discv5V.Model.Config Discv5V.Proofs.Config.
Theorem C17_configured_quorum_reaches_the_service : forall ops v, Discv5V.Model.Config.start_node ops = Some v ->
  Discv5V.Model.Config.VN (Discv5V.Model.Config.c_enr_peer_update_min (Discv5V.Model.Config.nv_built v)) = Discv5V.Model.Config.configured ops Discv5V.Model.Config.FEnrPeerUpdateMin /\
  Discv5V.Model.Config.VN (Discv5V.Model.Config.c_enr_peer_update_min (Discv5V.Model.Config.nv_service v)) = Discv5V.Model.Config.configured ops Discv5V.Model.Config.FEnrPeerUpdateMin /\
  Discv5V.Model.Config.VN (Discv5V.Model.Config.c_enr_peer_update_min (Discv5V.Model.Config.nv_handler v)) = Discv5V.Model.Config.configured ops Discv5V.Model.Config.FEnrPeerUpdateMin.
Proof. exact Discv5V.Proofs.Config.effective_enr_peer_update_min. Qed.
Print Assumptions C17_configured_quorum_reaches_the_service.
Theorem C17_quorum_of_a_started_node_is_at_least_two : forall ops v, Discv5V.Model.Config.start_node ops = Some v ->
  (2 <= Discv5V.Model.Config.c_enr_peer_update_min (Discv5V.Model.Config.nv_service v))%N.
Proof. exact Discv5V.Proofs.Config.effective_enr_peer_update_min_ge_2. Qed.
Print Assumptions C17_quorum_of_a_started_node_is_at_least_two.
Theorem C17_configured_vote_duration_reaches_the_service : forall ops v, Discv5V.Model.Config.start_node ops = Some v ->
  Discv5V.Model.Config.VN (Discv5V.Model.Config.c_vote_duration (Discv5V.Model.Config.nv_built v)) = Discv5V.Model.Config.configured ops Discv5V.Model.Config.FVoteDuration /\
  Discv5V.Model.Config.VN (Discv5V.Model.Config.c_vote_duration (Discv5V.Model.Config.nv_service v)) = Discv5V.Model.Config.configured ops Discv5V.Model.Config.FVoteDuration /\
  Discv5V.Model.Config.VN (Discv5V.Model.Config.c_vote_duration (Discv5V.Model.Config.nv_handler v)) = Discv5V.Model.Config.configured ops Discv5V.Model.Config.FVoteDuration.
Proof. exact Discv5V.Proofs.Config.effective_vote_duration. Qed.
Print Assumptions C17_configured_vote_duration_reaches_the_service.
Theorem C17_configuration_example : exists v, Discv5V.Model.Config.start_node Discv5V.Proofs.Config.example_ops = Some v.
Proof. destruct Discv5V.Proofs.Config.example_starts as [v [H _]]. exists v. exact H. Qed.
Print Assumptions C17_configuration_example.

(* The running service loop (PONG handling, auto-NAT windows; Model/IpVote.v lstep, compared with the real
   Service::start on generated vote histories): an address of a family changes only while a PONG of that
   family is handled - to the clear majority, with a higher sequence number and one event - or is withdrawn
   when that family's own auto-NAT window has run out; votes of one family never touch the other. *)
Theorem C17_loop_address_changes_per_family :
  forall n now e fam,
  let n' := lstep n now e in
  udp fam (enr (n_svc n')) <> udp fam (enr (n_svc n)) ->
  (exists voter a0 co tick iv iv1 a,
     e = LPong voter (fam, a0) co tick /\ should_count (n_conn n) fam = true /\
     ip_votes (n_svc n) = Some iv /\ (iv1 = iv \/ iv1 = fst (majority iv tick)) /\
     majority_of tick (minimum iv) (put (new_vote iv voter (fam, a0) tick) (tbl fam iv1)) = Some a /\
     udp fam (enr (n_svc n')) = Some a /\
     udp (negb fam) (enr (n_svc n')) = udp (negb fam) (enr (n_svc n)) /\
     seq (enr (n_svc n')) = seq (enr (n_svc n)) + 1 /\
     events (n_svc n') = events (n_svc n) ++ [(fam, a)])
  \/
  (exists t, e = LTime t /\ due (wait_of (n_conn n) fam) t = true /\
     udp fam (enr (n_svc n')) = None /\ events (n_svc n') = events (n_svc n)).
Proof. exact loop_address_changes_per_family. Qed.
Print Assumptions C17_loop_address_changes_per_family.
Theorem C17_family_without_votes_never_changes :
  forall window s evs fam,
  forallb (fun x => negb (reports fam (snd x))) evs = true ->
  udp fam (enr (n_svc (lrun {| n_svc := s; n_conn := new_conn window |} evs))) = udp fam (enr s).
Proof. exact family_without_votes_never_changes. Qed.
Print Assumptions C17_family_without_votes_never_changes.
