(* C15 - Sessions expire and the session cache is bounded (cache part: LruTimeCache, the data
   structure behind Handler::sessions).  Statements only; every theorem is closed by [exact] of a
   lemma of Proofs/Lru.v and followed by Print Assumptions.  See DESIGN.md section 6 (C15).

   Model/Lru.v transcribes /repo/src/lru_time_cache.rs; [get_mut fixed] with fixed = true is the
   repaired get_mut (an entry older than ttl is removed and None is returned), fixed = false is
   the code of the pinned tree.  Time is the explicit argument [now] (nanoseconds); "alive" is the
   code's test  time + ttl >= now.  The handler-level half of C15 (an encrypt / decrypt step uses a
   session only through get_mut, so the next exchange after expiry takes the no-session path) is
   stated over the handler model, not here. *)
From Coq Require Import List NArith Bool Lia.
From Discv5V Require Import Model.Lru Proofs.Lru Proofs.LruGap.
Import ListNotations.
Local Open Scope N_scope.

(* --- the cache is bounded: for every capacity (also 0), every history, every clock ------------ *)
Theorem C15_len_bounded :
  forall (fixed : bool) (cfg : config) (tr : list (op * N)),
    len (fst (run fixed cfg tr)) <= capacity cfg.
Proof. exact len_bounded. Qed.
Print Assumptions C15_len_bounded.

(* --- an entry idle for longer than ttl is never returned -------------------------------------- *)
(* get and get_mut (get delegates to get_mut), in any cache state whatsoever *)
Theorem C15_get_never_stale :
  forall cfg c k now c' v,
    get true cfg c k now = (c', Some v) \/ get_mut true cfg c k now = (c', Some v) ->
    exists t, find c k = Some (v, t) /\ now <= t + ttl cfg.
Proof.
  intros cfg c k now c' v [H|H]; exact (get_mut_never_stale cfg c k now c' v H).
Qed.
Print Assumptions C15_get_never_stale.

Theorem C15_peek_never_stale :
  forall cfg c k now v,
    peek cfg c k now = Some v -> exists t, find c k = Some (v, t) /\ now <= t + ttl cfg.
Proof. exact peek_never_stale. Qed.
Print Assumptions C15_peek_never_stale.

(* the same in terms of the history: the time compared with the ttl is the time of the last
   operation that inserted the key or read it successfully *)
Theorem C15_get_never_stale_history :
  forall cfg tr k now v,
    snd (get_mut true cfg (fst (run true cfg tr)) k now) = Some v ->
    exists t, last_use_time tr (snd (run true cfg tr)) k None = Some t /\ now <= t + ttl cfg.
Proof. exact get_never_stale_history. Qed.
Print Assumptions C15_get_never_stale_history.

Theorem C15_stored_time_is_last_use :
  forall fixed cfg tr k v t,
    find (fst (run fixed cfg tr)) k = Some (v, t) ->
    last_use_time tr (snd (run fixed cfg tr)) k None = Some t.
Proof. exact stored_time_is_last_use. Qed.
Print Assumptions C15_stored_time_is_last_use.

(* an expired entry is dropped by the access: the next access sees no entry (fresh handshake) *)
Theorem C15_expired_entry_is_dropped :
  forall cfg c k now v t,
    find c k = Some (v, t) -> t + ttl cfg < now ->
    get_mut true cfg c k now = (del c k, None) /\ find (del c k) k = None.
Proof. exact get_mut_expired_removed. Qed.
Print Assumptions C15_expired_entry_is_dropped.

(* traffic within the ttl keeps the entry: it is returned and its time refreshed *)
Theorem C15_fresh_entry_is_returned :
  forall fixed cfg c k now v t,
    find c k = Some (v, t) -> now <= t + ttl cfg ->
    get_mut fixed cfg c k now = (del c k ++ [(k, v, now)], Some v).
Proof. exact get_mut_fresh. Qed.
Print Assumptions C15_fresh_entry_is_returned.

(* The code of the pinned tree violates the statement (D7): after `insert 1 7` at time 0 with
   ttl 10, get and get_mut at time 100 return the value and refresh the entry. *)
Theorem C15_get_never_stale_refuted :
  exists cfg tr k now v t,
    mono tr /\
    let c := fst (run false cfg tr) in
    find c k = Some (v, t) /\ t + ttl cfg < now /\
    get false cfg c k now = ([(k, v, now)], Some v) /\
    get_mut false cfg c k now = ([(k, v, now)], Some v).
Proof. exact get_never_stale_refuted. Qed.
Print Assumptions C15_get_never_stale_refuted.

(* --- at capacity the least recently used entry is the one dropped ----------------------------- *)
(* [inv c hi]: keys distinct, stored times non-decreasing from the front to the back and <= hi. *)
Theorem C15_reachable_caches_are_ordered :
  forall fixed cfg tr, mono tr -> inv (fst (run fixed cfg tr)) (last_time 0 tr).
Proof. exact reachable_inv. Qed.
Print Assumptions C15_reachable_caches_are_ordered.

Theorem C15_evicts_lru :
  forall cfg c hi k v now,
    inv c hi -> hi <= now -> 1 <= capacity cfg -> len c = capacity cfg -> find c k = None ->
    exists e rest,
      c = e :: rest /\
      insert cfg c k v now = rest ++ [(k, v, now)] /\
      (forall e', In e' c -> etime e <= etime e') /\
      etime e <= now.
Proof. exact evicts_lru. Qed.
Print Assumptions C15_evicts_lru.

Theorem C15_insert_no_eviction :
  forall cfg c k v now,
    wf c -> (len c < capacity cfg \/ (len c <= capacity cfg /\ find c k <> None)) ->
    insert cfg c k v now = del c k ++ [(k, v, now)].
Proof. exact insert_no_eviction. Qed.
Print Assumptions C15_insert_no_eviction.

(* the hypotheses are satisfiable by a non-trivial state: a full cache of capacity 3 *)
Example C15_evicts_lru_example :
  let cfg := {| ttl := 100; capacity := 3 |} in
  let tr := [(Insert 1 11, 5); (Insert 2 12, 7); (Insert 3 13, 7); (Get 1, 9)] in
  let c := fst (run true cfg tr) in
  mono tr /\ inv c 9 /\ len c = capacity cfg /\ find c 4 = None /\
  insert cfg c 4 14 20 = [(3, 13, 7); (1, 11, 9); (4, 14, 20)].
Proof.
  cbv zeta. split; [|split; [|split; [|split]]].
  - cbn. lia.
  - apply (reachable_inv true {| ttl := 100; capacity := 3 |}
             [(Insert 1 11, 5); (Insert 2 12, 7); (Insert 3 13, 7); (Get 1, 9)]). cbn. lia.
  - reflexivity.
  - reflexivity.
  - reflexivity.
Qed.
Print Assumptions C15_evicts_lru_example.

(* --- refinement: the cache behaves like a map key -> (value, last-use time) whose read accesses
       see only entries used within ttl, with LRU eviction at capacity ------------------------- *)
(* [astep] (Proofs/Lru.v) is the specification: it never mentions the order of the list. *)
Theorem C15_refinement :
  forall cfg tr,
    mono tr ->
    aruns cfg aempty tr (snd (run true cfg tr)) (abs (fst (run true cfg tr))).
Proof. exact refinement. Qed.
Print Assumptions C15_refinement.

Theorem C15_spec_view_within_ttl :
  forall cfg m now k v,
    aview cfg m now k = Some v -> exists t, m k = Some (v, t) /\ now <= t + ttl cfg.
Proof. exact aview_within_ttl. Qed.
Print Assumptions C15_spec_view_within_ttl.

(* --- "when it is reached the least recently used session is the one dropped", about histories
       (gap audit, notes/gap_audit_C14_C20.md) -------------------------------------------------- *)
(* C15_evicts_lru speaks about a cache STATE (list order, stored times).  This is the same clause in
   terms of the history alone: after any history [tr] with a clock that does not go back, for
   every capacity >= 1 and either get_mut, if the cache is full and a new key is inserted, exactly
   one held key k0 is dropped; its last use in the history (its insertion or its last successful
   get / get_mut) is not later than the last use of any other held key; all other entries are
   kept and the new one is held. *)
Theorem C15_evicts_least_recently_used_history :
  forall fixed cfg tr k v now,
  mono tr -> last_time 0 tr <= now -> 1 <= capacity cfg ->
  let c := fst (run fixed cfg tr) in
  let outs := snd (run fixed cfg tr) in
  len c = capacity cfg -> find c k = None ->
  exists k0 v0 t0,
    find c k0 = Some (v0, t0) /\ find (insert cfg c k v now) k0 = None /\
    last_use_time tr outs k0 None = Some t0 /\
    (forall k' v' t', find c k' = Some (v', t') ->
       last_use_time tr outs k' None = Some t' /\ t0 <= t') /\
    (forall k', k' <> k0 -> k' <> k -> find (insert cfg c k v now) k' = find c k') /\
    find (insert cfg c k v now) k = Some (v, now).
Proof. exact evicts_lru_history. Qed.
Print Assumptions C15_evicts_least_recently_used_history.
(* (C15_evicts_lru_example above satisfies the hypotheses: capacity 3, keys 1 2 3 inserted at 5 7 7,
   key 1 read at 9; inserting key 4 at 20 drops key 2, last used at 7.) *)
Example C15_evicts_least_recently_used_example :
  let cfg := {| ttl := 100; capacity := 3 |} in
  let tr := [(Insert 1 11, 5); (Insert 2 12, 7); (Insert 3 13, 7); (Get 1, 9)] in
  let c := fst (run true cfg tr) in
  mono tr /\ last_time 0 tr <= 20 /\ len c = capacity cfg /\ find c 4 = None /\
  find c 2 = Some (12, 7) /\ find (insert cfg c 4 14 20) 2 = None /\
  last_use_time tr (snd (run true cfg tr)) 1 None = Some 9.
Proof. cbv zeta. split; [cbn; lia|]. vm_compute. repeat split; try reflexivity; discriminate. Qed.
Print Assumptions C15_evicts_least_recently_used_example.
