(* C15 - Sessions expire and the session cache is bounded (cache part: LruTimeCache, the data
   structure behind Handler::sessions).  Statements only; every theorem is closed by [exact] of a
   lemma of Proofs/Lru.v and followed by Print Assumptions.  See DESIGN.md section 6 (C15).

   Model/Lru.v transcribes /repo/src/lru_time_cache.rs; [get_mut fixed] with fixed = true is the
   repaired get_mut (an entry older than ttl is removed and None is returned), fixed = false is
   the code of the pinned tree.  Time is the explicit argument [now] (nanoseconds); "alive" is the
   code's test  time + ttl >= now.  The handler-level half of C15 (an encrypt / decrypt step uses a
   session only through get_mut, so the next exchange after expiry takes the no-session path) is
   stated over the handler model, not here. *)
From Coq Require Import List NArith Bool Lia.
From Discv5V Require Import Model.Lru Proofs.Lru Proofs.LruGap.
Import ListNotations.
Local Open Scope N_scope.

(* --- the cache is bounded: for every capacity (also 0), every history, every clock ------------ *)
Theorem C15_len_bounded :
  forall (fixed : bool) (cfg : config) (tr : list (op * N)),
    len (fst (run fixed cfg tr)) <= capacity cfg.
Proof. exact len_bounded. Qed.
Print Assumptions C15_len_bounded.

(* --- an entry idle for longer than ttl is never returned -------------------------------------- *)
(* get and get_mut (get delegates to get_mut), in any cache state whatsoever *)
Theorem C15_get_never_stale :
  forall cfg c k now c' v,
    get true cfg c k now = (c', Some v) \/ get_mut true cfg c k now = (c', Some v) ->
    exists t, find c k = Some (v, t) /\ now <= t + ttl cfg.
Proof.
  intros cfg c k now c' v [H|H]; exact (get_mut_never_stale cfg c k now c' v H).
Qed.
Print Assumptions C15_get_never_stale.

Theorem C15_peek_never_stale :
  forall cfg c k now v,
    peek cfg c k now = Some v -> exists t, find c k = Some (v, t) /\ now <= t + ttl cfg.
Proof. exact peek_never_stale. Qed.
Print Assumptions C15_peek_never_stale.

(* the same in terms of the history: the time compared with the ttl is the time of the last
   operation that inserted the key or read it successfully *)
Theorem C15_get_never_stale_history :
  forall cfg tr k now v,
    snd (get_mut true cfg (fst (run true cfg tr)) k now) = Some v ->
    exists t, last_use_time tr (snd (run true cfg tr)) k None = Some t /\ now <= t + ttl cfg.
Proof. exact get_never_stale_history. Qed.
Print Assumptions C15_get_never_stale_history.

Theorem C15_stored_time_is_last_use :
  forall fixed cfg tr k v t,
    find (fst (run fixed cfg tr)) k = Some (v, t) ->
    last_use_time tr (snd (run fixed cfg tr)) k None = Some t.
Proof. exact stored_time_is_last_use. Qed.
Print Assumptions C15_stored_time_is_last_use.

(* an expired entry is dropped by the access: the next access sees no entry (fresh handshake) *)
Theorem C15_expired_entry_is_dropped :
  forall cfg c k now v t,
    find c k = Some (v, t) -> t + ttl cfg < now ->
    get_mut true cfg c k now = (del c k, None) /\ find (del c k) k = None.
Proof. exact get_mut_expired_removed. Qed.
Print Assumptions C15_expired_entry_is_dropped.

(* traffic within the ttl keeps the entry: it is returned and its time refreshed *)
Theorem C15_fresh_entry_is_returned :
  forall fixed cfg c k now v t,
    find c k = Some (v, t) -> now <= t + ttl cfg ->
    get_mut fixed cfg c k now = (del c k ++ [(k, v, now)], Some v).
Proof. exact get_mut_fresh. Qed.
Print Assumptions C15_fresh_entry_is_returned.

(* The code of the pinned tree violates the statement (D7): after `insert 1 7` at time 0 with
   ttl 10, get and get_mut at time 100 return the value and refresh the entry. *)
Theorem C15_get_never_stale_refuted :
  exists cfg tr k now v t,
    mono tr /\
    let c := fst (run false cfg tr) in
    find c k = Some (v, t) /\ t + ttl cfg < now /\
    get false cfg c k now = ([(k, v, now)], Some v) /\
    get_mut false cfg c k now = ([(k, v, now)], Some v).
Proof. exact get_never_stale_refuted. Qed.
Print Assumptions C15_get_never_stale_refuted.

(* --- at capacity the least recently used entry is the one dropped ----------------------------- *)
(* [inv c hi]: keys distinct, stored times non-decreasing from the front to the back and <= hi. *)
Theorem C15_reachable_caches_are_ordered :
  forall fixed cfg tr, mono tr -> inv (fst (run fixed cfg tr)) (last_time 0 tr).
Proof. exact reachable_inv. Qed.
Print Assumptions C15_reachable_caches_are_ordered.

Theorem C15_evicts_lru :
  forall cfg c hi k v now,
    inv c hi -> hi <= now -> 1 <= capacity cfg -> len c = capacity cfg -> find c k = None ->
    exists e rest,
      c = e :: rest /\
      insert cfg c k v now = rest ++ [(k, v, now)] /\
      (forall e', In e' c -> etime e <= etime e') /\
      etime e <= now.
Proof. exact evicts_lru. Qed.
Print Assumptions C15_evicts_lru.

Theorem C15_insert_no_eviction :
  forall cfg c k v now,
    wf c -> (len c < capacity cfg \/ (len c <= capacity cfg /\ find c k <> None)) ->
    insert cfg c k v now = del c k ++ [(k, v, now)].
Proof. exact insert_no_eviction. Qed.
Print Assumptions C15_insert_no_eviction.

(* the hypotheses are satisfiable by a non-trivial state: a full cache of capacity 3 *)
Example C15_evicts_lru_example :
  let cfg := {| ttl := 100; capacity := 3 |} in
  let tr := [(Insert 1 11, 5); (Insert 2 12, 7); (Insert 3 13, 7); (Get 1, 9)] in
  let c := fst (run true cfg tr) in
  mono tr /\ inv c 9 /\ len c = capacity cfg /\ find c 4 = None /\
  insert cfg c 4 14 20 = [(3, 13, 7); (1, 11, 9); (4, 14, 20)].
Proof.
  cbv zeta. split; [|split; [|split; [|split]]].
  - cbn. lia.
  - apply (reachable_inv true {| ttl := 100; capacity := 3 |}
             [(Insert 1 11, 5); (Insert 2 12, 7); (Insert 3 13, 7); (Get 1, 9)]). cbn. lia.
  - reflexivity.
  - reflexivity.
  - reflexivity.
Qed.
Print Assumptions C15_evicts_lru_example.

(* --- refinement: the cache behaves like a map key -> (value, last-use time) whose read accesses
       see only entries used within ttl, with LRU eviction at capacity ------------------------- *)
(* [astep] (Proofs/Lru.v) is the specification: it never mentions the order of the list. *)
Theorem C15_refinement :
  forall cfg tr,
    mono tr ->
    aruns cfg aempty tr (snd (run true cfg tr)) (abs (fst (run true cfg tr))).
Proof. exact refinement. Qed.
Print Assumptions C15_refinement.

Theorem C15_spec_view_within_ttl :
  forall cfg m now k v,
    aview cfg m now k = Some v -> exists t, m k = Some (v, t) /\ now <= t + ttl cfg.
Proof. exact aview_within_ttl. Qed.
Print Assumptions C15_spec_view_within_ttl.

(* --- "when it is reached the least recently used session is the one dropped", about histories
       (gap audit, notes/gap_audit_C14_C20.md) -------------------------------------------------- *)
(* C15_evicts_lru speaks about a cache STATE (list order, stored times).  This is the same clause in
   terms of the history alone: after any history [tr] with a clock that does not go back, for
   every capacity >= 1 and either get_mut, if the cache is full and a new key is inserted, exactly
   one held key k0 is dropped; its last use in the history (its insertion or its last successful
   get / get_mut) is not later than the last use of any other held key; all other entries are
   kept and the new one is held. *)
Theorem C15_evicts_least_recently_used_history :
  forall fixed cfg tr k v now,
  mono tr -> last_time 0 tr <= now -> 1 <= capacity cfg ->
  let c := fst (run fixed cfg tr) in
  let outs := snd (run fixed cfg tr) in
  len c = capacity cfg -> find c k = None ->
  exists k0 v0 t0,
    find c k0 = Some (v0, t0) /\ find (insert cfg c k v now) k0 = None /\
    last_use_time tr outs k0 None = Some t0 /\
    (forall k' v' t', find c k' = Some (v', t') ->
       last_use_time tr outs k' None = Some t' /\ t0 <= t') /\
    (forall k', k' <> k0 -> k' <> k -> find (insert cfg c k v now) k' = find c k') /\
    find (insert cfg c k v now) k = Some (v, now).
Proof. exact evicts_lru_history. Qed.
Print Assumptions C15_evicts_least_recently_used_history.
(* (C15_evicts_lru_example above satisfies the hypotheses: capacity 3, keys 1 2 3 inserted at 5 7 7,
   key 1 read at 9; inserting key 4 at 20 drops key 2, last used at 7.) *)
Example C15_evicts_least_recently_used_example :
  let cfg := {| ttl := 100; capacity := 3 |} in
  let tr := [(Insert 1 11, 5); (Insert 2 12, 7); (Insert 3 13, 7); (Get 1, 9)] in
  let c := fst (run true cfg tr) in
  mono tr /\ last_time 0 tr <= 20 /\ len c = capacity cfg /\ find c 4 = None /\
  find c 2 = Some (12, 7) /\ find (insert cfg c 4 14 20) 2 = None /\
  last_use_time tr (snd (run true cfg tr)) 1 None = Some 9.
Proof. cbv zeta. split; [cbn; lia|]. vm_compute. repeat split; try reflexivity; discriminate. Qed.
Print Assumptions C15_evicts_least_recently_used_example.

(* ------------------------------------------------------------------------------------------ *)
(* The handler-level half of C15 (Model/Handler.v, Proofs/HandlerB_Expiry.v): "A session that has
   not been used for longer than the configured session timeout is never used again to encrypt or
   accept a message: the next exchange with that peer goes through a fresh handshake.  The number of
   sessions held never exceeds the configured capacity; when it is reached the least recently used
   session is the one dropped."

   In the handler model every session carries the instant of its last use ([s_used]); the reading of
   the clock during a handler call is [cfg_clock] (set by [step] to the time of the step).  Every
   function of the handler obtains a session only through [sess_get] (= LruTimeCache::get_mut, to
   which get delegates); the correspondence run (hnd --focus c15x, paused clock) compares the real
   handler with this model step by step on histories with short session timeouts. *)
From Discv5V Require Import Model.Handler Proofs.HandlerB_Base Proofs.HandlerB_Session Proofs.HandlerB_Step
  Proofs.HandlerB_Examples Proofs.HandlerB_Expiry.
Local Open Scope N_scope.

(* what a lookup returns was used within the timeout, and is stamped with the current time ... *)
Theorem C15_handler_lookup_never_stale :
  forall c h na h' s, sess_get c h na = (h', Some s) ->
  exists s0, alist_get na (sessions h) = Some s0 /\
    cfg_clock c <= s_used s0 + cfg_session_ttl c /\
    s = touch s0 (cfg_clock c) /\ s_used s = cfg_clock c /\
    h' = set_sessions h (alist_remove na (sessions h) ++ [(na, s)]).
Proof. exact sess_get_never_stale. Qed.
Print Assumptions C15_handler_lookup_never_stale.

(* ... and a session idle for longer than the timeout is not found and is gone afterwards *)
Theorem C15_handler_expired_session_is_gone :
  forall c h na s0, alist_get na (sessions h) = Some s0 -> s_used s0 + cfg_session_ttl c < cfg_clock c ->
  sess_get c h na = (sess_remove h na, None) /\
  (SessUniq h -> alist_get na (sessions (sess_remove h na)) = None).
Proof. exact sess_get_expired_gone. Qed.
Print Assumptions C15_handler_expired_session_is_gone.

(* "never used again to accept a message": a message packet from a peer whose session has been idle
   for longer than the timeout delivers nothing that is attributed to anybody - the step only asks
   the application who that is (the peer must complete a fresh handshake) - and the session is gone *)
Theorem C15_expired_session_accepts_nothing :
  forall c h from src n aad ct now d s0 o,
  alist_get (src, from) (sessions (hs (tick c h now d))) = Some s0 -> s_used s0 + cfg_session_ttl c < now ->
  In o (snd (step c h (EvInbound from (PMsg src n aad ct)) now d)) ->
  ~ attributing o /\
  (SessUniq h -> alist_get (src, from) (sessions (fst (step c h (EvInbound from (PMsg src n aad ct)) now d))) = None).
Proof. exact step_message_expired_delivers_nothing. Qed.
Print Assumptions C15_expired_session_accepts_nothing.

Theorem C15_expired_session_message_step :
  forall c h from src n aad ct now d s0,
  alist_get (src, from) (sessions (hs (tick c h now d))) = Some s0 -> s_used s0 + cfg_session_ttl c < now ->
  step c h (EvInbound from (PMsg src n aad ct)) now d =
  (sess_remove (hs (tick c h now d)) (src, from), outs (tick c h now d) ++ [OEvent (HWhoAreYou (src, from) n)]).
Proof. exact step_message_expired. Qed.
Print Assumptions C15_expired_session_message_step.

(* "never used again to encrypt": a request to such a peer is queued (a challenge is outstanding) or
   goes out as a random packet - the opening of a fresh handshake - never as a ciphertext; a response
   to it is dropped; the session is gone *)
Theorem C15_expired_session_encrypts_no_request :
  forall c h ct rid body now d s0,
  let na := c_naddr ct in
  let s0' := tick c h now d in
  SessUniq h -> alist_get na (sessions (hs s0')) = Some s0 -> s_used s0 + cfg_session_ttl c < now ->
  existsb (N.eqb (c_addr ct)) (cfg_listen c) = false ->
  let res := step c h (EvRequest ct rid body) now d in
  (snd res = outs s0' \/
   exists n aad, snd res = outs s0' ++ [OWire na (PMsg (cfg_local c) n aad (CJunk aad))]) /\
  (has_challenge (hs s0') na = false -> alist_get na (sessions (fst res)) = None).
Proof. exact step_request_expired. Qed.
Print Assumptions C15_expired_session_encrypts_no_request.

Theorem C15_expired_session_encrypts_no_response :
  forall c h na rid rb now d s0,
  alist_get na (sessions (hs (tick c h now d))) = Some s0 -> s_used s0 + cfg_session_ttl c < now ->
  step c h (EvResponse na rid rb) now d = (sess_remove (hs (tick c h now d)) na, outs (tick c h now d)).
Proof. exact step_response_expired. Qed.
Print Assumptions C15_expired_session_encrypts_no_response.

(* "The number of sessions held never exceeds the configured capacity": every reachable state, every
   capacity (with capacity 0 a new session is dropped at once) *)
Theorem C15_handler_capacity :
  forall c evs, (length (sessions (fst (run c init_state evs))) <= cfg_capacity c)%nat.
Proof. exact run_capacity. Qed.
Print Assumptions C15_handler_capacity.

(* "the least recently used session is the one dropped": the cache list of every reachable state is
   ordered by the instants of last use (front = least recently used, which is what sess_insert drops
   when the capacity is exceeded and what remove_expired_sessions purges first), when the step times
   do not decrease.  Without a clock grid; with a grid (the harness) under [steps_complete]: the step
   times lie on the grid and no step leaves an overdue timer behind. *)
Theorem C15_handler_cache_ordered_by_last_use :
  forall c evs l1 x l2, cfg_grid c = 0 -> times_nondecreasing 0 evs ->
  sessions (fst (run c init_state evs)) = l1 ++ x :: l2 ->
  s_used (snd x) <= last_time 0 evs /\ forall y, In y l2 -> s_used (snd x) <= s_used (snd y).
Proof. exact run_lru_sorted. Qed.
Print Assumptions C15_handler_cache_ordered_by_last_use.

Theorem C15_handler_cache_ordered_by_last_use_grid :
  forall c evs, times_nondecreasing 0 evs -> steps_complete c init_state evs ->
  lru_ord (last_time 0 evs) (sessions (fst (run c init_state evs))).
Proof. exact run_lru_order_grid. Qed.
Print Assumptions C15_handler_cache_ordered_by_last_use_grid.

(* the hypotheses are satisfiable, and the behaviour is the intended one: with a session timeout of
   100, a request at time 100 (last use 50... within the timeout) is encrypted under the session; the
   next request at time 300 goes out as a random packet and the session is gone; a message under the
   session's key is delivered at 150 and answered with a who-are-you at 300 *)
Example C15_handler_expiry_example :
  (snd (step ex_ttl (fst (run ex_ttl init_state evs_in)) (EvRequest ct7 30 0) 100 (dk [(0, 78, 54, 0)])) =
   [OWire (7, 100) (PMsg 1 (2, 78) 54 (CEnc (mk_key 3 1 5 7 1 true) (2, 78) (MReq 30 0) 54))]) /\
  (snd (step ex_ttl h_live (EvRequest ct7 31 0) 300 (dk [(8, 79, 55, 0)])) =
   [OWire (7, 100) (PMsg 1 (8, 79) 55 (CJunk 55))]) /\
  sessions (fst (step ex_ttl h_live (EvRequest ct7 31 0) 300 (dk [(8, 79, 55, 0)]))) = [] /\
  (SessUniq h_live /\
   exists s0, alist_get (7, 100) (sessions (hs (tick ex_ttl h_live 300 (dk [(8, 79, 55, 0)])))) = Some s0 /\
              s_used s0 + cfg_session_ttl ex_ttl < 300).
Proof.
  split; [exact (proj1 live_session_is_used)|].
  destruct expired_session_is_not_used as [E1 E2].
  split; [rewrite E1; reflexivity|]. split; [rewrite E1; exact E2|]. exact expired_step_hypotheses.
Qed.
Print Assumptions C15_handler_expiry_example.

(* Configuration plumbing (Model/Config.v, transcribing ConfigBuilder, Config, Discv5::new / Discv5::start,
   tied to the code by the `glue` correspondence run on real loopback sockets): the parameters the theorems
   above take as given are the ones the application configured - the value set last through the builder,
   or the default - at every component they are handed to. *)
Require Discv5V.Generated.Params Discv5V.Model.Config Discv5V.Proofs.Config.
Theorem C15_configured_session_timeout_reaches_the_handler : forall ops v, Discv5V.Model.Config.start_node ops = Some v ->
  Discv5V.Model.Config.VN (Discv5V.Model.Config.c_session_timeout (Discv5V.Model.Config.nv_built v)) = Discv5V.Model.Config.configured ops Discv5V.Model.Config.FSessionTimeout /\
  Discv5V.Model.Config.VN (Discv5V.Model.Config.c_session_timeout (Discv5V.Model.Config.nv_service v)) = Discv5V.Model.Config.configured ops Discv5V.Model.Config.FSessionTimeout /\
  Discv5V.Model.Config.VN (Discv5V.Model.Config.c_session_timeout (Discv5V.Model.Config.nv_handler v)) = Discv5V.Model.Config.configured ops Discv5V.Model.Config.FSessionTimeout.
Proof. exact Discv5V.Proofs.Config.effective_session_timeout. Qed.
Print Assumptions C15_configured_session_timeout_reaches_the_handler.
Theorem C15_configured_session_capacity_reaches_the_handler : forall ops v, Discv5V.Model.Config.start_node ops = Some v ->
  Discv5V.Model.Config.VN (Discv5V.Model.Config.c_session_cache_capacity (Discv5V.Model.Config.nv_built v)) = Discv5V.Model.Config.configured ops Discv5V.Model.Config.FSessionCacheCapacity /\
  Discv5V.Model.Config.VN (Discv5V.Model.Config.c_session_cache_capacity (Discv5V.Model.Config.nv_service v)) = Discv5V.Model.Config.configured ops Discv5V.Model.Config.FSessionCacheCapacity /\
  Discv5V.Model.Config.VN (Discv5V.Model.Config.c_session_cache_capacity (Discv5V.Model.Config.nv_handler v)) = Discv5V.Model.Config.configured ops Discv5V.Model.Config.FSessionCacheCapacity.
Proof. exact Discv5V.Proofs.Config.effective_session_cache_capacity. Qed.
Print Assumptions C15_configured_session_capacity_reaches_the_handler.
Theorem C15_configuration_example : exists v, Discv5V.Model.Config.start_node Discv5V.Proofs.Config.example_ops = Some v.
Proof. destruct Discv5V.Proofs.Config.example_starts as [v [H _]]. exists v. exact H. Qed.
Print Assumptions C15_configuration_example.
