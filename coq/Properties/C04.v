(* C04 - Every request gets exactly one outcome.
   "Each request submitted to the transport ends in exactly one terminal outcome - its response(s)
   or a single failure report - never both, never neither, never two - under any loss, duplication,
   reordering, delay, challenge or re-keying by either side.  A request is put on the wire at most
   1+retries times per session key, and a timeout is reported only if some request to that peer
   really went unanswered for a full timeout period."

   Statements about Model/Handler.v (validated against the real handler by the correspondence run);
   every theorem is closed by a lemma of Proofs/HandlerA_*.v and followed by Print Assumptions.
   The events, times and oracle draws of a run are arbitrary ("any loss, duplication, reordering,
   delay, challenge or re-keying by either side").

   Part 1 (this section): "never two, never both" - at most one terminal event per request id and
   nothing after it.  Hypothesis: the request ids are fresh, i.e. the ids the application submits
   (EvRequest) and the internal ids the handler draws for the FINDNODE[0] of an ENR-less contact
   are pairwise distinct over the run: [NoDup (run_new_ids evs)].  This is a statement about the
   application and about rand, which no model can prove (DESIGN.md section 4).

   Terminal: a failure report is terminal; a response is terminal iff the handler no longer holds
   the request after the step that reported it ([is_terminal]; every HResponse is the last output
   of its step).  [C04_nonterminal_response_is_partial_nodes] ties this to the content. *)
From Coq Require Import List Arith NArith Bool.
From Discv5V Require Import Model.Handler Proofs.HandlerInv Proofs.HandlerA_Ledger.
Import ListNotations.

(* [all_rids h]: the ids of the requests held in the active requests and in the pending queues;
   [ext_rids h]: those of the application's requests among them;
   [new_ids e d]: the ids a step introduces; [run_new_ids evs]: all of them, in order;
   [tagged h' o]: the outputs of a step that are about a request id (HRequestFailed, HResponse), in
   order, as (id, terminal?); [run_tagged c h evs]: the same for a whole run. *)

(* conservation: inside a step no request id gains a holder or an event, except the ids the step
   introduces and except a final non-terminal NODES response *)
Theorem C04_step_conservation :
  forall c h e now d,
  let h' := fst (step c h e now d) in
  let o := snd (step c h e now d) in
  (forall x, occ x h' + men x o <= occ x h + cnt x (new_ids e d))
  \/ exists o0 na rid rb, o = o0 ++ [OEvent (HResponse na rid rb)] /\ 1 <= occ rid h' /\
       (exists total recs, rb = RNodes total recs /\ (1 < total)%N) /\
       forall x, occ x h' + men x o0 <= occ x h + cnt x (new_ids e d).
Proof. exact step_conservation. Qed.
Print Assumptions C04_step_conservation.

(* the ids held in a reachable state are pairwise distinct *)
Theorem C04_rids_nodup :
  forall c evs, NoDup (run_new_ids evs) ->
  NoDup (all_rids (fst (run c init_state evs))) /\ NoDup (ext_rids (fst (run c init_state evs))).
Proof. exact reachable_rids_nodup. Qed.
Print Assumptions C04_rids_nodup.

(* a terminal event is about a request that was held before the step (or is introduced by it) and
   is no longer held after it *)
Theorem C04_terminal_event_ends_the_request :
  forall c h e now d x,
  (forall y, occ y h + cnt y (new_ids e d) <= 1) ->
  In (x, true) (tagged (fst (step c h e now d)) (snd (step c h e now d))) ->
  (In x (all_rids h) \/ In x (new_ids e d)) /\ ~ In x (all_rids (fst (step c h e now d))).
Proof. exact step_terminal_event. Qed.
Print Assumptions C04_terminal_event_ends_the_request.

(* a non-terminal response leaves the request with the handler ... *)
Theorem C04_nonterminal_response_keeps_the_request :
  forall c h e now d x,
  In (x, false) (tagged (fst (step c h e now d)) (snd (step c h e now d))) ->
  In x (all_rids (fst (step c h e now d))).
Proof. exact step_nonterminal_event. Qed.
Print Assumptions C04_nonterminal_response_keeps_the_request.

(* ... and is a NODES response that announces more than one packet *)
Theorem C04_nonterminal_response_is_partial_nodes :
  forall c h e now d na x rb,
  (forall y, occ y h + cnt y (new_ids e d) <= 1) ->
  In (OEvent (HResponse na x rb)) (snd (step c h e now d)) ->
  In x (all_rids (fst (step c h e now d))) ->
  exists total recs, rb = RNodes total recs /\ (1 < total)%N.
Proof. exact step_nonterminal_is_partial_nodes. Qed.
Print Assumptions C04_nonterminal_response_is_partial_nodes.

(* at_most_one_outcome: in every run, nothing about a request id follows its terminal event
   (no second failure, no response after a failure, no failure after the last response) ... *)
Theorem C04_nothing_after_the_terminal_event :
  forall c evs x l1 l2, NoDup (run_new_ids evs) ->
  run_tagged c init_state evs = l1 ++ (x, true) :: l2 -> ~ In x (map fst l2).
Proof. intros c evs x l1 l2 H. apply run_nothing_after_terminal. apply Uniq_init. exact H. Qed.
Print Assumptions C04_nothing_after_the_terminal_event.

(* ... hence at most one terminal event per request id *)
Theorem C04_at_most_one_terminal_event :
  forall c evs x, NoDup (run_new_ids evs) -> tcount x (run_tagged c init_state evs) <= 1.
Proof. intros c evs x H. apply run_at_most_one_terminal. apply Uniq_init. exact H. Qed.
Print Assumptions C04_at_most_one_terminal_event.

(* The hypotheses are satisfiable by a non-trivial run: a session is established, request 100 is
   answered by a NODES response in two packets, request 101 times out after its retransmission. *)
Example C04_hypotheses_satisfiable :
  NoDup (run_new_ids ex_outcome_events) /\
  run_tagged (ex_cfg true) init_state ex_outcome_events = [(100%N, false); (100%N, true); (101%N, true)] /\
  all_rids (fst (run (ex_cfg true) init_state (firstn 5 ex_outcome_events))) = [101%N] /\
  length (sessions (fst (run (ex_cfg true) init_state (firstn 5 ex_outcome_events)))) = 1.
Proof.
  split; [exact ex_outcome_fresh|]. split; [exact (proj1 ex_outcome_trace)|exact ex_outcome_midway].
Qed.
Print Assumptions C04_hypotheses_satisfiable.
