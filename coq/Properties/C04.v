(* C04 - Every request gets exactly one outcome.
   "Each request submitted to the transport ends in exactly one terminal outcome - its response(s)
   or a single failure report - never both, never neither, never two - under any loss, duplication,
   reordering, delay, challenge or re-keying by either side.  A request is put on the wire at most
   1+retries times per session key, and a timeout is reported only if some request to that peer
   really went unanswered for a full timeout period."

   Statements about Model/Handler.v (validated against the real handler by the correspondence run);
   every theorem is closed by a lemma of Proofs/HandlerA_*.v and followed by Print Assumptions.
   The events, times and oracle draws of a run are arbitrary ("any loss, duplication, reordering,
   delay, challenge or re-keying by either side").

   Overview.  Part 1: "never two, never both" (at_most_one_outcome) - proved for every configuration.
   Part 2: maps_in_sync - proved under oracle freshness.  Part 3: progress - the invariant
   no_orphans is proved for the repaired configuration and refuted for the pinned behaviour
   (D2a); drain (liveness: when only time passes, everything held is settled within a bounded number
   of ticks and nothing remains, not even a filter exemption) is proved; the counters that bound
   retransmission by timeouts are proved (timeout_bounded_partial).
   Part 4: wire_bound (the per-key datagram count over a whole run) and timeout_justified - proved
   (Proofs/HandlerA_Wire*.v).

   Part 1 (this section): "never two, never both" - at most one terminal event per request id and
   nothing after it.  Hypothesis: the request ids are fresh, i.e. the ids the application submits
   (EvRequest) and the internal ids the handler draws for the FINDNODE[0] of an ENR-less contact
   are pairwise distinct over the run: [NoDup (run_new_ids evs)].  This is a statement about the
   application and about rand, which no model can prove (DESIGN.md section 4).

   Terminal: a failure report is terminal; a response is terminal iff the handler no longer holds
   the request after the step that reported it ([is_terminal]; every HResponse is the last output
   of its step).  [C04_nonterminal_response_is_partial_nodes] ties this to the content. *)
From Coq Require Import List Arith NArith Bool.
From Discv5V Require Import Model.Handler Proofs.HandlerInv Proofs.HandlerA_Ledger Proofs.HandlerA_Nonce
  Proofs.HandlerA_Progress Proofs.HandlerA_Drain Proofs.HandlerA_Drain2 Proofs.HandlerB_Trace3 Proofs.HandlerA_Wire2 Proofs.HandlerA_Wire3 Proofs.HandlerA_Wire4
  Proofs.HandlerA_Wire.
Import ListNotations.

(* [all_rids h]: the ids of the requests held in the active requests and in the pending queues;
   [ext_rids h]: those of the application's requests among them;
   [new_ids e d]: the ids a step introduces; [run_new_ids evs]: all of them, in order;
   [tagged h' o]: the outputs of a step that are about a request id (HRequestFailed, HResponse), in
   order, as (id, terminal?); [run_tagged c h evs]: the same for a whole run. *)

(* conservation: inside a step no request id gains a holder or an event, except the ids the step
   introduces and except a final non-terminal NODES response *)
Theorem C04_step_conservation :
  forall c h e now d,
  let h' := fst (step c h e now d) in
  let o := snd (step c h e now d) in
  (forall x, occ x h' + men x o <= occ x h + cnt x (new_ids e d))
  \/ exists o0 na rid rb, o = o0 ++ [OEvent (HResponse na rid rb)] /\ 1 <= occ rid h' /\
       (exists total recs, rb = RNodes total recs /\ (1 < total)%N) /\
       forall x, occ x h' + men x o0 <= occ x h + cnt x (new_ids e d).
Proof. exact step_conservation. Qed.
Print Assumptions C04_step_conservation.

(* the ids held in a reachable state are pairwise distinct *)
Theorem C04_rids_nodup :
  forall c evs, NoDup (run_new_ids evs) ->
  NoDup (all_rids (fst (run c init_state evs))) /\ NoDup (ext_rids (fst (run c init_state evs))).
Proof. exact reachable_rids_nodup. Qed.
Print Assumptions C04_rids_nodup.

(* a terminal event is about a request that was held before the step (or is introduced by it) and
   is no longer held after it *)
Theorem C04_terminal_event_ends_the_request :
  forall c h e now d x,
  (forall y, occ y h + cnt y (new_ids e d) <= 1) ->
  In (x, true) (tagged (fst (step c h e now d)) (snd (step c h e now d))) ->
  (In x (all_rids h) \/ In x (new_ids e d)) /\ ~ In x (all_rids (fst (step c h e now d))).
Proof. exact step_terminal_event. Qed.
Print Assumptions C04_terminal_event_ends_the_request.

(* a non-terminal response leaves the request with the handler ... *)
Theorem C04_nonterminal_response_keeps_the_request :
  forall c h e now d x,
  In (x, false) (tagged (fst (step c h e now d)) (snd (step c h e now d))) ->
  In x (all_rids (fst (step c h e now d))).
Proof. exact step_nonterminal_event. Qed.
Print Assumptions C04_nonterminal_response_keeps_the_request.

(* ... and is a NODES response that announces more than one packet *)
Theorem C04_nonterminal_response_is_partial_nodes :
  forall c h e now d na x rb,
  (forall y, occ y h + cnt y (new_ids e d) <= 1) ->
  In (OEvent (HResponse na x rb)) (snd (step c h e now d)) ->
  In x (all_rids (fst (step c h e now d))) ->
  exists total recs, rb = RNodes total recs /\ (1 < total)%N.
Proof. exact step_nonterminal_is_partial_nodes. Qed.
Print Assumptions C04_nonterminal_response_is_partial_nodes.

(* at_most_one_outcome: in every run, nothing about a request id follows its terminal event
   (no second failure, no response after a failure, no failure after the last response) ... *)
Theorem C04_nothing_after_the_terminal_event :
  forall c evs x l1 l2, NoDup (run_new_ids evs) ->
  run_tagged c init_state evs = l1 ++ (x, true) :: l2 -> ~ In x (map fst l2).
Proof. intros c evs x l1 l2 H. apply run_nothing_after_terminal. apply Uniq_init. exact H. Qed.
Print Assumptions C04_nothing_after_the_terminal_event.

(* ... hence at most one terminal event per request id *)
Theorem C04_at_most_one_terminal_event :
  forall c evs x, NoDup (run_new_ids evs) -> tcount x (run_tagged c init_state evs) <= 1.
Proof. intros c evs x H. apply run_at_most_one_terminal. apply Uniq_init. exact H. Qed.
Print Assumptions C04_at_most_one_terminal_event.

(* The hypotheses are satisfiable by a non-trivial run: a session is established, request 100 is
   answered by a NODES response in two packets, request 101 times out after its retransmission. *)
Example C04_hypotheses_satisfiable :
  NoDup (run_new_ids ex_outcome_events) /\
  run_tagged (ex_cfg true) init_state ex_outcome_events = [(100%N, false); (100%N, true); (101%N, true)] /\
  all_rids (fst (run (ex_cfg true) init_state (firstn 5 ex_outcome_events))) = [101%N] /\
  length (sessions (fst (run (ex_cfg true) init_state (firstn 5 ex_outcome_events)))) = 1.
Proof.
  split; [exact ex_outcome_fresh|]. split; [exact (proj1 ex_outcome_trace)|exact ex_outcome_midway].
Qed.
Print Assumptions C04_hypotheses_satisfiable.

(* ------------------------------------------------------------------------------------------ *)
(* Part 2: maps_in_sync - the nonce map and the request lists of ActiveRequests agree, which makes
   the "nonce mismatch" branches of remove_by_nonce and of the timeout stream unreachable.
   Hypothesis [fresh_run]: FRESHNESS of the oracle - at every step the second components (the
   random eight bytes) of the nonces still to be drawn are pairwise distinct and differ from those
   of all nonces in the nonce map of the state the step starts in ([fresh_draws]), and the list of
   draws handed to the step is not exhausted by it ([not_exhausted]: pop_pk on an exhausted list
   returns zeros, which are not fresh).  A statement about rand. *)

Theorem C04_maps_in_sync_step :
  forall c h e now d, Sync h -> fresh_draws h d -> not_exhausted c h e now d -> Sync (fst (step c h e now d)).
Proof. exact step_sync. Qed.
Print Assumptions C04_maps_in_sync_step.

Theorem C04_maps_in_sync :
  forall c evs, fresh_run c init_state evs ->
  let h := fst (run c init_state evs) in
  (forall n na d, In (n, na, d) (nmap h) ->
     exists l r, alist_get na (active h) = Some l /\ In r l /\ rc_nonce r = n) /\
  (forall na l r, In (na, l) (active h) -> In r l -> nmap_get (rc_nonce r) (nmap h) = Some na) /\
  (forall na l, In (na, l) (active h) -> NoDup (map rc_nonce l)) /\
  NoDup (map fst (active h)).
Proof. exact maps_in_sync. Qed.
Print Assumptions C04_maps_in_sync.

(* under Sync, remove_by_nonce finds the request whenever the nonce is a key of the nonce map *)
Theorem C04_nonce_mismatch_unreachable :
  forall h n h' found, Sync h -> ar_remove_by_nonce h n = (h', found) ->
  match found with
  | Some (na, r) => nmap_get n (nmap h) = Some na /\ rc_nonce r = n
  | None => nmap_get n (nmap h) = None /\ h' = h
  end.
Proof.
  intros h n h' found S E. pose proof (Sync_remove_by_nonce h n h' found S E) as X.
  destruct found as [[na r]|]; [|exact X]. destruct X as (A & B & _). auto.
Qed.
Print Assumptions C04_nonce_mismatch_unreachable.

Example C04_fresh_run_satisfiable :
  fresh_run (ex_cfg true) init_state ex_sync_events /\
  let h := fst (run (ex_cfg true) init_state ex_sync_events) in
  map (fun e => fst (fst e)) (nmap h) = [(60, 61); (1, 91)]%N /\
  map (fun e => map rc_nonce (snd e)) (active h) = [[(60, 61); (1, 91)]%N].
Proof. split; [exact ex_sync_fresh|exact ex_sync_state]. Qed.
Print Assumptions C04_fresh_run_satisfiable.

(* ------------------------------------------------------------------------------------------ *)
(* Part 3: progress ("never neither") *)

(* The pinned behaviour (DESIGN.md section 7, D2a: the update branch of new_session does not release
   the pending requests) violated it: both sides dial each other, and a request queued behind our
   WHOAREYOU is left in the pending queue with no timer armed at all - no challenge, no active
   request, empty nonce map.  Record of the finding. *)
Theorem C04_pinned_orphan_refuted :
  exists c evs na, fix_d2a c = false /\
    let h := fst (run c init_state evs) in
    (exists q l, alist_get na (pending h) = Some (q :: l)) /\
    challenges h = [] /\ active h = [] /\ nmap h = [].
Proof. exact pinned_orphan_refuted. Qed.
Print Assumptions C04_pinned_orphan_refuted.

(* no_orphans: with the repair, in every reachable state every node address with queued requests
   has a pending challenge (its timer releases the queue: fire_challenge -> send_pending_requests)
   or - no session yet - an active session-initiating request (whose timer re-sends it and finally
   fails it together with the queue: fail_request -> fail_session).  By C04_maps_in_sync every
   active request has its entry (= its armed timer) in the nonce map.  This is the invariant; that
   firing the armed timers empties both maps within a bounded number of steps is [C04_drain] below. *)
Theorem C04_no_orphans :
  forall c evs, fixed_cfg c ->
  let h := fst (run c init_state evs) in
  forall na l, alist_get na (pending h) = Some l ->
    (exists ch d, In (na, ch, d) (challenges h)) \/
    (alist_get na (sessions h) = None /\
     exists rs r, alist_get na (active h) = Some rs /\ In r rs /\ rc_init r = true).
Proof. intros c evs (_ & D2 & _). exact (no_orphans c evs D2). Qed.
Print Assumptions C04_no_orphans.

(* timeout_bounded (the counters; the statement about the number of datagrams per request and session
   key over a whole run - wire_bound - and timeout_justified are Part 4 below).  What is proved here: the
   transmission counter of every stored request stays within [1, max 1 retries]; the timeout
   handler sends nothing and fails the request when the counter has reached retries, and otherwise
   sends exactly one copy of the stored packet and increments the counter.  So a stored packet is
   re-sent by timeouts at most retries - 1 times after its first transmission (the counter starts
   at 1 in send_request and is kept when a handshake or a re-keyed copy replaces the packet). *)
Theorem C04_timeout_bounded_partial :
  (forall c evs, fixed_cfg c ->
     let h := fst (run c init_state evs) in
     forall na rs r, In (na, rs) (active h) -> In r rs ->
       c_naddr (rc_contact r) = na /\ (1 <= rc_retries r)%N /\ (rc_retries r <= N.max 1 (cfg_retries c))%N) /\
  (forall c s na r now, (cfg_retries c <= rc_retries r)%N ->
     wcount (outs (handle_request_timeout c s na r now)) = wcount (outs s) /\
     (rc_ext r = true ->
      In (OEvent (HRequestFailed (rc_rid r) ERR_TIMEOUT)) (outs (handle_request_timeout c s na r now)))) /\
  (forall c s na r now, (rc_retries r < cfg_retries c)%N ->
     outs (handle_request_timeout c s na r now) = outs s ++ [OWire na (rc_pkt r)] /\
     hs (handle_request_timeout c s na r now) =
       ar_insert c (hs s) na
         {| rc_contact := rc_contact r; rc_pkt := rc_pkt r; rc_ext := rc_ext r; rc_rid := rc_rid r;
            rc_body := rc_body r; rc_hs_sent := rc_hs_sent r; rc_retries := rc_retries r + 1;
            rc_remaining := rc_remaining r; rc_init := rc_init r |} now).
Proof.
  split; [|split].
  - intros c evs (_ & D2 & _). exact (stored_requests_bounded c evs D2).
  - exact timeout_exhausted.
  - exact timeout_rearmed.
Qed.
Print Assumptions C04_timeout_bounded_partial.

(* non-trivial instance: the D2a events with the repair; while request 101 is queued, the challenge
   for the peer is pending; after the peer's handshake the queue is released *)
Example C04_no_orphans_instance :
  (let h := fst (run (ex_cfg true) init_state (firstn 5 ex_orphan_events)) in
   (exists q, alist_get (2%N, 20%N) (pending h) = Some [q]) /\ length (challenges h) = 1 /\ length (sessions h) = 1) /\
  (let h := fst (run (ex_cfg true) init_state ex_orphan_events) in
   pending h = [] /\ map rc_rid (concat (map snd (active h))) = [101%N]).
Proof. split; [exact no_orphans_example|exact fixed_no_orphan]. Qed.
Print Assumptions C04_no_orphans_instance.

(* ------------------------------------------------------------------------------------------ *)
(* Part 3, continued: drain - "never neither" as a liveness statement (Proofs/HandlerA_Drain*.v).

   If, after any run of the repaired configuration (any events, times and fresh draws, all event
   times <= T), nothing more arrives from the application or the network and only time passes - a
   sequence of ticks, the first later than T + grid + timeout, each further one later than its
   predecessor by more than grid + timeout ([tick_schedule]), with fresh draws for the requests an
   expiring challenge releases - then after [drain_bound c h] = (requests held) * (retries + 1) +
   (challenges) ticks the handler holds nothing: no active request, no queued request, no challenge,
   no timer, NO FILTER EXEMPTION (the second sentence of C13), and every request of the application
   that was held has received its terminal event during those ticks.  Together with
   [C04_at_most_one_terminal_event]: exactly one.
   Each tick fires at least one timer, so the fuel of the timer loop (TICK_FUEL) needs no assumption.
   Hypotheses: [fixed_cfg] (D2a: the pinned behaviour orphaned queued requests, see
   [C04_pinned_orphan_refuted]; D6 for the exemptions), [fresh_run] for the run and for the ticks
   (a repeated nonce overwrites a timer: a statement about rand), the spacing of the ticks, enough
   ticks.  Not needed: freshness of request ids, positivity of timeout or retries. *)
Theorem C04_drain :
  forall c evs ticks T,
  fixed_cfg c -> fresh_run c init_state evs -> times_le T evs ->
  let h := fst (run c init_state evs) in
  tick_schedule c (next_bound c T) ticks -> fresh_run c h ticks ->
  drain_bound c h <= length ticks ->
  let h' := fst (run c h ticks) in
  (active h' = [] /\ pending h' = [] /\ challenges h' = [] /\ nmap h' = [] /\ expected h' = []) /\
  forall x, In x (ext_rids h) -> In (x, true) (run_tagged c h ticks).
Proof. exact drain_after. Qed.
Print Assumptions C04_drain.

(* the same from any state that satisfies the three invariants (maps in sync, no orphans, exemptions
   exact), with the sharper bound [weight]: every tick strictly decreases the weight *)
Theorem C04_drain_step :
  forall c h now d,
  DrainInv c h -> dl_below now h -> fresh_draws h d -> not_exhausted c h EvTick now d ->
  let h' := fst (step c h EvTick now d) in let o := snd (step c h EvTick now d) in
  DrainInv c h' /\ dl_below (next_bound c now) h' /\ weight c h' <= pred (weight c h) /\
  forall x, eocc x h = eocc x h' + fmen x o.
Proof. exact drain_step. Qed.
Print Assumptions C04_drain_step.

(* no silent loss, without any hypothesis: a tick never drops a request of the application without
   reporting its failure *)
Theorem C04_tick_no_silent_loss :
  forall c h now d x, In x (ext_rids h) ->
  In x (ext_rids (fst (step c h EvTick now d))) \/
  In (x, true) (tagged (fst (step c h EvTick now d)) (snd (step c h EvTick now d))).
Proof. exact tick_no_silent_loss. Qed.
Print Assumptions C04_tick_no_silent_loss.

(* the hypotheses are satisfiable by a non-trivial state: request 100 active, request 101 queued
   behind a pending challenge for the same peer; 7 ticks; both requests fail within the first two *)
Example C04_drain_instance :
  let c := ex_cfg true in
  let h := fst (run c init_state ex_drain_events) in
  (fixed_cfg c /\ fresh_run c init_state ex_drain_events /\ times_le 30%N ex_drain_events /\
   tick_schedule c (next_bound c 30%N) ex_drain_ticks /\ fresh_run c h ex_drain_ticks /\
   drain_bound c h <= length ex_drain_ticks) /\
  run_tagged c h ex_drain_ticks = [(100%N, true); (101%N, true)].
Proof.
  cbv zeta. destruct ex_drain_hypotheses as (H1 & H2 & _ & _ & H5 & H6). cbv zeta in *.
  destruct ex_drain_after_hypotheses as (H3 & H4). cbv zeta in *.
  split; [split; [exact H1|split; [exact H2|split; [exact H3|split; [exact H4|split; [exact H5|exact H6]]]]]|exact (proj1 ex_drain_trace)].
Qed.
Print Assumptions C04_drain_instance.

(* ------------------------------------------------------------------------------------------ *)
(* Part 4: "A request is put on the wire at most 1+retries times per session key, and a timeout is
   reported only if some request to that peer really went unanswered for a full timeout period."

   wire_bound.  [req_datagrams rid k W]: the number of datagrams in W that carry request id rid
   encrypted under key k - message packets [PMsg _ _ _ (CEnc k _ (MReq rid _) _)] and handshake packets
   [PHs ... (CEnc k _ (MReq rid _) _)] alike.  Over ALL datagrams of a run, for every configuration:
   at most max 1 retries (tight, [wire_bound_reached]), hence at most 1 + retries.
   Hypotheses, both shown necessary by examples in Proofs/HandlerA_Wire.v: the request ids of the run are
   fresh ([NoDup (run_new_ids evs)]: a statement about the application and rand), and key terms are
   not installed twice ([fresh_installs]: a statement about the ephemeral keys and challenge data
   drawn, see C19).  No freshness of nonces is needed: the count is attached to the (id, key) pair the
   stored packet carries. *)
Theorem C04_wire_bound :
  forall c evs rid k,
  NoDup (run_new_ids evs) -> fresh_installs c init_state [] evs ->
  req_datagrams rid k (concat (snd (run c init_state evs))) <= N.to_nat (N.max 1 (cfg_retries c)).
Proof. exact wire_bound. Qed.
Print Assumptions C04_wire_bound.

Theorem C04_wire_bound_property_text :
  forall c evs rid k,
  NoDup (run_new_ids evs) -> fresh_installs c init_state [] evs ->
  req_datagrams rid k (concat (snd (run c init_state evs))) <= 1 + N.to_nat (cfg_retries c).
Proof. exact wire_bound_property_text. Qed.
Print Assumptions C04_wire_bound_property_text.

(* the companion for the random packet a request without session is sent as (it carries no request
   under any key and is identified by its nonce).  Hypotheses about rand only: the nonces drawn in
   the run are pairwise distinct, no step exhausts its draws. *)
Theorem C04_random_packet_bound :
  forall c evs n,
  NoDup (run_pool evs) -> draws_suffice c init_state evs ->
  random_datagrams n (concat (snd (run c init_state evs))) <= N.to_nat (N.max 1 (cfg_retries c)).
Proof. exact random_bound. Qed.
Print Assumptions C04_random_packet_bound.

(* the hypotheses are satisfiable and the bound is reached: in the example run request 101 is sent
   exactly retries = 2 times under the session key and then fails with a timeout; each hypothesis
   of wire_bound is needed: the same id submitted twice gives 4 datagrams for one (id, key) pair, the
   same key term installed twice gives 3 *)
Example C04_wire_bound_reached :
  NoDup (run_new_ids ex_outcome_events) /\ fresh_installs (ex_cfg true) init_state [] ex_outcome_events /\
  let W := concat (snd (run (ex_cfg true) init_state ex_outcome_events)) in
  req_datagrams 101%N ex_ke W = N.to_nat (N.max 1 (cfg_retries (ex_cfg true))) /\
  last W (OEvent (HRequestFailed 0%N 1%N)) = OEvent (HRequestFailed 101%N ERR_TIMEOUT).
Proof. destruct wire_bound_reached as (A & B & C & _ & D). split; [exact A|split; [exact B|split; [exact C|exact D]]]. Qed.
Print Assumptions C04_wire_bound_reached.

Example C04_wire_bound_hypotheses_needed :
  (~ NoDup (run_new_ids ex_dup_events) /\ fresh_installs (ex_cfg true) init_state [] ex_dup_events /\
   req_datagrams 101%N ex_ke (concat (snd (run (ex_cfg true) init_state ex_dup_events))) = 4) /\
  (NoDup (run_new_ids ex_rekey_events) /\ ~ fresh_installs (ex_cfg true) init_state [] ex_rekey_events /\
   req_datagrams 101%N ex_ke (concat (snd (run (ex_cfg true) init_state ex_rekey_events))) = 3).
Proof. split; [exact wire_bound_needs_fresh_ids|exact wire_bound_needs_fresh_installs]. Qed.
Print Assumptions C04_wire_bound_hypotheses_needed.

(* timeout_justified.  If a step at time [now] reports RequestFailed(rid, Timeout), then rid is a
   request (active or queued) to a node address na held before the step, and there is a timer
   (n, na, t0 + timeout) to that SAME node address whose full period has passed (t0 + timeout < now)
   and which - first disjunct - was armed by an earlier step at time t0 and has been in the nonce map
   after every step since (an answer would have removed it), or - second disjunct, only with a clock
   grid - was armed earlier in the timer stream of the reporting step itself.  No hypothesis on the
   run.  (The reported request may be another request to that peer: fail_session fails the peer's
   other active and queued requests with the same error.) *)
Theorem C04_timeout_justified :
  forall c pre e now d rid,
  let h := fst (run c init_state pre) in
  In (OEvent (HRequestFailed rid ERR_TIMEOUT)) (snd (step c h e now d)) ->
  exists n na t0,
    (t0 + cfg_timeout c < now)%N /\ request_to h rid na /\
    ((exists pre1 e1 t1 d1 mid,
        pre = pre1 ++ (e1, t1, d1) :: mid /\
        (t0 = t1 \/ exists d0, (d0 < t1)%N /\ t0 = fire_time c d0 t1) /\
        forall mid1 mid2, mid = mid1 ++ mid2 ->
          In (n, na, (t0 + cfg_timeout c)%N) (nmap (fst (run c init_state (pre1 ++ (e1, t1, d1) :: mid1)))))
     \/ (exists d0, (d0 < now)%N /\ t0 = fire_time c d0 now)).
Proof. exact timeout_justified. Qed.
Print Assumptions C04_timeout_justified.

(* with fresh nonces the request that owns the timer is stored under that node address at every one
   of those states (no clock grid: times are the step times) *)
Theorem C04_timeout_justified_request_stored :
  forall c pre e now d rid,
  cfg_grid c = 0%N -> fresh_run c init_state pre ->
  let h := fst (run c init_state pre) in
  In (OEvent (HRequestFailed rid ERR_TIMEOUT)) (snd (step c h e now d)) ->
  exists n na pre1 e1 t1 d1 mid,
    pre = pre1 ++ (e1, t1, d1) :: mid /\ (t1 + cfg_timeout c < now)%N /\ request_to h rid na /\
    forall mid1 mid2, mid = mid1 ++ mid2 ->
      let hm := fst (run c init_state (pre1 ++ (e1, t1, d1) :: mid1)) in
      In (n, na, (t1 + cfg_timeout c)%N) (nmap hm) /\
      exists l r, alist_get na (active hm) = Some l /\ In r l /\ rc_nonce r = n /\ c_naddr (rc_contact r) = na.
Proof. exact timeout_justified_request_stored. Qed.
Print Assumptions C04_timeout_justified_request_stored.

(* non-trivial instance: request 101 of the example run times out at 10000; its timer was armed by
   the tick at 5000 (retransmission) *)
Example C04_timeout_justified_instance :
  cfg_grid (ex_cfg true) = 0%N /\ fresh_run (ex_cfg true) init_state ex_timeout_events /\
  let h := fst (run (ex_cfg true) init_state ex_timeout_events) in
  snd (step (ex_cfg true) h EvTick 10000%N (ex_draws2 110%N)) = [OEvent (HRequestFailed 101%N ERR_TIMEOUT)] /\
  request_to h 101%N (2%N, 20%N).
Proof.
  destruct timeout_justified_instance as (A & B & C & _ & _ & D). split; [exact A|split; [exact B|split; [exact C|exact D]]].
Qed.
Print Assumptions C04_timeout_justified_instance.

(* Configuration plumbing (Model/Config.v, transcribing ConfigBuilder, Config, Discv5::new / Discv5::start,
   tied to the code by the `glue` correspondence run on real loopback sockets): the parameters the theorems
   above take as given are the ones the application configured - the value set last through the builder,
   or the default - at every component they are handed to. *)
Require Discv5V.Generated.Params Discv5V.Model.Config Discv5V.Proofs.Config.
Theorem C04_configured_request_timeout_reaches_the_handler : forall ops v, Discv5V.Model.Config.start_node ops = Some v ->
  Discv5V.Model.Config.VN (Discv5V.Model.Config.c_request_timeout (Discv5V.Model.Config.nv_built v)) = Discv5V.Model.Config.configured ops Discv5V.Model.Config.FRequestTimeout /\
  Discv5V.Model.Config.VN (Discv5V.Model.Config.c_request_timeout (Discv5V.Model.Config.nv_service v)) = Discv5V.Model.Config.configured ops Discv5V.Model.Config.FRequestTimeout /\
  Discv5V.Model.Config.VN (Discv5V.Model.Config.c_request_timeout (Discv5V.Model.Config.nv_handler v)) = Discv5V.Model.Config.configured ops Discv5V.Model.Config.FRequestTimeout.
Proof. exact Discv5V.Proofs.Config.effective_request_timeout. Qed.
Print Assumptions C04_configured_request_timeout_reaches_the_handler.
Theorem C04_configured_request_retries_reach_the_handler : forall ops v, Discv5V.Model.Config.start_node ops = Some v ->
  Discv5V.Model.Config.VN (Discv5V.Model.Config.c_request_retries (Discv5V.Model.Config.nv_built v)) = Discv5V.Model.Config.configured ops Discv5V.Model.Config.FRequestRetries /\
  Discv5V.Model.Config.VN (Discv5V.Model.Config.c_request_retries (Discv5V.Model.Config.nv_service v)) = Discv5V.Model.Config.configured ops Discv5V.Model.Config.FRequestRetries /\
  Discv5V.Model.Config.VN (Discv5V.Model.Config.c_request_retries (Discv5V.Model.Config.nv_handler v)) = Discv5V.Model.Config.configured ops Discv5V.Model.Config.FRequestRetries.
Proof. exact Discv5V.Proofs.Config.effective_request_retries. Qed.
Print Assumptions C04_configured_request_retries_reach_the_handler.
Theorem C04_configuration_example : exists v, Discv5V.Model.Config.start_node Discv5V.Proofs.Config.example_ops = Some v.
Proof. destruct Discv5V.Proofs.Config.example_starts as [v [H _]]. exists v. exact H. Qed.
Print Assumptions C04_configuration_example.

(* The receive task in front of the handler (RecvHandler::handle_inbound, Model/Limiter.v recv_inbound,
   compared with the real task through the virtual handler on generated datagrams): *)
Require Discv5V.Model.Limiter Discv5V.Proofs.Limiter.
Module C04Recv.
Import Discv5V.Model.Limiter.
Theorem C04_receive_task_forwards_the_datagram_source : forall (f : pfilter) (p : pbl) (expected : list saddr) (src : saddr) (packet : option pkind) (now : N),
  let fwd := snd (recv_inbound f p expected src packet now) in
  fwd = normalise_src src /\ sa_ip fwd = sa_ip src /\ sa_port fwd = sa_port src /\ sa_flow fwd = 0%N /\ sa_scope fwd = 0%N.
Proof. exact Discv5V.Proofs.Limiter.inbound_forwards_normalised_source. Qed.
Print Assumptions C04_receive_task_forwards_the_datagram_source.
End C04Recv.

(* The receive task composed with the handler's exemption ledger (Proofs/RecvHandler.v): in every
   reachable handler state a datagram from an address this node is waiting for - an unanswered request or
   an unanswered WHOAREYOU - passes the receive task whatever the filter and the ban lists hold; when
   nothing is outstanding every source is unsolicited. [sa_of] maps the handler model's addresses to the
   receive task's socket addresses (normalised: the handler never sees any other). *)
Require Discv5V.Model.Handler Discv5V.Proofs.HandlerInv Discv5V.Model.Limiter Discv5V.Proofs.RecvHandler.
Module C04Compose.
Import Discv5V.Model.Handler Discv5V.Proofs.HandlerInv Discv5V.Model.Limiter.
Theorem C04_awaited_answer_passes_the_receive_task :
  forall (sa_of : N -> saddr), (forall x, normalise_src (sa_of x) = sa_of x) ->
  forall c evs a f p packet now, fixed_cfg c ->
  let h := fst (run c init_state evs) in
  (0 < cnt_active a h + cnt_chall a h)%nat ->
  recv_inbound f p (Discv5V.Proofs.RecvHandler.expected_sources sa_of h) (sa_of a) packet now =
  (f, p, match packet with Some _ => Deliver | None => Unrecognized end, sa_of a).
Proof. exact Discv5V.Proofs.RecvHandler.awaited_answer_passes_the_receive_task. Qed.
Print Assumptions C04_awaited_answer_passes_the_receive_task.
Theorem C04_nothing_outstanding_everything_is_unsolicited :
  forall (sa_of : N -> saddr) c evs f p src packet now, fixed_cfg c ->
  let h := fst (run c init_state evs) in
  active h = nil -> challenges h = nil ->
  recv_inbound f p (Discv5V.Proofs.RecvHandler.expected_sources sa_of h) src packet now = recv_inbound f p nil src packet now.
Proof. exact Discv5V.Proofs.RecvHandler.nothing_outstanding_everything_is_unsolicited. Qed.
Print Assumptions C04_nothing_outstanding_everything_is_unsolicited.
End C04Compose.
