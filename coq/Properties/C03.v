(* C03 - Handshakes answer only fresh, outstanding challenges.
   Statements about Model/Handler.v (validated against the real handler by the correspondence run of
   ./check C03).  [tick c h now d] is the state after the implicit tick of a step (expired timers
   fired); every theorem is closed by [exact] of a lemma of Proofs/HandlerB_*.v.
   A step - the tick and the handler of the event - runs with the clock of the environment set to the
   time of the step: [with_clock c now] (the clock is what the session cache reads to decide whether a
   session has expired; the component [cfg_clock] of the [c] passed to [step] is overwritten, never
   read).  Where a theorem names a handler function applied inside the step, it is therefore applied to
   [with_clock c now]. *)
From Coq Require Import List NArith Bool.
From Discv5V Require Import Model.Handler Proofs.HandlerB_Base Proofs.HandlerB_Frame Proofs.HandlerB_Session
  Proofs.HandlerB_Auth Proofs.HandlerB_Step Proofs.HandlerB_Fresh Proofs.HandlerB_Examples.
Import ListNotations.
Local Open Scope N_scope.

(* handshake_needs_challenge: without an outstanding WHOAREYOU sent to exactly (src, from) a handshake
   packet changes nothing and emits nothing (beyond what the expired timers of the implicit tick did). *)
Theorem C03_handshake_needs_challenge :
  forall c h from src n aad sg eph eph_ok rec ct now d,
  chall_get (src, from) (challenges (hs (tick c h now d))) = None ->
  step c h (EvInbound from (PHs src n aad sg eph eph_ok rec ct)) now d =
  (hs (tick c h now d), outs (tick c h now d)).
Proof. exact handshake_needs_challenge. Qed.
Print Assumptions C03_handshake_needs_challenge.

(* the tick only lets challenges expire: none before the step is enough *)
Theorem C03_handshake_needs_challenge_before :
  forall c h from src n aad sg eph eph_ok rec ct now d,
  chall_get (src, from) (challenges h) = None ->
  step c h (EvInbound from (PHs src n aad sg eph eph_ok rec ct)) now d =
  (hs (tick c h now d), outs (tick c h now d)).
Proof. exact handshake_needs_challenge_before. Qed.
Print Assumptions C03_handshake_needs_challenge_before.

(* handshake_consumes_challenge: acceptance (EstOk) and rejection for a reason other than the signature
   (EstErr) remove the challenge of (src, from); a bad signature keeps it with the same challenge data
   (the code re-inserts it, which restarts its timer) and leaves the sessions untouched.
   ChallUniq (at most one challenge per node address) holds in every reachable state. *)
Theorem C03_handshake_consumes_challenge :
  forall c h from src n aad sg eph eph_ok rec ct now d,
  ChallUniq h ->
  let s0 := tick c h now d in
  let h' := fst (step c h (EvInbound from (PHs src n aad sg eph eph_ok rec ct)) now d) in
  match chall_get (src, from) (challenges (hs s0)) with
  | None => True
  | Some ch =>
    match establish c src ch sg eph eph_ok rec with
    | EstOk _ _ | EstErr => chall_get (src, from) (challenges h') = None
    | EstBadSig => chall_get (src, from) (challenges h') = Some ch /\ sessions h' = sessions (hs s0)
    end
  end.
Proof. exact handshake_consumes_challenge. Qed.
Print Assumptions C03_handshake_consumes_challenge.

Theorem C03_challenge_unique_reachable : forall c evs, ChallUniq (fst (run c init_state evs)).
Proof. exact run_ChallUniq. Qed.
Print Assumptions C03_challenge_unique_reachable.

(* replay_no_effect: processing the same handshake packet again right away (whatever the first copy
   did: accepted, rejected, bad signature, no challenge) creates or re-keys no session and reports
   nothing: the sessions are those left by the implicit tick, the outputs are the tick's - datagrams,
   RequestFailed and ExpiredSessions (the addresses of sessions the tick purged because they had
   expired) only ([quiet_out]). *)
Theorem C03_replay_no_effect :
  forall c h from src n aad sg eph eph_ok rec ct now d now2 d2 h1 o1 h2 o2,
  ChallUniq h ->
  step c h (EvInbound from (PHs src n aad sg eph eph_ok rec ct)) now d = (h1, o1) ->
  step c h1 (EvInbound from (PHs src n aad sg eph eph_ok rec ct)) now2 d2 = (h2, o2) ->
  sessions h2 = sessions (hs (tick c h1 now2 d2)) /\ o2 = outs (tick c h1 now2 d2) /\
  SessD h1 h2 /\ Forall quiet_out o2.
Proof. exact replay_no_effect. Qed.
Print Assumptions C03_replay_no_effect.

(* later replays: a handshake whose id-signature covers other challenge data than the one outstanding
   now is never accepted (a replayed handshake answers a challenge that was consumed or has expired;
   it could succeed only if a later WHOAREYOU to the same node address repeated the challenge data,
   i.e. the 16 random id-nonce bytes and the 16 random IV bytes - see C19) ... *)
Theorem C03_stale_signature_rejected :
  forall c remote ch k cd eph' dst eph eph_ok rec se e,
  cd <> ch_cd ch -> establish c remote ch (Sig k cd eph' dst) eph eph_ok rec <> EstOk se e.
Proof. exact stale_signature_rejected. Qed.
Print Assumptions C03_stale_signature_rejected.

(* ... and in general any effect of a handshake packet needs a signature over the data of the challenge
   outstanding for exactly (src, from) when the packet arrives (C01_incoming_identity). *)
Theorem C03_effect_needs_outstanding_challenge :
  forall c h from src n aad sg eph eph_ok rec ct now d h' out,
  fix_d1 c = true -> ChallOK h ->
  step c h (EvInbound from (PHs src n aad sg eph eph_ok rec ct)) now d = (h', out) ->
  (exists o, In o out /\ attributing o) \/ session_changed h h' ->
  exists ch deadline,
    In ((src, from), ch, deadline) (challenges h) /\
    sg = Sig src (ch_cd ch) eph (cfg_local c) /\ eph_ok = true.
Proof. exact incoming_identity. Qed.
Print Assumptions C03_effect_needs_outstanding_challenge.

(* whoareyou_needs_inflight: a WHOAREYOU whose nonce is not the nonce of a request in flight changes
   nothing and emits nothing; if the nonce belongs to a request in flight to another address, nothing
   is sent or reported and sessions, challenges, queued requests and exemptions are unchanged - the
   request is taken out and put back (its timer restarts). *)
Theorem C03_whoareyou_needs_inflight :
  forall c h from n idn seq cd now d,
  let s0 := tick c h now d in
  (nmap_get n (nmap (hs s0)) = None ->
   step c h (EvInbound from (PWho n idn seq cd)) now d = (hs s0, outs s0)) /\
  (forall na0, nmap_get n (nmap (hs s0)) = Some na0 -> snd na0 <> from ->
   let h' := fst (step c h (EvInbound from (PWho n idn seq cd)) now d) in
   snd (step c h (EvInbound from (PWho n idn seq cd)) now d) = outs s0 /\
   sessions h' = sessions (hs s0) /\ challenges h' = challenges (hs s0) /\
   pending h' = pending (hs s0) /\ expected h' = expected (hs s0) /\
   h' = match snd (ar_remove_by_nonce (hs s0) n) with
        | Some (na, r) => ar_insert c (fst (ar_remove_by_nonce (hs s0) n)) na r now
        | None => fst (ar_remove_by_nonce (hs s0) n)
        end).
Proof. exact whoareyou_needs_inflight. Qed.
Print Assumptions C03_whoareyou_needs_inflight.

(* single_handshake_per_request: if the request the WHOAREYOU refers to has already been answered with
   a handshake (rc_hs_sent), the step sends no datagram at all - in particular no second handshake -:
   beyond the outputs of the implicit tick it emits only RequestFailed and ExpiredSessions
   ([failed_out]; failing the request removes the peer's session, and Handler::fail_session purges the
   expired sessions and reports their addresses before it does so).  It fails the request
   (RequestFailed for an application request) and does not put it back: the new state is that of
   fail_request, run under the clock of the step ([with_clock c now]); no session is created.
   (The model takes the same branch for a contact whose key type admits no session keys ([c_ed]:
   Session::encrypt_with_header fails): [C03_no_handshake_for_unsupported_key] below.) *)
Theorem C03_single_handshake_per_request :
  forall c h from n idn seq cd now d h1 na r,
  let s0 := tick c h now d in
  nmap_get n (nmap (hs s0)) <> None ->
  ar_remove_by_nonce (hs s0) n = (h1, Some (na, r)) -> snd na = from -> rc_hs_sent r = true ->
  let res := step c h (EvInbound from (PWho n idn seq cd)) now d in
  (forall o, In o (snd res) -> In o (outs s0) \/ failed_out o) /\
  (rc_ext r = true -> In (OEvent (HRequestFailed (rc_rid r) ERR_INVALID_REMOTE_PACKET)) (snd res)) /\
  fst res = hs (fail_request (with_clock c now)
                  (if fix_d6 c then remove_expected (with_hs s0 h1) from else with_hs s0 h1) r
                  ERR_INVALID_REMOTE_PACKET true) /\
  SessD h (fst res).
Proof. exact single_handshake_per_request. Qed.
Print Assumptions C03_single_handshake_per_request.

(* the same for a contact whose public key is not a secp256k1 key (an Ed25519 record): no session
   keys can be derived for it, so a WHOAREYOU for a request to it is never answered with a handshake;
   the request fails, nothing else is emitted, no session is created *)
Theorem C03_no_handshake_for_unsupported_key :
  forall c h from n idn seq cd now d h1 na r,
  let s0 := tick c h now d in
  nmap_get n (nmap (hs s0)) <> None ->
  ar_remove_by_nonce (hs s0) n = (h1, Some (na, r)) -> snd na = from -> c_ed (rc_contact r) = true ->
  let res := step c h (EvInbound from (PWho n idn seq cd)) now d in
  (forall o, In o (snd res) -> In o (outs s0) \/ failed_out o) /\
  (rc_ext r = true -> In (OEvent (HRequestFailed (rc_rid r) ERR_INVALID_REMOTE_PACKET)) (snd res)) /\
  SessD h (fst res).
Proof. exact no_handshake_for_unsupported_key. Qed.
Print Assumptions C03_no_handshake_for_unsupported_key.

(* ------------------------------------------------------------------------------------------ *)
(* examples (Proofs/HandlerB_Examples.v): replay of an accepted handshake; WHOAREYOU with an unknown
   nonce / from another address / answered once / answered twice *)
Example C03_example_replay :
  ChallUniq h_challenged /\
  step ex_cfg h_challenged (EvInbound 100 pkt_handshake) 12 nod =
    (fst (run ex_cfg init_state [ev_unknown; ev_whoareyou; ev_handshake]),
     [OEvent (HEstablished enr7 100 true); OEvent (HRequest (7, 100) 9 0)]) /\
  step ex_cfg (fst (run ex_cfg init_state [ev_unknown; ev_whoareyou; ev_handshake])) (EvInbound 100 pkt_handshake) 13 nod =
    (fst (run ex_cfg init_state [ev_unknown; ev_whoareyou; ev_handshake]), []).
Proof. split; [exact (proj2 h_challenged_ChallOK) | split; [exact handshake_step | exact handshake_replayed]]. Qed.
Print Assumptions C03_example_replay.

Example C03_example_whoareyou :
  nmap_get (4, 4) (nmap h_inflight) = Some (8, 200) /\
  step ex_cfg h_inflight (EvInbound 200 (PWho (4, 5) 12 0 6)) 11 (dk [(5, 5, 61, 9)]) = (h_inflight, []) /\
  snd (step ex_cfg h_inflight (EvInbound 201 (PWho (4, 4) 12 0 6)) 11 (dk [(5, 5, 61, 9)])) = [] /\
  (exists h1 r, ar_remove_by_nonce h_hs_sent (5, 5) = (h1, Some ((8, 200), r)) /\ rc_hs_sent r = true /\
                rc_ext r = true /\ rc_rid r = 20) /\
  step ex_cfg h_hs_sent (EvInbound 200 (PWho (5, 5) 13 0 8)) 12 (dk [(6, 6, 62, 10)]) =
    (init_state, [OEvent (HRequestFailed 20 ERR_INVALID_REMOTE_PACKET)]).
Proof.
  split; [exact inflight_nonce | split; [exact who1_unknown_nonce | split; [exact who1_wrong_source |
  split; [exact hs_sent_request | exact who2_step]]]].
Qed.
Print Assumptions C03_example_whoareyou.

(* Configuration plumbing (Model/Config.v, transcribing ConfigBuilder, Config, Discv5::new / Discv5::start,
   tied to the code by the `glue` correspondence run on real loopback sockets): the parameters the theorems
   above take as given are the ones the application configured - the value set last through the builder,
   or the default - at every component they are handed to. *)
Require Discv5V.Generated.Params Discv5V.Model.Config Discv5V.Proofs.Config.
Theorem C03_configured_request_timeout_reaches_the_handler : forall ops v, Discv5V.Model.Config.start_node ops = Some v ->
  Discv5V.Model.Config.VN (Discv5V.Model.Config.c_request_timeout (Discv5V.Model.Config.nv_built v)) = Discv5V.Model.Config.configured ops Discv5V.Model.Config.FRequestTimeout /\
  Discv5V.Model.Config.VN (Discv5V.Model.Config.c_request_timeout (Discv5V.Model.Config.nv_service v)) = Discv5V.Model.Config.configured ops Discv5V.Model.Config.FRequestTimeout /\
  Discv5V.Model.Config.VN (Discv5V.Model.Config.c_request_timeout (Discv5V.Model.Config.nv_handler v)) = Discv5V.Model.Config.configured ops Discv5V.Model.Config.FRequestTimeout.
Proof. exact Discv5V.Proofs.Config.effective_request_timeout. Qed.
Print Assumptions C03_configured_request_timeout_reaches_the_handler.
Theorem C03_configuration_example : exists v, Discv5V.Model.Config.start_node Discv5V.Proofs.Config.example_ops = Some v.
Proof. destruct Discv5V.Proofs.Config.example_starts as [v [H _]]. exists v. exact H. Qed.
Print Assumptions C03_configuration_example.

(* The receive task in front of the handler (RecvHandler::handle_inbound, Model/Limiter.v recv_inbound,
   compared with the real task through the virtual handler on generated datagrams): *)
Require Discv5V.Model.Limiter Discv5V.Proofs.Limiter.
Module C03Recv.
Import Discv5V.Model.Limiter.
Theorem C03_receive_task_forwards_the_datagram_source : forall (f : pfilter) (p : pbl) (expected : list saddr) (src : saddr) (packet : option pkind) (now : N),
  let fwd := snd (recv_inbound f p expected src packet now) in
  fwd = normalise_src src /\ sa_ip fwd = sa_ip src /\ sa_port fwd = sa_port src /\ sa_flow fwd = 0%N /\ sa_scope fwd = 0%N.
Proof. exact Discv5V.Proofs.Limiter.inbound_forwards_normalised_source. Qed.
Print Assumptions C03_receive_task_forwards_the_datagram_source.
End C03Recv.
