(* C10 - Query results are sound, ordered and complete.
   Statements only; see Proofs/Query.v, Proofs/QueryPool.v and Proofs/QueryGap.v.  No hypotheses
   besides the run: every configuration, target, candidate list, kind of query and event list is
   covered.
   See DESIGN.md section 6 (C09 / C10). *)
From Coq Require Import List NArith Bool Sorted.
From Discv5V Require Import Model.Query Proofs.Query Proofs.QueryPool Proofs.QueryGap.
Import ListNotations.
Local Open Scope N_scope.

(* result_sound: every returned peer was handed out by next and, later, an on_success call for it
   was made (the run splits at that call). *)
Theorem C10_result_sound :
  forall k c t known evs q os,
    run evs (with_config k c t known) = Some (q, os) ->
    forall p, In p (into_result q) ->
      exists evs1 closer evs2 q1 os1,
        evs = evs1 ++ ESuccess p closer :: evs2 /\
        run evs1 (with_config k c t known) = Some (q1, os1) /\ In p (emitted os1).
Proof. exact result_sound. Qed.
Print Assumptions C10_result_sound.

(* ... and is in state Succeeded in the query. *)
Theorem C10_result_succeeded :
  forall q p, In p (into_result q) ->
    exists d x, In (d, x) (peers q) /\ pkey x = p /\ pst x = Succeeded /\ pm (qkind q) x = true.
Proof. exact into_result_in. Qed.
Print Assumptions C10_result_succeeded.

(* at most num_results nodes, in strictly increasing XOR distance to the target, hence distinct *)
Theorem C10_result_shape :
  forall k c t known evs q os,
    run evs (with_config k c t known) = Some (q, os) ->
    (length (into_result q) <= N.to_nat (num_results c))%nat /\
    StronglySorted (fun a b => N.lxor a t < N.lxor b t) (into_result q) /\
    NoDup (into_result q).
Proof. exact result_shape. Qed.
Print Assumptions C10_result_shape.

(* predicate lookups: a returned node was an initial candidate flagged as matching or was
   reported (in some on_success call) with a record satisfying the predicate *)
Theorem C10_result_predicate :
  forall c t known evs q os,
    run evs (with_config KPredicate c t known) = Some (q, os) ->
    forall p, In p (into_result q) ->
      In (p, true) (firstn (N.to_nat (num_results c)) known) \/ In (p, true) (reported evs).
Proof. exact result_predicate. Qed.
Print Assumptions C10_result_predicate.

(* complete_when_short: if the query finished by itself with fewer than num_results results,
   no peer it holds is NotContacted - each was handed out by next - and this includes every one of
   the (first num_results) candidates it was created with. *)
Theorem C10_complete_when_short :
  forall k c t known evs q os,
    run evs (with_config k c t known) = Some (q, os) ->
    prog q = Finished ->
    (length (into_result q) < N.to_nat (num_results c))%nat ->
    (forall d x, In (d, x) (peers q) -> pst x <> NotContacted /\ In (pkey x) (emitted os)) /\
    (forall r, In r (firstn (N.to_nat (num_results c)) known) -> In (fst r) (emitted os)).
Proof. exact complete_when_short. Qed.
Print Assumptions C10_complete_when_short.

(* "every candidate it LEARNED OF was contacted".  A lookup learns of ids in two ways: the (first
   num_results) candidates it is created with, and the ids reported to it by on_success calls.  An
   on_success call for peer p in state q1 has an effect exactly when [success_accepted q1 p]: the
   query is not Finished, p is in closest_peers and is Waiting or Unresponsive; any other call
   returns without touching the query: *)
Theorem C10_unaccepted_success_is_ignored :
  forall q p closer, success_accepted q p = false -> on_success q p closer = Some q.
Proof. exact on_success_rejected. Qed.
Print Assumptions C10_unaccepted_success_is_ignored.

Theorem C10_success_accepted_spec :
  forall q p, success_accepted q p = true <->
    prog q <> Finished /\
    exists x, m_get (N.lxor p (target q)) (peers q) = Some x /\
              ((exists t, pst x = Waiting t) \/ pst x = Unresponsive).
Proof. exact success_accepted_spec. Qed.
Print Assumptions C10_success_accepted_spec.

(* reported_contacted: if the lookup finished by itself with fewer than num_results results, then
   for every on_success call of the run that had an effect (the run splits at that call), every id
   reported in it was handed out by next, i.e. contacted.  Together with the second clause of
   C10_complete_when_short (the initial candidates) this is "every candidate it learned of". *)
Theorem C10_reported_contacted :
  forall k c t known evs q os,
    run evs (with_config k c t known) = Some (q, os) ->
    prog q = Finished ->
    (length (into_result q) < N.to_nat (num_results c))%nat ->
    forall evs1 p closer evs2 q1 os1,
      evs = evs1 ++ ESuccess p closer :: evs2 ->
      run evs1 (with_config k c t known) = Some (q1, os1) -> success_accepted q1 p = true ->
      forall r, In r closer -> In (fst r) (emitted os).
Proof. exact reported_contacted. Qed.
Print Assumptions C10_reported_contacted.

(* The same in set form.  [learned k c t known evs] = the ids of the first num_results candidates ++
   the ids reported by the accepted on_success calls of the run ([learned_from], characterised by
   C10_learned_from_spec).  At every point of every run these are exactly the ids the query holds
   in closest_peers (nothing learned is ever dropped, nothing else is ever held) ... *)
Theorem C10_learned_from_spec :
  forall evs q0 q os, run evs q0 = Some (q, os) -> forall id,
    In id (learned_from evs q0) <->
    exists evs1 p closer evs2 q1 os1,
      evs = evs1 ++ ESuccess p closer :: evs2 /\ run evs1 q0 = Some (q1, os1) /\
      success_accepted q1 p = true /\ In id (map fst closer).
Proof. exact learned_from_spec. Qed.
Print Assumptions C10_learned_from_spec.

Theorem C10_learned_exact :
  forall k c t known evs q os,
    run evs (with_config k c t known) = Some (q, os) ->
    forall id,
      In id (map fst (firstn (N.to_nat (num_results c)) known) ++ learned_from evs (with_config k c t known)) <->
      exists d x, In (d, x) (peers q) /\ pkey x = id.
Proof. exact learned_exact. Qed.
Print Assumptions C10_learned_exact.

(* ... only ids the lookup learned of are ever contacted (any run) ... *)
Theorem C10_contacted_learned :
  forall k c t known evs q os,
    run evs (with_config k c t known) = Some (q, os) ->
    forall id, In id (emitted os) -> In id (learned k c t known evs).
Proof. exact contacted_learned. Qed.
Print Assumptions C10_contacted_learned.

(* ... and if the lookup finished by itself with a short result, every id it learned of was
   contacted. *)
Theorem C10_learned_contacted :
  forall k c t known evs q os,
    run evs (with_config k c t known) = Some (q, os) ->
    prog q = Finished ->
    (length (into_result q) < N.to_nat (num_results c))%nat ->
    forall id, In id (learned k c t known evs) -> In id (emitted os).
Proof. exact learned_contacted. Qed.
Print Assumptions C10_learned_contacted.

(* Non-vacuity: a lookup that finishes by itself with 1 < 3 results after an accepted on_success
   call that reported a new id (2), which was then contacted (and failed). *)
Example C10_reported_contacted_instance :
  exists k c t known evs q os evs1 p closer evs2 q1 os1,
    run evs (with_config k c t known) = Some (q, os) /\ prog q = Finished /\
    (length (into_result q) < N.to_nat (num_results c))%nat /\
    evs = evs1 ++ ESuccess p closer :: evs2 /\
    run evs1 (with_config k c t known) = Some (q1, os1) /\ success_accepted q1 p = true /\
    closer = [(2, true)] /\ emitted os = [1; 2] /\ learned k c t known evs = [1; 2].
Proof.
  exists KFindNode, {| parallelism := 1; num_results := 3; peer_timeout := 10 |}, 0, [(1, true)],
         [ENext 0; ESuccess 1 [(2, true)]; ENext 1; EFailure 2; ENext 2].
  eexists. eexists. exists [ENext 0], 1, [(2, true)], [ENext 1; EFailure 2; ENext 2]. eexists. eexists.
  split; [vm_compute; reflexivity|]. split; [reflexivity|]. split; [vm_compute; repeat constructor|].
  split; [reflexivity|]. split; [vm_compute; reflexivity|]. repeat split; vm_compute; reflexivity.
Qed.
Print Assumptions C10_reported_contacted_instance.

(* The results the pool hands out are results of reachable query states, so the theorems above
   apply to them; a query handed out as Finished (not Timeout) is finished. *)
Theorem C10_pool_results :
  forall timeout evs p os i x,
    prun evs (pool_new timeout) = Some (p, os) ->
    (In (POPoll (PFinished i x)) os ->
       prog (qiter x) = Finished /\
       exists k c t known qevs qos, run qevs (with_config k c t known) = Some (qiter x, qos)) /\
    (In (POPoll (PTimeout i x)) os ->
       exists k c t known qevs qos, run qevs (with_config k c t known) = Some (qiter x, qos)).
Proof.
  intros timeout evs p os i x R.
  destruct (prun_outputs_reach _ _ _ _ (pool_new_inv timeout) R i x) as [A B].
  split; [intros I; destruct (A I); auto|exact B].
Qed.
Print Assumptions C10_pool_results.

(* Design observation (not a violation; "every candidate it learned of" is read as "every peer
   the lookup holds": the first num_results seeds it accepted plus everything reported by the
   on_success calls that had an effect - C10_learned_exact).  with_config keeps only the first num_results candidates of the list it is given
   (.take(num_results) before .collect(), the inherited Kademlia / libp2p design; the service hands
   in the whole routing table, closest first); the remaining seeds never enter the lookup and are
   never contacted, even if the lookup finishes by itself with a short result.  Witness: *)
Theorem C10_seed_truncation_observation :
  exists k c t known evs q os,
    run evs (with_config k c t known) = Some (q, os) /\ prog q = Finished /\
    (length (into_result q) < N.to_nat (num_results c))%nat /\
    exists r, In r known /\ ~ In (fst r) (emitted os).
Proof. exact seed_truncation_witness. Qed.
Print Assumptions C10_seed_truncation_observation.

(* Configuration plumbing (Model/Config.v, transcribing ConfigBuilder, Config, Discv5::new / Discv5::start,
   tied to the code by the `glue` correspondence run on real loopback sockets): the parameters the theorems
   above take as given are the ones the application configured - the value set last through the builder,
   or the default - at every component they are handed to. *)
Require Discv5V.Generated.Params Discv5V.Model.Config Discv5V.Proofs.Config.
Theorem C10_configured_query_peer_timeout_reaches_the_service : forall ops v, Discv5V.Model.Config.start_node ops = Some v ->
  Discv5V.Model.Config.VN (Discv5V.Model.Config.c_query_peer_timeout (Discv5V.Model.Config.nv_built v)) = Discv5V.Model.Config.configured ops Discv5V.Model.Config.FQueryPeerTimeout /\
  Discv5V.Model.Config.VN (Discv5V.Model.Config.c_query_peer_timeout (Discv5V.Model.Config.nv_service v)) = Discv5V.Model.Config.configured ops Discv5V.Model.Config.FQueryPeerTimeout /\
  Discv5V.Model.Config.VN (Discv5V.Model.Config.c_query_peer_timeout (Discv5V.Model.Config.nv_handler v)) = Discv5V.Model.Config.configured ops Discv5V.Model.Config.FQueryPeerTimeout.
Proof. exact Discv5V.Proofs.Config.effective_query_peer_timeout. Qed.
Print Assumptions C10_configured_query_peer_timeout_reaches_the_service.
Theorem C10_configured_query_parallelism_reaches_the_service : forall ops v, Discv5V.Model.Config.start_node ops = Some v ->
  Discv5V.Model.Config.VN (Discv5V.Model.Config.c_query_parallelism (Discv5V.Model.Config.nv_built v)) = Discv5V.Model.Config.configured ops Discv5V.Model.Config.FQueryParallelism /\
  Discv5V.Model.Config.VN (Discv5V.Model.Config.c_query_parallelism (Discv5V.Model.Config.nv_service v)) = Discv5V.Model.Config.configured ops Discv5V.Model.Config.FQueryParallelism /\
  Discv5V.Model.Config.VN (Discv5V.Model.Config.c_query_parallelism (Discv5V.Model.Config.nv_handler v)) = Discv5V.Model.Config.configured ops Discv5V.Model.Config.FQueryParallelism.
Proof. exact Discv5V.Proofs.Config.effective_query_parallelism. Qed.
Print Assumptions C10_configured_query_parallelism_reaches_the_service.
Theorem C10_configuration_example : exists v, Discv5V.Model.Config.start_node Discv5V.Proofs.Config.example_ops = Some v.
Proof. destruct Discv5V.Proofs.Config.example_starts as [v [H _]]. exists v. exact H. Qed.
Print Assumptions C10_configuration_example.
