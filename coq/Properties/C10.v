(* C10 - Query results are sound, ordered and complete.
   Statements only; see Proofs/Query.v and Proofs/QueryPool.v.  No hypotheses besides the run:
   every configuration, target, candidate list, kind of query and event list is covered.
   See DESIGN.md section 6 (C09 / C10). *)
From Coq Require Import List NArith Bool Sorted.
From Discv5V Require Import Model.Query Proofs.Query Proofs.QueryPool.
Import ListNotations.
Local Open Scope N_scope.

(* result_sound: every returned peer was handed out by next and, later, an on_success call for it
   was made (the run splits at that call). *)
Theorem C10_result_sound :
  forall k c t known evs q os,
    run evs (with_config k c t known) = Some (q, os) ->
    forall p, In p (into_result q) ->
      exists evs1 closer evs2 q1 os1,
        evs = evs1 ++ ESuccess p closer :: evs2 /\
        run evs1 (with_config k c t known) = Some (q1, os1) /\ In p (emitted os1).
Proof. exact result_sound. Qed.
Print Assumptions C10_result_sound.

(* ... and is in state Succeeded in the query. *)
Theorem C10_result_succeeded :
  forall q p, In p (into_result q) ->
    exists d x, In (d, x) (peers q) /\ pkey x = p /\ pst x = Succeeded /\ pm (qkind q) x = true.
Proof. exact into_result_in. Qed.
Print Assumptions C10_result_succeeded.

(* at most num_results nodes, in strictly increasing XOR distance to the target, hence distinct *)
Theorem C10_result_shape :
  forall k c t known evs q os,
    run evs (with_config k c t known) = Some (q, os) ->
    (length (into_result q) <= N.to_nat (num_results c))%nat /\
    StronglySorted (fun a b => N.lxor a t < N.lxor b t) (into_result q) /\
    NoDup (into_result q).
Proof. exact result_shape. Qed.
Print Assumptions C10_result_shape.

(* predicate lookups: a returned node was an initial candidate flagged as matching or was
   reported (in some on_success call) with a record satisfying the predicate *)
Theorem C10_result_predicate :
  forall c t known evs q os,
    run evs (with_config KPredicate c t known) = Some (q, os) ->
    forall p, In p (into_result q) ->
      In (p, true) (firstn (N.to_nat (num_results c)) known) \/ In (p, true) (reported evs).
Proof. exact result_predicate. Qed.
Print Assumptions C10_result_predicate.

(* complete_when_short: if the query finished by itself with fewer than num_results results,
   no peer it holds is NotContacted - each was handed out by next - and this includes every one of
   the (first num_results) candidates it was created with. *)
Theorem C10_complete_when_short :
  forall k c t known evs q os,
    run evs (with_config k c t known) = Some (q, os) ->
    prog q = Finished ->
    (length (into_result q) < N.to_nat (num_results c))%nat ->
    (forall d x, In (d, x) (peers q) -> pst x <> NotContacted /\ In (pkey x) (emitted os)) /\
    (forall r, In r (firstn (N.to_nat (num_results c)) known) -> In (fst r) (emitted os)).
Proof. exact complete_when_short. Qed.
Print Assumptions C10_complete_when_short.

(* The results the pool hands out are results of reachable query states, so the theorems above
   apply to them; a query handed out as Finished (not Timeout) is finished. *)
Theorem C10_pool_results :
  forall timeout evs p os i x,
    prun evs (pool_new timeout) = Some (p, os) ->
    (In (POPoll (PFinished i x)) os ->
       prog (qiter x) = Finished /\
       exists k c t known qevs qos, run qevs (with_config k c t known) = Some (qiter x, qos)) /\
    (In (POPoll (PTimeout i x)) os ->
       exists k c t known qevs qos, run qevs (with_config k c t known) = Some (qiter x, qos)).
Proof.
  intros timeout evs p os i x R.
  destruct (prun_outputs_reach _ _ _ _ (pool_new_inv timeout) R i x) as [A B].
  split; [intros I; destruct (A I); auto|exact B].
Qed.
Print Assumptions C10_pool_results.

(* Design observation (not a violation; "every candidate it learned of" is read as "every peer
   the lookup holds": the first num_results seeds it accepted plus everything reported by
   on_success).  with_config keeps only the first num_results candidates of the list it is given
   (.take(num_results) before .collect(), the inherited Kademlia / libp2p design; the service hands
   in the whole routing table, closest first); the remaining seeds never enter the lookup and are
   never contacted, even if the lookup finishes by itself with a short result.  Witness: *)
Theorem C10_seed_truncation_observation :
  exists k c t known evs q os,
    run evs (with_config k c t known) = Some (q, os) /\ prog q = Finished /\
    (length (into_result q) < N.to_nat (num_results c))%nat /\
    exists r, In r known /\ ~ In (fst r) (emitted os).
Proof. exact seed_truncation_witness. Qed.
Print Assumptions C10_seed_truncation_observation.
