(* Correspondence runner for the iterative-query model (C09, C10). *)
From Coq Require Import List NArith Bool.
From Discv5V Require Import Model.Query Run.Common.
Import ListNotations.
Local Open Scope N_scope.

Definition enc_kind (k : kind) : N := match k with KFindNode => 0 | KPredicate => 1 end.
Definition enc_qstate (s : qstate) : list N :=
  match s with
  | SWaiting None => [0]
  | SWaiting (Some p) => [1; p]
  | SWaitingAtCapacity => [2]
  | SFinished => [3]
  end.
Definition enc_out (o : out) : list N :=
  match o with ONext s => 1 :: enc_qstate s | OUnit => [0] end.
Definition enc_pst (s : pstate) : list N :=
  match s with
  | NotContacted => [0; 0] | Waiting t => [1; t] | Unresponsive => [2; 0] | Failed => [3; 0] | Succeeded => [4; 0]
  end.
Definition enc_peer (dp : N * qpeer) : list N :=
  let p := snd dp in pkey p :: enc_pst (pst p) ++ [preturned p; bN (pmatch p)].
Definition enc_prog (p : progress) : list N :=
  match p with Iterating n => [0; n] | Stalled => [1; 0] | Finished => [2; 0] end.
Definition dump (q : query) : list N :=
  enc_kind (qkind q) :: enc_prog (prog q)
    ++ [num_waiting q; parallelism (cfg q); num_results (cfg q); peer_timeout (cfg q)]
    ++ enc_list enc_peer (peers q).
Definition enc_result (l : list N) : list N := N.of_nat (length l) :: l.

Definition PANIC : list N := [999].

(* ---- state machine cases ---- *)
Definition sstep := (event * list N)%type.

Fixpoint check_steps (q : query) (steps : list sstep) (idx : N) : query * option (N * list N * list N) :=
  match steps with
  | [] => (q, None)
  | (e, expect) :: rest =>
    match step q e with
    | None => if list_N_eqb PANIC expect then (q, None) else (q, Some (idx, PANIC, expect))
    | Some (q', o) =>
      let enc := enc_out o ++ [hashN (dump q')] in
      if list_N_eqb enc expect then check_steps q' rest (idx + 1)
      else (q', Some (idx, enc_out o ++ dump q', expect))
    end
  end.

(* ---- pool cases ---- *)
Inductive rstep := REv (e : pevent) | RSetNextId (n : N).
Definition pstep_r := (rstep * list N)%type.

Fixpoint q_sorted_insert (x : N * pquery) (l : list (N * pquery)) : list (N * pquery) :=
  match l with
  | [] => [x]
  | y :: r => if fst x <=? fst y then x :: l else y :: q_sorted_insert x r
  end.
Definition q_sort (l : list (N * pquery)) : list (N * pquery) := fold_right q_sorted_insert [] l.

Definition enc_pquery (x : pquery) : list N := optN (started x) ++ dump (qiter x).
Definition pdump (p : pool) : list N :=
  next_id p :: enc_list (fun ix => fst ix :: enc_pquery (snd ix)) (q_sort (queries p)).

Definition enc_pstate_out (s : pstate_out) : list N :=
  match s with
  | PIdle => [0]
  | PWaiting None => [1]
  | PWaiting (Some (i, p)) => [2; i; p]
  | PFinished i x => 3 :: i :: hashN (enc_pquery x) :: enc_result (into_result (qiter x))
  | PTimeout i x => 4 :: i :: hashN (enc_pquery x) :: enc_result (into_result (qiter x))
  end.
Definition enc_pout (o : pout) : list N :=
  match o with POAdded i => [1; i] | POPoll s => 2 :: enc_pstate_out s | POUnit => [0] end.

Definition rstep_apply (p : pool) (r : rstep) : option (pool * pout) :=
  match r with
  | REv e => pstep p e
  | RSetNextId n => Some ({| next_id := n; query_timeout := query_timeout p; queries := queries p |}, POUnit)
  end.

Fixpoint check_psteps (p : pool) (steps : list pstep_r) (idx : N) : option (N * list N * list N) :=
  match steps with
  | [] => None
  | (e, expect) :: rest =>
    match rstep_apply p e with
    | None => if list_N_eqb PANIC expect then None else Some (idx, PANIC, expect)
    | Some (p', o) =>
      let enc := enc_pout o ++ [hashN (pdump p')] in
      if list_N_eqb enc expect then check_psteps p' rest (idx + 1)
      else Some (idx, enc_pout o ++ pdump p', expect)
    end
  end.

Inductive qcase :=
(* id, kind, (parallelism, num_results, peer_timeout), target, known peers, hash of the initial
   dump, steps, encoding of into_result at the end (or PANIC if a step panicked) *)
| CSm (id : N) (k : kind) (c : N * N * N) (t : N) (known : list (N * bool)) (init : N)
      (steps : list sstep) (result : list N)
(* id, query_timeout, steps *)
| CPool (id : N) (timeout : N) (steps : list pstep_r).

Definition mk_cfg (c : N * N * N) : qconfig :=
  let '(a, b, d) := c in {| parallelism := a; num_results := b; peer_timeout := d |}.

Definition check_case (c : qcase) : option mismatch :=
  match c with
  | CSm id k c t known init steps result =>
    let q0 := with_config k (mk_cfg c) t known in
    if negb (hashN (dump q0) =? init)
    then Some {| mm_case := id; mm_step := 0; mm_model := dump q0; mm_impl := [init] |}
    else
      match check_steps q0 steps 1 with
      | (_, Some (i, m, e)) => Some {| mm_case := id; mm_step := i; mm_model := m; mm_impl := e |}
      | (q, None) =>
        if list_N_eqb result PANIC || list_N_eqb (enc_result (into_result q)) result then None
        else Some {| mm_case := id; mm_step := 1000000; mm_model := enc_result (into_result q); mm_impl := result |}
      end
  | CPool id timeout steps =>
    match check_psteps (pool_new timeout) steps 1 with
    | None => None
    | Some (i, m, e) => Some {| mm_case := id; mm_step := i; mm_model := m; mm_impl := e |}
    end
  end.

Fixpoint check_all (ks : list qcase) : list mismatch :=
  match ks with
  | [] => []
  | k :: rest => match check_case k with Some m => m :: check_all rest | None => check_all rest end
  end.

(* symbolic keys of the case files: the id at distance r * 2^s from the target *)
Definition kd (t r s : N) : N := N.lxor t (N.shiftl r s).
Definition C (a b c : N) : qconfig := {| parallelism := a; num_results := b; peer_timeout := c |}.
