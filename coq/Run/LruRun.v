(* Correspondence runner for the session-cache model (C15).

   The implementation reads Instant::now() itself.  The harness brackets every call with two
   measured instants lo <= hi (nanoseconds since the start of the case); for the operations that
   stamp an entry the stamp itself is read back through the dump hook and lo = hi = stamp.  A step
   is evaluated at both bounds.  If the harness has not flagged the step as time-ambiguous (no
   stored entry reaches its ttl inside [lo, hi)), both evaluations must equal the implementation's
   observation.  On a flagged step the model adopts whichever bound reproduces the observation; if
   neither does (several entries expire inside one bracket) the rest of the case is not compared. *)
From Coq Require Import List NArith Bool.
From Discv5V Require Import Model.Lru Run.Common.
Import ListNotations.
Local Open Scope N_scope.

Definition enc_lout (o : out) : list N :=
  match o with
  | OUnit => [0]
  | OVal r => 1 :: optN r
  | OLen n => [2; n]
  | OKeys ks => 3 :: enc_list (fun k => [k]) ks
  end.

Definition enc_entry (e : entry) : list N := [ekey e; eval e; etime e].
Definition ldump (c : cache) : list N := enc_list enc_entry c.

(* operation, lo, hi, flagged time-ambiguous by the harness, implementation's encoding *)
Definition lstep := (op * N * N * bool * list N)%type.
(* id, (ttl, capacity), steps *)
Definition lcase := (N * (N * N) * list lstep)%type.

Fixpoint lcheck_steps (fixed : bool) (cfg : config) (c : cache) (steps : list lstep) (idx : N)
  : option (N * list N * list N) :=
  match steps with
  | [] => None
  | (o, lo, hi, amb, expect) :: rest =>
    let (c1, r1) := step fixed cfg c o lo in
    let (c2, r2) := step fixed cfg c o hi in
    let e1 := enc_lout r1 ++ ldump c1 in
    let e2 := enc_lout r2 ++ ldump c2 in
    if amb then
      if list_N_eqb e1 expect then lcheck_steps fixed cfg c1 rest (idx + 1)
      else if list_N_eqb e2 expect then lcheck_steps fixed cfg c2 rest (idx + 1)
      else if list_N_eqb e1 e2 then Some (idx, e1, expect)   (* not ambiguous for the model: must agree *)
      else None
    else
      if list_N_eqb e1 expect then
        if list_N_eqb e2 expect then lcheck_steps fixed cfg c1 rest (idx + 1)
        else Some (idx, e2, expect)
      else Some (idx, e1, expect)
  end.

Definition lcheck_case (fixed : bool) (k : lcase) : option mismatch :=
  let '(id, (t, cap), steps) := k in
  match lcheck_steps fixed {| ttl := t; capacity := cap |} empty steps 0 with
  | None => None
  | Some (i, m, e) => Some {| mm_case := id; mm_step := i; mm_model := m; mm_impl := e |}
  end.

Fixpoint lcheck_all_with (fixed : bool) (ks : list lcase) : list mismatch :=
  match ks with
  | [] => []
  | k :: rest =>
    match lcheck_case fixed k with
    | Some m => m :: lcheck_all_with fixed rest
    | None => lcheck_all_with fixed rest
    end
  end.

(* The check compares the implementation with the REPAIRED model (get_mut honours the ttl). *)
Definition check_all := lcheck_all_with true.
(* The model of the pinned tree (get_mut ignores the ttl, DESIGN.md section 7 D7); used by
   `verif-harness lru --model pinned` to validate the rest of the correspondence. *)
Definition check_all_pinned := lcheck_all_with false.
