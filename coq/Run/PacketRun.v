(* Correspondence runner for the packet codec model (C05).
   The harness supplies, per case: the real AES-128-CTR keystreams it computed (a table keyed by
   (key, iv)), the verdicts of the real Enr::decode on the record bytes it saw (a table keyed by the
   input bytes; the value is the canonical re-encoding of the accepted record), and a list of steps
   with the hash of the implementation's observable result. *)
From Coq Require Import List NArith Bool.
From Discv5V Require Import Generated.Params Lib.Bytes Model.Packet Run.Common.
Import ListNotations.
Local Open Scope N_scope.

(* a byte string of [n] bytes given as one big-endian number *)
Fixpoint B_acc (n : nat) (x : N) (acc : bytes) : bytes :=
  match n with
  | O => acc
  | S m => B_acc m (N.shiftr x 8) (N.land x 255 :: acc)
  end.
Definition B (n x : N) : bytes := B_acc (N.to_nat n) x [].

(* keystream table: a missing entry or a read past the supplied bytes yields values >= 1000, which
   can never agree with the implementation's bytes *)
Definition ks_entry := (bytes * bytes * bytes)%type.
Definition ks_tab (tab : list ks_entry) (key iv : bytes) : nat -> N :=
  match find (fun e : ks_entry => bytes_eqb key (fst (fst e)) && bytes_eqb iv (snd (fst e))) tab with
  | Some e => let s := snd e in fun i => nth i s 1000
  | None => fun i => 2000 + N.of_nat i
  end.

(* ENR oracle: records are their canonical encodings; a question the harness did not anticipate is
   answered with an impossible record so that the step is reported *)
Definition enr_entry := (bytes * option bytes)%type.
Definition enr_tab (tab : list enr_entry) (b : bytes) : option bytes :=
  match find (fun e : enr_entry => bytes_eqb b (fst e)) tab with
  | Some e => snd e
  | None => Some [3000]
  end.
Definition enr_id (e : bytes) : bytes := e.

Definition rpacket := packet bytes.
Definition P (iv : N) (nonce : bytes) (k : pkind bytes) (m : bytes) : rpacket :=
  Build_packet iv nonce k m.
Definition KM (s : bytes) : pkind bytes := KMessage s.
Definition KW (n : bytes) (s : N) : pkind bytes := KWhoAreYou n s.
Definition KH (s sg k : bytes) (r : option bytes) : pkind bytes := KHandshake s sg k r.

Definition enc_bytes (b : bytes) : list N := len b :: b.
Definition enc_kind (k : pkind bytes) : list N :=
  match k with
  | KMessage s => 0 :: enc_bytes s
  | KWhoAreYou n s => 1 :: enc_bytes n ++ [s]
  | KHandshake s sg k r =>
    2 :: enc_bytes s ++ enc_bytes sg ++ enc_bytes k ++
      match r with Some e => 1 :: enc_bytes e | None => [0] end
  end.
Definition enc_packet (p : rpacket) : list N :=
  p_iv p :: enc_bytes (p_nonce p) ++ enc_kind (p_kind p) ++ enc_bytes (p_message p).
Definition enc_err (e : perr) : list N :=
  match e with
  | UnknownPacket => [0] | TooLarge => [1] | TooSmall => [2] | InvalidNodeId => [3]
  | HeaderLengthInvalid n => [4; n] | HeaderDecryptionFailed => [5] | InvalidAuthDataSize => [6]
  | InvalidVersion v => [7; v] | InvalidEnr => [8]
  end.
Definition enc_res (r : res (rpacket * bytes)) : list N :=
  match r with
  | Ok (p, aad) => 0 :: enc_packet p ++ enc_bytes aad
  | Err e => 1 :: enc_err e
  | Panic => [2]
  end.

Inductive pop :=
| OEncode (p : rpacket) (dst : bytes)     (* Packet::encode + Packet::authenticated_data *)
| ODecodePrev (local : bytes)             (* Packet::decode of the datagram of the previous step *)
| ODecode (local : bytes) (data : bytes). (* Packet::decode *)

Definition pstep := (pop * N)%type.       (* operation, hash of the implementation's encoding *)
Definition pcase := (N * list ks_entry * list enr_entry * list pstep)%type.

Fixpoint check_steps (kt : list ks_entry) (et : list enr_entry) (prev : bytes) (steps : list pstep)
    (idx : N) : option (N * list N * list N) :=
  match steps with
  | [] => None
  | (o, expect) :: rest =>
    let '(enc, prev') :=
      match o with
      | OEncode p dst =>
        let d := encode (ks_tab kt) enr_id p dst in
        (enc_bytes d ++ enc_bytes (authenticated_data enr_id p), d)
      | ODecodePrev local => (enc_res (decode (ks_tab kt) (enr_tab et) local prev), prev)
      | ODecode local data => (enc_res (decode (ks_tab kt) (enr_tab et) local data), data)
      end in
    if N.eqb (hashN enc) expect then check_steps kt et prev' rest (idx + 1)
    else Some (idx, enc, [expect])
  end.

Definition check_case (c : pcase) : option mismatch :=
  let '(id, kt, et, steps) := c in
  match check_steps kt et [] steps 0 with
  | None => None
  | Some (i, m, e) => Some {| mm_case := id; mm_step := i; mm_model := m; mm_impl := e |}
  end.

Fixpoint check_all (cs : list pcase) : list mismatch :=
  match cs with
  | [] => []
  | c :: rest => match check_case c with Some m => m :: check_all rest | None => check_all rest end
  end.
