(* Correspondence runner for the routing-table model (C07, C08, C16). *)
From Coq Require Import List NArith Bool.
From Discv5V Require Import Generated.Params Lib.ListX Model.KBucket Run.Common.
Import ListNotations.
Local Open Scope N_scope.

Definition enc_fail (f : fail) : N :=
  match f with FTooManyIncoming => 0 | FBucketFilter => 1 | FTableFilter => 2
             | FKeyNonExistent => 3 | FBucketFull => 4 | FInvalidSelfUpdate => 5 end.
Definition enc_bins (r : bins) : list N :=
  match r with BInserted => [0] | BPending d => [1; d] | BFailedFilter => [2]
             | BTooManyIncoming => [3] | BFull => [4] | BNodeExists => [5] end.
Definition enc_upd (r : upd) : list N :=
  match r with UUpdated => [0] | UUpdatedAndPromoted => [1] | UUpdatedPending => [2]
             | UFailed f => [3; enc_fail f] | UNotModified => [4] end.
Definition enc_tins (r : tins) : list N :=
  match r with TInserted => [0] | TPending d => [1; d] | TStatusUpdated p => [2; bN p]
             | TValueUpdated => [3] | TUpdated p => [4; bN p] | TUpdatedPending => [5]
             | TFailed f => [6; enc_fail f] end.
Definition enc_node (n : node) : list N := [nkey n; vid (nval n); bN (nconn n); bN (nin n)].
Definition enc_kind (k : entry_kind) : list N :=
  match k with EPresent c i => [0; bN c; bN i] | EPendingE c i => [1; bN c; bN i]
             | EAbsent => [2] | ESelf => [3] end.
Definition enc_eout (o : entry_out) : list N :=
  match o with EOKind k => 0 :: enc_kind k | EOInsert r => 1 :: enc_bins r
             | EOUpdate None => [2; 0] | EOUpdate (Some f) => [2; 1; enc_fail f] | EONone => [3] end.
Definition enc_applied (a : N * option N) : list N := fst a :: optN (snd a).
Definition enc_out (o : out) : list N :=
  match o with
  | RIns r => 1 :: enc_tins r
  | RUpd r => 2 :: enc_upd r
  | RBool b => [3; bN b]
  | REntry k e => 4 :: enc_kind k ++ enc_eout e
  | RNodes l => 5 :: enc_list enc_node l
  | RApplied None => [6; 0]
  | RApplied (Some a) => 6 :: 1 :: enc_applied a
  | RUnit => [7]
  end.

Fixpoint dump_buckets (i : nat) (bs : list bucket) : list (list N) :=
  match bs with
  | [] => []
  | b :: rest =>
    let tl := dump_buckets (S i) rest in
    match nodes b, pend b with
    | [], None => tl
    | _, _ =>
      (N.of_nat i :: optnat (fcp b) :: enc_list enc_node (nodes b)
         ++ match pend b with Some p => 1 :: enc_node (pn p) | None => [0] end) :: tl
    end
  end.

Definition dump (t : table) : list N :=
  let bs := dump_buckets 0 (buckets t) in
  N.of_nat (length bs) :: concat bs ++ enc_list enc_applied (applied t).

(* configuration as data: (max_incoming, pending_timeout, use_ip_filters) *)
Definition mk_config (mi : N) (pt : N) (filters : bool) : config :=
  {| max_incoming := N.to_nat mi; pending_timeout := pt;
     bfilter := if filters then Some ip_bucket_filter else None;
     tfilter := if filters then Some ip_table_filter else None |}.

Definition kstep := (op * N * list N)%type.     (* operation, now, implementation's encoding *)
Definition kcase := (N * (N * N * bool) * N * list kstep)%type.   (* id, config, local, steps *)

Fixpoint check_steps (c : config) (t : table) (steps : list kstep) (idx : N) : option (N * list N * list N) :=
  match steps with
  | [] => None
  | (o, now, expect) :: rest =>
    let (t', r) := step true c t o now in
    let enc := enc_out r ++ [hashN (dump t')] in
    if list_N_eqb enc expect then check_steps c t' rest (idx + 1)
    else Some (idx, enc_out r ++ dump t', expect)
  end.

Definition check_case (k : kcase) : option mismatch :=
  let '(id, (mi, pt, fl), loc, steps) := k in
  match check_steps (mk_config mi pt fl) (new_table loc) steps 0 with
  | None => None
  | Some (i, m, e) => Some {| mm_case := id; mm_step := i; mm_model := m; mm_impl := e |}
  end.

Fixpoint check_all (ks : list kcase) : list mismatch :=
  match ks with
  | [] => []
  | k :: rest => match check_case k with Some m => m :: check_all rest | None => check_all rest end
  end.

(* symbolic keys of the case files: the id at distance 2^i + r * 2^s from [loc] *)
Definition kx (loc i r s : N) : N := N.lxor loc (2 ^ i + N.shiftl r s).

Definition V (id : N) (sub : option N) : val := {| vid := id; vsub := sub |}.
