(* Correspondence runner for the RPC message codec model (C06).
   The opaque ENR codec of Model/Rpc.v is instantiated with [enr := bytes] (a record is the byte
   string of its encoding, [enr_encode := id]) and [enr_decode] := a lookup in the table of what the
   real [Enr::decode] answered for the record slices of the case (supplied by the harness). *)
From Coq Require Import List NArith Bool.
From Discv5V Require Import Generated.Params Model.Rlp Model.Rpc Run.Common.
Import ListNotations.
Local Open Scope N_scope.

Definition rmsg := msg bytes.

(* accepted record slices: (offset into the input, length, re-encoding if it differs from the slice) *)
Definition oracle := list (nat * nat * option bytes).

Fixpoint lookup (t : list (bytes * bytes)) (k : bytes) : option bytes :=
  match t with
  | [] => None
  | (k', v) :: t' => if bytes_eqb k k' then Some v else lookup t' k
  end.

Definition table_of (input : bytes) (o : oracle) : list (bytes * bytes) :=
  map (fun '(off, n, r) =>
         let slice := firstn n (skipn off input) in
         (slice, match r with Some b => b | None => slice end)) o.

Definition run_decode (fixed : bool) (t : list (bytes * bytes)) (bs : bytes) : res rmsg :=
  decode_msg bytes (fun b => b) (lookup t) fixed bs.
Definition run_encode (m : rmsg) : bytes := encode_msg bytes (fun b => b) m.

Definition enc_bytes (b : bytes) : list N := len b :: b.
Definition enc_ip (ip : ipaddr) : list N :=
  match ip with IP4 o => 4 :: enc_bytes o | IP6 o => 6 :: enc_bytes o end.
Definition enc_msg (m : rmsg) : list N :=
  match m with
  | Ping id s => 1 :: enc_bytes id ++ [s]
  | Pong id s ip p => 2 :: enc_bytes id ++ [s] ++ enc_ip ip ++ [p]
  | FindNode id ds => 3 :: enc_bytes id ++ enc_bytes ds
  | Nodes id t ns => 4 :: enc_bytes id ++ [t] ++ enc_list enc_bytes ns
  | TalkReq id p r => 5 :: enc_bytes id ++ enc_bytes p ++ enc_bytes r
  | TalkResp id r => 6 :: enc_bytes id ++ enc_bytes r
  end.

Definition enc_err (e : err) : N :=
  match e with
  | EOverflow => 1 | ELeadingZero => 2 | EInputTooShort => 3 | ENonCanonicalSingleByte => 4
  | ENonCanonicalSize => 5 | EUnexpectedLength => 6 | EUnexpectedString => 7 | EUnexpectedList => 8
  | ECustom c => 100 + c | EOpaque => 98 | EFuel => 99
  end.

(* the implementation's answer: (class, x) with class 0 = Ok (x = hashN of the decoded message),
   1 = Err (x = code of the error), 2 = panic.  The error KIND (the variant of alloy_rlp::Error) is
   compared; the text of Error::Custom is compared only in the [strict] mode (codes >= 100 are the
   texts). *)
Definition norm_code (strict : bool) (c : N) : N := if strict then c else if 100 <=? c then 100 else c.
Definition agrees (strict : bool) (r : res rmsg) (expect : N * N) : bool :=
  match r with
  | Ok m => N.eqb (fst expect) 0 && N.eqb (snd expect) (hashN (enc_msg m))
  | Err EOpaque => N.eqb (fst expect) 1          (* the error came out of Enr::decode: any kind *)
  | Err e => N.eqb (fst expect) 1 && N.eqb (norm_code strict (snd expect)) (norm_code strict (enc_err e))
  | Panic => N.eqb (fst expect) 2
  end.

Definition enc_res (r : res rmsg) : list N :=
  match r with
  | Ok m => 0 :: hashN (enc_msg m) :: enc_msg m
  | Err e => [1; enc_err e]
  | Panic => [2]
  end.

Inductive cin :=
| InMsg (m : rmsg) (encoded : bytes)     (* a message value and the bytes the implementation encoded it to *)
| InBytes (bs : bytes).                  (* a byte string *)

Definition rcase := (N * cin * oracle * (N * N))%type.

Definition check_case (fixed strict : bool) (c : rcase) : option mismatch :=
  let '(id, input, o, expect) := c in
  let bs := match input with InMsg _ e => e | InBytes b => b end in
  let enc_ok := match input with
                | InMsg m e => if bytes_eqb (run_encode m) e then None else Some (run_encode m)
                | InBytes _ => None
                end in
  match enc_ok with
  | Some model_bytes => Some {| mm_case := id; mm_step := 0; mm_model := model_bytes; mm_impl := bs |}
  | None =>
    let r := run_decode fixed (table_of bs o) bs in
    if agrees strict r expect then None
    else Some {| mm_case := id; mm_step := 1; mm_model := enc_res r; mm_impl := [fst expect; snd expect] |}
  end.

Fixpoint check_all_with (fixed strict : bool) (cs : list rcase) : list mismatch :=
  match cs with
  | [] => []
  | c :: rest =>
    match check_case fixed strict c with
    | Some m => m :: check_all_with fixed strict rest
    | None => check_all_with fixed strict rest
    end
  end.

(* the check of a run: the model of the repaired decoder *)
Definition check_all := check_all_with true false.
(* the same, comparing the texts of Error::Custom as well *)
Definition check_all_strict := check_all_with true true.
(* the model of the pinned tree (before the repair of D9) - used to reproduce the finding *)
Definition check_all_pinned := check_all_with false false.
Definition check_all_pinned_strict := check_all_with false true.
