(* Correspondence runner for the handler model (C01-C04, C13, C19). *)
From Coq Require Import List NArith Bool.
From Discv5V Require Import Model.Handler Run.Common.
Import ListNotations.
Local Open Scope N_scope.

Definition enc_enr (e : enr) : list N := [e_id e; e_seq e] ++ optN (e_ip4 e) ++ optN (e_ip6 e).
Definition enc_oenr (o : option enr) : list N := match o with Some e => 1 :: enc_enr e | None => [0] end.
Definition enc_nonce (n : nonce) : list N := [fst n; snd n].
Definition enc_key (k : key) : list N := [k_eph k; k_static k; k_cd k; k_ida k; k_idb k; bN (k_half k)].
Definition enc_rbody (r : rbody) : list N :=
  match r with RNodes t l => 0 :: t :: enc_list enc_enr l | ROther x => [1; x] end.
Definition enc_msg (m : msg) : list N :=
  match m with MReq r b => [0; r; b] | MResp r b => 1 :: r :: enc_rbody b | MBad j => [2; j] end.
Definition enc_ctext (c : ctext) : list N :=
  match c with CEnc k n m a => 1 :: enc_key k ++ enc_nonce n ++ enc_msg m ++ [a] | CJunk j => [0; j] end.
Definition enc_sig (s : sigt) : list N :=
  match s with Sig k cd e d => [1; k; cd; e; d] | BadSig j => [0; j] end.
Definition enc_packet (p : packet) : list N :=
  match p with
  | PMsg src n a c => 0 :: src :: enc_nonce n ++ a :: enc_ctext c
  | PWho n idn seq cd => 1 :: enc_nonce n ++ [idn; seq; cd]
  | PHs src n a sg eph ok rec c => 2 :: src :: enc_nonce n ++ a :: enc_sig sg ++ [eph; bN ok] ++ enc_oenr rec ++ enc_ctext c
  end.
Definition enc_hout (h : hout) : list N :=
  match h with
  | HEstablished e a inc => 0 :: enc_enr e ++ [a; bN inc]
  | HRequest na r b => [1; fst na; snd na; r; b]
  | HResponse na r b => 2 :: fst na :: snd na :: r :: enc_rbody b
  | HWhoAreYou na n => 3 :: fst na :: snd na :: enc_nonce n
  | HRequestFailed r e => [4; r; e]
  | HUnverifiable e a i => 5 :: enc_enr e ++ [a; i]
  | HExpiredSessions l => 6 :: N.of_nat (length l) :: flat_map (fun na => [fst na; snd na]) l
  end.

Definition events_of (l : list output) : list hout :=
  flat_map (fun o => match o with OEvent e => [e] | OWire _ _ => [] end) l.
Definition wires_of (l : list output) : list (naddr * packet) :=
  flat_map (fun o => match o with OWire d p => [(d, p)] | OEvent _ => [] end) l.

(* exemption map, sorted by address *)
Fixpoint ins_sorted (x : addr * nat) (l : list (addr * nat)) : list (addr * nat) :=
  match l with
  | [] => [x]
  | y :: r => if N.leb (fst x) (fst y) then x :: l else y :: ins_sorted x r
  end.
Definition enc_expected (l : list (addr * nat)) : list N :=
  enc_list (fun x => [fst x; N.of_nat (snd x)]) (fold_right ins_sorted [] l).

(* the events and the datagrams of a step are observed on different channels: their relative order
   is not observable, each sequence is compared in order *)
Definition enc_step (h : hstate) (o : list output) : list N :=
  enc_list enc_hout (events_of o)
  ++ enc_list (fun w => fst (fst w) :: snd (fst w) :: enc_packet (snd w)) (wires_of o)
  ++ enc_expected (expected h)
  ++ [N.of_nat (length (sessions h))].

Definition hstep := (event * N * draws * list N)%type.
(* id, config, steps *)
Definition hcase := (N * config * list hstep)%type.

(* The order of timers with equal deadlines is a nondeterministic choice of the implementation's
   timer wheel (see [pop_rev]); the implementation's behaviour must be one of the model's: the
   alternatives for the first three tie groups of a step are tried. *)
Definition rev_choices : list (list bool) :=
  [[]; [true]; [false; true]; [true; true]; [false; false; true]; [true; false; true];
   [false; true; true]; [true; true; true]].

Fixpoint try_choices (c : config) (h : hstate) (e : event) (now : N) (d : draws) (expect : list N)
  (ch : list (list bool)) : option hstate :=
  match ch with
  | [] => None
  | r :: rest =>
    let (h', o) := step c h e now {| d_pk := d_pk d; d_rid := d_rid d; d_rev := r |} in
    if list_N_eqb (enc_step h' o) expect then Some h' else try_choices c h e now d expect rest
  end.

Fixpoint check_hsteps (c : config) (h : hstate) (steps : list hstep) (idx : N) : option (N * list N * list N) :=
  match steps with
  | [] => None
  | (e, now, d, expect) :: rest =>
    match try_choices c h e now d expect rev_choices with
    | Some h' => check_hsteps c h' rest (idx + 1)
    | None => let (h', o) := step c h e now d in Some (idx, enc_step h' o, expect)
    end
  end.

Definition check_hcase (k : hcase) : option mismatch :=
  let '(id, c, steps) := k in
  match check_hsteps c init_state steps 0 with
  | None => None
  | Some (i, m, e) => Some {| mm_case := id; mm_step := i; mm_model := m; mm_impl := e |}
  end.

Fixpoint check_all (ks : list hcase) : list mismatch :=
  match ks with
  | [] => []
  | k :: rest => match check_hcase k with Some m => m :: check_all rest | None => check_all rest end
  end.

(* compact constructors for the case files *)
Definition E (i s : N) (a4 a6 : option N) : enr := {| e_id := i; e_seq := s; e_ip4 := a4; e_ip6 := a6 |}.
Definition C (i a : N) (e : option enr) : contact := {| c_id := i; c_addr := a; c_enr := e; c_ed := false |}.
(* a contact whose public key is an Ed25519 key *)
Definition Ced (i a : N) (e : option enr) : contact := {| c_id := i; c_addr := a; c_enr := e; c_ed := true |}.
Definition Ky (eph st cd ida idb : N) (half : bool) : key := mk_key eph st cd ida idb half.
Definition D (pk : list (N * N * N * N)) (rid : list N) : draws := {| d_pk := pk; d_rid := rid; d_rev := [] |}.
Definition Cfg (loc : N) (e : enr) (retries timeout : N) (listen : list N) (cap : N) (ttl : N) (grid : N)
  (f1 f2a f2b f6 : bool) : config :=
  {| cfg_local := loc; cfg_enr := e; cfg_retries := retries; cfg_timeout := timeout; cfg_listen := listen;
     cfg_capacity := N.to_nat cap; cfg_session_ttl := ttl; cfg_clock := 0; cfg_grid := grid; fix_d1 := f1; fix_d2a := f2a; fix_d2b := f2b; fix_d6 := f6 |}.
