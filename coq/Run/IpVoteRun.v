(* Correspondence runner for the external-address vote model (C17).

   The implementation reads the real clock.  Every call is bracketed by two measured instants
   [tb <= ta] (nanoseconds since the start of the case).  The runner carries two model states:
   - [lo]: every insert is stamped [tb] (earliest possible expiry) and every query is evaluated at
     [ta] (latest possible time): the smallest set of votes that can still be unexpired;
   - [hi]: inserts stamped [ta], queries at [tb]: the largest such set.
   The real set lies between the two; the harness flags a step as time-ambiguous when some vote's
   expiry bracket overlaps the query bracket, such steps are not compared (and counted).  On every
   other step both model results must equal the implementation's. *)
From Coq Require Import List NArith Bool.
From Discv5V Require Import Model.IpVote Run.Common.
Import ListNotations.
Local Open Scope N_scope.

Definition enc_vout (o : vout) : list N :=
  match o with
  | VUnit => [0]
  | VMaj (a, b) => 1 :: optN a ++ optN b
  | VMin (a, b) => [2; bN a; bN b]
  end.

(* operation, tb, ta, time-ambiguous, implementation's encoding *)
Definition vstepc := (vop * N * N * bool * list N)%type.
(* id, minimum, vote_duration, steps *)
Definition vcase := (N * N * N * list vstepc)%type.

Definition is_insert (o : vop) : bool := match o with VInsert _ _ => true | _ => false end.

Fixpoint check_vsteps (lo hi : ipvote) (steps : list vstepc) (idx : N) : option (N * list N * list N) :=
  match steps with
  | [] => None
  | (o, tb, ta, amb, expect) :: rest =>
    let (lo', rlo) := if is_insert o then vstep lo o tb else vstep lo o ta in
    let (hi', rhi) := if is_insert o then vstep hi o ta else vstep hi o tb in
    if amb then check_vsteps lo' hi' rest (idx + 1)
    else if negb (list_N_eqb (enc_vout rlo) expect) then Some (idx, enc_vout rlo, expect)
    else if negb (list_N_eqb (enc_vout rhi) expect) then Some (idx, 777 :: enc_vout rhi, expect)
    else check_vsteps lo' hi' rest (idx + 1)
  end.

Definition check_vcase (k : vcase) : option mismatch :=
  let '(id, mn, dur, steps) := k in
  match new_ipvote mn dur with
  | None => Some {| mm_case := id; mm_step := 0; mm_model := [999]; mm_impl := [] |}
  | Some s =>
    match check_vsteps s s steps 0 with
    | None => None
    | Some (i, m, e) => Some {| mm_case := id; mm_step := i; mm_model := m; mm_impl := e |}
    end
  end.

Fixpoint check_all (ks : list vcase) : list mismatch :=
  match ks with
  | [] => []
  | k :: rest => match check_vcase k with Some m => m :: check_all rest | None => check_all rest end
  end.

(* ---- the threshold function, exhaustively over ranges: (start, count, hash of the values) *)
Definition tchunk := (N * N * N)%type.

Fixpoint nrange (start : N) (count : nat) : list N :=
  match count with O => [] | S c => start :: nrange (start + 1) c end.

Definition check_chunk (c : tchunk) : option mismatch :=
  let '(start, count, h) := c in
  let vals := map threshold (nrange start (N.to_nat count)) in
  if N.eqb (hashN vals) h then None
  else Some {| mm_case := start; mm_step := count; mm_model := vals; mm_impl := [h] |}.

Fixpoint check_thr (cs : list tchunk) : list mismatch :=
  match cs with
  | [] => []
  | c :: rest => match check_chunk c with Some m => m :: check_thr rest | None => check_thr rest end
  end.

(* ---- the service's PONG handling *)
Definition enc_enr (e : local_enr) : list N := seq e :: optN (udp4 e) ++ optN (udp6 e).
Definition enc_event (e : bool * N) : list N := [bN (fst e); snd e].
Definition new_events (s s' : service) : list (bool * N) := skipn (length (events s)) (events s').
Definition enc_svc (s s' : service) : list N := enc_enr (enr s') ++ enc_list enc_event (new_events s s').

(* node, socket, connected+outgoing, tb, ta, implementation's encoding *)
Definition sstep := (N * (bool * N) * bool * N * N * list N)%type.
(* id, minimum, vote_duration, dual stack, (seq, udp4, udp6), steps *)
Definition scase := (N * N * N * bool * (N * option N * option N) * list sstep)%type.

Fixpoint check_ssteps (lo hi : service) (steps : list sstep) (idx : N) : option (N * list N * list N) :=
  match steps with
  | [] => None
  | (n, sock, co, tb, ta, expect) :: rest =>
    let p := {| p_node := n; p_sock := sock; p_count_ok := true; p_conn_out := co; p_enr_ok := true |} in
    let lo' := handle_pong lo p ta tb in
    let hi' := handle_pong hi p tb ta in
    if negb (list_N_eqb (enc_svc lo lo') expect) then Some (idx, enc_svc lo lo', expect)
    else if negb (list_N_eqb (enc_svc hi hi') expect) then Some (idx, 777 :: enc_svc hi hi', expect)
    else check_ssteps lo' hi' rest (idx + 1)
  end.

Definition check_scase (k : scase) : option mismatch :=
  let '(id, mn, dur, dual, (sq, u4, u6), steps) := k in
  match new_ipvote mn dur with
  | None => Some {| mm_case := id; mm_step := 0; mm_model := [999]; mm_impl := [] |}
  | Some iv =>
    let s := {| ip_votes := Some iv; dual_stack := dual;
                enr := {| seq := sq; udp4 := u4; udp6 := u6 |}; events := [] |} in
    match check_ssteps s s steps 0 with
    | None => None
    | Some (i, m, e) => Some {| mm_case := id; mm_step := i; mm_model := m; mm_impl := e |}
    end
  end.

Fixpoint check_svc (ks : list scase) : list mismatch :=
  match ks with
  | [] => []
  | k :: rest => match check_scase k with Some m => m :: check_svc rest | None => check_svc rest end
  end.

(* ---- the PONG handling inside the main loop: auto-NAT windows, events as the application's
   current subscription sees them.  Votes never expire inside a case (vote duration 2^60 logical
   ticks); the windows run on the paused tokio clock, whose value is part of every step. *)
(* event, tokio clock (ms), implementation's encoding *)
Definition lstepc := (lev * N * list N)%type.
(* id, minimum, dual stack, auto-NAT window, (seq, udp4, udp6), steps *)
Definition lcase := (N * N * bool * option N * (N * option N * option N) * list lstepc)%type.

Fixpoint check_lsteps (n : node) (steps : list lstepc) (idx : N) : option (N * list N * list N) :=
  match steps with
  | [] => None
  | (e, now, expect) :: rest =>
    let n' := lstep n now e in
    let got := enc_svc (n_svc n) (n_svc n') in
    if negb (list_N_eqb got expect) then Some (idx, got, expect)
    else check_lsteps n' rest (idx + 1)
  end.

Definition check_lcase (k : lcase) : option mismatch :=
  let '(id, mn, dual, win, (sq, u4, u6), steps) := k in
  match new_ipvote mn (2 ^ 60) with
  | None => Some {| mm_case := id; mm_step := 0; mm_model := [999]; mm_impl := [] |}
  | Some iv =>
    let s := {| ip_votes := Some iv; dual_stack := dual;
                enr := {| seq := sq; udp4 := u4; udp6 := u6 |}; events := [] |} in
    match check_lsteps {| n_svc := s; n_conn := new_conn win |} steps 0 with
    | None => None
    | Some (i, m, e) => Some {| mm_case := id; mm_step := i; mm_model := m; mm_impl := e |}
    end
  end.

Fixpoint check_loop (ks : list lcase) : list mismatch :=
  match ks with
  | [] => []
  | k :: rest => match check_lcase k with Some m => m :: check_loop rest | None => check_loop rest end
  end.
