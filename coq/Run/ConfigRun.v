(* Correspondence runner for the configuration path (Model/Config.v).

   A case: what the application did (a list of builder setters, each encoded as ten numbers: the
   number of the setter and nine argument slots), whether the node was started on sockets, and what
   the harness observed on the real code: the fields of the [Config] returned by [build], the probes
   of what [Discv5::new] derived (routing-table incoming limit, /24 filters, permit/ban list), and
   for a started node the fields of the [Config] values the real [Service::spawn] and
   [Handler::spawn] were handed; or the marker of a panic.  The model's [outcome] must be the same
   list. *)
From Coq Require Import List NArith Bool.
From Discv5V Require Import Model.Config Run.Common.
Import ListNotations.
Local Open Scope N_scope.

Definition dopt (s x : N) : option N := if N.eqb s 0 then None else Some x.

(* setter number, argument slots *)
Definition dec_op (t a1 a2 a3 a4 a5 a6 a7 a8 a9 : N) : option cop :=
  match t with
  | 0 => Some OEnablePacketFilter
  | 1 => Some (ORequestTimeout a1)
  | 2 => Some (OVoteDuration a1)
  | 3 => Some (OQueryPeerTimeout a1)
  | 4 => Some (OQueryTimeout a1)
  | 5 => Some (ORequestRetries a1)
  | 6 => Some (OSessionTimeout a1)
  | 7 => Some (OSessionCacheCapacity a1)
  | 8 => Some ODisableEnrUpdate
  | 9 => Some (OMaxNodesResponse a1)
  | 10 => Some (OEnrPeerUpdateMin a1)
  | 11 => Some (OQueryParallelism a1)
  | 12 => Some OIpLimit
  | 13 => Some (OIncomingBucketLimit a1)
  | 14 => Some (OTableFilter a1)
  | 15 => Some (OPingInterval a1)
  | 16 => Some ODisableReportDiscoveredPeers
  | 17 => Some (OFilterRateLimiter (if N.eqb a1 0 then None else Some [a2; a3; a4; a5; a6; a7; a8; a9]))
  | 18 => Some (OFilterMaxNodesPerIp (dopt a1 a2))
  | 19 => Some (OFilterMaxBansPerIp (dopt a1 a2))
  | 20 => Some (OPermitBanList (mkpb a1 a2 a3 a4 a5 a6))
  | 21 => Some (OBanDuration (dopt a1 a2))
  | 22 => Some (OAutoNatListenDuration (dopt a1 a2))
  | 23 => Some (OProtocolIdentity a1 a2)
  | _ => None
  end.

Fixpoint dec_ops (l : list N) : option (list cop) :=
  match l with
  | [] => Some []
  | t :: a1 :: a2 :: a3 :: a4 :: a5 :: a6 :: a7 :: a8 :: a9 :: rest =>
    match dec_op t a1 a2 a3 a4 a5 a6 a7 a8 a9, dec_ops rest with
    | Some op, Some ops => Some (op :: ops)
    | _, _ => None
    end
  | _ => None
  end.

(* the encoding the harness uses (for the round-trip check below and for reading case files) *)
Definition enc_op (op : cop) : list N :=
  match op with
  | OEnablePacketFilter => [0; 0; 0; 0; 0; 0; 0; 0; 0; 0]
  | ORequestTimeout n => [1; n; 0; 0; 0; 0; 0; 0; 0; 0]
  | OVoteDuration n => [2; n; 0; 0; 0; 0; 0; 0; 0; 0]
  | OQueryPeerTimeout n => [3; n; 0; 0; 0; 0; 0; 0; 0; 0]
  | OQueryTimeout n => [4; n; 0; 0; 0; 0; 0; 0; 0; 0]
  | ORequestRetries n => [5; n; 0; 0; 0; 0; 0; 0; 0; 0]
  | OSessionTimeout n => [6; n; 0; 0; 0; 0; 0; 0; 0; 0]
  | OSessionCacheCapacity n => [7; n; 0; 0; 0; 0; 0; 0; 0; 0]
  | ODisableEnrUpdate => [8; 0; 0; 0; 0; 0; 0; 0; 0; 0]
  | OMaxNodesResponse n => [9; n; 0; 0; 0; 0; 0; 0; 0; 0]
  | OEnrPeerUpdateMin n => [10; n; 0; 0; 0; 0; 0; 0; 0; 0]
  | OQueryParallelism n => [11; n; 0; 0; 0; 0; 0; 0; 0; 0]
  | OIpLimit => [12; 0; 0; 0; 0; 0; 0; 0; 0; 0]
  | OIncomingBucketLimit n => [13; n; 0; 0; 0; 0; 0; 0; 0; 0]
  | OTableFilter n => [14; n; 0; 0; 0; 0; 0; 0; 0; 0]
  | OPingInterval n => [15; n; 0; 0; 0; 0; 0; 0; 0; 0]
  | ODisableReportDiscoveredPeers => [16; 0; 0; 0; 0; 0; 0; 0; 0; 0]
  | OFilterRateLimiter None => [17; 0; 0; 0; 0; 0; 0; 0; 0; 0]
  | OFilterRateLimiter (Some [b1; b2; b3; b4; b5; b6; b7; b8]) => [17; 1; b1; b2; b3; b4; b5; b6; b7; b8]
  | OFilterRateLimiter (Some _) => [99]
  | OFilterMaxNodesPerIp o => [18; match o with Some _ => 1 | None => 0 end; match o with Some x => x | None => 0 end; 0; 0; 0; 0; 0; 0; 0]
  | OFilterMaxBansPerIp o => [19; match o with Some _ => 1 | None => 0 end; match o with Some x => x | None => 0 end; 0; 0; 0; 0; 0; 0; 0]
  | OPermitBanList l => 20 :: enc_pblist l ++ [0; 0; 0]
  | OBanDuration o => [21; match o with Some _ => 1 | None => 0 end; match o with Some x => x | None => 0 end; 0; 0; 0; 0; 0; 0; 0]
  | OAutoNatListenDuration o => [22; match o with Some _ => 1 | None => 0 end; match o with Some x => x | None => 0 end; 0; 0; 0; 0; 0; 0; 0]
  | OProtocolIdentity id version => [23; id; version; 0; 0; 0; 0; 0; 0; 0]
  end.

(* a limiter description has eight numbers *)
Definition op_wf (op : cop) : Prop :=
  match op with
  | OFilterRateLimiter (Some r) => length r = 8%nat
  | _ => True
  end.

Lemma dec_enc_op : forall op rest, op_wf op ->
  dec_ops (enc_op op ++ rest) = match dec_ops rest with Some ops => Some (op :: ops) | None => None end.
Proof.
  intros op rest Hwf.
  destruct op as [ |n|n|n|n|n|n|n| |n|n|n| |n|n|n| |r|o|o|l|o|o|id version];
    try reflexivity;
    try (destruct o as [x|]; reflexivity).
  - destruct r as [r|]; [|reflexivity]. cbn [op_wf] in Hwf.
    do 8 (destruct r as [|? r]; [discriminate Hwf|]). destruct r; [reflexivity|discriminate Hwf].
  - destruct l. reflexivity.
Qed.

Theorem dec_enc_ops : forall ops, Forall op_wf ops -> dec_ops (flat_map enc_op ops) = Some ops.
Proof.
  induction ops as [|op rest IH]; intros Hwf.
  - reflexivity.
  - cbn [flat_map]. rewrite dec_enc_op by (inversion Hwf; assumption).
    rewrite IH by (inversion Hwf; assumption). reflexivity.
Qed.

(* position of the first element at which two lists differ (the length of the shorter one if one is
   a proper prefix of the other) *)
Fixpoint first_diff (a b : list N) (i : N) : option N :=
  match a, b with
  | [], [] => None
  | x :: a', y :: b' => if N.eqb x y then first_diff a' b' (i + 1) else Some i
  | _, _ => Some i
  end.

(* id, started on sockets, the setters, the implementation's encoding *)
Definition gcase := (N * bool * list N * list N)%type.

Definition check_case (k : gcase) : option mismatch :=
  let '(id, started, enc, observed) := k in
  match dec_ops enc with
  | None => Some {| mm_case := id; mm_step := 0; mm_model := [999]; mm_impl := enc |}
  | Some ops =>
    let m := outcome ops started in
    match first_diff m observed 0 with
    | None => None
    | Some i => Some {| mm_case := id; mm_step := i; mm_model := m; mm_impl := observed |}
    end
  end.

Fixpoint check_all (ks : list gcase) : list mismatch :=
  match ks with
  | [] => []
  | k :: rest => match check_case k with Some m => m :: check_all rest | None => check_all rest end
  end.
