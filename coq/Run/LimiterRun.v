(* Correspondence runner for the packet-filter model (C18).

   Two kinds of cases:
   - limiter cases: `Limiter<u64>` has an explicit-time entry point, so the comparison is exact:
     verdict (with the TooSoon waiting time) and the full map of TATs after every call;
   - filter cases: `Filter` reads the real clock.  The harness brackets every call with two
     measured instants lo <= hi (ns since the start of the case) and only generates histories whose
     outcome does not depend on where in the bracket the clock was read (quotas that do not refill
     within a case, or that are full again before every call).  The model is evaluated at lo and at
     hi; if the two observations differ the rest of the case is not compared; otherwise the
     observation (decision, permit/ban lists with timed/permanent flags, the two LRU caches, the key
     sets of the limiters) must equal the implementation's.  TAT values are not compared here. *)
From Coq Require Import List NArith Bool.
From Discv5V Require Import Generated.Params Model.Limiter Run.Common.
Import ListNotations.
Local Open Scope N_scope.

(* insertion sort of numbers / of pairs by key *)
Fixpoint ins_sorted (x : N) (l : list N) : list N :=
  match l with
  | [] => [x]
  | y :: r => if x <=? y then x :: l else y :: ins_sorted x r
  end.
Definition sortN (l : list N) : list N := fold_right ins_sorted [] l.

Fixpoint ins_sorted_k {A} (x : N * A) (l : list (N * A)) : list (N * A) :=
  match l with
  | [] => [x]
  | y :: r => if fst x <=? fst y then x :: l else y :: ins_sorted_k x r
  end.
Definition sortK {A} (l : list (N * A)) : list (N * A) := fold_right ins_sorted_k [] l.

Definition enc_verdict (v : verdict) : list N :=
  match v with VOk => [0] | VTooLarge => [1] | VTooSoon w => [2; w] | VOverflow => [3] end.

(* ---------------------------------------------------------------------------------------------- *)
(* limiter cases *)

Definition dump_limiter (l : limiter) : list N :=
  tau l :: tt l :: enc_list (fun e => [fst e; snd e]) (sortK (tats l)).

(* id, (period ns, max_tokens), expected result of from_quota (1 = Ok), steps *)
Definition limcase := (N * (N * N) * N * list (levent * list N))%type.

Definition lim_step (l : limiter) (e : levent) : limiter * list N :=
  let (l', v) := lstep l e in
  (l', match v with Some v => enc_verdict v | None => [] end ++ dump_limiter l').

Fixpoint lim_steps (l : limiter) (steps : list (levent * list N)) (idx : N) : option (N * list N * list N) :=
  match steps with
  | [] => None
  | (e, expect) :: rest =>
    let (l', enc) := lim_step l e in
    if list_N_eqb enc expect then lim_steps l' rest (idx + 1) else Some (idx, enc, expect)
  end.

Definition lim_case (c : limcase) : option mismatch :=
  let '(id, (period, n), ok, steps) := c in
  match from_quota period n with
  | None =>
    if ok =? 0 then None
    else Some {| mm_case := id; mm_step := 0; mm_model := [0]; mm_impl := [ok] |}
  | Some l =>
    if ok =? 0 then Some {| mm_case := id; mm_step := 0; mm_model := [1]; mm_impl := [0] |}
    else
      match lim_steps l steps 0 with
      | None => None
      | Some (i, m, e) => Some {| mm_case := id; mm_step := i; mm_model := m; mm_impl := e |}
      end
  end.

(* ---------------------------------------------------------------------------------------------- *)
(* filter cases *)

Definition enc_bans (l : list (N * option N)) : list N :=
  enc_list (fun e => [fst e; match snd e with Some _ => 1 | None => 0 end]) (sortK l).

Definition dump_pbl (p : pbl) : list N :=
  enc_list (fun x => [x]) (sortN (permit_ips p)) ++ enc_bans (ban_ips p)
  ++ enc_list (fun x => [x]) (sortN (permit_nodes p)) ++ enc_bans (ban_nodes p).

Definition keyset (l : limiter) : list N := enc_list (fun x => [x]) (sortN (map fst (tats l))).

Definition dump_filter (f : pfilter) : list N :=
  enc_list (fun e => fst e :: enc_list (fun x => [x]) (sortN (snd e))) (known_addrs f)
  ++ enc_list (fun e => [fst e; snd e]) (banned_nodes f)
  ++ match rate f with
     | None => [0]
     | Some r =>
       1 :: N.of_nat (length (tats (total_rl r)))
         :: match node_rl r with Some l => 1 :: keyset l | None => [0] end
         ++ match ip_rl r with Some l => 1 :: keyset l | None => [0] end
     end.

Definition enc_fate (x : fate) : N :=
  match x with DropIpStage => 0 | Unrecognized => 1 | DropNodeStage => 2 | Deliver => 3 end.

Definition enc_fobs (o : fobs) : list N :=
  match o with ONone => [] | OBool b => [bN b] | OFate x => [enc_fate x] end.

(* filter cases observe everything; receive-path cases (the Filter sits inside RecvHandler) observe
   the fate of the datagram - "dropped" without the stage - and the global lists *)
Definition enc_fobs_merged (o : fobs) : list N :=
  match o with OFate DropNodeStage => [0] | _ => enc_fobs o end.

Definition fil_obs (full : bool) (r : pfilter * pbl * fobs) : list N :=
  let '(f, p, o) := r in
  if full then enc_fobs o ++ dump_pbl p ++ dump_filter f else enc_fobs_merged o ++ dump_pbl p.

(* event, lo, hi, implementation's observation *)
Definition fcstep := (fevent * N * N * list N)%type.

Fixpoint fil_steps (full : bool) (f : pfilter) (p : pbl) (steps : list fcstep) (idx : N)
  : option (N * list N * list N) :=
  match steps with
  | [] => None
  | (e, lo, hi, expect) :: rest =>
    let r1 := fstep f p e lo in
    let r2 := fstep f p e hi in
    let e1 := fil_obs full r1 in
    if list_N_eqb e1 (fil_obs full r2) then
      if list_N_eqb e1 expect then fil_steps full (fst (fst r1)) (snd (fst r1)) rest (idx + 1)
      else Some (idx, e1, expect)
    else None      (* the outcome depends on the position of the clock inside the bracket *)
  end.

(* a quota: (period ns, max_tokens) *)
Definition mk_limiter (q : N * N) : option limiter := from_quota (fst q) (snd q).

(* id, enabled, (init_time, total quota, node quota, ip quota) or None, ban duration,
   max_nodes_per_ip, max_bans_per_ip, steps *)
Definition filcase :=
  (N * bool * option (N * (N * N) * option (N * N) * option (N * N)) * option N * option N * option N
   * list fcstep)%type.

Definition mk_rate (r : option (N * (N * N) * option (N * N) * option (N * N))) : option (option rate_limiter) :=
  match r with
  | None => Some None
  | Some (init, tq, nq, iq) =>
    match mk_limiter tq,
          match nq with Some q => option_map Some (mk_limiter q) | None => Some None end,
          match iq with Some q => option_map Some (mk_limiter q) | None => Some None end with
    | Some t, Some n, Some i => Some (Some {| init_time := init; total_rl := t; node_rl := n; ip_rl := i |})
    | _, _, _ => None
    end
  end.

Definition fil_case (full : bool) (c : filcase) : option mismatch :=
  let '(id, en, r, ban, mn, mb, steps) := c in
  match mk_rate r with
  | None => Some {| mm_case := id; mm_step := 0; mm_model := [99]; mm_impl := [] |}
  | Some rate =>
    match fil_steps full (new_filter en rate ban mn mb) empty_pbl steps 0 with
    | None => None
    | Some (i, m, e) => Some {| mm_case := id; mm_step := i; mm_model := m; mm_impl := e |}
    end
  end.

(* ---------------------------------------------------------------------------------------------- *)
(* receive-path cases: the filter sits inside the real RecvHandler, which feeds a real Handler.  A
   datagram event carries its source socket address, the content of expected_responses and the
   packet kind (None = undecodable).  Observed: the fate ("dropped" without the stage), the source
   address handed to the handler where the handler shows it (the WHOAREYOU query it raises for a
   message packet of an unknown session; the unrecognized-frame report), the global lists. *)

Inductive ievent :=
| IRecv (expected : list saddr) (src : saddr) (packet : option pkind)
| IFil (e : fevent).

Definition enc_fwd (x : fate) (pk : option pkind) (a : saddr) : list N :=
  let shown := [1; sa_ip a; sa_port a; sa_flow a; sa_scope a] in
  match x, pk with
  | Unrecognized, _ => shown
  | Deliver, Some (PMessage _) => shown
  | _, _ => [0]
  end.

Definition istep (f : pfilter) (p : pbl) (e : ievent) (now : N) : pfilter * pbl * list N :=
  match e with
  | IFil e => let '(f', p', o) := fstep f p e now in (f', p', enc_fobs_merged o)
  | IRecv ex src pk =>
    let '(f', p', x, a) := recv_inbound f p ex src pk now in
    (f', p', enc_fobs_merged (OFate x) ++ enc_fwd x pk a)
  end.

Definition rcv_obs (r : pfilter * pbl * list N) : list N :=
  let '(f, p, o) := r in o ++ dump_pbl p.

Definition rcstep := (ievent * N * N * list N)%type.

Fixpoint rcv_steps (f : pfilter) (p : pbl) (steps : list rcstep) (idx : N) : option (N * list N * list N) :=
  match steps with
  | [] => None
  | (e, lo, hi, expect) :: rest =>
    let r1 := istep f p e lo in
    let r2 := istep f p e hi in
    let e1 := rcv_obs r1 in
    if list_N_eqb e1 (rcv_obs r2) then
      if list_N_eqb e1 expect then rcv_steps (fst (fst r1)) (snd (fst r1)) rest (idx + 1)
      else Some (idx, e1, expect)
    else None
  end.

Definition rcvcase :=
  (N * bool * option (N * (N * N) * option (N * N) * option (N * N)) * option N * option N * option N
   * list rcstep)%type.

Definition rcv_case (c : rcvcase) : option mismatch :=
  let '(id, en, r, ban, mn, mb, steps) := c in
  match mk_rate r with
  | None => Some {| mm_case := id; mm_step := 0; mm_model := [99]; mm_impl := [] |}
  | Some rate =>
    match rcv_steps (new_filter en rate ban mn mb) empty_pbl steps 0 with
    | None => None
    | Some (i, m, e) => Some {| mm_case := id; mm_step := i; mm_model := m; mm_impl := e |}
    end
  end.

(* ---------------------------------------------------------------------------------------------- *)

Inductive c18case := CLim (c : limcase) | CFil (c : filcase) | CInb (c : filcase) | CRcv (c : rcvcase).

Fixpoint check_all (ks : list c18case) : list mismatch :=
  match ks with
  | [] => []
  | k :: rest =>
    match (match k with CLim c => lim_case c | CFil c => fil_case true c | CInb c => fil_case false c
                    | CRcv c => rcv_case c end) with
    | Some m => m :: check_all rest
    | None => check_all rest
    end
  end.
