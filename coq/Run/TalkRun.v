(* Correspondence runner for the TALK request model (C20). *)
From Coq Require Import List NArith Bool.
From Discv5V Require Import Model.Talk Run.Common.
Import ListNotations.
Local Open Scope N_scope.

Definition enc_res (r : res) : N :=
  match r with ROk => 0 | RErr => 1 | RPanic => 2 | RUnit => 3 | RNoSuch => 4 end.
(* the ghost handle is not observable *)
Definition enc_msg (m : msg) : list N := mid m :: maddr m :: enc_list (fun b => [b]) (mbody m).

(* what arrived at the handler's end during the step *)
Definition arrived (w w' : world) : list msg := skipn (length (inbox w)) (inbox w').

Definition tstep := (op * list N)%type.          (* operation, implementation's encoding *)
Definition tcase := (N * list tstep)%type.       (* id, steps *)

Fixpoint check_steps (w : world) (steps : list tstep) (idx : N) : option (N * list N * list N) :=
  match steps with
  | [] => None
  | (o, expect) :: rest =>
    let (w', r) := step w o in
    let enc := enc_res r :: enc_list enc_msg (arrived w w') in
    if list_N_eqb enc expect then check_steps w' rest (idx + 1)
    else Some (idx, enc, expect)
  end.

Definition check_case (k : tcase) : option mismatch :=
  let '(id, steps) := k in
  match check_steps init steps 0 with
  | None => None
  | Some (i, m, e) => Some {| mm_case := id; mm_step := i; mm_model := m; mm_impl := e |}
  end.

Fixpoint check_all (ks : list tcase) : list mismatch :=
  match ks with
  | [] => []
  | k :: rest => match check_case k with Some m => m :: check_all rest | None => check_all rest end
  end.
