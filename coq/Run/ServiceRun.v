(* Correspondence runner for the service models (C11: Model/Nodes.v, C14: Model/Serve.v,
   C12: Model/Admission.v).  The scripted-service harness (harness/src/service*.rs) writes case files
   that end with [Eval vm_compute in (check_c11 cases)] etc.; the expected result is []. *)
From Coq Require Import List NArith Bool.
From Discv5V Require Import Generated.Params Lib.ListX Model.KBucket Model.Nodes Model.Serve
  Model.Admission Run.Common Run.KBucketRun.
Import ListNotations.
Local Open Scope N_scope.

(* The behaviour the implementation is compared with.  [repaired] = the behaviour the theorems of
   Properties/C11.v, C12.v, C14.v are about.  While /repo still has the pinned behaviour of a
   flagged defect the correspondence run reports the disagreement. *)
Definition FX : fixes := repaired.

(* record literals of the case files *)
Definition E (v id seq : N) (u4 u6 : option (N * N)) (sub : option N) (size : N) : enr :=
  {| e_vid := v; e_id := id; e_seq := seq; e_udp4 := u4; e_udp6 := u6; e_sub := sub; e_size := size |}.
Definition no_rec : enr := E 0 0 0 None None None 0.
Fixpoint rlookup (recs : list enr) (v : N) : enr :=
  match recs with
  | [] => no_rec
  | r :: rest => if e_vid r =? v then r else rlookup rest v
  end.
Definition vids (l : list enr) : list N := map e_vid l.
Definition enc_vids (l : list enr) : list N := N.of_nat (length l) :: vids l.

Definition mk_mismatch (id step : N) (m e : list N) : mismatch :=
  {| mm_case := id; mm_step := step; mm_model := m; mm_impl := e |}.

(* ------------------------------------------------------------------------------------------ *)
(* C11 *)

Inductive pspec := XNodes (total : N) (vs : list N) | XFail.

(* id, (local, peer, target), (kind, max_nodes_response, distances of the request), records, steps.
   kind: 0 = request of a lookup for [target] (the distances must be those of the model),
         1 = find_node_designated_peer with user-supplied distances, 2 = internal ENR request *)
Definition c11case := (N * (N * N * N) * (N * N * list N) * list enr * list (pspec * list N))%type.

Definition proj_out (loc : N) (o : step_out) : bool * list enr * list N :=
  match o with
  | SONodes PIgnored => (false, [], [0])
  | SONodes (PUser l) => (false, [], 1 :: enc_vids l)
  | SONodes (PStored b) => (b, [], [0])
  | SONodes (PDone b l) => (b, reported loc l, [0])
  | SOFail FIgnored => (false, [], [0])
  | SOFail FUser => (false, [], [2])
  | SOFail (FPartial l) => (false, reported loc l, [0])
  | SOFail FNothing => (false, [], [0])
  end.

Fixpoint c11_steps (fx : fixes) (loc : N) (maxn : nat) (recs : list enr) (st : option active_req) (ban : bool)
  (steps : list (pspec * list N)) (idx : N) : option (N * list N * list N) :=
  match steps with
  | [] => None
  | (p, expect) :: rest =>
    let pk := match p with XNodes total vs => PktNodes total (map (rlookup recs) vs) | XFail => PktFail end in
    let (st', o) := on_pkt fx maxn st pk in
    let '(b, ev, user) := proj_out loc o in
    let ban' := ban || b in
    let enc := bN ban' :: enc_vids ev ++ user in
    if list_N_eqb enc expect then c11_steps fx loc maxn recs st' ban' rest (idx + 1)
    else Some (idx, enc, expect)
  end.

Definition check_c11_case (fx : fixes) (k : c11case) : option mismatch :=
  let '(id, (loc, peer, target), (kind, maxn, ds), recs, steps) := k in
  let ds_ok :=
    if kind =? 0 then
      match rpc_request_distances target peer (N.to_nat DISTANCES_TO_REQUEST_PER_PEER) with
      | Some l => if list_N_eqb l ds then None else Some l
      | None => Some [999]
      end
    else None in
  match ds_ok with
  | Some l => Some (mk_mismatch id 1000 l ds)
  | None =>
    let st := Some {| ar_peer := peer; ar_ds := ds; ar_user := (kind =? 1); ar_partial := None |} in
    match c11_steps fx loc (N.to_nat maxn) recs st false steps 0 with
    | None => None
    | Some (i, m, e) => Some (mk_mismatch id i m e)
    end
  end.

Fixpoint check_c11_with (fx : fixes) (ks : list c11case) : list mismatch :=
  match ks with
  | [] => []
  | k :: rest => match check_c11_case fx k with Some m => m :: check_c11_with fx rest | None => check_c11_with fx rest end
  end.
Definition check_c11 := check_c11_with FX.
(* the behaviour of the pinned tree, for comparison: [Eval vm_compute in (check_c11_pinned cases)] *)
Definition check_c11_pinned := check_c11_with pinned.

(* ------------------------------------------------------------------------------------------ *)
(* C14 *)

Inductive sstep :=
| SFind (requester : N) (id : list N) (ds : list N)
| SPing (sender : N) (ip port : N)
| SReady (bucket : N)      (* hook: the pending node of that bucket becomes ready now *)
| SIter.                   (* a plain iteration over the table (applies every ready pending node) *)

(* id, local id, (vid of the local record, local seq), max_nodes_response, sizes (vid, size),
   table content as insert_or_update calls (key, value, connected, incoming) with the expected dump
   hash, steps *)
Definition c14case :=
  (N * N * (N * N) * N * list (N * N) * (list (N * val * bool * bool) * N) * list (sstep * list N))%type.

Fixpoint size_lookup (sizes : list (N * N)) (v : N) : N :=
  match sizes with
  | [] => 0
  | (a, s) :: rest => if a =? v then s else size_lookup rest v
  end.

Definition svc_config : config := mk_config 16 60000000000 false.

Fixpoint build_table (t : table) (ops : list (N * val * bool * bool)) (now : N) : table :=
  match ops with
  | [] => t
  | (k, v, conn, inc) :: rest =>
    build_table (fst (t_insert_or_update svc_config t k v conn inc now)) rest (now + 1)
  end.

Definition enc_item (s : sitem) : list N := [s_key s; vid (s_val s)].
Definition enc_packet (rsize : val -> N) (p : packet) : list N :=
  p_total p :: N.of_nat (length (p_id p)) :: p_id p
    ++ enc_list enc_item (p_nodes p) ++ [wire_size (nodes_msg_size rsize p)].

(* the service loop drains the queue of applied pending nodes (Service::bucket_maintenance_poll turns
   each into a NodeInserted event); the harness does the same before it dumps the table *)
Definition drain_applied (t : table) : table :=
  {| local := local t; buckets := buckets t; applied := [] |}.

Fixpoint c14_steps (t : table) (lv : val) (lseq : N) (maxn : nat) (rsize : val -> N)
  (steps : list (sstep * list N)) (idx : N) : option (N * list N * list N) :=
  match steps with
  | [] => None
  | (s, expect) :: rest =>
    let '(t', enc) :=
      match s with
      | SFind requester id ds =>
        let (t0, ps) := serve_findnode svc_config t lv requester id ds maxn rsize (1000000 + idx) in
        let t' := drain_applied t0 in
        (t', enc_list (enc_packet rsize) ps ++ [hashN (dump t')])
      | SPing sender ip port =>
        (* handle_rpc_request looks the sender up in the routing table first (is its record older than
           the sequence number it announces?): KBucketsTable::entry applies the pending node of the
           sender's bucket if its time has come *)
        let t' := drain_applied (fst (t_entry svc_config t sender ALook (1000000 + idx))) in
        (t', match serve_ping lseq ip port with
             | Some p => [1; pg_seq p; pg_ip p; pg_port p]
             | None => [0]
             end ++ [hashN (dump t')])
      | SReady i =>
        let t' := t_force_ready t (N.to_nat i) (1000000 + idx) in (t', [hashN (dump t')])
      | SIter =>
        let (t0, _) := t_iter svc_config t (1000000 + idx) in
        let t' := drain_applied t0 in (t', [hashN (dump t')])
      end in
    if list_N_eqb enc expect then c14_steps t' lv lseq maxn rsize rest (idx + 1)
    else Some (idx, enc, expect)
  end.

Definition check_c14_case (k : c14case) : option mismatch :=
  let '(id, loc, (lvid, lseq), maxn, sizes, (build, bhash), steps) := k in
  let t := build_table (new_table loc) build 1 in
  if negb (hashN (dump t) =? bhash) then Some (mk_mismatch id 1000 (dump t) [bhash]) else
  let rsize := fun v : val => size_lookup sizes (vid v) in
  match c14_steps t (V lvid None) lseq (N.to_nat maxn) rsize steps 0 with
  | None => None
  | Some (i, m, e) => Some (mk_mismatch id i m e)
  end.

Fixpoint check_c14 (ks : list c14case) : list mismatch :=
  match ks with
  | [] => []
  | k :: rest => match check_c14_case k with Some m => m :: check_c14 rest | None => check_c14 rest end
  end.

(* ------------------------------------------------------------------------------------------ *)
(* C12 *)

Inductive xop :=
| XEst (v : N) (incoming : bool)
| XDisc (src : N) (vs : list N)
| XPong (id seq : N)
| XPing (id seq : N)
| XFailure (id : N)
| XAdd (v : N)
| XUnv (id : N)
| XDisconnect (id : N)
(* runner-only operations (no actions of Model/Admission.v): *)
| XReady (bucket : N)      (* hook: the pending node of that bucket becomes ready now *)
| XIter                    (* a plain iteration over the table (applies every ready pending node); the
                              queue of applied pending nodes is drained afterwards *)
| XWho (id : N) (qvs : list N)
| XPongQ (id seq : N) (qvs : list N).
                           (* HandlerOut::WhoAreYou for node [id] (Model.Admission.find_enr); [qvs]: the
                              records of that node the running lookup holds (tracked by the harness from the
                              table at the lookup's start and the NODES answers), in the order they are
                              scanned.  Observed: the vid of the record handed to the handler, 0 for none.
                              XPongQ: a PONG for a ping of the service while a lookup runs that holds the
                              records [qvs] of that node (Model.Admission.pong_q).  Observed: was an ENR
                              update requested *)

Definition mode_of (n : N) : ip_mode := if n =? 0 then Ip4 else if n =? 1 then Ip6 else DualStack.

(* the table filters the harness can configure (fn pointers in the Rust configuration) *)
Definition tf_of (n : N) (e : enr) : bool :=
  if n =? 0 then true
  else if n =? 1 then false
  else if n =? 2 then match e_sub e with Some s => negb (s =? 655361) | None => true end  (* 10.0.1.0/24 *)
  else e_seq e <? 100.

(* id, (mode, filter, ip_limit, local), records, steps (op, now, expected) *)
Definition c12case := (N * (N * N * bool * N) * list enr * list (xop * N * list N))%type.

Definition to_aop (recs : list enr) (x : xop) : aop :=
  match x with
  | XEst v inc => AEstablished (rlookup recs v) inc
  | XDisc src vs => ADiscovered src (map (rlookup recs) vs)
  | XPong id s => APong id s
  | XPing id s => APing id s
  | XFailure id => AFailure id
  | XAdd v => AAddEnr (rlookup recs v)
  | XUnv id => AUnverifiable id
  | XDisconnect id => ADisconnect id
  (* never used: [c12_steps] runs these on the table directly *)
  | XReady _ | XIter | XWho _ _ | XPongQ _ _ _ => ADiscovered 0 []
  end.

Definition add_code (r : add_out) : N :=
  match r with
  | AddNotContactable => 1
  | AddFiltered => 2
  | AddResult (TFailed FBucketFull) => 3
  | AddResult (TFailed FBucketFilter) => 4
  | AddResult (TFailed FTableFilter) => 5
  | AddResult (TFailed FInvalidSelfUpdate) => 6
  | AddResult (TFailed _) => 7
  | AddResult _ => 0
  end.

(* the observable part of a step's result *)
Definition enc_aout (loc : N) (x : xop) (o : aout) : list N :=
  match x, o with
  | XEst _ _, OEst (Some TInserted) => [1]
  | XEst _ _, OEst _ => [0]
  | XDisc _ vs, ODisc _ => []
  | XPong _ _, OFlag b => [bN b]
  | XPing _ _, OFlag b => [bN b]
  | XAdd _, OAdd r => [add_code r]
  | _, _ => []
  end.

Fixpoint c12_steps (fx : fixes) (recs : list enr) (tfn : enr -> bool) (m : ip_mode) (c : config) (t : table)
  (steps : list (xop * N * list N)) (idx : N) : option (N * list N * list N) :=
  match steps with
  | [] => None
  | (x, now, expect) :: rest =>
    let '(t', obs) :=
      match x with
      | XReady i => (t_force_ready t (N.to_nat i) now, [])
      | XIter =>
        (* KBucketsTable::iter, then take_applied_pending until None (as the service loop does) *)
        (drain_applied (fst (t_iter c t now)), [])
      | XWho id qvs =>
        let (t', r) := find_enr (rlookup recs) c t (map (rlookup recs) qvs) id now in
        (t', [match r with Some e => e_vid e | None => 0 end])
      | XPongQ id s qvs =>
        let (t', b) := pong_q (rlookup recs) m c t (map (rlookup recs) qvs) id s now in
        (t', [bN b])
      | _ =>
        let (t', o) := astep (rlookup recs) tfn m fx c t (to_aop recs x) now in
        (t', enc_aout (local t) x o)
      end in
    let enc := obs ++ [hashN (dump t')] in
    if list_N_eqb enc expect then c12_steps fx recs tfn m c t' rest (idx + 1)
    else Some (idx, obs ++ dump t', expect)
  end.

Definition check_c12_case (fx : fixes) (k : c12case) : option mismatch :=
  let '(id, (m, f, iplimit, loc), recs, steps) := k in
  match c12_steps fx recs (tf_of f) (mode_of m) (mk_config 16 60000000000 iplimit) (new_table loc) steps 0 with
  | None => None
  | Some (i, mo, e) => Some (mk_mismatch id i mo e)
  end.

Fixpoint check_c12_with (fx : fixes) (ks : list c12case) : list mismatch :=
  match ks with
  | [] => []
  | k :: rest => match check_c12_case fx k with Some m => m :: check_c12_with fx rest | None => check_c12_with fx rest end
  end.
Definition check_c12 := check_c12_with FX.
Definition check_c12_pinned := check_c12_with pinned.
