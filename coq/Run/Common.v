(* Shared machinery of the correspondence runs: every observable (return value, state dump) is
   encoded as a flat [list N] on both sides (the Rust harness and the Coq model); a case is a list
   of steps with the implementation's encoding attached; [first_mismatch] finds the first step at
   which the model's encoding differs. *)
From Coq Require Import List NArith Bool.
Import ListNotations.
Local Open Scope N_scope.

Fixpoint list_N_eqb (a b : list N) : bool :=
  match a, b with
  | [], [] => true
  | x :: a', y :: b' => N.eqb x y && list_N_eqb a' b'
  | _, _ => false
  end.

Definition bN (b : bool) : N := if b then 1 else 0.
Definition optN (o : option N) : list N := match o with Some x => [1; x] | None => [0] end.
Definition optnat (o : option nat) : N := match o with Some x => N.of_nat x + 1 | None => 0 end.
Definition enc_list {A} (f : A -> list N) (l : list A) : list N :=
  N.of_nat (length l) :: flat_map f l.

(* A hash of an encoding, used to keep the case files small: the implementation side sends the
   hash of a state dump instead of the dump.  Multiplicative hash modulo 2^60 (multiplier odd, so a
   single differing item always changes the result); numbers of 60 bits or more are fed as five
   60-bit limbs.  This is part of the correspondence check, not of any proof. *)
Definition hmask : N := 1152921504606846975.   (* 2^60 - 1 *)
Definition hfeed (h x : N) : N := N.land (h * 1000003 + x + 1) hmask.
Definition hfeed_big (h x : N) : N :=
  if N.leb x hmask then hfeed h x
  else hfeed (hfeed (hfeed (hfeed (hfeed h (N.land x hmask)) (N.land (N.shiftr x 60) hmask))
         (N.land (N.shiftr x 120) hmask)) (N.land (N.shiftr x 180) hmask)) (N.shiftr x 240).
Definition hashN (l : list N) : N := fold_left hfeed_big l 7.

(* A mismatch report: case id, step index, what the model computed. *)
Record mismatch := { mm_case : N; mm_step : N; mm_model : list N; mm_impl : list N }.
