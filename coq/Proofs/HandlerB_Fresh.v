(* C03: handshakes answer only fresh, outstanding challenges; WHOAREYOU packets need a request in
   flight; at most one handshake per request. *)
From Coq Require Import List Arith NArith Bool Lia.
From Discv5V Require Import Model.Handler Proofs.HandlerB_Base Proofs.HandlerB_Frame Proofs.HandlerB_Session
  Proofs.HandlerB_Auth Proofs.HandlerB_Step.
Import ListNotations.
Local Open Scope N_scope.

(* ------------------------------------------------------------------------------------------ *)
(* handshake packets *)

(* no outstanding challenge for exactly (src, from): nothing happens *)
Lemma ham_needs_challenge c s na n aad sg eph eph_ok rec ct now :
  chall_get na (challenges (hs s)) = None ->
  handle_auth_message c s na n aad sg eph eph_ok rec ct now = s.
Proof. intros H. unfold handle_auth_message. rewrite H. reflexivity. Qed.

Theorem handshake_needs_challenge c h from src n aad sg eph eph_ok rec ct now d :
  chall_get (src, from) (challenges (hs (tick c h now d))) = None ->
  step c h (EvInbound from (PHs src n aad sg eph eph_ok rec ct)) now d =
  (hs (tick c h now d), outs (tick c h now d)).
Proof. intros H. rewrite step_PHs. rewrite ham_needs_challenge; [reflexivity | exact H]. Qed.

(* the tick only removes challenges: none before the step, none at the time the packet is handled *)
Lemma chall_get_None_incl na (l l' : list (naddr * chall * N)) :
  incl l' l -> chall_get na l = None -> chall_get na l' = None.
Proof.
  intros Hi H. apply chall_get_None. intros Hin. apply chall_get_None in H. apply H.
  unfold chall_keys in *. apply in_map_iff in Hin. destruct Hin as [x [E Hx]].
  apply in_map_iff. exists x. split; [exact E | apply Hi; exact Hx].
Qed.

Corollary handshake_needs_challenge_before c h from src n aad sg eph eph_ok rec ct now d :
  chall_get (src, from) (challenges h) = None ->
  step c h (EvInbound from (PHs src n aad sg eph eph_ok rec ct)) now d =
  (hs (tick c h now d), outs (tick c h now d)).
Proof.
  intros H. apply handshake_needs_challenge. eapply chall_get_None_incl; [apply tick_chall_incl | exact H].
Qed.

Lemma chall_get_uniq na ch d l : NoDup (chall_keys l) -> In (na, ch, d) l -> chall_get na l = Some ch.
Proof.
  induction l as [| [[a ch0] d0] r IH]; cbn [chall_get chall_keys map fst]; [intros _ [] |].
  intros H [Hin | Hin].
  - inversion Hin; subst. rewrite naddr_eqb_refl. reflexivity.
  - inversion H as [| x y H1 H2]; subst. destruct (naddr_eqb a na) eqn:E.
    + apply naddr_eqb_eq in E. subst. exfalso. apply H1. unfold chall_keys. apply in_map_iff.
      exists (na, ch, d). auto.
    + apply IH; assumption.
Qed.

(* acceptance, and rejection for a reason other than the signature, consume the challenge; a bad
   signature keeps it (same challenge data, timer re-armed) *)
Lemma ham_consumes_challenge c s na n aad sg eph eph_ok rec ct now :
  ChallUniq (hs s) ->
  let s' := handle_auth_message c s na n aad sg eph eph_ok rec ct now in
  match chall_get na (challenges (hs s)) with
  | None => True
  | Some ch =>
    match establish c (fst na) ch sg eph eph_ok rec with
    | EstOk _ _ | EstErr => chall_get na (challenges (hs s')) = None
    | EstBadSig =>
      chall_get na (challenges (hs s')) = Some ch /\
      In (na, ch, now + cfg_timeout c) (challenges (hs s')) /\ sessions (hs s') = sessions (hs s) /\
      outs s' = outs s
    end
  end.
Proof.
  intros HU. cbn zeta.
  pose proof (handle_auth_message_frame c s na n aad sg eph eph_ok rec ct now) as H. cbn zeta in H.
  destruct (chall_get na (challenges (hs s))) as [ch |]; [| exact I].
  destruct (establish c (fst na) ch sg eph eph_ok rec) as [se e | |].
  - destruct H as [s4 [E4 [_ [_ [_ [_ [[E _] _]]]]]]]. rewrite E, E4. apply chall_remove_gone. exact HU.
  - rewrite H. cbn [hs with_hs challenges set_challenges sessions outs].
    split; [| split; [apply in_or_app; right; left; reflexivity | split; reflexivity]].
    apply chall_get_app_new. apply chall_remove_gone. exact HU.
  - destruct H as [E _]. rewrite E. apply chall_remove_gone. exact HU.
Qed.

Theorem handshake_consumes_challenge c h from src n aad sg eph eph_ok rec ct now d :
  ChallUniq h ->
  let s0 := tick c h now d in
  let h' := fst (step c h (EvInbound from (PHs src n aad sg eph eph_ok rec ct)) now d) in
  match chall_get (src, from) (challenges (hs s0)) with
  | None => True
  | Some ch =>
    match establish c src ch sg eph eph_ok rec with
    | EstOk _ _ | EstErr => chall_get (src, from) (challenges h') = None
    | EstBadSig => chall_get (src, from) (challenges h') = Some ch /\ sessions h' = sessions (hs s0)
    end
  end.
Proof.
  intros HU. cbn zeta. rewrite step_PHs. cbn [fst].
  assert (HU0 : ChallUniq (hs (tick c h now d))).
  { apply (tick_chall c h now d (fun l => NoDup (chall_keys l))); [apply chall_closed_NoDup | exact HU]. }
  pose proof (ham_consumes_challenge (with_clock c now) (tick c h now d) (src, from) n aad sg eph eph_ok rec ct now HU0) as H.
  cbn zeta in H. cbn [fst] in H. rewrite establish_with_clock in H.
  destruct (chall_get (src, from) (challenges (hs (tick c h now d)))) as [ch |]; [| exact I].
  destruct (establish c src ch sg eph eph_ok rec); try exact H. destruct H as [H1 [_ [H2 _]]]. auto.
Qed.

(* at most one challenge per node address: an invariant of every step (no well-formedness of the
   events needed) *)
Lemma dispatch_ChallUniq c s0 e now : ChallUniq (hs s0) -> ChallUniq (hs (dispatch c s0 e now)).
Proof.
  intros H0. unfold ChallUniq in *.
  destruct e as [ct rid body | na rid rb | na n known | from p |]; cbn [dispatch].
  - pose proof (Quiet_send_request c s0 ct true rid body now) as [[E _] _].
    destruct (send_request c s0 ct true rid body now) as [s1 ok]. cbn [fst] in E.
    destruct ok; cbn [hs emit]; rewrite E; exact H0.
  - pose proof (Quiet_send_response c s0 na rid rb) as [[E _] _]. rewrite E. exact H0.
  - destruct (send_challenge_frame c s0 na n known now) as [_ [[E | [Hh [cd E]]] _]].
    + rewrite E. exact H0.
    + rewrite E, chall_keys_app. cbn. apply NoDup_snoc; [exact H0 | apply has_challenge_false; exact Hh].
  - destruct p as [src n aad ct | n idn seq cd | src n aad sg eph eph_ok rec ct].
    + pose proof (handle_message_frame c s0 (src, from) n aad ct now) as [[E _] _]. rewrite E. exact H0.
    + destruct (handle_challenge_frame c s0 from n seq cd now) as [[E _] | [ct [eph [aw [E _]]]]];
        rewrite E; exact H0.
    + pose proof (ham_consumes_challenge c s0 (src, from) n aad sg eph eph_ok rec ct now H0) as Hc.
      pose proof (handle_auth_message_frame c s0 (src, from) n aad sg eph eph_ok rec ct now) as Hf.
      cbn zeta in Hc, Hf.
      destruct (chall_get (src, from) (challenges (hs s0))) as [ch |] eqn:Eg.
      * destruct (establish c (fst (src, from)) ch sg eph eph_ok rec).
        -- destruct Hf as [s4 [E4 [_ [_ [_ [_ [[E _] _]]]]]]]. rewrite E, E4.
           apply chall_closed_NoDup. exact H0.
        -- rewrite Hf. cbn [hs with_hs challenges set_challenges]. rewrite chall_keys_app. cbn.
           apply NoDup_snoc; [apply chall_closed_NoDup; exact H0 |].
           apply chall_get_None. apply chall_remove_gone. exact H0.
        -- destruct Hf as [E _]. rewrite E. apply chall_closed_NoDup. exact H0.
      * rewrite Hf. exact H0.
  - exact H0.
Qed.

Theorem step_ChallUniq c h e now d : ChallUniq h -> ChallUniq (fst (step c h e now d)).
Proof.
  intros HU. rewrite step_eq. cbn [fst]. apply (dispatch_ChallUniq (with_clock c now)).
  apply (tick_chall c h now d (fun l => NoDup (chall_keys l))); [apply chall_closed_NoDup | exact HU].
Qed.

Theorem run_ChallUniq c evs : ChallUniq (fst (run c init_state evs)).
Proof.
  assert (H : forall evs h, ChallUniq h -> ChallUniq (fst (run c h evs))).
  { clear evs. intros evs. induction evs as [| [[e now] d] rest IH]; intros h Hi; cbn [run]; [exact Hi |].
    pose proof (step_ChallUniq c h e now d Hi) as H1.
    destruct (step c h e now d) as [h1 o]. cbn [fst] in H1.
    specialize (IH h1 H1). destruct (run c h1 rest) as [h2 os]. exact IH. }
  apply H. constructor.
Qed.

(* a handshake packet that cannot succeed now: no challenge, or establish rejects its signature *)
Definition dead_handshake (c : config) (h : hstate) (na : naddr) (sg : sigt) (eph : N) (eph_ok : bool)
  (rec : option enr) : Prop :=
  match chall_get na (challenges h) with
  | None => True
  | Some ch => establish c (fst na) ch sg eph eph_ok rec = EstBadSig
  end.

Lemma ham_dead c s na n aad sg eph eph_ok rec ct now :
  dead_handshake c (hs s) na sg eph eph_ok rec ->
  let s' := handle_auth_message c s na n aad sg eph eph_ok rec ct now in
  sessions (hs s') = sessions (hs s) /\ outs s' = outs s.
Proof.
  unfold dead_handshake. cbn zeta. unfold handle_auth_message.
  destruct (chall_get na (challenges (hs s))) as [ch |]; [| auto].
  intros ->. split; reflexivity.
Qed.

(* after a handshake packet was processed, the same packet is dead *)
Lemma ham_makes_dead c s na n aad sg eph eph_ok rec ct now :
  ChallUniq (hs s) ->
  dead_handshake c (hs (handle_auth_message c s na n aad sg eph eph_ok rec ct now)) na sg eph eph_ok rec.
Proof.
  intros HU. unfold dead_handshake.
  pose proof (ham_consumes_challenge c s na n aad sg eph eph_ok rec ct now HU) as H. cbn zeta in H.
  destruct (chall_get na (challenges (hs s))) as [ch |] eqn:Eg.
  - destruct (establish c (fst na) ch sg eph eph_ok rec) eqn:Ee.
    + rewrite H. exact I.
    + destruct H as [H _]. rewrite H. exact Ee.
    + rewrite H. exact I.
  - rewrite ham_needs_challenge; [| exact Eg]. rewrite Eg. exact I.
Qed.

(* the tick keeps a dead handshake dead (challenges only disappear) *)
Lemma tick_keeps_dead c h now d na sg eph eph_ok rec :
  ChallUniq h -> dead_handshake c h na sg eph eph_ok rec ->
  dead_handshake c (hs (tick c h now d)) na sg eph eph_ok rec.
Proof.
  intros HU. unfold dead_handshake.
  destruct (chall_get na (challenges (hs (tick c h now d)))) as [ch |] eqn:Eg; [| auto].
  destruct (chall_get_In _ _ _ Eg) as [d0 Hin]. apply tick_chall_incl in Hin.
  rewrite (chall_get_uniq _ _ _ _ HU Hin). auto.
Qed.

(* replaying a handshake packet immediately: the second copy never creates or re-keys a session and
   reports nothing *)
Theorem replay_no_effect c h from src n aad sg eph eph_ok rec ct now d now2 d2 h1 o1 h2 o2 :
  ChallUniq h ->
  step c h (EvInbound from (PHs src n aad sg eph eph_ok rec ct)) now d = (h1, o1) ->
  step c h1 (EvInbound from (PHs src n aad sg eph eph_ok rec ct)) now2 d2 = (h2, o2) ->
  sessions h2 = sessions (hs (tick c h1 now2 d2)) /\ o2 = outs (tick c h1 now2 d2) /\
  SessD h1 h2 /\ Forall quiet_out o2.
Proof.
  intros HU H1 H2. rewrite step_PHs in H1. injection H1 as Eh1 Eo1.
  assert (HU0 : ChallUniq (hs (tick c h now d))).
  { apply (tick_chall c h now d (fun l => NoDup (chall_keys l))); [apply chall_closed_NoDup | exact HU]. }
  pose proof (ham_makes_dead (with_clock c now) (tick c h now d) (src, from) n aad sg eph eph_ok rec ct now HU0) as Hd.
  change (dead_handshake (with_clock c now)) with (dead_handshake c) in Hd.
  rewrite Eh1 in Hd.
  assert (HU1 : ChallUniq h1).
  { pose proof (step_ChallUniq c h (EvInbound from (PHs src n aad sg eph eph_ok rec ct)) now d HU) as Hs.
    rewrite step_PHs in Hs. cbn [fst] in Hs. rewrite Eh1 in Hs. exact Hs. }
  clear Eh1 Eo1.
  pose proof (tick_keeps_dead c h1 now2 d2 _ _ _ _ _ HU1 Hd) as Hd2.
  rewrite step_PHs in H2. injection H2 as Eh2 Eo2.
  destruct (ham_dead (with_clock c now2) (tick c h1 now2 d2) (src, from) n aad sg eph eph_ok rec ct now2 Hd2) as [Es Eo].
  cbn zeta in Es, Eo. rewrite Eh2 in Es. rewrite Eo2 in Eo.
  split; [exact Es | split; [exact Eo | split]].
  - eapply SessD_trans; [apply tick_SessD | apply SessD_same; exact Es].
  - rewrite Eo. apply tick_outs.
Qed.

(* ------------------------------------------------------------------------------------------ *)
(* WHOAREYOU packets *)

Lemma hc_needs_inflight c s src n seq cd now :
  nmap_get n (nmap (hs s)) = None -> handle_challenge c s src n seq cd now = s.
Proof. intros H. unfold handle_challenge. rewrite H. reflexivity. Qed.

Lemma ar_remove_by_nonce_addr h n na0 :
  nmap_get n (nmap h) = Some na0 ->
  forall na r, snd (ar_remove_by_nonce h n) = Some (na, r) -> na = na0 /\ rc_nonce r = n.
Proof.
  intros H na r. unfold ar_remove_by_nonce. rewrite H.
  destruct (alist_get na0 (active h)) as [l |]; [| discriminate].
  destruct (remove_first (fun r0 => nonce_eqb (rc_nonce r0) n) l) as [[r0 l'] |] eqn:Er; [| discriminate].
  cbn [snd]. intros E; inversion E; subst. split; [reflexivity |].
  revert l' Er. induction l as [| x l IH]; cbn [remove_first]; [discriminate |].
  destruct (nonce_eqb (rc_nonce x) n) eqn:En.
  - intros l' E'; inversion E'; subst. apply nonce_eqb_eq. exact En.
  - destruct (remove_first _ l) as [[y l''] |]; [| discriminate]. intros l' E'; inversion E'; subst.
    eapply IH. reflexivity.
Qed.

(* the echoed nonce belongs to a request in flight to another address: the request is put back
   (its timer restarts); nothing else changes, nothing is sent or reported, no draw is consumed *)
Lemma hc_other_source c s src n seq cd now na0 :
  nmap_get n (nmap (hs s)) = Some na0 -> snd na0 <> src ->
  let s' := handle_challenge c s src n seq cd now in
  outs s' = outs s /\ dr s' = dr s /\
  sessions (hs s') = sessions (hs s) /\ challenges (hs s') = challenges (hs s) /\
  pending (hs s') = pending (hs s) /\ expected (hs s') = expected (hs s) /\
  hs s' = match snd (ar_remove_by_nonce (hs s) n) with
          | Some (na, r) => ar_insert c (fst (ar_remove_by_nonce (hs s) n)) na r now
          | None => fst (ar_remove_by_nonce (hs s) n)
          end.
Proof.
  intros Hn Hsrc. cbn zeta. unfold handle_challenge. rewrite Hn.
  pose proof (ar_remove_by_nonce_addr (hs s) n na0 Hn) as Ha.
  assert (Hfr : let h1 := fst (ar_remove_by_nonce (hs s) n) in
                sessions h1 = sessions (hs s) /\ challenges h1 = challenges (hs s) /\
                pending h1 = pending (hs s) /\ expected h1 = expected (hs s)).
  { cbn zeta. unfold ar_remove_by_nonce. rewrite Hn.
    destruct (alist_get na0 (active (hs s))) as [l |]; [| cbn; auto].
    destruct (remove_first _ l) as [[r0 l'] |]; cbn; auto. }
  destruct (ar_remove_by_nonce (hs s) n) as [h1 found]. cbn [fst snd] in *.
  destruct Hfr as [F1 [F2 [F3 F4]]].
  destruct found as [[na r] |]; [| cbn; auto 10].
  destruct (Ha na r eq_refl) as [-> _].
  destruct (N.eqb (snd na0) src) eqn:E; [apply N.eqb_eq in E; contradiction |].
  cbn [negb]. cbn. auto 10.
Qed.

Theorem whoareyou_needs_inflight c h from n idn seq cd now d :
  let s0 := tick c h now d in
  (nmap_get n (nmap (hs s0)) = None ->
   step c h (EvInbound from (PWho n idn seq cd)) now d = (hs s0, outs s0)) /\
  (forall na0, nmap_get n (nmap (hs s0)) = Some na0 -> snd na0 <> from ->
   let h' := fst (step c h (EvInbound from (PWho n idn seq cd)) now d) in
   snd (step c h (EvInbound from (PWho n idn seq cd)) now d) = outs s0 /\
   sessions h' = sessions (hs s0) /\ challenges h' = challenges (hs s0) /\
   pending h' = pending (hs s0) /\ expected h' = expected (hs s0) /\
   h' = match snd (ar_remove_by_nonce (hs s0) n) with
        | Some (na, r) => ar_insert c (fst (ar_remove_by_nonce (hs s0) n)) na r now
        | None => fst (ar_remove_by_nonce (hs s0) n)
        end).
Proof.
  cbn zeta. split.
  - intros H. rewrite step_PWho. rewrite hc_needs_inflight; [reflexivity | exact H].
  - intros na0 H Hs. rewrite step_PWho. cbn [fst snd].
    destruct (hc_other_source (with_clock c now) (tick c h now d) from n seq cd now na0 H Hs) as [H1 [_ [H2 [H3 [H4 [H5 H6]]]]]].
    repeat (split; [assumption |]). exact H6.
Qed.

(* a request is answered with at most one handshake: a second WHOAREYOU for it fails the request; so
   does a WHOAREYOU for a request to a contact whose key is not a secp256k1 key (no session keys can be
   derived: no handshake packet is built) *)
Lemma hc_no_handshake c s src n seq cd now h1 na r :
  nmap_get n (nmap (hs s)) <> None ->
  ar_remove_by_nonce (hs s) n = (h1, Some (na, r)) -> snd na = src ->
  rc_hs_sent r || c_ed (rc_contact r) = true ->
  let s' := handle_challenge c s src n seq cd now in
  s' = fail_request c (if fix_d6 c then remove_expected (with_hs s h1) src else with_hs s h1) r
         ERR_INVALID_REMOTE_PACKET true /\
  OutsExt failed_out s s' /\
  (rc_ext r = true -> In (OEvent (HRequestFailed (rc_rid r) ERR_INVALID_REMOTE_PACKET)) (outs s')) /\
  QH (hs s) (hs s').
Proof.
  intros Hn Hr Hsrc Hsent. cbn zeta. unfold handle_challenge.
  destruct (nmap_get n (nmap (hs s))) as [na0 |]; [| contradiction].
  pose proof (QH_ar_remove_by_nonce (hs s) n) as Hq. rewrite Hr in Hq. cbn [fst] in Hq. rewrite Hr.
  rewrite Hsrc, N.eqb_refl. cbn [negb]. rewrite Hsent.
  set (s2 := if fix_d6 c then remove_expected (with_hs s h1) src else with_hs s h1).
  assert (H2 : QuietF s s2).
  { unfold s2. destruct (fix_d6 c).
    - eapply QuietF_trans; [apply QuietF_with_hs; exact Hq |].
      unfold remove_expected. apply QuietF_with_hs. apply QH_same; reflexivity.
    - apply QuietF_with_hs; exact Hq. }
  destruct (QuietF_trans _ _ _ H2 (QuietF_fail_request c s2 r ERR_INVALID_REMOTE_PACKET true)) as [Hh Ho].
  split; [reflexivity | split; [exact Ho | split; [| exact Hh]]].
  intros Hext. unfold fail_request. rewrite Hext.
  destruct (QuietF_fail_session c (emit s2 (OEvent (HRequestFailed (rc_rid r) ERR_INVALID_REMOTE_PACKET)))
              (c_naddr (rc_contact r)) ERR_INVALID_REMOTE_PACKET true) as [_ [l [El _]]].
  rewrite El. apply in_or_app. left. cbn [emit outs]. apply in_or_app. right. left. reflexivity.
Qed.

Lemma hc_second_whoareyou c s src n seq cd now h1 na r :
  nmap_get n (nmap (hs s)) <> None ->
  ar_remove_by_nonce (hs s) n = (h1, Some (na, r)) -> snd na = src -> rc_hs_sent r = true ->
  let s' := handle_challenge c s src n seq cd now in
  s' = fail_request c (if fix_d6 c then remove_expected (with_hs s h1) src else with_hs s h1) r
         ERR_INVALID_REMOTE_PACKET true /\
  OutsExt failed_out s s' /\
  (rc_ext r = true -> In (OEvent (HRequestFailed (rc_rid r) ERR_INVALID_REMOTE_PACKET)) (outs s')) /\
  QH (hs s) (hs s').
Proof.
  intros Hn Hr Hsrc Hsent. apply (hc_no_handshake c s src n seq cd now h1 na r); try assumption.
  rewrite Hsent. reflexivity.
Qed.

Theorem single_handshake_per_request c h from n idn seq cd now d h1 na r :
  let s0 := tick c h now d in
  nmap_get n (nmap (hs s0)) <> None ->
  ar_remove_by_nonce (hs s0) n = (h1, Some (na, r)) -> snd na = from -> rc_hs_sent r = true ->
  let res := step c h (EvInbound from (PWho n idn seq cd)) now d in
  (* no datagram - in particular no second handshake packet - is sent, the request is failed *)
  (forall o, In o (snd res) -> In o (outs s0) \/ failed_out o) /\
  (rc_ext r = true -> In (OEvent (HRequestFailed (rc_rid r) ERR_INVALID_REMOTE_PACKET)) (snd res)) /\
  (* the request taken out of the active requests is not put back *)
  fst res = hs (fail_request (with_clock c now)
                  (if fix_d6 c then remove_expected (with_hs s0 h1) from else with_hs s0 h1) r
                  ERR_INVALID_REMOTE_PACKET true) /\
  SessD h (fst res).
Proof.
  cbn zeta. intros Hn Hr Hs Hsent. rewrite step_PWho. cbn [fst snd].
  destruct (hc_second_whoareyou (with_clock c now) (tick c h now d) from n seq cd now h1 na r Hn Hr Hs Hsent) as [E [Ho [Hf [_ [HD _]]]]].
  split; [| split; [exact Hf | split; [rewrite E; reflexivity |]]].
  - intros o Hin. exact (OutsExt_In _ _ _ _ Ho Hin).
  - eapply SessD_trans; [apply tick_SessD | exact HD].
Qed.

(* the same for a request to a contact whose key is not a secp256k1 key (e.g. Ed25519): its WHOAREYOU is
   never answered with a handshake packet *)
Theorem no_handshake_for_unsupported_key c h from n idn seq cd now d h1 na r :
  let s0 := tick c h now d in
  nmap_get n (nmap (hs s0)) <> None ->
  ar_remove_by_nonce (hs s0) n = (h1, Some (na, r)) -> snd na = from -> c_ed (rc_contact r) = true ->
  let res := step c h (EvInbound from (PWho n idn seq cd)) now d in
  (forall o, In o (snd res) -> In o (outs s0) \/ failed_out o) /\
  (rc_ext r = true -> In (OEvent (HRequestFailed (rc_rid r) ERR_INVALID_REMOTE_PACKET)) (snd res)) /\
  SessD h (fst res).
Proof.
  cbn zeta. intros Hn Hr Hs Hed. rewrite step_PWho. cbn [fst snd].
  assert (Hor : rc_hs_sent r || c_ed (rc_contact r) = true) by (rewrite Hed; apply orb_true_r).
  destruct (hc_no_handshake (with_clock c now) (tick c h now d) from n seq cd now h1 na r Hn Hr Hs Hor)
    as [E [Ho [Hf [_ [HD _]]]]].
  split; [| split; [exact Hf |]].
  - intros o Hin. exact (OutsExt_In _ _ _ _ Ho Hin).
  - eapply SessD_trans; [apply tick_SessD | exact HD].
Qed.
