(* Proofs about Model/IpVote.v (property C17). *)
From Coq Require Import List NArith Bool Lia Arith Permutation.
From Discv5V Require Import Generated.Params Model.IpVote.
Import ListNotations.
Local Open Scope N_scope.

(* ================================================================ A. the f64 threshold *)

(* [rne] is within half a unit of the quotient *)
Lemma rne_bounds : forall num den, den <> 0 ->
  2 * (rne num den * den) <= 2 * num + den /\ 2 * num <= 2 * (rne num den * den) + den.
Proof.
  intros num den Hd. unfold rne.
  pose proof (N.div_mod num den Hd) as E. pose proof (N.mod_lt num den Hd) as L.
  set (q := num / den) in *. set (r := num mod den) in *.
  destruct (2 * r <? den) eqn:C1; [apply N.ltb_lt in C1; nia|]. apply N.ltb_ge in C1.
  destruct (den <? 2 * r) eqn:C2; [apply N.ltb_lt in C2; nia|]. apply N.ltb_ge in C2.
  destruct (N.even q); nia.
Qed.

(* binary64 rounding has relative error at most 2^-53 *)
Lemma rne53_rel : forall P,
  2 ^ 53 * rne53 P 1 <= 2 ^ 53 * P + P /\ 2 ^ 53 * P <= 2 ^ 53 * rne53 P 1 + P.
Proof.
  intros P. unfold rne53. rewrite N.div_1_r, N.mul_1_l.
  destruct (N.eq_dec P 0) as [Z|NZ].
  { subst P. cbn. lia. }
  set (s := N.size P - 53).
  assert (Hpow : 2 ^ s <> 0) by (apply N.pow_nonzero; lia).
  destruct (rne_bounds P (2 ^ s) Hpow) as [B1 B2].
  set (R := rne P (2 ^ s) * 2 ^ s) in *.
  (* 2^52 * 2^s <= P *)
  assert (Hs : 2 ^ 52 * 2 ^ s <= P \/ s = 0).
  { destruct (N.eq_dec s 0) as [E|E]; [right; assumption|left].
    unfold s in *. rewrite N.size_log2 in * by assumption.
    pose proof (N.log2_spec P ltac:(lia)) as [L _].
    assert (E2 : N.log2 P = 52 + (N.succ (N.log2 P) - 53)) by lia.
    rewrite E2 in L at 1. rewrite N.pow_add_r in L. exact L. }
  destruct Hs as [Hs|Hs].
  - change (2 ^ 53) with (2 * 2 ^ 52). nia.
  - (* no bits are dropped: the rounding is exact *)
    assert (R = P).
    { unfold R. rewrite Hs. change (2 ^ 0) with 1. rewrite N.mul_1_r. unfold rne.
      rewrite N.div_1_r, N.mod_1_r. cbn. reflexivity. }
    lia.
Qed.

Lemma f_keep_value : f_keep = 12610078956637388.
Proof. vm_compute. reflexivity. Qed.

Lemma f_percentage_value : f_percentage = 5404319552844595.
Proof. vm_compute. reflexivity. Qed.

(* the facts about [threshold m] that the arithmetic below uses *)
Lemma threshold_facts : forall m, exists R,
  2 ^ 54 * threshold m <= R + 2 ^ 53 /\ R + 2 ^ 53 < 2 ^ 54 * threshold m + 2 ^ 54 /\
  2 ^ 53 * R <= 2 ^ 53 * (m * 12610078956637388) + m * 12610078956637388 /\
  2 ^ 53 * (m * 12610078956637388) <= 2 ^ 53 * R + m * 12610078956637388.
Proof.
  intros m. unfold threshold. rewrite f_keep_value. exists (rne53 (m * 12610078956637388) 1).
  destruct (rne53_rel (m * 12610078956637388)) as [A B].
  set (R := rne53 (m * 12610078956637388) 1) in *.
  pose proof (N.div_mod (R + 2 ^ 53) (2 ^ 54) ltac:(discriminate)) as E.
  pose proof (N.mod_lt (R + 2 ^ 53) (2 ^ 54) ltac:(discriminate)) as L.
  set (D := (R + 2 ^ 53) / 2 ^ 54) in *. set (M := (R + 2 ^ 53) mod 2 ^ 54) in *.
  split; [|split; [|split; [exact A | exact B]]].
  - rewrite E. lia.
  - rewrite E. lia.
Qed.

(* |threshold m - 0.7 m| <= 1/2 *)
Lemma threshold_bounds : forall m, m < 2 ^ 49 ->
  10 * threshold m <= 7 * m + 5 /\ 7 * m <= 10 * threshold m + 5.
Proof.
  intros m Hm. destruct (threshold_facts m) as (R & H1 & H2 & H3 & H4).
  set (T := threshold m) in *.
  change (2 ^ 54) with 18014398509481984 in *. change (2 ^ 53) with 9007199254740992 in *.
  change (2 ^ 49) with 562949953421312 in *.
  split; lia.
Qed.

(* round-half-up of 0.7 m whenever 0.7 m is not exactly half-way *)
Lemma threshold_half_up : forall m, m < 2 ^ 49 -> m mod 10 <> 5 -> threshold m = (7 * m + 5) / 10.
Proof.
  intros m Hm H5. destruct (threshold_bounds m Hm) as [A B].
  pose proof (N.div_mod m 10 ltac:(discriminate)) as E. pose proof (N.mod_lt m 10 ltac:(discriminate)) as L.
  set (T := threshold m) in *. clearbody T.
  apply N.div_unique with (r := 7 * m + 5 - 10 * T); [|lia].
  (* 7m+5-10T < 10, i.e. 10T > 7m-5: from B, 10T >= 7m-5, and equality is impossible unless m mod 10 = 5 *)
  assert (7 * m <> 10 * T + 5).
  { intros C. apply H5. set (q := m / 10) in *. set (r := m mod 10) in *.
    assert (r = 0 \/ r = 1 \/ r = 2 \/ r = 3 \/ r = 4 \/ r = 5 \/ r = 6 \/ r = 7 \/ r = 8 \/ r = 9) by lia.
    lia. }
  lia.
Qed.

Lemma threshold_le : forall m, threshold m <= m.
Proof.
  intros m. destruct (threshold_facts m) as (R & H1 & H2 & H3 & H4).
  set (T := threshold m) in *.
  change (2 ^ 54) with 18014398509481984 in *. change (2 ^ 53) with 9007199254740992 in *.
  lia.
Qed.

Lemma threshold_pos : forall m, 1 <= m -> 1 <= threshold m.
Proof.
  intros m Hm. destruct (threshold_facts m) as (R & H1 & H2 & H3 & H4).
  set (T := threshold m) in *.
  change (2 ^ 54) with 18014398509481984 in *. change (2 ^ 53) with 9007199254740992 in *.
  lia.
Qed.

(* the formula guessed in the design, round-half-up of 0.7 * max, is not what the code computes *)
Lemma design_formula_refuted : exists m, m < 2 ^ 49 /\ threshold m <> (7 * m + 5) / 10.
Proof. exists 45. split; [reflexivity|]. vm_compute. discriminate. Qed.

(* both roundings occur at exact half-way points *)
Lemma halfway_examples : threshold 5 = 4 /\ threshold 45 = 31 /\ threshold 85 = 59 /\ threshold 15 = 11.
Proof. vm_compute. repeat split; reflexivity. Qed.

(* ================================================================ B. the scan *)

(* the number of unexpired votes for address [a] *)
Definition cnt (now a : N) (l : list vote) : N :=
  N.of_nat (length (filter (fun v => fresh now v && N.eqb (vaddr v) a) l)).

Lemma cnt_nil : forall now a, cnt now a [] = 0.
Proof. reflexivity. Qed.

Lemma cnt_cons : forall now a v l,
  cnt now a (v :: l) = (if fresh now v && N.eqb (vaddr v) a then 1 else 0) + cnt now a l.
Proof.
  intros. unfold cnt. cbn [filter]. destruct (fresh now v && N.eqb (vaddr v) a); cbn [length]; lia.
Qed.

Lemma cnt_app : forall now a l1 l2, cnt now a (l1 ++ l2) = cnt now a l1 + cnt now a l2.
Proof. intros. unfold cnt. rewrite filter_app, app_length. lia. Qed.

Lemma cnt_perm : forall now a l l', Permutation l l' -> cnt now a l = cnt now a l'.
Proof.
  intros now a l l' P. induction P.
  - reflexivity.
  - rewrite !cnt_cons. lia.
  - rewrite !cnt_cons. lia.
  - lia.
Qed.

Lemma get_set_same : forall a n c, get a (set a n c) = n.
Proof.
  intros a n c. induction c as [|[k m] c IH]; cbn [set get].
  - rewrite N.eqb_refl. reflexivity.
  - destruct (N.eqb k a) eqn:E; cbn [get]; rewrite E; [reflexivity | exact IH].
Qed.

Lemma get_set_other : forall a b n c, a <> b -> get b (set a n c) = get b c.
Proof.
  intros a b n c Hab. induction c as [|[k m] c IH]; cbn [set get].
  - destruct (N.eqb a b) eqn:E; [apply N.eqb_eq in E; contradiction | reflexivity].
  - destruct (N.eqb k a) eqn:E; cbn [get].
    + apply N.eqb_eq in E. subst k. destruct (N.eqb a b) eqn:E2; [apply N.eqb_eq in E2; contradiction | reflexivity].
    + destruct (N.eqb k b); [reflexivity | exact IH].
Qed.

(* what the loop state means after the votes [l] have been visited *)
Record scan_inv (now : N) (l : list vote) (s : scan) : Prop := {
  si_counter : forall a, get a (counter s) = cnt now a l;
  si_max : forall a, cnt now a l <= max_count s;
  si_vote : match max_vote s with
            | None => max_count s = 0 /\ second_max_count s = 0
            | Some a => cnt now a l = max_count s /\ 1 <= max_count s
            end;
  si_second : forall b, is_vote (max_vote s) b = false -> cnt now b l <= second_max_count s;
  si_second_attained : second_max_count s = 0 \/
                       exists b, is_vote (max_vote s) b = false /\ cnt now b l = second_max_count s
}.

Lemma scan_inv_init : forall now, scan_inv now [] init_scan.
Proof.
  intros now. constructor; cbn; intros; try rewrite cnt_nil; try lia; auto.
Qed.

Lemma run_scan_snoc : forall now l v, run_scan now (l ++ [v]) = scan_step now (run_scan now l) v.
Proof. intros. unfold run_scan. rewrite fold_left_app. reflexivity. Qed.

Lemma cnt_snoc : forall now a l v,
  cnt now a (l ++ [v]) = cnt now a l + (if fresh now v && N.eqb (vaddr v) a then 1 else 0).
Proof. intros. rewrite cnt_app, cnt_cons, cnt_nil. lia. Qed.

Lemma scan_inv_step : forall now l s v, scan_inv now l s -> scan_inv now (l ++ [v]) (scan_step now s v).
Proof.
  intros now l s v [IC IM IV IS IA]. unfold scan_step.
  destruct (fresh now v) eqn:F; cbn [negb].
  2:{ (* a stale vote changes nothing *)
    constructor; intros; rewrite ?cnt_snoc, ?F; cbn [andb]; rewrite ?N.add_0_r; auto.
    - destruct (max_vote s); rewrite ?cnt_snoc, ?F; cbn [andb]; rewrite ?N.add_0_r; assumption.
    - destruct IA as [IA|[b [B1 B2]]]; [left; assumption | right; exists b; split; [assumption|]].
      rewrite cnt_snoc, F. cbn [andb]. rewrite N.add_0_r. assumption. }
  set (a := vaddr v).
  assert (Hc : forall x, cnt now x (l ++ [v]) = cnt now x l + (if N.eqb a x then 1 else 0)).
  { intros x. rewrite cnt_snoc, F. cbn [andb]. reflexivity. }
  assert (Hca : cnt now a (l ++ [v]) = cnt now a l + 1) by (rewrite Hc, N.eqb_refl; reflexivity).
  assert (Hco : forall x, x <> a -> cnt now x (l ++ [v]) = cnt now x l).
  { intros x Hx. rewrite Hc. destruct (N.eqb a x) eqn:E; [apply N.eqb_eq in E; congruence | lia]. }
  rewrite IC.
  destruct (max_count s <? cnt now a l + 1) eqn:C1.
  - (* a new maximum *)
    apply N.ltb_lt in C1.
    constructor; cbn [counter max_count second_max_count max_vote is_vote].
    + intros x. destruct (N.eq_dec x a) as [E|E].
      * subst x. rewrite get_set_same. lia.
      * rewrite get_set_other by congruence. rewrite Hco by assumption. apply IC.
    + intros x. destruct (N.eq_dec x a) as [E|E]; [subst x; lia|]. rewrite Hco by assumption.
      specialize (IM x). lia.
    + split; [assumption | lia].
    + intros b Hb. assert (b <> a) by (intros E; subst b; rewrite N.eqb_refl in Hb; discriminate).
      rewrite Hco by assumption.
      destruct (max_vote s) as [mv|] eqn:MV; cbn [is_some is_vote andb].
      * destruct (N.eqb mv a) eqn:E; cbn [negb].
        -- apply N.eqb_eq in E. subst mv. apply IS. cbn [is_vote].
           destruct (N.eqb a b) eqn:E2; [apply N.eqb_eq in E2; congruence | reflexivity].
        -- apply IM.
      * destruct IV as [Z _]. specialize (IM b). lia.
    + destruct (max_vote s) as [mv|] eqn:MV; cbn [is_some is_vote andb].
      * destruct (N.eqb mv a) eqn:E; cbn [negb].
        -- apply N.eqb_eq in E. subst mv.
           destruct IA as [IA|[b [B1 B2]]]; [left; assumption | right; exists b].
           cbn [is_vote] in B1. split; [assumption|]. rewrite Hco; [assumption|].
           intros E2. subst b. rewrite N.eqb_refl in B1. discriminate.
        -- right. exists mv. destruct IV as [V1 V2]. split.
           ++ destruct (N.eqb a mv) eqn:E2; [apply N.eqb_eq in E2; subst; rewrite N.eqb_refl in E; discriminate | reflexivity].
           ++ rewrite Hco; [assumption|]. intros E2. subst mv. rewrite N.eqb_refl in E. discriminate.
      * left. destruct IV as [_ Z]. assumption.
  - apply N.ltb_ge in C1.
    (* the maximum stays; then [a] is not the leader (its count would exceed the maximum) *)
    assert (NotLeader : is_vote (max_vote s) a = false).
    { destruct (max_vote s) as [mv|] eqn:MV; cbn [is_vote]; [|reflexivity].
      destruct (N.eqb mv a) eqn:E; [|reflexivity]. apply N.eqb_eq in E. subst mv. destruct IV as [V1 V2]. lia. }
    rewrite NotLeader. cbn [negb]. rewrite andb_true_r.
    destruct (second_max_count s <? cnt now a l + 1) eqn:C2.
    + apply N.ltb_lt in C2.
      constructor; cbn [counter max_count second_max_count max_vote].
      * intros x. destruct (N.eq_dec x a) as [E|E].
        -- subst x. rewrite get_set_same. lia.
        -- rewrite get_set_other by congruence. rewrite Hco by assumption. apply IC.
      * intros x. destruct (N.eq_dec x a) as [E|E]; [subst x; lia|]. rewrite Hco by assumption. apply IM.
      * destruct (max_vote s) as [mv|] eqn:MV.
        -- assert (mv <> a) by (intros E; subst mv; cbn in NotLeader; rewrite N.eqb_refl in NotLeader; discriminate).
           rewrite Hco by assumption. assumption.
        -- destruct IV as [Z _]. lia.
      * intros b Hb. destruct (N.eq_dec b a) as [E|E]; [subst b; lia|]. rewrite Hco by assumption.
        specialize (IS b Hb). lia.
      * right. exists a. split; [assumption | lia].
    + apply N.ltb_ge in C2.
      constructor; cbn [counter max_count second_max_count max_vote].
      * intros x. destruct (N.eq_dec x a) as [E|E].
        -- subst x. rewrite get_set_same. lia.
        -- rewrite get_set_other by congruence. rewrite Hco by assumption. apply IC.
      * intros x. destruct (N.eq_dec x a) as [E|E]; [subst x; lia|]. rewrite Hco by assumption. apply IM.
      * destruct (max_vote s) as [mv|] eqn:MV.
        -- assert (mv <> a) by (intros E; subst mv; cbn in NotLeader; rewrite N.eqb_refl in NotLeader; discriminate).
           rewrite Hco by assumption. assumption.
        -- destruct IV as [Z _]. lia.
      * intros b Hb. destruct (N.eq_dec b a) as [E|E]; [subst b; lia|]. rewrite Hco by assumption. apply IS. assumption.
      * destruct IA as [IA|[b [B1 B2]]]; [left; assumption | right; exists b; split; [assumption|]].
        destruct (N.eq_dec b a) as [E|E]; [subst b; lia|]. rewrite Hco by assumption. assumption.
Qed.

Lemma scan_inv_run : forall now l, scan_inv now l (run_scan now l).
Proof.
  intros now l. induction l as [|v l IH] using rev_ind.
  - apply scan_inv_init.
  - rewrite run_scan_snoc. apply scan_inv_step. assumption.
Qed.

Lemma scan_inv_perm : forall now l l' s, Permutation l l' -> scan_inv now l s -> scan_inv now l' s.
Proof.
  intros now l l' s P [IC IM IV IS IA].
  assert (E : forall a, cnt now a l = cnt now a l') by (intros; apply cnt_perm; assumption).
  constructor; intros; rewrite <- ?E; auto.
  - destruct (max_vote s); rewrite <- ?E; assumption.
  - destruct IA as [IA|[b [B1 B2]]]; [left; assumption | right; exists b; rewrite <- E; split; assumption].
Qed.

(* two loop states that describe the same votes agree on everything the verdict looks at *)
Lemma scan_inv_max_le : forall now l s s', scan_inv now l s -> scan_inv now l s' -> max_count s <= max_count s'.
Proof.
  intros now l s s' I I'. pose proof (si_vote _ _ _ I) as V. destruct (max_vote s) as [a|].
  - destruct V as [V _]. rewrite <- V. apply (si_max _ _ _ I').
  - destruct V as [V _]. lia.
Qed.

Lemma is_vote_true : forall o a, is_vote o a = true -> o = Some a.
Proof. intros [b|] a H; cbn in H; [apply N.eqb_eq in H; subst; reflexivity | discriminate]. Qed.

Lemma scan_inv_second_le : forall now l s s', scan_inv now l s -> scan_inv now l s' ->
  second_max_count s <= second_max_count s'.
Proof.
  intros now l s s' I I'.
  assert (M : max_count s = max_count s') by (apply N.le_antisymm; eapply scan_inv_max_le; eassumption).
  destruct (si_second_attained _ _ _ I) as [Z|[b [B1 B2]]]; [lia|].
  destruct (is_vote (max_vote s') b) eqn:L'.
  - (* b leads in s': its count is the maximum, so s has another leader with the same count *)
    apply is_vote_true in L'. pose proof (si_vote _ _ _ I') as V'. rewrite L' in V'. destruct V' as [V1 V2].
    pose proof (si_vote _ _ _ I) as V. destruct (max_vote s) as [a|] eqn:MV.
    + destruct V as [W1 W2]. assert (a <> b) by (intros E; subst a; cbn in B1; rewrite N.eqb_refl in B1; discriminate).
      assert (NL : is_vote (max_vote s') a = false).
      { rewrite L'. cbn. destruct (N.eqb b a) eqn:E; [apply N.eqb_eq in E; congruence | reflexivity]. }
      pose proof (si_second _ _ _ I' a NL). pose proof (si_max _ _ _ I b). lia.
    + destruct V as [W1 W2]. lia.
  - pose proof (si_second _ _ _ I' b L'). lia.
Qed.

Lemma scan_inv_vote_eq : forall now l s s', scan_inv now l s -> scan_inv now l s' ->
  second_max_count s < max_count s -> max_vote s = max_vote s'.
Proof.
  intros now l s s' I I' Lt.
  assert (M : max_count s = max_count s') by (apply N.le_antisymm; eapply scan_inv_max_le; eassumption).
  pose proof (si_vote _ _ _ I) as V. pose proof (si_vote _ _ _ I') as V'.
  destruct (max_vote s) as [a|] eqn:MV; destruct (max_vote s') as [a'|] eqn:MV'.
  - destruct (N.eq_dec a a') as [E|E]; [subst; reflexivity|]. exfalso.
    assert (NL : is_vote (max_vote s) a' = false).
    { rewrite MV. cbn. destruct (N.eqb a a') eqn:E2; [apply N.eqb_eq in E2; congruence | reflexivity]. }
    pose proof (si_second _ _ _ I a' NL). destruct V', V. lia.
  - destruct V, V'. lia.
  - destruct V, V'. lia.
  - reflexivity.
Qed.

Definition majority_of (now mn : N) (l : list vote) : option N := verdict mn (run_scan now l).

Lemma verdict_eq : forall now l s s' mn, scan_inv now l s -> scan_inv now l s' -> verdict mn s = verdict mn s'.
Proof.
  intros now l s s' mn I I'.
  assert (M : max_count s = max_count s') by (apply N.le_antisymm; eapply scan_inv_max_le; eassumption).
  assert (S : second_max_count s = second_max_count s') by (apply N.le_antisymm; eapply scan_inv_second_le; eassumption).
  unfold verdict. rewrite <- M, <- S. destruct (mn <=? max_count s); [|reflexivity].
  destruct (threshold (max_count s) <=? second_max_count s) eqn:C; [reflexivity|].
  apply N.leb_gt in C. pose proof (threshold_le (max_count s)).
  eapply scan_inv_vote_eq; try eassumption. lia.
Qed.

(* scan_correct: the maximum is the largest count, the second maximum is the largest count among
   the addresses other than the leader, and neither they nor the verdict depend on the order in
   which the hash map yields the votes *)
Lemma scan_correct : forall now mn l l', Permutation l l' ->
  scan_inv now l (run_scan now l) /\
  max_count (run_scan now l) = max_count (run_scan now l') /\
  second_max_count (run_scan now l) = second_max_count (run_scan now l') /\
  majority_of now mn l = majority_of now mn l'.
Proof.
  intros now mn l l' P.
  pose proof (scan_inv_run now l) as I.
  pose proof (scan_inv_perm now l' l _ (Permutation_sym P) (scan_inv_run now l')) as I'.
  split; [assumption|]. split; [|split].
  - apply N.le_antisymm; eapply scan_inv_max_le; eassumption.
  - apply N.le_antisymm; eapply scan_inv_second_le; eassumption.
  - unfold majority_of. eapply verdict_eq; eassumption.
Qed.

(* winner_spec *)
Lemma winner_spec : forall now mn l a, 1 <= mn ->
  (majority_of now mn l = Some a <->
   mn <= cnt now a l /\ forall b, b <> a -> cnt now b l < threshold (cnt now a l)).
Proof.
  intros now mn l a Hmn. unfold majority_of. pose proof (scan_inv_run now l) as I.
  set (s := run_scan now l) in *. unfold verdict. split.
  - destruct (mn <=? max_count s) eqn:C1; [|discriminate]. apply N.leb_le in C1.
    destruct (threshold (max_count s) <=? second_max_count s) eqn:C2; [discriminate|]. apply N.leb_gt in C2.
    intros MV. pose proof (si_vote _ _ _ I) as V. rewrite MV in V. destruct V as [V1 V2].
    rewrite V1. split; [assumption|]. intros b Hb.
    assert (NL : is_vote (max_vote s) b = false).
    { rewrite MV. cbn. destruct (N.eqb a b) eqn:E; [apply N.eqb_eq in E; congruence | reflexivity]. }
    pose proof (si_second _ _ _ I b NL). lia.
  - intros [H1 H2]. pose proof (si_max _ _ _ I a) as Ma.
    assert (C1 : mn <=? max_count s = true) by (apply N.leb_le; lia). rewrite C1.
    pose proof (si_vote _ _ _ I) as V. destruct (max_vote s) as [a'|] eqn:MV.
    + destruct V as [V1 V2].
      assert (a' = a).
      { destruct (N.eq_dec a' a) as [E|E]; [assumption|]. exfalso.
        pose proof (H2 a' E). pose proof (threshold_le (cnt now a l)). lia. }
      subst a'.
      assert (C2 : threshold (max_count s) <=? second_max_count s = false).
      { apply N.leb_gt. rewrite <- V1.
        destruct (si_second_attained _ _ _ I) as [Z|[b [B1 B2]]].
        - rewrite Z. pose proof (threshold_pos (cnt now a l)). lia.
        - rewrite <- B2. apply H2. intros E. subst b. rewrite MV in B1. cbn in B1. rewrite N.eqb_refl in B1. discriminate. }
      rewrite C2. reflexivity.
    + destruct V as [V1 V2]. lia.
Qed.

Lemma winner_unique : forall now mn l a a', 1 <= mn ->
  majority_of now mn l = Some a -> majority_of now mn l = Some a' -> a = a'.
Proof. intros. congruence. Qed.

(* ================================================================ C. the vote tables *)

Definition entry (n : N) (l : list vote) : option vote := find (fun v => N.eqb (vnode v) n) l.
Definition tbl (fam : bool) (iv : ipvote) : list vote := if fam then v6 iv else v4 iv.
Definition wf (iv : ipvote) : Prop := NoDup (map vnode (v4 iv)) /\ NoDup (map vnode (v6 iv)).

Lemma NoDup_map_filter : forall (l : list vote) p, NoDup (map vnode l) -> NoDup (map vnode (filter p l)).
Proof.
  intros l p. induction l as [|v l IH]; cbn [map filter]; intros H; [constructor|].
  inversion H as [|? ? Hn Hl]; subst. destruct (p v); cbn [map]; [|apply IH; assumption].
  constructor; [|apply IH; assumption].
  intros Hin. apply Hn. apply in_map_iff in Hin. destruct Hin as [x [E Hx]]. apply filter_In in Hx.
  apply in_map_iff. exists x. split; [assumption | apply Hx].
Qed.

Lemma in_put : forall x v l, In x (put v l) <-> x = v \/ (In x l /\ vnode x <> vnode v).
Proof.
  intros x v l. unfold put. rewrite in_app_iff, filter_In. cbn [In]. split.
  - intros [[H1 H2]|[H|[]]]; [right | left; congruence].
    split; [assumption|]. apply negb_true_iff, N.eqb_neq in H2. assumption.
  - intros [H|[H1 H2]]; [right; left; congruence | left].
    split; [assumption|]. apply negb_true_iff, N.eqb_neq. assumption.
Qed.

Lemma NoDup_snoc : forall (A : Type) (l : list A) (x : A), NoDup l -> ~ In x l -> NoDup (l ++ [x]).
Proof.
  intros A l x Hl Hx. induction Hl as [|y l Hy Hl IH]; cbn [app].
  - constructor; [intros []|constructor].
  - constructor.
    + intros Hin. apply in_app_or in Hin. destruct Hin as [Hin|[Hin|[]]]; [contradiction|].
      subst y. apply Hx. left. reflexivity.
    + apply IH. intros Hin. apply Hx. right. assumption.
Qed.

Lemma put_nodup : forall v l, NoDup (map vnode l) -> NoDup (map vnode (put v l)).
Proof.
  intros v l H. unfold put. rewrite map_app. cbn [map]. apply NoDup_snoc.
  - apply NoDup_map_filter. assumption.
  - intros Hin. apply in_map_iff in Hin. destruct Hin as [x [E Hx]]. apply filter_In in Hx. destruct Hx as [_ Hx].
    apply negb_true_iff, N.eqb_neq in Hx. congruence.
Qed.

Lemma entry_in : forall n l v, entry n l = Some v -> In v l /\ vnode v = n.
Proof.
  intros n l v H. unfold entry in H. apply find_some in H. destruct H as [H1 H2]. apply N.eqb_eq in H2. auto.
Qed.

Lemma entry_unique : forall n l v, NoDup (map vnode l) -> In v l -> vnode v = n -> entry n l = Some v.
Proof.
  intros n l v. unfold entry. induction l as [|x l IH]; cbn [map find In]; intros ND Hin Hn; [contradiction|].
  inversion ND as [|? ? Hx Hl]; subst. destruct Hin as [E|Hin].
  - subst x. rewrite N.eqb_refl. reflexivity.
  - destruct (N.eqb (vnode x) (vnode v)) eqn:E.
    + apply N.eqb_eq in E. exfalso. apply Hx. rewrite E. apply in_map. assumption.
    + apply IH; auto.
Qed.

(* one vote per node: the newest vote of a node is its only entry ... *)
Lemma entry_put_same : forall v l, NoDup (map vnode l) -> entry (vnode v) (put v l) = Some v.
Proof.
  intros v l H. apply entry_unique; [apply put_nodup; assumption | apply in_put; left; reflexivity | reflexivity].
Qed.

(* ... the entries of the other nodes are untouched ... *)
Lemma entry_put_other : forall v l n, NoDup (map vnode l) -> n <> vnode v -> entry n (put v l) = entry n l.
Proof.
  intros v l n ND Hn. destruct (entry n l) as [x|] eqn:E.
  - apply entry_in in E. destruct E as [E1 E2]. apply entry_unique; [apply put_nodup; assumption | | assumption].
    apply in_put. right. split; [assumption | congruence].
  - destruct (entry n (put v l)) as [y|] eqn:E'; [|reflexivity]. exfalso.
    apply entry_in in E'. destruct E' as [E1 E2]. apply in_put in E1. destruct E1 as [E1|[E1 E3]]; [subst y; congruence|].
    rewrite (entry_unique n l y ND E1 E2) in E. discriminate.
Qed.

(* ... and an entry disappears exactly when it has expired *)
Lemma entry_prune : forall now l n, NoDup (map vnode l) ->
  entry n (prune now l) = match entry n l with Some v => if fresh now v then Some v else None | None => None end.
Proof.
  intros now l n ND. destruct (entry n l) as [x|] eqn:E.
  - apply entry_in in E. destruct E as [E1 E2]. destruct (fresh now x) eqn:F.
    + apply entry_unique; [apply NoDup_map_filter; assumption | | assumption]. apply filter_In. auto.
    + destruct (entry n (prune now l)) as [y|] eqn:E'; [|reflexivity]. exfalso.
      apply entry_in in E'. destruct E' as [E3 E4]. apply filter_In in E3. destruct E3 as [E3 E5].
      assert (entry n l = Some y) by (apply entry_unique; assumption).
      assert (entry n l = Some x) by (apply entry_unique; assumption). congruence.
  - destruct (entry n (prune now l)) as [y|] eqn:E'; [|reflexivity]. exfalso.
    apply entry_in in E'. destruct E' as [E3 E4]. apply filter_In in E3. destruct E3 as [E3 E5].
    rewrite (entry_unique n l y ND E3 E4) in E. discriminate.
Qed.

Definition new_vote (iv : ipvote) (node : N) (sock : bool * N) (now : N) : vote :=
  {| vnode := node; vaddr := snd sock; vexp := now + duration iv |}.

Lemma tbl_insert : forall iv node sock now fam,
  tbl fam (insert iv node sock now) =
  if Bool.eqb fam (fst sock) then put (new_vote iv node sock now) (tbl fam iv) else tbl fam iv.
Proof. intros iv node [f a] now fam. unfold insert, tbl, new_vote. cbn [fst snd]. destruct f, fam; reflexivity. Qed.

Lemma wf_insert : forall iv node sock now, wf iv -> wf (insert iv node sock now).
Proof.
  intros iv node [f a] now [W4 W6]. unfold insert, wf. cbn [fst snd]. destruct f; cbn [v4 v6]; split; auto; apply put_nodup; assumption.
Qed.

Lemma majority_fst : forall iv now,
  fst (majority iv now) = {| v4 := prune now (v4 iv); v6 := prune now (v6 iv); minimum := minimum iv; duration := duration iv |}.
Proof. reflexivity. Qed.

Lemma majority_snd : forall iv now,
  snd (majority iv now) = (majority_of now (minimum iv) (v4 iv), majority_of now (minimum iv) (v6 iv)).
Proof. reflexivity. Qed.

Lemma has_min_fst : forall iv now, fst (has_minimum_threshold iv now) = fst (majority iv now).
Proof. reflexivity. Qed.

Lemma wf_pruned : forall iv now, wf iv -> wf (fst (majority iv now)).
Proof. intros iv now [W4 W6]. rewrite majority_fst. split; cbn [v4 v6]; apply NoDup_map_filter; assumption. Qed.

(* one_vote_per_node, for every sequence of facade operations and times *)
Lemma wf_vstep : forall iv o now, wf iv -> wf (fst (vstep iv o now)).
Proof.
  intros iv o now W. destruct o as [n sock| | ]; cbn [vstep].
  - cbn [fst]. apply wf_insert. assumption.
  - change (wf (fst (let (s', r) := majority iv now in (s', VMaj r)))).
    destruct (majority iv now) as [s' r] eqn:E. cbn [fst]. change s' with (fst (s', r)). rewrite <- E. apply wf_pruned. assumption.
  - change (wf (fst (let (s', r) := has_minimum_threshold iv now in (s', VMin r)))).
    destruct (has_minimum_threshold iv now) as [s' r] eqn:E. cbn [fst]. change s' with (fst (s', r)). rewrite <- E, has_min_fst.
    apply wf_pruned. assumption.
Qed.

Lemma one_vote_per_node : forall (ops : list (vop * N)) iv, wf iv ->
  wf (fold_left (fun s x => fst (vstep s (fst x) (snd x))) ops iv).
Proof.
  induction ops as [|[o now] ops IH]; intros iv W; cbn [fold_left fst snd]; [assumption|].
  apply IH. apply wf_vstep. assumption.
Qed.

Lemma wf_new : forall mn dur iv, new_ipvote mn dur = Some iv -> wf iv /\ minimum iv = mn /\ 2 <= mn /\ duration iv = dur.
Proof.
  intros mn dur iv H. unfold new_ipvote in H. destruct (mn <? 2) eqn:C; [discriminate|]. apply N.ltb_ge in C.
  inversion H; subst. cbn. repeat split; try constructor; assumption.
Qed.

(* ================================================================ D. the service's PONG handling *)

Definition udp (fam : bool) (e : local_enr) : option N := if fam then udp6 e else udp4 e.

Lemma opt_eqb_false : forall a o, opt_eqb (Some a) o = false -> o <> Some a.
Proof. intros a [b|] H E; cbn in H; [inversion E; subst; rewrite N.eqb_refl in H|]; discriminate. Qed.

Lemma require_more_votes : forall dual iv is6 now,
  fst (require_more_ip_votes dual iv is6 now) = iv \/
  fst (require_more_ip_votes dual iv is6 now) = fst (majority iv now).
Proof.
  intros dual iv is6 now. unfold require_more_ip_votes. destruct dual; cbn [negb]; [right | left; reflexivity].
  destruct (has_minimum_threshold iv now) as [iv' hm] eqn:E. cbn [fst].
  change iv' with (fst (iv', hm)). rewrite <- E. apply has_min_fst.
Qed.

(* Either nothing visible happens, or the reported family's address is replaced by the current
   clear-majority winner of the table that contains the new vote; then the sequence number is
   bumped and the event emitted.  [t] is the table the decision was taken on. *)
Lemma handle_pong_cases : forall s p nq ni,
  let s' := handle_pong s p nq ni in
  let fam := fst (p_sock p) in
  dual_stack s' = dual_stack s /\
  ((enr s' = enr s /\ events s' = events s) \/
   (exists iv iv1 a,
      ip_votes s = Some iv /\ p_count_ok p = true /\ (iv1 = iv \/ iv1 = fst (majority iv nq)) /\
      majority_of nq (minimum iv) (tbl fam (insert iv1 (p_node p) (p_sock p) ni)) = Some a /\
      udp fam (enr s) <> Some a /\
      set_udp_socket (enr s) (fam, a) (p_enr_ok p) = Some (enr s') /\
      events s' = events s ++ [(fam, a)])) /\
  (match ip_votes s with
   | None => ip_votes s' = None
   | Some iv => ip_votes s' = Some iv \/
                (exists iv1, (iv1 = iv \/ iv1 = fst (majority iv nq)) /\
                   (ip_votes s' = Some iv1 \/
                    ip_votes s' = Some (fst (majority (insert iv1 (p_node p) (p_sock p) ni) nq))))
   end).
Proof.
  intros s p nq ni. cbv zeta. unfold handle_pong.
  destruct (p_count_ok p) eqn:CO; cbn [negb].
  2:{ split; [reflexivity|]. split; [left; split; reflexivity|]. destruct (ip_votes s); [left|]; reflexivity. }
  destruct (ip_votes s) as [iv|] eqn:IV.
  2:{ split; [reflexivity|]. split; [left; split; reflexivity|]. rewrite IV. reflexivity. }
  pose proof (require_more_votes (dual_stack s) iv (fst (p_sock p)) nq) as RM.
  destruct (require_more_ip_votes (dual_stack s) iv (fst (p_sock p)) nq) as [iv1 more] eqn:E1. cbn [fst] in RM.
  destruct (negb (p_conn_out p || more)).
  { cbn [dual_stack enr events ip_votes]. split; [reflexivity|]. split; [left; split; reflexivity|].
    right. exists iv1. split; [assumption | left; reflexivity]. }
  set (iv2 := insert iv1 (p_node p) (p_sock p) ni).
  pose proof (majority_fst iv2 nq) as MF. pose proof (majority_snd iv2 nq) as MS.
  destruct (majority iv2 nq) as [iv3 m] eqn:E3. cbn [fst snd] in MF, MS.
  assert (Votes : forall e ev, ip_votes {| ip_votes := Some iv3; dual_stack := dual_stack s; enr := e; events := ev |} = Some iv \/
            (exists iv1', (iv1' = iv \/ iv1' = fst (majority iv nq)) /\
               (Some iv3 = Some iv1' \/ Some iv3 = Some (fst (majority (insert iv1' (p_node p) (p_sock p) ni) nq))))).
  { intros. right. exists iv1. split; [assumption|]. right. fold iv2. rewrite E3. reflexivity. }
  assert (Mn : minimum iv2 = minimum iv).
  { unfold iv2, insert. destruct (fst (p_sock p)); cbn [minimum]; destruct RM as [R|R]; rewrite R; reflexivity. }
  assert (MO : (if fst (p_sock p) then snd m else fst m) =
               majority_of nq (minimum iv) (tbl (fst (p_sock p)) iv2)).
  { rewrite MS, <- Mn. unfold tbl. destruct (fst (p_sock p)); reflexivity. }
  rewrite MO.
  destruct (majority_of nq (minimum iv) (tbl (fst (p_sock p)) iv2)) as [a|] eqn:W.
  2:{ cbn [dual_stack enr events ip_votes]. split; [reflexivity|]. split; [left; split; reflexivity|]. apply (Votes (enr s) (events s)). }
  destruct (opt_eqb (Some a) (if fst (p_sock p) then udp6 (enr s) else udp4 (enr s))) eqn:EQ.
  { cbn [dual_stack enr events ip_votes]. split; [reflexivity|]. split; [left; split; reflexivity|]. apply (Votes (enr s) (events s)). }
  destruct (set_udp_socket (enr s) (fst (p_sock p), a) (p_enr_ok p)) as [e'|] eqn:SU.
  2:{ cbn [dual_stack enr events ip_votes]. split; [reflexivity|]. split; [left; split; reflexivity|]. apply (Votes (enr s) (events s)). }
  cbn [dual_stack enr events ip_votes]. split; [reflexivity|]. split; [|apply (Votes e' (events s ++ [(fst (p_sock p), a)]))].
  right. exists iv, iv1, a. repeat split; try assumption; try reflexivity.
  apply opt_eqb_false in EQ. unfold udp. assumption.
Qed.

Lemma set_udp_socket_spec : forall e fam a ok e', set_udp_socket e (fam, a) ok = Some e' ->
  seq e' = seq e + 1 /\ seq e + 1 < 2 ^ 64 /\ ok = true /\
  udp fam e' = Some a /\ udp (negb fam) e' = udp (negb fam) e.
Proof.
  intros e fam a ok e' H. unfold set_udp_socket in H. cbn [fst snd] in H.
  destruct ok; cbn [andb] in H; [|discriminate]. destruct (seq e + 1 <? 2 ^ 64) eqn:C; [|discriminate].
  apply N.ltb_lt in C. inversion H; subst. destruct fam; cbn; repeat split; auto.
Qed.

(* update_bumps_seq_and_emits + "only to the clear-majority winner", one PONG *)
Lemma handle_pong_change : forall s p nq ni fam,
  let s' := handle_pong s p nq ni in
  udp fam (enr s') <> udp fam (enr s) ->
  exists iv iv1 a,
    ip_votes s = Some iv /\ p_count_ok p = true /\ fst (p_sock p) = fam /\
    (iv1 = iv \/ iv1 = fst (majority iv nq)) /\
    majority_of nq (minimum iv) (put (new_vote iv (p_node p) (p_sock p) ni) (tbl fam iv1)) = Some a /\
    udp fam (enr s') = Some a /\
    udp (negb fam) (enr s') = udp (negb fam) (enr s) /\
    seq (enr s') = seq (enr s) + 1 /\
    events s' = events s ++ [(fam, a)].
Proof.
  intros s p nq ni fam s' Hne. destruct (handle_pong_cases s p nq ni) as (_ & [[E1 E2]|H] & _).
  - exfalso. apply Hne. unfold s'. rewrite E1. reflexivity.
  - destruct H as (iv & iv1 & a & IV & CO & RM & W & NE & SU & EV).
    apply set_udp_socket_spec in SU. destruct SU as (S1 & S2 & S3 & S4 & S5).
    assert (F : fst (p_sock p) = fam).
    { destruct (Bool.bool_dec (fst (p_sock p)) fam) as [E|E]; [assumption|]. exfalso. apply Hne.
      assert (fam = negb (fst (p_sock p))).
      { revert E. generalize (fst (p_sock p)). intros g E. destruct fam, g; try reflexivity; exfalso; apply E; reflexivity. }
      subst fam. exact S5. }
    exists iv, iv1, a. rewrite F in *. repeat split; try assumption.
    rewrite tbl_insert in W. rewrite F in W. rewrite Bool.eqb_reflx in W.
    replace (new_vote iv (p_node p) (p_sock p) ni) with (new_vote iv1 (p_node p) (p_sock p) ni); [exact W|].
    unfold new_vote. destruct RM as [R|R]; rewrite R; reflexivity.
Qed.

(* no change of either address: the sequence number and the event stream are untouched *)
Lemma handle_pong_quiet : forall s p nq ni,
  let s' := handle_pong s p nq ni in
  udp4 (enr s') = udp4 (enr s) -> udp6 (enr s') = udp6 (enr s) ->
  enr s' = enr s /\ events s' = events s.
Proof.
  intros s p nq ni s' H4 H6. destruct (handle_pong_cases s p nq ni) as (_ & [[E1 E2]|H] & _); [split; assumption|].
  exfalso. destruct H as (iv & iv1 & a & IV & CO & RM & W & NE & SU & EV).
  apply set_udp_socket_spec in SU. destruct SU as (S1 & S2 & S3 & S4 & S5).
  apply NE. rewrite <- S4. unfold udp. fold s'. destruct (fst (p_sock p)); congruence.
Qed.

(* ================================================================ E. fewer liars than the minimum *)

Lemma option_eq_dec_N : forall a b : option N, {a = b} + {a <> b}.
Proof. decide equality. apply N.eq_dec. Qed.


Definition sock_eqb (a b : bool * N) : bool := Bool.eqb (fst a) (fst b) && N.eqb (snd a) (snd b).
Definition pong_of (x : pong * N * N) : pong := fst (fst x).

(* the distinct peers that ever report socket [sa] in the PONGs [ps] *)
Definition voters_for (sa : bool * N) (ps : list pong) : list N :=
  nodup N.eq_dec (map p_node (filter (fun p => sock_eqb (p_sock p) sa) ps)).

Lemma sock_eqb_eq : forall a b, sock_eqb a b = true <-> a = b.
Proof.
  intros [f x] [g y]. unfold sock_eqb. cbn [fst snd]. rewrite andb_true_iff, Bool.eqb_true_iff, N.eqb_eq.
  split; [intros [A B]; subst; reflexivity | intros E; inversion E; auto].
Qed.

Lemma in_voters_for : forall sa ps n, In n (voters_for sa ps) <-> exists p, In p ps /\ p_sock p = sa /\ p_node p = n.
Proof.
  intros sa ps n. unfold voters_for. rewrite nodup_In, in_map_iff. split.
  - intros [p [E H]]. apply filter_In in H. destruct H as [H1 H2]. apply sock_eqb_eq in H2. exists p. auto.
  - intros [p [H1 [H2 H3]]]. exists p. split; [assumption|]. apply filter_In. split; [assumption | apply sock_eqb_eq; assumption].
Qed.

Definition origin (hist : list pong) (fam : bool) (v : vote) : Prop :=
  exists p, In p hist /\ p_node p = vnode v /\ p_sock p = (fam, vaddr v).

Definition svc_inv (mn : N) (hist : list pong) (s : service) : Prop :=
  exists iv, ip_votes s = Some iv /\ minimum iv = mn /\ wf iv /\
             forall fam v, In v (tbl fam iv) -> origin hist fam v.

Lemma origin_mono : forall hist p fam v, origin hist fam v -> origin (hist ++ [p]) fam v.
Proof. intros hist p fam v [q [A B]]. exists q. split; [apply in_or_app; left; assumption | assumption]. Qed.

Lemma tbl_pruned : forall iv now fam, tbl fam (fst (majority iv now)) = prune now (tbl fam iv).
Proof. intros. rewrite majority_fst. destruct fam; reflexivity. Qed.

Lemma min_pruned : forall iv now, minimum (fst (majority iv now)) = minimum iv.
Proof. reflexivity. Qed.

Lemma min_insert : forall iv n sock now, minimum (insert iv n sock now) = minimum iv.
Proof. intros. unfold insert. destruct (fst sock); reflexivity. Qed.

Lemma svc_inv_step : forall mn hist s p nq ni,
  svc_inv mn hist s -> svc_inv mn (hist ++ [p]) (handle_pong s p nq ni).
Proof.
  intros mn hist s p nq ni (iv & IV & MN & WF & OR).
  destruct (handle_pong_cases s p nq ni) as (_ & _ & H). rewrite IV in H.
  assert (Base : forall iv1, iv1 = iv \/ iv1 = fst (majority iv nq) ->
            minimum iv1 = mn /\ wf iv1 /\ forall fam v, In v (tbl fam iv1) -> origin (hist ++ [p]) fam v).
  { intros iv1 [E|E]; subst iv1.
    - repeat split; try assumption; try apply WF. intros. apply origin_mono. apply OR. assumption.
    - split; [rewrite min_pruned; assumption|]. split; [apply wf_pruned; assumption|].
      intros fam v Hin. rewrite tbl_pruned in Hin. apply filter_In in Hin. apply origin_mono. apply OR. apply Hin. }
  destruct H as [H|(iv1 & RM & [H|H])].
  - exists iv. destruct (Base iv (or_introl eq_refl)) as (A & B & C). auto.
  - exists iv1. destruct (Base iv1 RM) as (A & B & C). auto.
  - destruct (Base iv1 RM) as (A & B & C).
    exists (fst (majority (insert iv1 (p_node p) (p_sock p) ni) nq)). split; [assumption|].
    split; [rewrite min_pruned, min_insert; assumption|].
    split; [apply wf_pruned, wf_insert; assumption|].
    intros fam v Hin. rewrite tbl_pruned in Hin. apply filter_In in Hin. destruct Hin as [Hin _].
    rewrite tbl_insert in Hin. destruct (Bool.eqb fam (fst (p_sock p))) eqn:E.
    + apply in_put in Hin. destruct Hin as [Hin|[Hin _]]; [|apply C; assumption].
      subst v. exists p. split; [apply in_or_app; right; left; reflexivity|]. cbn [new_vote vnode vaddr].
      split; [reflexivity|]. apply Bool.eqb_prop in E. subst fam. destruct (p_sock p); reflexivity.
    + apply C. assumption.
Qed.

Definition run_from (s : service) (ps : list (pong * N * N)) : service := run_pongs s ps.

Lemma run_pongs_snoc : forall s ps x,
  run_pongs s (ps ++ [x]) = handle_pong (run_pongs s ps) (pong_of x) (snd (fst x)) (snd x).
Proof. intros s ps [[p q] i]. unfold run_pongs. rewrite fold_left_app. reflexivity. Qed.

Lemma svc_inv_run : forall mn s ps, svc_inv mn [] s -> svc_inv mn (map pong_of ps) (run_pongs s ps).
Proof.
  intros mn s ps I. induction ps as [|x ps IH] using rev_ind; [exact I|].
  rewrite run_pongs_snoc, map_app. cbn [map]. apply svc_inv_step. assumption.
Qed.

Lemma cnt_le_voters : forall now a t V, NoDup (map vnode t) ->
  (forall v, In v t -> vaddr v = a -> In (vnode v) V) -> cnt now a t <= N.of_nat (length V).
Proof.
  intros now a t V ND H. unfold cnt.
  set (f := filter (fun v => fresh now v && N.eqb (vaddr v) a) t).
  assert (L : (length (map vnode f) <= length V)%nat).
  { apply NoDup_incl_length; [apply NoDup_map_filter; assumption|].
    intros n Hn. apply in_map_iff in Hn. destruct Hn as [v [E Hv]]. subst n. apply filter_In in Hv. destruct Hv as [Hv C].
    apply andb_true_iff in C. destruct C as [_ C]. apply N.eqb_eq in C. apply H; assumption. }
  rewrite map_length in L. lia.
Qed.

Definition initial_service (mn dur : N) (dual : bool) (e : local_enr) : service :=
  {| ip_votes := Some {| v4 := []; v6 := []; minimum := mn; duration := dur |};
     dual_stack := dual; enr := e; events := [] |}.

(* fewer_than_min_cannot_move *)
Lemma fewer_than_min_cannot_move : forall mn dur dual e0 (ps : list (pong * N * N)) fam a,
  N.of_nat (length (voters_for (fam, a) (map pong_of ps))) < mn ->
  forall pre x post, ps = pre ++ x :: post ->
  let s1 := run_pongs (initial_service mn dur dual e0) pre in
  let s2 := handle_pong s1 (pong_of x) (snd (fst x)) (snd x) in
  udp fam (enr s2) = Some a -> udp fam (enr s1) = Some a.
Proof.
  intros mn dur dual e0 ps fam a Hlt pre x post Hps s1 s2 H2.
  destruct (option_eq_dec_N (udp fam (enr s2)) (udp fam (enr s1))) as [E|NE]; [congruence|]. exfalso.
  destruct (handle_pong_change s1 (pong_of x) (snd (fst x)) (snd x) fam NE)
    as (iv & iv1 & a' & IV & CO & F & RM & W & U & _).
  fold s2 in U. assert (a' = a) by congruence. subst a'.
  assert (I : svc_inv mn (map pong_of pre) s1).
  { apply svc_inv_run. exists {| v4 := []; v6 := []; minimum := mn; duration := dur |}.
    repeat split; try constructor. intros f v Hin. destruct f; cbn in Hin; contradiction. }
  destruct I as (iv' & IV' & MN & WF & OR). rewrite IV in IV'. inversion IV'; subst iv'. clear IV'.
  assert (Hmn : 1 <= mn) by lia.
  rewrite MN in W. apply (winner_spec _ _ _ _ Hmn) in W. destruct W as [W _].
  set (p := pong_of x) in *. set (t := put (new_vote iv (p_node p) (p_sock p) (snd x)) (tbl fam iv1)) in *.
  assert (B1 : wf iv1 /\ forall v, In v (tbl fam iv1) -> origin (map pong_of pre) fam v).
  { destruct RM as [R|R]; subst iv1.
    - split; [assumption | intros; apply OR; assumption].
    - split; [apply wf_pruned; assumption|]. intros v Hin. rewrite tbl_pruned in Hin. apply filter_In in Hin. apply OR. apply Hin. }
  destruct B1 as [WF1 OR1].
  assert (ND : NoDup (map vnode t)).
  { apply put_nodup. destruct WF1. destruct fam; assumption. }
  assert (Inc : forall v, In v t -> vaddr v = a -> In (vnode v) (voters_for (fam, a) (map pong_of (pre ++ [x])))).
  { intros v Hin Ha. apply in_voters_for. rewrite map_app. apply in_put in Hin. destruct Hin as [Hin|[Hin _]].
    - exists p. split; [apply in_or_app; right; left; reflexivity|]. subst v. cbn [new_vote vaddr vnode] in *.
      split; [|reflexivity]. rewrite <- F, <- Ha. destruct (p_sock p); reflexivity.
    - destruct (OR1 v Hin) as [q [Q1 [Q2 Q3]]]. exists q. split; [apply in_or_app; left; assumption|].
      split; [rewrite Q3, Ha; reflexivity | assumption]. }
  pose proof (cnt_le_voters (snd (fst x)) a t _ ND Inc) as Le.
  assert (Mono : (length (voters_for (fam, a) (map pong_of (pre ++ [x]))) <= length (voters_for (fam, a) (map pong_of ps)))%nat).
  { apply NoDup_incl_length; [apply NoDup_nodup|]. intros n Hn. apply in_voters_for in Hn. apply in_voters_for.
    destruct Hn as [q [Q1 Q2]]. exists q. split; [|assumption]. subst ps. rewrite map_app in *. cbn [map] in *.
    apply in_app_or in Q1. apply in_or_app. destruct Q1 as [Q1|[Q1|[]]]; [left; assumption | right; left; assumption]. }
  lia.
Qed.

(* in terms of the 30 % margin *)
Lemma winner_leads_by_margin : forall now mn l a b, 1 <= mn -> cnt now a l < 2 ^ 49 ->
  majority_of now mn l = Some a -> b <> a ->
  mn <= cnt now a l /\ 10 * cnt now b l + 5 <= 7 * cnt now a l.
Proof.
  intros now mn l a b Hmn Hm W Hb. apply (winner_spec now mn l a Hmn) in W. destruct W as [W1 W2].
  split; [exact W1|]. pose proof (W2 b Hb) as Lt. destruct (threshold_bounds _ Hm) as [B _]. lia.
Qed.

(* and a sufficient condition in the same terms *)
Lemma clear_lead_wins : forall now mn l a, 1 <= mn -> cnt now a l < 2 ^ 49 ->
  mn <= cnt now a l -> (forall b, b <> a -> 10 * cnt now b l + 5 < 7 * cnt now a l) ->
  majority_of now mn l = Some a.
Proof.
  intros now mn l a Hmn Hm H1 H2. apply (winner_spec now mn l a Hmn). split; [exact H1|].
  intros b Hb. specialize (H2 b Hb). destruct (threshold_bounds _ Hm) as [_ B]. lia.
Qed.
