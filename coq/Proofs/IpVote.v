(* Proofs about Model/IpVote.v (property C17). *)
From Coq Require Import List NArith Bool Lia Arith Permutation.
From Discv5V Require Import Generated.Params Model.IpVote.
Import ListNotations.
Local Open Scope N_scope.

(* ================================================================ A. the f64 threshold *)

(* [rne] is within half a unit of the quotient *)
Lemma rne_bounds : forall num den, den <> 0 ->
  2 * (rne num den * den) <= 2 * num + den /\ 2 * num <= 2 * (rne num den * den) + den.
Proof.
  intros num den Hd. unfold rne.
  pose proof (N.div_mod num den Hd) as E. pose proof (N.mod_lt num den Hd) as L.
  set (q := num / den) in *. set (r := num mod den) in *.
  destruct (2 * r <? den) eqn:C1; [apply N.ltb_lt in C1; nia|]. apply N.ltb_ge in C1.
  destruct (den <? 2 * r) eqn:C2; [apply N.ltb_lt in C2; nia|]. apply N.ltb_ge in C2.
  destruct (N.even q); nia.
Qed.

(* binary64 rounding has relative error at most 2^-53 *)
Lemma rne53_rel : forall P,
  2 ^ 53 * rne53 P 1 <= 2 ^ 53 * P + P /\ 2 ^ 53 * P <= 2 ^ 53 * rne53 P 1 + P.
Proof.
  intros P. unfold rne53. rewrite N.div_1_r, N.mul_1_l.
  destruct (N.eq_dec P 0) as [Z|NZ].
  { subst P. cbn. lia. }
  set (s := N.size P - 53).
  assert (Hpow : 2 ^ s <> 0) by (apply N.pow_nonzero; lia).
  destruct (rne_bounds P (2 ^ s) Hpow) as [B1 B2].
  set (R := rne P (2 ^ s) * 2 ^ s) in *.
  (* 2^52 * 2^s <= P *)
  assert (Hs : 2 ^ 52 * 2 ^ s <= P \/ s = 0).
  { destruct (N.eq_dec s 0) as [E|E]; [right; assumption|left].
    unfold s in *. rewrite N.size_log2 in * by assumption.
    pose proof (N.log2_spec P ltac:(lia)) as [L _].
    assert (E2 : N.log2 P = 52 + (N.succ (N.log2 P) - 53)) by lia.
    rewrite E2 in L at 1. rewrite N.pow_add_r in L. exact L. }
  destruct Hs as [Hs|Hs].
  - change (2 ^ 53) with (2 * 2 ^ 52). nia.
  - (* no bits are dropped: the rounding is exact *)
    assert (R = P).
    { unfold R. rewrite Hs. change (2 ^ 0) with 1. rewrite N.mul_1_r. unfold rne.
      rewrite N.div_1_r, N.mod_1_r. cbn. reflexivity. }
    lia.
Qed.

Lemma f_keep_value : f_keep = 12610078956637388.
Proof. vm_compute. reflexivity. Qed.

Lemma f_percentage_value : f_percentage = 5404319552844595.
Proof. vm_compute. reflexivity. Qed.

(* the facts about [threshold m] that the arithmetic below uses *)
Lemma threshold_facts : forall m, exists R,
  2 ^ 54 * threshold m <= R + 2 ^ 53 /\ R + 2 ^ 53 < 2 ^ 54 * threshold m + 2 ^ 54 /\
  2 ^ 53 * R <= 2 ^ 53 * (m * 12610078956637388) + m * 12610078956637388 /\
  2 ^ 53 * (m * 12610078956637388) <= 2 ^ 53 * R + m * 12610078956637388.
Proof.
  intros m. unfold threshold. rewrite f_keep_value. exists (rne53 (m * 12610078956637388) 1).
  destruct (rne53_rel (m * 12610078956637388)) as [A B].
  set (R := rne53 (m * 12610078956637388) 1) in *.
  pose proof (N.div_mod (R + 2 ^ 53) (2 ^ 54) ltac:(discriminate)) as E.
  pose proof (N.mod_lt (R + 2 ^ 53) (2 ^ 54) ltac:(discriminate)) as L.
  set (D := (R + 2 ^ 53) / 2 ^ 54) in *. set (M := (R + 2 ^ 53) mod 2 ^ 54) in *.
  split; [|split; [|split; [exact A | exact B]]].
  - rewrite E. lia.
  - rewrite E. lia.
Qed.

(* |threshold m - 0.7 m| <= 1/2 *)
Lemma threshold_bounds : forall m, m < 2 ^ 49 ->
  10 * threshold m <= 7 * m + 5 /\ 7 * m <= 10 * threshold m + 5.
Proof.
  intros m Hm. destruct (threshold_facts m) as (R & H1 & H2 & H3 & H4).
  set (T := threshold m) in *.
  change (2 ^ 54) with 18014398509481984 in *. change (2 ^ 53) with 9007199254740992 in *.
  change (2 ^ 49) with 562949953421312 in *.
  split; lia.
Qed.

(* round-half-up of 0.7 m whenever 0.7 m is not exactly half-way *)
Lemma threshold_half_up : forall m, m < 2 ^ 49 -> m mod 10 <> 5 -> threshold m = (7 * m + 5) / 10.
Proof.
  intros m Hm H5. destruct (threshold_bounds m Hm) as [A B].
  pose proof (N.div_mod m 10 ltac:(discriminate)) as E. pose proof (N.mod_lt m 10 ltac:(discriminate)) as L.
  set (T := threshold m) in *. clearbody T.
  apply N.div_unique with (r := 7 * m + 5 - 10 * T); [|lia].
  (* 7m+5-10T < 10, i.e. 10T > 7m-5: from B, 10T >= 7m-5, and equality is impossible unless m mod 10 = 5 *)
  assert (7 * m <> 10 * T + 5).
  { intros C. apply H5. set (q := m / 10) in *. set (r := m mod 10) in *.
    assert (r = 0 \/ r = 1 \/ r = 2 \/ r = 3 \/ r = 4 \/ r = 5 \/ r = 6 \/ r = 7 \/ r = 8 \/ r = 9) by lia.
    lia. }
  lia.
Qed.

Lemma threshold_le : forall m, threshold m <= m.
Proof.
  intros m. destruct (threshold_facts m) as (R & H1 & H2 & H3 & H4).
  set (T := threshold m) in *.
  change (2 ^ 54) with 18014398509481984 in *. change (2 ^ 53) with 9007199254740992 in *.
  lia.
Qed.

Lemma threshold_pos : forall m, 1 <= m -> 1 <= threshold m.
Proof.
  intros m Hm. destruct (threshold_facts m) as (R & H1 & H2 & H3 & H4).
  set (T := threshold m) in *.
  change (2 ^ 54) with 18014398509481984 in *. change (2 ^ 53) with 9007199254740992 in *.
  lia.
Qed.

(* the formula guessed in the design, round-half-up of 0.7 * max, is not what the code computes *)
Lemma design_formula_refuted : exists m, m < 2 ^ 49 /\ threshold m <> (7 * m + 5) / 10.
Proof. exists 45. split; [reflexivity|]. vm_compute. discriminate. Qed.

(* both roundings occur at exact half-way points *)
Lemma halfway_examples : threshold 5 = 4 /\ threshold 45 = 31 /\ threshold 85 = 59 /\ threshold 15 = 11.
Proof. vm_compute. repeat split; reflexivity. Qed.

(* ================================================================ B. the scan *)

(* the number of unexpired votes for address [a] *)
Definition cnt (now a : N) (l : list vote) : N :=
  N.of_nat (length (filter (fun v => fresh now v && N.eqb (vaddr v) a) l)).

Lemma cnt_nil : forall now a, cnt now a [] = 0.
Proof. reflexivity. Qed.

Lemma cnt_cons : forall now a v l,
  cnt now a (v :: l) = (if fresh now v && N.eqb (vaddr v) a then 1 else 0) + cnt now a l.
Proof.
  intros. unfold cnt. cbn [filter]. destruct (fresh now v && N.eqb (vaddr v) a); cbn [length]; lia.
Qed.

Lemma cnt_app : forall now a l1 l2, cnt now a (l1 ++ l2) = cnt now a l1 + cnt now a l2.
Proof. intros. unfold cnt. rewrite filter_app, app_length. lia. Qed.

Lemma cnt_perm : forall now a l l', Permutation l l' -> cnt now a l = cnt now a l'.
Proof.
  intros now a l l' P. induction P.
  - reflexivity.
  - rewrite !cnt_cons. lia.
  - rewrite !cnt_cons. lia.
  - lia.
Qed.

Lemma get_set_same : forall a n c, get a (set a n c) = n.
Proof.
  intros a n c. induction c as [|[k m] c IH]; cbn [set get].
  - rewrite N.eqb_refl. reflexivity.
  - destruct (N.eqb k a) eqn:E; cbn [get]; rewrite E; [reflexivity | exact IH].
Qed.

Lemma get_set_other : forall a b n c, a <> b -> get b (set a n c) = get b c.
Proof.
  intros a b n c Hab. induction c as [|[k m] c IH]; cbn [set get].
  - destruct (N.eqb a b) eqn:E; [apply N.eqb_eq in E; contradiction | reflexivity].
  - destruct (N.eqb k a) eqn:E; cbn [get].
    + apply N.eqb_eq in E. subst k. destruct (N.eqb a b) eqn:E2; [apply N.eqb_eq in E2; contradiction | reflexivity].
    + destruct (N.eqb k b); [reflexivity | exact IH].
Qed.

(* what the loop state means after the votes [l] have been visited *)
Record scan_inv (now : N) (l : list vote) (s : scan) : Prop := {
  si_counter : forall a, get a (counter s) = cnt now a l;
  si_max : forall a, cnt now a l <= max_count s;
  si_vote : match max_vote s with
            | None => max_count s = 0 /\ second_max_count s = 0
            | Some a => cnt now a l = max_count s /\ 1 <= max_count s
            end;
  si_second : forall b, is_vote (max_vote s) b = false -> cnt now b l <= second_max_count s;
  si_second_attained : second_max_count s = 0 \/
                       exists b, is_vote (max_vote s) b = false /\ cnt now b l = second_max_count s
}.

Lemma scan_inv_init : forall now, scan_inv now [] init_scan.
Proof.
  intros now. constructor; cbn; intros; try rewrite cnt_nil; try lia; auto.
Qed.

Lemma run_scan_snoc : forall now l v, run_scan now (l ++ [v]) = scan_step now (run_scan now l) v.
Proof. intros. unfold run_scan. rewrite fold_left_app. reflexivity. Qed.

Lemma cnt_snoc : forall now a l v,
  cnt now a (l ++ [v]) = cnt now a l + (if fresh now v && N.eqb (vaddr v) a then 1 else 0).
Proof. intros. rewrite cnt_app, cnt_cons, cnt_nil. lia. Qed.

Lemma scan_inv_step : forall now l s v, scan_inv now l s -> scan_inv now (l ++ [v]) (scan_step now s v).
Proof.
  intros now l s v [IC IM IV IS IA]. unfold scan_step.
  destruct (fresh now v) eqn:F; cbn [negb].
  2:{ (* a stale vote changes nothing *)
    constructor; intros; rewrite ?cnt_snoc, ?F; cbn [andb]; rewrite ?N.add_0_r; auto.
    - destruct (max_vote s); rewrite ?cnt_snoc, ?F; cbn [andb]; rewrite ?N.add_0_r; assumption.
    - destruct IA as [IA|[b [B1 B2]]]; [left; assumption | right; exists b; split; [assumption|]].
      rewrite cnt_snoc, F. cbn [andb]. rewrite N.add_0_r. assumption. }
  set (a := vaddr v).
  assert (Hc : forall x, cnt now x (l ++ [v]) = cnt now x l + (if N.eqb a x then 1 else 0)).
  { intros x. rewrite cnt_snoc, F. cbn [andb]. reflexivity. }
  assert (Hca : cnt now a (l ++ [v]) = cnt now a l + 1) by (rewrite Hc, N.eqb_refl; reflexivity).
  assert (Hco : forall x, x <> a -> cnt now x (l ++ [v]) = cnt now x l).
  { intros x Hx. rewrite Hc. destruct (N.eqb a x) eqn:E; [apply N.eqb_eq in E; congruence | lia]. }
  rewrite IC.
  destruct (max_count s <? cnt now a l + 1) eqn:C1.
  - (* a new maximum *)
    apply N.ltb_lt in C1.
    constructor; cbn [counter max_count second_max_count max_vote is_vote].
    + intros x. destruct (N.eq_dec x a) as [E|E].
      * subst x. rewrite get_set_same. lia.
      * rewrite get_set_other by congruence. rewrite Hco by assumption. apply IC.
    + intros x. destruct (N.eq_dec x a) as [E|E]; [subst x; lia|]. rewrite Hco by assumption.
      specialize (IM x). lia.
    + split; [assumption | lia].
    + intros b Hb. assert (b <> a) by (intros E; subst b; rewrite N.eqb_refl in Hb; discriminate).
      rewrite Hco by assumption.
      destruct (max_vote s) as [mv|] eqn:MV; cbn [is_some is_vote andb].
      * destruct (N.eqb mv a) eqn:E; cbn [negb].
        -- apply N.eqb_eq in E. subst mv. apply IS. cbn [is_vote].
           destruct (N.eqb a b) eqn:E2; [apply N.eqb_eq in E2; congruence | reflexivity].
        -- apply IM.
      * destruct IV as [Z _]. specialize (IM b). lia.
    + destruct (max_vote s) as [mv|] eqn:MV; cbn [is_some is_vote andb].
      * destruct (N.eqb mv a) eqn:E; cbn [negb].
        -- apply N.eqb_eq in E. subst mv.
           destruct IA as [IA|[b [B1 B2]]]; [left; assumption | right; exists b].
           cbn [is_vote] in B1. split; [assumption|]. rewrite Hco; [assumption|].
           intros E2. subst b. rewrite N.eqb_refl in B1. discriminate.
        -- right. exists mv. destruct IV as [V1 V2]. split.
           ++ destruct (N.eqb a mv) eqn:E2; [apply N.eqb_eq in E2; subst; rewrite N.eqb_refl in E; discriminate | reflexivity].
           ++ rewrite Hco; [assumption|]. intros E2. subst mv. rewrite N.eqb_refl in E. discriminate.
      * left. destruct IV as [_ Z]. assumption.
  - apply N.ltb_ge in C1.
    (* the maximum stays; then [a] is not the leader (its count would exceed the maximum) *)
    assert (NotLeader : is_vote (max_vote s) a = false).
    { destruct (max_vote s) as [mv|] eqn:MV; cbn [is_vote]; [|reflexivity].
      destruct (N.eqb mv a) eqn:E; [|reflexivity]. apply N.eqb_eq in E. subst mv. destruct IV as [V1 V2]. lia. }
    rewrite NotLeader. cbn [negb]. rewrite andb_true_r.
    destruct (second_max_count s <? cnt now a l + 1) eqn:C2.
    + apply N.ltb_lt in C2.
      constructor; cbn [counter max_count second_max_count max_vote].
      * intros x. destruct (N.eq_dec x a) as [E|E].
        -- subst x. rewrite get_set_same. lia.
        -- rewrite get_set_other by congruence. rewrite Hco by assumption. apply IC.
      * intros x. destruct (N.eq_dec x a) as [E|E]; [subst x; lia|]. rewrite Hco by assumption. apply IM.
      * destruct (max_vote s) as [mv|] eqn:MV.
        -- assert (mv <> a) by (intros E; subst mv; cbn in NotLeader; rewrite N.eqb_refl in NotLeader; discriminate).
           rewrite Hco by assumption. assumption.
        -- destruct IV as [Z _]. lia.
      * intros b Hb. destruct (N.eq_dec b a) as [E|E]; [subst b; lia|]. rewrite Hco by assumption.
        specialize (IS b Hb). lia.
      * right. exists a. split; [assumption | lia].
    + apply N.ltb_ge in C2.
      constructor; cbn [counter max_count second_max_count max_vote].
      * intros x. destruct (N.eq_dec x a) as [E|E].
        -- subst x. rewrite get_set_same. lia.
        -- rewrite get_set_other by congruence. rewrite Hco by assumption. apply IC.
      * intros x. destruct (N.eq_dec x a) as [E|E]; [subst x; lia|]. rewrite Hco by assumption. apply IM.
      * destruct (max_vote s) as [mv|] eqn:MV.
        -- assert (mv <> a) by (intros E; subst mv; cbn in NotLeader; rewrite N.eqb_refl in NotLeader; discriminate).
           rewrite Hco by assumption. assumption.
        -- destruct IV as [Z _]. lia.
      * intros b Hb. destruct (N.eq_dec b a) as [E|E]; [subst b; lia|]. rewrite Hco by assumption. apply IS. assumption.
      * destruct IA as [IA|[b [B1 B2]]]; [left; assumption | right; exists b; split; [assumption|]].
        destruct (N.eq_dec b a) as [E|E]; [subst b; lia|]. rewrite Hco by assumption. assumption.
Qed.

Lemma scan_inv_run : forall now l, scan_inv now l (run_scan now l).
Proof.
  intros now l. induction l as [|v l IH] using rev_ind.
  - apply scan_inv_init.
  - rewrite run_scan_snoc. apply scan_inv_step. assumption.
Qed.

Lemma scan_inv_perm : forall now l l' s, Permutation l l' -> scan_inv now l s -> scan_inv now l' s.
Proof.
  intros now l l' s P [IC IM IV IS IA].
  assert (E : forall a, cnt now a l = cnt now a l') by (intros; apply cnt_perm; assumption).
  constructor; intros; rewrite <- ?E; auto.
  - destruct (max_vote s); rewrite <- ?E; assumption.
  - destruct IA as [IA|[b [B1 B2]]]; [left; assumption | right; exists b; rewrite <- E; split; assumption].
Qed.

(* two loop states that describe the same votes agree on everything the verdict looks at *)
Lemma scan_inv_max_le : forall now l s s', scan_inv now l s -> scan_inv now l s' -> max_count s <= max_count s'.
Proof.
  intros now l s s' I I'. pose proof (si_vote _ _ _ I) as V. destruct (max_vote s) as [a|].
  - destruct V as [V _]. rewrite <- V. apply (si_max _ _ _ I').
  - destruct V as [V _]. lia.
Qed.

Lemma is_vote_true : forall o a, is_vote o a = true -> o = Some a.
Proof. intros [b|] a H; cbn in H; [apply N.eqb_eq in H; subst; reflexivity | discriminate]. Qed.

Lemma scan_inv_second_le : forall now l s s', scan_inv now l s -> scan_inv now l s' ->
  second_max_count s <= second_max_count s'.
Proof.
  intros now l s s' I I'.
  assert (M : max_count s = max_count s') by (apply N.le_antisymm; eapply scan_inv_max_le; eassumption).
  destruct (si_second_attained _ _ _ I) as [Z|[b [B1 B2]]]; [lia|].
  destruct (is_vote (max_vote s') b) eqn:L'.
  - (* b leads in s': its count is the maximum, so s has another leader with the same count *)
    apply is_vote_true in L'. pose proof (si_vote _ _ _ I') as V'. rewrite L' in V'. destruct V' as [V1 V2].
    pose proof (si_vote _ _ _ I) as V. destruct (max_vote s) as [a|] eqn:MV.
    + destruct V as [W1 W2]. assert (a <> b) by (intros E; subst a; cbn in B1; rewrite N.eqb_refl in B1; discriminate).
      assert (NL : is_vote (max_vote s') a = false).
      { rewrite L'. cbn. destruct (N.eqb b a) eqn:E; [apply N.eqb_eq in E; congruence | reflexivity]. }
      pose proof (si_second _ _ _ I' a NL). pose proof (si_max _ _ _ I b). lia.
    + destruct V as [W1 W2]. lia.
  - pose proof (si_second _ _ _ I' b L'). lia.
Qed.

Lemma scan_inv_vote_eq : forall now l s s', scan_inv now l s -> scan_inv now l s' ->
  second_max_count s < max_count s -> max_vote s = max_vote s'.
Proof.
  intros now l s s' I I' Lt.
  assert (M : max_count s = max_count s') by (apply N.le_antisymm; eapply scan_inv_max_le; eassumption).
  pose proof (si_vote _ _ _ I) as V. pose proof (si_vote _ _ _ I') as V'.
  destruct (max_vote s) as [a|] eqn:MV; destruct (max_vote s') as [a'|] eqn:MV'.
  - destruct (N.eq_dec a a') as [E|E]; [subst; reflexivity|]. exfalso.
    assert (NL : is_vote (max_vote s) a' = false).
    { rewrite MV. cbn. destruct (N.eqb a a') eqn:E2; [apply N.eqb_eq in E2; congruence | reflexivity]. }
    pose proof (si_second _ _ _ I a' NL). destruct V', V. lia.
  - destruct V, V'. lia.
  - destruct V, V'. lia.
  - reflexivity.
Qed.

Definition majority_of (now mn : N) (l : list vote) : option N := verdict mn (run_scan now l).

Lemma verdict_eq : forall now l s s' mn, scan_inv now l s -> scan_inv now l s' -> verdict mn s = verdict mn s'.
Proof.
  intros now l s s' mn I I'.
  assert (M : max_count s = max_count s') by (apply N.le_antisymm; eapply scan_inv_max_le; eassumption).
  assert (S : second_max_count s = second_max_count s') by (apply N.le_antisymm; eapply scan_inv_second_le; eassumption).
  unfold verdict. rewrite <- M, <- S. destruct (mn <=? max_count s); [|reflexivity].
  destruct (threshold (max_count s) <=? second_max_count s) eqn:C; [reflexivity|].
  apply N.leb_gt in C. pose proof (threshold_le (max_count s)).
  eapply scan_inv_vote_eq; try eassumption. lia.
Qed.

(* scan_correct: the maximum is the largest count, the second maximum is the largest count among
   the addresses other than the leader, and neither they nor the verdict depend on the order in
   which the hash map yields the votes *)
Lemma scan_correct : forall now mn l l', Permutation l l' ->
  scan_inv now l (run_scan now l) /\
  max_count (run_scan now l) = max_count (run_scan now l') /\
  second_max_count (run_scan now l) = second_max_count (run_scan now l') /\
  majority_of now mn l = majority_of now mn l'.
Proof.
  intros now mn l l' P.
  pose proof (scan_inv_run now l) as I.
  pose proof (scan_inv_perm now l' l _ (Permutation_sym P) (scan_inv_run now l')) as I'.
  split; [assumption|]. split; [|split].
  - apply N.le_antisymm; eapply scan_inv_max_le; eassumption.
  - apply N.le_antisymm; eapply scan_inv_second_le; eassumption.
  - unfold majority_of. eapply verdict_eq; eassumption.
Qed.

(* winner_spec *)
Lemma winner_spec : forall now mn l a, 1 <= mn ->
  (majority_of now mn l = Some a <->
   mn <= cnt now a l /\ forall b, b <> a -> cnt now b l < threshold (cnt now a l)).
Proof.
  intros now mn l a Hmn. unfold majority_of. pose proof (scan_inv_run now l) as I.
  set (s := run_scan now l) in *. unfold verdict. split.
  - destruct (mn <=? max_count s) eqn:C1; [|discriminate]. apply N.leb_le in C1.
    destruct (threshold (max_count s) <=? second_max_count s) eqn:C2; [discriminate|]. apply N.leb_gt in C2.
    intros MV. pose proof (si_vote _ _ _ I) as V. rewrite MV in V. destruct V as [V1 V2].
    rewrite V1. split; [assumption|]. intros b Hb.
    assert (NL : is_vote (max_vote s) b = false).
    { rewrite MV. cbn. destruct (N.eqb a b) eqn:E; [apply N.eqb_eq in E; congruence | reflexivity]. }
    pose proof (si_second _ _ _ I b NL). lia.
  - intros [H1 H2]. pose proof (si_max _ _ _ I a) as Ma.
    assert (C1 : mn <=? max_count s = true) by (apply N.leb_le; lia). rewrite C1.
    pose proof (si_vote _ _ _ I) as V. destruct (max_vote s) as [a'|] eqn:MV.
    + destruct V as [V1 V2].
      assert (a' = a).
      { destruct (N.eq_dec a' a) as [E|E]; [assumption|]. exfalso.
        pose proof (H2 a' E). pose proof (threshold_le (cnt now a l)). lia. }
      subst a'.
      assert (C2 : threshold (max_count s) <=? second_max_count s = false).
      { apply N.leb_gt. rewrite <- V1.
        destruct (si_second_attained _ _ _ I) as [Z|[b [B1 B2]]].
        - rewrite Z. pose proof (threshold_pos (cnt now a l)). lia.
        - rewrite <- B2. apply H2. intros E. subst b. rewrite MV in B1. cbn in B1. rewrite N.eqb_refl in B1. discriminate. }
      rewrite C2. reflexivity.
    + destruct V as [V1 V2]. lia.
Qed.

Lemma winner_unique : forall now mn l a a', 1 <= mn ->
  majority_of now mn l = Some a -> majority_of now mn l = Some a' -> a = a'.
Proof. intros. congruence. Qed.
