(* C19: message nonces are counter || random; the counter of a session object only grows and
   survives re-keying. *)
From Coq Require Import List Arith NArith Bool Lia.
From Discv5V Require Import Model.Handler Proofs.HandlerB_Base Proofs.HandlerB_Frame Proofs.HandlerB_Session
  Proofs.HandlerB_Auth Proofs.HandlerB_Step.
Import ListNotations.
Local Open Scope N_scope.

(* Session::encrypt_message: the packet's nonce is (counter + 1) || r for the drawn r, it is encrypted
   under the current encryption key with the header as authenticated data, and the session keeps the
   incremented counter (keys untouched) *)
Lemma encrypt_nonce_counter c s na se m :
  let res := encrypt_message c s na se m in
  let se' := snd (fst res) in
  exists r aad,
    snd res = PMsg (cfg_local c) (s_counter se + 1, r) aad (CEnc (s_enc se) (s_counter se + 1, r) m aad) /\
    s_counter se' = s_counter se + 1 /\
    s_enc se' = s_enc se /\ s_dec se' = s_dec se /\ s_old se' = s_old se /\ s_await se' = s_await se /\
    hs (fst (fst res)) = hs s /\ outs (fst (fst res)) = outs s.
Proof.
  cbn zeta. rewrite encrypt_message_eq. cbn [fst snd]. exists (pk_r (dr s)), (pk_aad (dr s)).
  cbn. auto 10.
Qed.

Lemma encrypt_nonce_fst c s na se m :
  fst (pkt_nonce (snd (encrypt_message c s na se m))) = s_counter se + 1.
Proof. rewrite encrypt_message_eq. reflexivity. Qed.

(* Two encryptions under one session object - the second one with the session returned by the first
   or any later descendant of it (counter not smaller) - carry different nonces, whatever the random
   parts drawn.  (Model counters are unbounded naturals; the Rust counter is a u32: see the _u32
   version for the statement with the four counter bytes.) *)
Theorem counter_nonces_distinct c s1 s2 na1 na2 se1 se2 m1 m2 :
  s_counter (snd (fst (encrypt_message c s1 na1 se1 m1))) <= s_counter se2 ->
  pkt_nonce (snd (encrypt_message c s1 na1 se1 m1)) <> pkt_nonce (snd (encrypt_message c s2 na2 se2 m2)).
Proof.
  intros Hle Heq. apply (f_equal fst) in Heq. rewrite !encrypt_nonce_fst in Heq.
  rewrite encrypt_message_eq in Hle. cbn in Hle. lia.
Qed.

Corollary successive_nonces_distinct c s na se m m' :
  let '(s1, se1, p1) := encrypt_message c s na se m in
  let '(_, _, p2) := encrypt_message c s1 na se1 m' in
  pkt_nonce p1 <> pkt_nonce p2.
Proof.
  pose proof (counter_nonces_distinct c s (fst (fst (encrypt_message c s na se m))) na na se
                (snd (fst (encrypt_message c s na se m))) m m' (N.le_refl _)) as H.
  destruct (encrypt_message c s na se m) as [[s1 se1] p1]. cbn [fst snd] in H.
  destruct (encrypt_message c s1 na se1 m') as [[s2 se2] p2]. exact H.
Qed.

(* with the counter as the four bytes it occupies on the wire: distinct while it stays in the u32 range
   (Rust: `self.counter += 1` on a u32 panics on overflow in debug builds and wraps in release
   builds; 2^32 messages under one session are out of reach of the 1-day session lifetime) *)
Corollary counter_nonces_distinct_u32 (c1 c2 : N) :
  c1 + 1 <= c2 -> c2 + 1 < 2 ^ 32 -> (c1 + 1) mod 2 ^ 32 <> (c2 + 1) mod 2 ^ 32.
Proof. intros H1 H2. rewrite !N.mod_small by lia. lia. Qed.

(* ------------------------------------------------------------------------------------------ *)
(* re-keying keeps the counter *)

(* Session::update inside new_session: the stored session takes the new keys, remembers the previous
   ones and keeps its counter *)
Lemma rekey_keeps_counter c s na se skip now h1 cs :
  sess_get (hs s) na = (h1, Some cs) ->
  exists s1,
    hs s1 = sess_put h1 na {| s_enc := s_enc se; s_dec := s_dec se; s_old := Some (s_enc cs, s_dec cs);
                              s_await := s_await se; s_counter := s_counter cs |} /\
    Quiet s1 (new_session c s na se skip now).
Proof.
  intros Hg. unfold new_session. rewrite Hg.
  exists (with_hs s (sess_put h1 na {| s_enc := s_enc se; s_dec := s_dec se; s_old := Some (s_enc cs, s_dec cs);
                                        s_await := s_await se; s_counter := s_counter cs |})).
  split; [reflexivity |].
  destruct (fix_d2a c).
  - eapply Quiet_trans; [apply Quiet_replay | apply Quiet_send_pending_requests].
  - apply Quiet_replay.
Qed.

Lemma alist_In_uniq {A} (k : naddr) (v : A) l : NoDup (map fst l) -> In (k, v) l -> alist_get k l = Some v.
Proof.
  induction l as [| [k' v'] r IH]; cbn [alist_get map fst]; [intros _ [] |].
  intros H [Hin | Hin].
  - inversion Hin; subst. rewrite naddr_eqb_refl. reflexivity.
  - inversion H as [| x y H1 H2]; subst. destruct (naddr_eqb k k') eqn:E.
    + apply naddr_eqb_eq in E. subst. exfalso. apply H1. apply in_map_iff. exists (k', v). auto.
    + apply IH; assumption.
Qed.

(* ... so after new_session the session under [na] has a counter at least as large as before *)
Corollary new_session_counter c s na se skip now cs se' :
  SessUniq (hs s) ->
  alist_get na (sessions (hs s)) = Some cs ->
  In (na, se') (sessions (hs (new_session c s na se skip now))) ->
  s_counter cs <= s_counter se'.
Proof.
  intros HU Hg Hin. destruct (NS_new_session c s na se skip now) as [_ [HN _]].
  destruct (HN _ _ Hin) as [[se0 [H1 [H2 _]]] | [_ [H1 _]]].
  - rewrite (alist_In_uniq _ _ _ HU H1) in Hg. inversion Hg; subst. exact H2.
  - exfalso. apply alist_get_In in Hg. exact (H1 _ Hg).
Qed.

(* ------------------------------------------------------------------------------------------ *)
(* counter_monotone *)

(* In one step: every session of the new state descends from the session stored under the same node
   address before (counter not smaller), unless there was none. *)
Theorem counter_monotone_step c h e now d na se' :
  In (na, se') (sessions (fst (step c h e now d))) ->
  (exists se, In (na, se) (sessions h) /\ s_counter se <= s_counter se') \/
  (forall se, ~ In (na, se) (sessions h)).
Proof.
  intros Hin. destruct (step_sessions c h e now d) as [D | [na0 [se0 [HN _]]]].
  - left. destruct (D _ _ Hin) as [se [H1 [_ H2]]]. eauto.
  - destruct (HN _ _ Hin) as [[se [H1 [H2 _]]] | [E [H1 _]]].
    + left. eauto.
    + right. subst. exact H1.
Qed.

(* the same with lookups, in states with at most one session per address (every reachable state,
   run_SessUniq) *)
Theorem counter_monotone c h e now d na se se' :
  SessUniq h ->
  alist_get na (sessions h) = Some se ->
  alist_get na (sessions (fst (step c h e now d))) = Some se' ->
  s_counter se <= s_counter se'.
Proof.
  intros HU Hg Hg'. apply alist_get_In in Hg'.
  destruct (counter_monotone_step c h e now d na se' Hg') as [[se0 [H1 H2]] | H1].
  - rewrite (alist_In_uniq _ _ _ HU H1) in Hg. inversion Hg; subst. exact H2.
  - exfalso. apply alist_get_In in Hg. exact (H1 _ Hg).
Qed.

(* along a run, while the entry persists *)
Fixpoint run_states (c : config) (h : hstate) (evs : list (event * N * draws)) : list hstate :=
  match evs with
  | [] => []
  | (e, now, d) :: rest => let h1 := fst (step c h e now d) in h1 :: run_states c h1 rest
  end.

Lemma run_fst_cons c h e now d rest :
  fst (run c h ((e, now, d) :: rest)) = fst (run c (fst (step c h e now d)) rest).
Proof.
  cbn [run]. destruct (step c h e now d) as [h1 o]. cbn [fst]. destruct (run c h1 rest) as [h2 os]. reflexivity.
Qed.

Theorem counter_monotone_run c evs : forall h na se se',
  SessUniq h ->
  (forall hi, In hi (run_states c h evs) -> alist_get na (sessions hi) <> None) ->
  alist_get na (sessions h) = Some se ->
  alist_get na (sessions (fst (run c h evs))) = Some se' ->
  s_counter se <= s_counter se'.
Proof.
  induction evs as [| [[e now] d] rest IH]; intros h na se se' HU Hall Hg Hg'.
  - cbn [run fst] in Hg'. rewrite Hg in Hg'. inversion Hg'; subst. lia.
  - rewrite run_fst_cons in Hg'. cbn [run_states] in Hall.
    destruct (alist_get na (sessions (fst (step c h e now d)))) as [se1 |] eqn:E1.
    + pose proof (counter_monotone c h e now d na se se1 HU Hg E1) as H1.
      pose proof (IH (fst (step c h e now d)) na se1 se' (step_SessUniq c h e now d HU)
                    (fun hi Hi => Hall hi (or_intror Hi)) E1 Hg') as H2.
      lia.
    + exfalso. apply (Hall _ (or_introl eq_refl)). exact E1.
Qed.

(* ------------------------------------------------------------------------------------------ *)
(* id-nonces of WHOAREYOU packets *)

(* send_challenge is the only function of the handler that builds a WHOAREYOU packet; its id-nonce and
   challenge data are the oracle's draw at that point *)
Lemma send_challenge_idnonce c s na n known now :
  let s' := send_challenge c s na n known now in
  let x := fst (pop_pk (dr s)) in
  s' = s \/
  outs s' = outs s ++ [OWire na (PWho n (fst (fst (fst x))) (match known with Some e => e_seq e | None => 0 end)
                                     (snd (fst x)))].
Proof.
  cbn zeta. unfold send_challenge. destruct (has_challenge (hs s) na); [left; reflexivity |].
  destruct (pop_pk (dr s)) as [[[[idn r] cd] e0] d']. right. reflexivity.
Qed.

(* "The id-nonces of WHOAREYOU packets never repeat" is a statement about the random number generator:
   the id-nonce of each WHOAREYOU is the value rand::random() returned.  What the model can say: two
   challenges built from different draws carry different id-nonces - the freshness of the draws is the
   explicit hypothesis (no model can prove a property of rand). *)
Theorem idnonce_distinct_under_fresh_oracle c s1 s2 na1 na2 n1 n2 k1 k2 now1 now2 dst1 dst2 m1 m2 i1 i2 q1 q2 c1 c2 :
  fst (fst (fst (fst (pop_pk (dr s1))))) <> fst (fst (fst (fst (pop_pk (dr s2))))) ->   (* fresh oracle *)
  In (OWire dst1 (PWho m1 i1 q1 c1)) (outs (send_challenge c s1 na1 n1 k1 now1)) ->
  ~ In (OWire dst1 (PWho m1 i1 q1 c1)) (outs s1) ->
  In (OWire dst2 (PWho m2 i2 q2 c2)) (outs (send_challenge c s2 na2 n2 k2 now2)) ->
  ~ In (OWire dst2 (PWho m2 i2 q2 c2)) (outs s2) ->
  i1 <> i2.
Proof.
  intros Hfresh H1 N1 H2 N2.
  destruct (send_challenge_idnonce c s1 na1 n1 k1 now1) as [E1 | E1]; cbn zeta in E1;
    [rewrite E1 in H1; contradiction |].
  destruct (send_challenge_idnonce c s2 na2 n2 k2 now2) as [E2 | E2]; cbn zeta in E2;
    [rewrite E2 in H2; contradiction |].
  rewrite E1 in H1. rewrite E2 in H2.
  apply in_app_or in H1. apply in_app_or in H2.
  destruct H1 as [H1 | [H1 | []]]; [contradiction |]. destruct H2 as [H2 | [H2 | []]]; [contradiction |].
  inversion H1; inversion H2; subst. exact Hfresh.
Qed.
