(* C19: message nonces are counter || random; the counter of a session object only grows and
   survives re-keying. *)
From Coq Require Import List Arith NArith Bool Lia.
From Discv5V Require Import Model.Handler Proofs.HandlerB_Base Proofs.HandlerB_Frame Proofs.HandlerB_Session
  Proofs.HandlerB_Auth Proofs.HandlerB_Step.
Import ListNotations.
Local Open Scope N_scope.

(* Session::encrypt_message: the packet's nonce is (counter + 1) || r for the drawn r, it is encrypted
   under the current encryption key with the header as authenticated data, and the session keeps the
   incremented counter (keys untouched) *)
Lemma encrypt_nonce_counter c s na se m :
  let res := encrypt_message c s na se m in
  let se' := snd (fst res) in
  exists r aad,
    snd res = PMsg (cfg_local c) (s_counter se + 1, r) aad (CEnc (s_enc se) (s_counter se + 1, r) m aad) /\
    s_counter se' = s_counter se + 1 /\
    s_enc se' = s_enc se /\ s_dec se' = s_dec se /\ s_old se' = s_old se /\ s_await se' = s_await se /\
    hs (fst (fst res)) = hs s /\ outs (fst (fst res)) = outs s.
Proof.
  cbn zeta. rewrite encrypt_message_eq. cbn [fst snd]. exists (pk_r (dr s)), (pk_aad (dr s)).
  cbn. auto 10.
Qed.

Lemma encrypt_nonce_fst c s na se m :
  fst (pkt_nonce (snd (encrypt_message c s na se m))) = s_counter se + 1.
Proof. rewrite encrypt_message_eq. reflexivity. Qed.

(* Two encryptions under one session object - the second one with the session returned by the first
   or any later descendant of it (counter not smaller) - carry different nonces, whatever the random
   parts drawn.  (Model counters are unbounded naturals; the Rust counter is a u32: see the _u32
   version for the statement with the four counter bytes.) *)
Theorem counter_nonces_distinct c s1 s2 na1 na2 se1 se2 m1 m2 :
  s_counter (snd (fst (encrypt_message c s1 na1 se1 m1))) <= s_counter se2 ->
  pkt_nonce (snd (encrypt_message c s1 na1 se1 m1)) <> pkt_nonce (snd (encrypt_message c s2 na2 se2 m2)).
Proof.
  intros Hle Heq. apply (f_equal fst) in Heq. rewrite !encrypt_nonce_fst in Heq.
  rewrite encrypt_message_eq in Hle. cbn in Hle. lia.
Qed.

Corollary successive_nonces_distinct c s na se m m' :
  let '(s1, se1, p1) := encrypt_message c s na se m in
  let '(_, _, p2) := encrypt_message c s1 na se1 m' in
  pkt_nonce p1 <> pkt_nonce p2.
Proof.
  pose proof (counter_nonces_distinct c s (fst (fst (encrypt_message c s na se m))) na na se
                (snd (fst (encrypt_message c s na se m))) m m' (N.le_refl _)) as H.
  destruct (encrypt_message c s na se m) as [[s1 se1] p1]. cbn [fst snd] in H.
  destruct (encrypt_message c s1 na se1 m') as [[s2 se2] p2]. exact H.
Qed.

(* with the counter as the four bytes it occupies on the wire: distinct while it stays in the u32 range
   (Rust: `self.counter += 1` on a u32 panics on overflow in debug builds and wraps in release
   builds; 2^32 messages under one session are out of reach of the 1-day session lifetime) *)
Corollary counter_nonces_distinct_u32 (c1 c2 : N) :
  c1 + 1 <= c2 -> c2 + 1 < 2 ^ 32 -> (c1 + 1) mod 2 ^ 32 <> (c2 + 1) mod 2 ^ 32.
Proof. intros H1 H2. rewrite !N.mod_small by lia. lia. Qed.

(* ------------------------------------------------------------------------------------------ *)
(* re-keying keeps the counter *)

(* Session::update inside new_session (which first purges the expired entries at the front of the
   cache): the stored session - if it has not expired - takes the new keys, remembers the previous ones
   and keeps its counter *)
Lemma rekey_keeps_counter c s na se skip now h1 cs :
  sess_get c (hs (remove_expired_sessions c s)) na = (h1, Some cs) ->
  exists s1,
    hs s1 = sess_put h1 na {| s_enc := s_enc se; s_dec := s_dec se; s_old := Some (s_enc cs, s_dec cs);
                              s_await := s_await se; s_counter := s_counter cs; s_used := s_used cs |} /\
    Quiet s1 (new_session c s na se skip now).
Proof.
  intros Hg. unfold new_session. rewrite Hg.
  exists (with_hs (remove_expired_sessions c s)
            (sess_put h1 na {| s_enc := s_enc se; s_dec := s_dec se; s_old := Some (s_enc cs, s_dec cs);
                               s_await := s_await se; s_counter := s_counter cs; s_used := s_used cs |})).
  split; [reflexivity |].
  destruct (fix_d2a c).
  - eapply Quiet_trans; [apply Quiet_replay | apply Quiet_send_pending_requests].
  - apply Quiet_replay.
Qed.

(* ... so after new_session the session under [na] has a counter at least as large as before, provided
   the stored session has not expired (an expired one is purged and replaced by a new session object
   with the new keys, whose counter starts at 0: see new_session_expired_restarts) *)
Corollary new_session_counter c s na se skip now cs se' :
  SessUniq (hs s) ->
  alist_get na (sessions (hs s)) = Some cs ->
  sess_expired c cs = false ->
  In (na, se') (sessions (hs (new_session c s na se skip now))) ->
  s_counter cs <= s_counter se'.
Proof.
  intros HU Hg Hx Hin.
  pose proof (remove_expired_sessions_keeps c s na cs Hg Hx) as Hg0.
  pose proof (QH_remove_expired_sessions c s) as [_ [_ U0]]. specialize (U0 HU).
  pose proof (sess_get_some c _ na cs Hg0 Hx) as Hsg.
  destruct (rekey_keeps_counter c s na se skip now _ _ Hsg) as [s1 [E1 [[_ [D1 _]] _]]].
  destruct (D1 _ _ Hin) as [x [Hx1 [_ Hx2]]]. rewrite E1 in Hx1.
  cbn [sess_put sessions set_sessions] in Hx1.
  apply alist_set_uniq in Hx1.
  - subst x. cbn [s_counter touch] in Hx2. exact Hx2.
  - apply to_back_NoDup. exact U0.
Qed.

(* the other case: the stored session has expired - it is purged, and the session under [na] afterwards
   is a new object descending from [se] (new keys only; the counter restarts) *)
Lemma new_session_expired_restarts c s na se skip now cs se' :
  SessUniq (hs s) ->
  alist_get na (sessions (hs s)) = Some cs ->
  sess_expired c cs = true ->
  In (na, se') (sessions (hs (new_session c s na se skip now))) ->
  sess_desc se se'.
Proof.
  intros HU Hg Hx Hin. unfold new_session in Hin.
  pose proof (QH_remove_expired_sessions c s) as [_ [D0 U0]]. specialize (U0 HU).
  set (s0 := remove_expired_sessions c s) in *.
  assert (Hnone : snd (sess_get c (hs s0) na) = None).
  { rewrite sess_get_snd. destruct (alist_get na (sessions (hs s0))) as [x |] eqn:E; [| reflexivity].
    apply alist_get_In in E.
    (* the purge keeps entries as they are *)
    assert (x = cs).
    { unfold s0 in E. destruct (remove_expired_sessions_hs c s) as [H | H]; rewrite H in E.
      - rewrite (alist_In_uniq _ _ _ HU E) in Hg. congruence.
      - cbn [sessions set_sessions] in E. apply drop_expired_incl in E.
        rewrite (alist_In_uniq _ _ _ HU E) in Hg. congruence. }
    subst x. rewrite Hx. reflexivity. }
  pose proof (sess_get_gone c (hs s0) na U0 Hnone) as Hgone.
  pose proof (QH_sess_get c (hs s0) na) as [_ [_ U1]]. specialize (U1 U0).
  destruct (sess_get c (hs s0) na) as [h1 cur]. cbn [fst snd] in *. subst cur.
  pose proof (Quiet_send_pending_requests c (with_hs s0 (sess_insert c h1 na se)) na now) as [[_ [D2 _]] _].
  destruct (D2 _ _ Hin) as [x [Hx1 Hx2]]. eapply sess_desc_trans; [| exact Hx2].
  cbn [hs with_hs sess_insert sessions set_sessions] in Hx1.
  assert (Hx1' : In (na, x) (alist_remove na (sessions h1) ++ [(na, touch se (cfg_clock c))])).
  { destruct (Nat.ltb _ _); [apply tl_In |]; exact Hx1. }
  apply in_app_or in Hx1'. destruct Hx1' as [Hx1' | [Hx1' | []]].
  - exfalso. apply In_alist_remove in Hx1'. exact (Hgone _ Hx1').
  - inversion Hx1'; subst x. apply touch_desc.
Qed.

(* ------------------------------------------------------------------------------------------ *)
(* counter_monotone *)

(* [installed_by c s0 e na se]: the event [e], handled in the state [s0] left by the implicit tick,
   installs the session [se] (counter 0, no previous keys, keys derived in this handshake) under [na]:
   exactly the description of step_sessions *)
Definition installed_by (c : config) (s0 : st) (e : event) (na : naddr) (se : session) : Prop :=
  s_counter se = 0 /\ s_old se = None /\
  exists eph cd,
    (s_dec se = mk_key eph (cfg_local c) cd (fst na) (cfg_local c) false /\
     s_enc se = mk_key eph (cfg_local c) cd (fst na) (cfg_local c) true /\
     exists from src n aad sg ok rec ct ch,
       e = EvInbound from (PHs src n aad sg eph ok rec ct) /\ na = (src, from) /\
       chall_get na (challenges (hs s0)) = Some ch /\ cd = ch_cd ch /\
       exists e0, establish c src ch sg eph ok rec = EstOk se e0)
    \/
    (s_enc se = mk_key eph (fst na) cd (cfg_local c) (fst na) false /\
     s_dec se = mk_key eph (fst na) cd (cfg_local c) (fst na) true /\
     exists from n idn seq, e = EvInbound from (PWho n idn seq cd)).

(* In one step: every session of the new state descends from the session stored under the same node
   address before (counter not smaller), or it is a session object that this step's handshake has
   just created (there was none before, or the one before had expired and was purged): it holds
   nothing but the keys just derived. *)
Theorem counter_monotone_step c h e now d na se' :
  In (na, se') (sessions (fst (step c h e now d))) ->
  (exists se, In (na, se) (sessions h) /\ s_counter se <= s_counter se') \/
  (exists se0, installed_by c (tick c h now d) e na se0 /\ sess_desc se0 se').
Proof.
  intros Hin. destruct (step_sessions c h e now d) as [D | [na0 [se0 [HN Hdesc]]]].
  - left. destruct (D _ _ Hin) as [se [H1 [_ H2]]]. eauto.
  - destruct (HN _ _ Hin) as [[se [H1 [H2 _]]] | [E H1]].
    + left. eauto.
    + right. subst. exists se0. split; [exact Hdesc | exact H1].
Qed.

(* the same with lookups, in states with at most one session per address (every reachable state,
   run_SessUniq) *)
Theorem counter_monotone c h e now d na se se' :
  SessUniq h ->
  alist_get na (sessions h) = Some se ->
  alist_get na (sessions (fst (step c h e now d))) = Some se' ->
  s_counter se <= s_counter se' \/
  (exists se0, installed_by c (tick c h now d) e na se0 /\ sess_desc se0 se').
Proof.
  intros HU Hg Hg'. apply alist_get_In in Hg'.
  destruct (counter_monotone_step c h e now d na se' Hg') as [[se0 [H1 H2]] | H1].
  - left. rewrite (alist_In_uniq _ _ _ HU H1) in Hg. inversion Hg; subst. exact H2.
  - right. exact H1.
Qed.

(* along a run, while the entry persists *)
Fixpoint run_states (c : config) (h : hstate) (evs : list (event * N * draws)) : list hstate :=
  match evs with
  | [] => []
  | (e, now, d) :: rest => let h1 := fst (step c h e now d) in h1 :: run_states c h1 rest
  end.

(* some step of the run installs a session under [na] *)
Fixpoint run_installs (c : config) (h : hstate) (evs : list (event * N * draws)) (na : naddr) : Prop :=
  match evs with
  | [] => False
  | (e, now, d) :: rest =>
    (exists se0, installed_by c (tick c h now d) e na se0) \/ run_installs c (fst (step c h e now d)) rest na
  end.

Lemma run_fst_cons c h e now d rest :
  fst (run c h ((e, now, d) :: rest)) = fst (run c (fst (step c h e now d)) rest).
Proof.
  cbn [run]. destruct (step c h e now d) as [h1 o]. cbn [fst]. destruct (run c h1 rest) as [h2 os]. reflexivity.
Qed.

Theorem counter_monotone_run c evs : forall h na se se',
  SessUniq h ->
  (forall hi, In hi (run_states c h evs) -> alist_get na (sessions hi) <> None) ->
  ~ run_installs c h evs na ->
  alist_get na (sessions h) = Some se ->
  alist_get na (sessions (fst (run c h evs))) = Some se' ->
  s_counter se <= s_counter se'.
Proof.
  induction evs as [| [[e now] d] rest IH]; intros h na se se' HU Hall Hni Hg Hg'.
  - cbn [run fst] in Hg'. rewrite Hg in Hg'. inversion Hg'; subst. lia.
  - rewrite run_fst_cons in Hg'. cbn [run_states] in Hall. cbn [run_installs] in Hni.
    destruct (alist_get na (sessions (fst (step c h e now d)))) as [se1 |] eqn:E1.
    + destruct (counter_monotone c h e now d na se se1 HU Hg E1) as [H1 | [se0 [H1 _]]].
      * pose proof (IH (fst (step c h e now d)) na se1 se' (step_SessUniq c h e now d HU)
                      (fun hi Hi => Hall hi (or_intror Hi)) (fun X => Hni (or_intror X)) E1 Hg') as H2.
        lia.
      * exfalso. apply Hni. left. exists se0. exact H1.
    + exfalso. apply (Hall _ (or_introl eq_refl)). exact E1.
Qed.

(* ------------------------------------------------------------------------------------------ *)
(* id-nonces of WHOAREYOU packets *)

(* send_challenge is the only function of the handler that builds a WHOAREYOU packet; its id-nonce and
   challenge data are the oracle's draw at that point *)
Lemma send_challenge_idnonce c s na n known now :
  let s' := send_challenge c s na n known now in
  let x := fst (pop_pk (dr s)) in
  s' = s \/
  outs s' = outs s ++ [OWire na (PWho n (fst (fst (fst x))) (match known with Some e => e_seq e | None => 0 end)
                                     (snd (fst x)))].
Proof.
  cbn zeta. unfold send_challenge. destruct (has_challenge (hs s) na); [left; reflexivity |].
  destruct (pop_pk (dr s)) as [[[[idn r] cd] e0] d']. right. reflexivity.
Qed.

(* "The id-nonces of WHOAREYOU packets never repeat" is a statement about the random number generator:
   the id-nonce of each WHOAREYOU is the value rand::random() returned.  What the model can say: two
   challenges built from different draws carry different id-nonces - the freshness of the draws is the
   explicit hypothesis (no model can prove a property of rand). *)
Theorem idnonce_distinct_under_fresh_oracle c s1 s2 na1 na2 n1 n2 k1 k2 now1 now2 dst1 dst2 m1 m2 i1 i2 q1 q2 c1 c2 :
  fst (fst (fst (fst (pop_pk (dr s1))))) <> fst (fst (fst (fst (pop_pk (dr s2))))) ->   (* fresh oracle *)
  In (OWire dst1 (PWho m1 i1 q1 c1)) (outs (send_challenge c s1 na1 n1 k1 now1)) ->
  ~ In (OWire dst1 (PWho m1 i1 q1 c1)) (outs s1) ->
  In (OWire dst2 (PWho m2 i2 q2 c2)) (outs (send_challenge c s2 na2 n2 k2 now2)) ->
  ~ In (OWire dst2 (PWho m2 i2 q2 c2)) (outs s2) ->
  i1 <> i2.
Proof.
  intros Hfresh H1 N1 H2 N2.
  destruct (send_challenge_idnonce c s1 na1 n1 k1 now1) as [E1 | E1]; cbn zeta in E1;
    [rewrite E1 in H1; contradiction |].
  destruct (send_challenge_idnonce c s2 na2 n2 k2 now2) as [E2 | E2]; cbn zeta in E2;
    [rewrite E2 in H2; contradiction |].
  rewrite E1 in H1. rewrite E2 in H2.
  apply in_app_or in H1. apply in_app_or in H2.
  destruct H1 as [H1 | [H1 | []]]; [contradiction |]. destruct H2 as [H2 | [H2 | []]]; [contradiction |].
  inversion H1; inversion H2; subst. exact Hfresh.
Qed.
